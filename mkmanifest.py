#!/usr/bin/env python3
"""Regenerates MANIFEST.json from checks.json (per-property metadata) and properties.jsonl."""
import json, os
root = os.path.dirname(os.path.abspath(__file__))
props = [json.loads(l) for l in open(os.path.join(root, 'properties.jsonl'))]
import glob
meta = {}
for f in sorted(glob.glob(os.path.join(root, 'checks.d', '*.json'))):
    meta[os.path.basename(f)[:-5]] = json.load(open(f))
checks, na = [], []
for p in props:
    pid = p['id']
    m = meta.get(pid)
    if not m or m.get('not_applicable'):
        na.append({"property_id": pid, "reason": (m or {}).get('not_applicable', 'check not implemented yet in this round')})
        continue
    if not os.path.isdir(os.path.join(root, 'harness', 'props', pid.lower())):
        na.append({"property_id": pid, "reason": 'check not implemented yet in this round'})
        continue
    checks.append({
        "property_id": pid,
        "quick_cmd": f"./check {pid} --tier quick",
        "thorough_cmd": f"./check {pid} --tier thorough",
        "evidence_file": f"/verif/evidence/{pid}.json",
        "replay_cmd_template": f"./check {pid} --replay {{path}}",
        "engine": m['engine'],
        "level_claimed": {"category": m['level'], "text": m['text'], "design_ref": m.get('design_ref', 'DESIGN.md §3 ' + pid)},
        "level_note": m['note'],
        "technique": m['technique'],
    })
man = {
    "version": 1,
    "setup_cmd": "./setup.sh",
    "hooks": {
        "guard": "verif",
        "enable": "go test -tags verif -overlay <generated overlay.json>: export shims under /verif/shims and vsync-instrumented copies of the packages listed in /verif/instrumented-packages.txt are overlaid at build time; nothing is committed to /repo",
        "baseline_off_cmd": "cd /repo && GOFLAGS=-mod=mod GOPROXY=off go test -vet=off -count=1 -timeout 25m ./...",
        "source_commits": [],
        "add_only": True,
    },
    "engines": [
        {"name": "enum", "path": "harness/enum", "kind_free_text": "bounded-exhaustive enumeration of inputs / configurations / deviation-bounded mutations against an independent reference, on the real functions", "serves_properties": [c['property_id'] for c in checks if c['engine'] == 'enum']},
        {"name": "vsched", "path": "harness/vsync + harness/cmd/vinstr", "kind_free_text": "stateless model checking: cooperative scheduler (testing/synctest + AST instrumentation of sync/chan/go) with preemption-bounded DFS over all interleavings and environment choices of the real code", "serves_properties": [c['property_id'] for c in checks if c['engine'] == 'vsched']},
        {"name": "hist", "path": "harness/hist", "kind_free_text": "explicit-state BFS over event histories on fresh real objects, each event run to quiescence in a synctest bubble, canonical state hashing", "serves_properties": [c['property_id'] for c in checks if c['engine'] == 'hist']},
    ],
    "checks": checks,
    "not_applicable": na,
    "notes": "All checks rebuild from /repo's working tree on every invocation (./check). Known findings: /verif/known-findings.txt.",
}
json.dump(man, open(os.path.join(root, 'MANIFEST.json'), 'w'), indent=1)
print(f"{len(checks)} checks, {len(na)} not_applicable")
