#!/bin/bash
# setup.sh [--ensure]: builds the framework from files on disk only.
set -eu
ROOT=$(cd "$(dirname "$0")" && pwd)
. "$ROOT/env.sh"
mkdir -p "$ROOT/.work/bin" "$ROOT/.cache"
ENSURE=0; [ "${1:-}" = "--ensure" ] && ENSURE=1
cd "$ROOT/harness"
if [ $ENSURE = 0 ] || [ ! -x "$ROOT/.work/bin/vinstr" ] || [ "$ROOT/harness/cmd/vinstr/main.go" -nt "$ROOT/.work/bin/vinstr" ]; then
  go build -o "$ROOT/.work/bin/vinstr" ./cmd/vinstr
fi
# private, instrumented copy of the util dependency module
UV=$(cd /repo && go list -m -f '{{.Version}}' github.com/aperturerobotics/util)
if [ ! -f "$ROOT/.work/util/.stamp-$UV" ]; then
  rm -rf "$ROOT/.work/util"
  cp -r "$(go env GOMODCACHE)/github.com/aperturerobotics/util@$UV" "$ROOT/.work/util"
  chmod -R u+w "$ROOT/.work/util"
  ( cd "$ROOT/.work/util" && "$ROOT/.work/bin/vinstr" -inplace broadcast keyed routine ccontainer promise refcount backoff csync conc )
  touch "$ROOT/.work/util/.stamp-$UV"
fi
# private, instrumented copy of controllerbus (its bus / directive-controller locks become scheduling points)
CV=$(cd /repo && go list -m -f '{{.Version}}' github.com/aperturerobotics/controllerbus)
if [ ! -f "$ROOT/.work/controllerbus/.stamp-$CV" ]; then
  rm -rf "$ROOT/.work/controllerbus"
  cp -r "$(go env GOMODCACHE)/github.com/aperturerobotics/controllerbus@$CV" "$ROOT/.work/controllerbus"
  chmod -R u+w "$ROOT/.work/controllerbus"
  ( cd "$ROOT/.work/controllerbus" && "$ROOT/.work/bin/vinstr" -inplace bus bus/inmem directive directive/controller controller/loader controller/resolver controller/resolver/static controller/exec )
  touch "$ROOT/.work/controllerbus/.stamp-$CV"
fi
if [ $ENSURE = 0 ]; then
  # warm the build cache: compile every property harness once
  W="$ROOT/.work/run/_setup"; rm -rf "$W"; mkdir -p "$W"
  "$ROOT/gen-overlay.sh" "$W"
  go test -c -tags verif -overlay "$W/overlay.json" -vet=off -o /dev/null ./vsync
  for d in props/*/; do
    go test -c -tags verif -overlay "$W/overlay.json" -vet=off -o "$W/x.test" "./$d" || echo "setup: build of $d failed" >&2
  done
  rm -rf "$W"
fi
echo setup ok
