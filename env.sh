# sourced by every script: offline Go environment
export GOFLAGS=-mod=mod GOPROXY=off GOTOOLCHAIN=auto
export GOCACHE=${VERIF_GOCACHE:-/verif/.cache/go-build}
export GODEBUG=asyncpreemptoff=1
ulimit -v 33554432 2>/dev/null || true
