#!/bin/bash
# gen-overlay.sh <workdir>: writes <workdir>/overlay.json mapping instrumented
# copies of the scheduled packages and the export shims over /repo.
set -eu
ROOT=$(cd "$(dirname "$0")" && pwd)
W=$1
ADD=()
while IFS= read -r f; do
  rel=${f#"$ROOT/shims/"}
  ADD+=(-add "/repo/$rel=$f")
done < <(find "$ROOT/shims" -name '*.go' 2>/dev/null | sort)
PKGS=()
SM=()
while IFS= read -r p; do
  [ -z "$p" ] && continue
  case "$p" in \#*) continue;; "!sortmap "*) SM+=(-sortmap "${p#!sortmap }"); continue;; esac
  case "$p" in /*) PKGS+=("$p");; @harness/*) PKGS+=("$ROOT/harness/${p#@harness/}");; *) PKGS+=("/repo/$p");; esac
done < "$ROOT/instrumented-packages.txt"
SRC=()
[ -n "${VERIF_SRC_OVERLAY:-}" ] && SRC=(-src-overlay "$VERIF_SRC_OVERLAY")
"$ROOT/.work/bin/vinstr" -out "$W/instr" -overlay "$W/overlay.json" "${SRC[@]}" "${SM[@]}" "${ADD[@]}" "${PKGS[@]}" 2>"$W/vinstr.log" || { cat "$W/vinstr.log"; exit 2; }
