#!/usr/bin/env python3
"""Classifies the race detector reports collected by racepass.sh and writes race-pass.json."""
import sys, os, re, glob, json
ROOT = os.path.dirname(os.path.abspath(__file__))
out_path = os.path.join(ROOT, 'race-pass.json')
summary = json.load(open(out_path)) if os.path.exists(out_path) else {}
def where(path):
    if '/verif/harness/' in path or path.endswith('_test.go') and '/props/' in path: return 'harness'
    if '/.work/' in path or '/repo/' in path or 'aperturerobotics' in path: return 'repo'
    if '/go/pkg/mod/' in path or '/toolchain' in path or '/src/' in path: return 'lib'
    return 'other'
for ID in sys.argv[1:]:
    W = os.path.join(ROOT, '.work', 'race', ID)
    reports = []
    for f in sorted(glob.glob(W + '/race*.[0-9]*')):
        txt = open(f, errors='replace').read()
        for blk in txt.split('WARNING: DATA RACE')[1:]:
            # the first two stacks are the conflicting accesses: take the top non-runtime frame of each
            accs = []
            for m in re.finditer(r'(?:(?:Read|Write|Previous read|Previous write|Atomic)[^\n]*\n)((?:  .*\n)+)', blk):
                frames = re.findall(r'  (\S+)\(.*?\)\n\s+(\S+?):(\d+)', m.group(0))
                top = None
                for fn, path, line in frames:
                    if where(path) in ('repo', 'harness'):
                        top = (fn, path, int(line)); break
                if top is None and frames:
                    fn, path, line = frames[0]; top = (fn, path, int(line))
                # an access made by harness code (directly, through an export shim, or through a
                # generated getter called from harness code) is the harness's
                def isH(pth): return where(pth) == 'harness' or 'zz_verif_export' in pth
                nz = [f for f in frames if where(f[1]) != 'lib'] or frames
                byHarness = bool(nz) and (isH(nz[0][1]) or (nz[0][1].endswith('.pb.go') and len(nz) > 1 and isH(nz[1][1])))
                accs.append(top + (byHarness,) if top else None)
                if len(accs) == 2: break
            reports.append(accs)
    seen = {}
    for accs in reports:
        key = ' <-> '.join(sorted(f'{a[0]} ({os.path.basename(a[1])}:{a[2]})' for a in accs if a))
        cls = 'repo' if accs and all(a and where(a[1]) == 'repo' and not a[3] for a in accs) else 'harness'
        seen.setdefault(key, {'class': cls, 'count': 0})['count'] += 1
    done = 0
    for f in glob.glob(W + '/out*.log'):
        done += open(f, errors='replace').read().count('RACEPASS-DONE')
    summary[ID] = {'completed_runs': done, 'reports': len(reports), 'distinct': seen}
json.dump(summary, open(out_path, 'w'), indent=1, sort_keys=True)
for ID in sys.argv[1:]:
    s = summary[ID]
    print(ID, 'runs', s['completed_runs'], 'reports', s['reports'])
    for k, v in s['distinct'].items():
        print('   ', v['class'], v['count'], k)
