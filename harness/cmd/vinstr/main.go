// vinstr rewrites Go packages so that every go statement, channel operation,
// select and package-sync primitive goes through verifh/vsync.
//
//	vinstr -out DIR -overlay FILE [-inplace] [-extra overlay.json...] pkgdir...
//
// Each pkgdir's non-test .go files are parsed, rewritten and written to
// DIR/<n>/<file>; FILE receives a `go build -overlay` map from the original
// path to the rewritten copy. With -inplace the files are rewritten where they
// are (used for the private copy of dependency modules).
package main

import (
	"bytes"
	"encoding/json"
	"flag"
	"fmt"
	"go/ast"
	"go/format"
	"go/parser"
	"go/token"
	"os"
	"path/filepath"
	"reflect"
	"sort"
	"strconv"
	"strings"
)

const vsPath = "verifh/vsync"
const vsName = "__vs"

func main() {
	out := flag.String("out", "", "output directory for rewritten copies")
	overlay := flag.String("overlay", "", "overlay json to write")
	inplace := flag.Bool("inplace", false, "rewrite files in place")
	srcOverlay := flag.String("src-overlay", "", "optional overlay json whose replacements are used as sources")
	var add multi
	flag.Var(&add, "add", "extra overlay entry dst=src (repeatable)")
	flag.Var(&sortMaps, "sortmap", "range expression (source text) over a map with ordered keys to iterate in sorted key order (repeatable)")
	flag.Parse()
	repl := map[string]string{}
	src := map[string]string{}
	if *srcOverlay != "" {
		b, err := os.ReadFile(*srcOverlay)
		must(err)
		var o struct{ Replace map[string]string }
		must(json.Unmarshal(b, &o))
		src = o.Replace
		for k, v := range o.Replace {
			repl[k] = v
		}
	}
	for _, a := range add {
		kv := strings.SplitN(a, "=", 2)
		repl[kv[0]] = kv[1]
	}
	nfiles, nrew := 0, 0
	for pi, dir := range flag.Args() {
		ents, err := os.ReadDir(dir)
		must(err)
		names := map[string]bool{}
		for _, e := range ents {
			names[e.Name()] = true
		}
		// files added by the source overlay
		for k := range src {
			if filepath.Dir(k) == filepath.Clean(dir) {
				names[filepath.Base(k)] = true
			}
		}
		var sorted []string
		for n := range names {
			sorted = append(sorted, n)
		}
		sort.Strings(sorted)
		for _, n := range sorted {
			if !strings.HasSuffix(n, ".go") || strings.HasSuffix(n, "_test.go") {
				continue
			}
			orig := filepath.Join(dir, n)
			from := orig
			if s, ok := src[orig]; ok {
				if s == "" {
					continue
				}
				from = s
			}
			b, err := os.ReadFile(from)
			must(err)
			nfiles++
			nb, changed, err := rewriteFile(orig, b)
			if err != nil {
				fmt.Fprintf(os.Stderr, "vinstr: %s: %v\n", orig, err)
				os.Exit(2)
			}
			if !changed {
				continue
			}
			nrew++
			if *inplace {
				must(os.WriteFile(orig, nb, 0o644))
				continue
			}
			dst := filepath.Join(*out, strconv.Itoa(pi), n)
			must(os.MkdirAll(filepath.Dir(dst), 0o755))
			must(os.WriteFile(dst, nb, 0o644))
			repl[orig] = dst
		}
	}
	if *overlay != "" {
		b, _ := json.MarshalIndent(map[string]any{"Replace": repl}, "", " ")
		must(os.WriteFile(*overlay, b, 0o644))
	}
	fmt.Fprintf(os.Stderr, "vinstr: %d files, %d rewritten\n", nfiles, nrew)
}

var sortMaps multi

type multi []string

func (m *multi) String() string     { return strings.Join(*m, ",") }
func (m *multi) Set(s string) error { *m = append(*m, s); return nil }

func must(err error) {
	if err != nil {
		fmt.Fprintln(os.Stderr, "vinstr:", err)
		os.Exit(2)
	}
}

type rw struct {
	used    bool
	counter int
}

func rewriteFile(name string, srcb []byte) ([]byte, bool, error) {
	fset := token.NewFileSet()
	f, err := parser.ParseFile(fset, name, srcb, parser.ParseComments)
	if err != nil {
		return nil, false, err
	}
	if bytes.Contains(srcb, []byte(vsName+" \""+vsPath+"\"")) {
		return srcb, false, nil // already instrumented
	}
	r := &rw{}
	changed := false
	for _, im := range f.Imports {
		if im.Path.Value == `"sync"` {
			im.Path.Value = strconv.Quote(vsPath)
			if im.Name == nil {
				im.Name = ast.NewIdent("sync")
			}
			changed = true
		}
	}
	for _, d := range f.Decls {
		r.walk(reflect.ValueOf(d))
	}
	if r.used {
		changed = true
		// add import
		spec := &ast.ImportSpec{Name: ast.NewIdent(vsName), Path: &ast.BasicLit{Kind: token.STRING, Value: strconv.Quote(vsPath)}}
		gd := &ast.GenDecl{Tok: token.IMPORT, Specs: []ast.Spec{spec}}
		f.Decls = append([]ast.Decl{gd}, f.Decls...)
	}
	if !changed {
		return srcb, false, nil
	}
	// Comments are dropped from function bodies we restructure; keep only the
	// leading build-constraint / package comments to avoid misplacement.
	var keep []*ast.CommentGroup
	for _, cg := range f.Comments {
		if cg.End() < f.Package {
			keep = append(keep, cg)
		}
	}
	// keep //go: directives (linkname etc.) attached to declarations
	for _, cg := range f.Comments {
		if cg.End() < f.Package {
			continue
		}
		for _, c := range cg.List {
			if strings.HasPrefix(c.Text, "//go:") {
				keep = append(keep, cg)
				break
			}
		}
	}
	f.Comments = keep
	var buf bytes.Buffer
	if err := format.Node(&buf, fset, f); err != nil {
		return nil, false, err
	}
	return buf.Bytes(), true, nil
}

var (
	stmtType = reflect.TypeOf((*ast.Stmt)(nil)).Elem()
	exprType = reflect.TypeOf((*ast.Expr)(nil)).Elem()
)

// walk rewrites the tree below v (post-order), replacing statements and
// expressions held in interface-typed fields and slices.
func (r *rw) walk(v reflect.Value) {
	switch v.Kind() {
	case reflect.Interface:
		if v.IsNil() {
			return
		}
		r.walk(v.Elem())
	case reflect.Ptr:
		if v.IsNil() {
			return
		}
		if _, ok := v.Interface().(*ast.Object); ok {
			return
		}
		if _, ok := v.Interface().(*ast.Scope); ok {
			return
		}
		if sel, ok := v.Interface().(*ast.SelectStmt); ok {
			_ = sel
			// handled by the parent (needs replacement); children walked there
		}
		r.walk(v.Elem())
	case reflect.Struct:
		for i := 0; i < v.NumField(); i++ {
			fld := v.Field(i)
			if !fld.CanSet() {
				continue
			}
			r.walkField(fld)
		}
	case reflect.Slice:
		for i := 0; i < v.Len(); i++ {
			r.walkField(v.Index(i))
		}
	}
}

func (r *rw) walkField(fld reflect.Value) {
	switch {
	case fld.Type() == stmtType:
		if fld.IsNil() {
			return
		}
		s := fld.Interface().(ast.Stmt)
		ns := r.stmt(s)
		if ns != s {
			fld.Set(reflect.ValueOf(ns))
		}
	case fld.Type() == exprType:
		if fld.IsNil() {
			return
		}
		e := fld.Interface().(ast.Expr)
		ne := r.expr(e)
		if ne != e {
			fld.Set(reflect.ValueOf(ne))
		}
	default:
		r.walk(fld)
	}
}

func vs(name string) ast.Expr {
	return &ast.SelectorExpr{X: ast.NewIdent(vsName), Sel: ast.NewIdent(name)}
}

func call(fn ast.Expr, args ...ast.Expr) *ast.CallExpr { return &ast.CallExpr{Fun: fn, Args: args} }

func isSortMap(e ast.Expr) bool {
	if len(sortMaps) == 0 {
		return false
	}
	var b bytes.Buffer
	if err := format.Node(&b, token.NewFileSet(), e); err != nil {
		return false
	}
	for _, s := range sortMaps {
		if s == b.String() {
			return true
		}
	}
	return false
}

func unparen(e ast.Expr) ast.Expr {
	for {
		p, ok := e.(*ast.ParenExpr)
		if !ok {
			return e
		}
		e = p.X
	}
}

// expr rewrites one expression (children first).
func (r *rw) expr(e ast.Expr) ast.Expr {
	r.walk(reflect.ValueOf(e))
	switch x := e.(type) {
	case *ast.UnaryExpr:
		if x.Op == token.ARROW {
			r.used = true
			x.X = call(vs("R"), x.X)
		}
	case *ast.CallExpr:
		if id, ok := x.Fun.(*ast.Ident); ok && id.Name == "close" && len(x.Args) == 1 {
			r.used = true
			x.Args[0] = call(vs("C"), x.Args[0])
		}
	}
	return e
}

func define(name string, val ast.Expr) ast.Stmt {
	return &ast.AssignStmt{Lhs: []ast.Expr{ast.NewIdent(name)}, Tok: token.DEFINE, Rhs: []ast.Expr{val}}
}

// stmt rewrites one statement.
func (r *rw) stmt(s ast.Stmt) ast.Stmt {
	switch x := s.(type) {
	case *ast.SelectStmt:
		return r.selectStmt(x, nil)
	case *ast.LabeledStmt:
		if sel, ok := x.Stmt.(*ast.SelectStmt); ok {
			return r.selectStmt(sel, x)
		}
	case *ast.GoStmt:
		r.walk(reflect.ValueOf(x.Call))
		return r.goStmt(x)
	case *ast.SendStmt:
		r.walk(reflect.ValueOf(s))
		r.used = true
		x.Chan = call(vs("S"), x.Chan)
		return x
	case *ast.RangeStmt:
		if x.Tok == token.DEFINE && x.Key != nil && isSortMap(x.X) {
			// for k, v := range m  =>  for _, k := range __vs.MapKeys(m) { v := m[k]; ... }
			r.walk(reflect.ValueOf(x.Body))
			r.used = true
			m := x.X
			if v, ok := x.Value.(*ast.Ident); ok && v.Name != "_" {
				if k, ok := x.Key.(*ast.Ident); ok && k.Name != "_" {
					get := define(v.Name, &ast.IndexExpr{X: m, Index: ast.NewIdent(k.Name)})
					x.Body.List = append([]ast.Stmt{get}, x.Body.List...)
				} else {
					return s // unsupported shape: leave untouched
				}
			}
			x.Value = x.Key
			x.Key = ast.NewIdent("_")
			x.X = call(vs("MapKeys"), m)
			return x
		}
	}
	r.walk(reflect.ValueOf(s))
	return s
}

func (r *rw) goStmt(g *ast.GoStmt) ast.Stmt {
	r.used = true
	r.counter++
	n := r.counter
	c := g.Call
	if fl, ok := c.Fun.(*ast.FuncLit); ok && len(c.Args) == 0 {
		return &ast.ExprStmt{X: call(vs("Go"), fl)}
	}
	var pre []ast.Stmt
	fn := fmt.Sprintf("_vs_f%d", n)
	pre = append(pre, define(fn, c.Fun))
	var args []ast.Expr
	for i, a := range c.Args {
		inline := false
		switch v := unparen(a).(type) {
		case *ast.BasicLit:
			inline = true
		case *ast.Ident:
			inline = v.Name == "nil" || v.Name == "true" || v.Name == "false"
		}
		if inline {
			args = append(args, a)
			continue
		}
		an := fmt.Sprintf("_vs_a%d_%d", n, i)
		pre = append(pre, define(an, a))
		args = append(args, ast.NewIdent(an))
	}
	inner := &ast.CallExpr{Fun: ast.NewIdent(fn), Args: args, Ellipsis: c.Ellipsis}
	if c.Ellipsis.IsValid() {
		inner.Ellipsis = 1
	}
	lit := &ast.FuncLit{Type: &ast.FuncType{Params: &ast.FieldList{}}, Body: &ast.BlockStmt{List: []ast.Stmt{&ast.ExprStmt{X: inner}}}}
	pre = append(pre, &ast.ExprStmt{X: call(vs("Go"), lit)})
	return &ast.BlockStmt{List: pre}
}

func (r *rw) selectStmt(sel *ast.SelectStmt, label *ast.LabeledStmt) ast.Stmt {
	r.used = true
	r.counter++
	n := r.counter
	var pre []ast.Stmt
	var cases []ast.Expr
	hasDef := "false"
	tok := fmt.Sprintf("_vs_t%d", n)
	idx := 0
	for _, cl := range sel.Body.List {
		cc := cl.(*ast.CommClause)
		// bodies are ordinary statements
		for i := range cc.Body {
			cc.Body[i] = r.stmt(cc.Body[i])
		}
		if cc.Comm == nil {
			hasDef = "true"
			continue
		}
		cn := fmt.Sprintf("_vs_c%d_%d", n, idx)
		var chExpr *ast.Expr
		send := false
		switch c := cc.Comm.(type) {
		case *ast.SendStmt:
			c.Value = r.expr(c.Value)
			chExpr = &c.Chan
			send = true
		case *ast.ExprStmt:
			u := unparen(c.X).(*ast.UnaryExpr)
			chExpr = &u.X
		case *ast.AssignStmt:
			u := unparen(c.Rhs[0]).(*ast.UnaryExpr)
			chExpr = &u.X
			for i := range c.Lhs {
				c.Lhs[i] = r.expr(c.Lhs[i])
			}
		default:
			panic(fmt.Sprintf("unexpected comm clause %T", cc.Comm))
		}
		orig := r.expr(*chExpr)
		pre = append(pre, define(cn, orig))
		lit := &ast.BasicLit{Kind: token.INT, Value: strconv.Itoa(idx)}
		if send {
			cases = append(cases, call(vs("CS"), ast.NewIdent(cn)))
			*chExpr = call(vs("MS"), ast.NewIdent(tok), lit, ast.NewIdent(cn))
		} else {
			cases = append(cases, call(vs("CR"), ast.NewIdent(cn)))
			*chExpr = call(vs("MR"), ast.NewIdent(tok), lit, ast.NewIdent(cn))
		}
		idx++
	}
	args := append([]ast.Expr{ast.NewIdent(hasDef)}, cases...)
	pre = append(pre, define(tok, call(vs("Select"), args...)))
	// silence "declared and not used" when there are no channel cases
	pre = append(pre, &ast.AssignStmt{Lhs: []ast.Expr{ast.NewIdent("_")}, Tok: token.ASSIGN, Rhs: []ast.Expr{ast.NewIdent(tok)}})
	if label != nil {
		pre = append(pre, label)
	} else {
		pre = append(pre, sel)
	}
	return &ast.BlockStmt{List: pre}
}
