// Package mc glues vsync exploration results to evidence files.
package mc

import (
	"fmt"

	"verifh/evid"
	"verifh/vsync"
)

// Agg accumulates several explorations into one model_checking evidence.
type Agg struct {
	Run        *evid.Run
	States     int
	Trans      int
	Execs      int
	Outcomes   int
	EnvChoices int
	Deadlocks  int
	Horizon    int
	MaxDepth   int
	MaxEnabled int
	Exhaustive bool
	Scenarios  []map[string]any
	Samples    []any
	Nondet     []string
}

// NewAgg starts an aggregate.
func NewAgg(r *evid.Run) *Agg { return &Agg{Run: r, Exhaustive: true} }

// Add merges one exploration; keyFn maps a violation to its known-findings key.
func (a *Agg) Add(res *vsync.Result, keyFn func(v *vsync.Violation) string) {
	a.States += res.States
	a.Trans += res.Transitions
	a.Execs += res.Executions
	a.Outcomes += res.DistinctOutcomes
	a.EnvChoices += res.EnvChoices
	a.Deadlocks += res.Deadlocks
	a.Horizon += res.HorizonHits
	if res.MaxDepth > a.MaxDepth {
		a.MaxDepth = res.MaxDepth
	}
	if res.MaxEnabled > a.MaxEnabled {
		a.MaxEnabled = res.MaxEnabled
	}
	if !res.Exhaustive {
		a.Exhaustive = false
	}
	a.Scenarios = append(a.Scenarios, map[string]any{
		"name": res.Name, "executions": res.Executions, "states": res.States, "transitions": res.Transitions,
		"preemption_bound_completed": res.BoundCompleted, "exhaustive": res.Exhaustive, "distinct_outcomes": res.DistinctOutcomes,
		"deadlocks": res.Deadlocks, "horizon_hits": res.HorizonHits, "violations": len(res.Violations), "cap": res.Cap,
		"max_simultaneously_enabled": res.MaxEnabled,
	})
	if len(a.Samples) < 4 && len(res.Samples) > 0 {
		a.Samples = append(a.Samples, map[string]any{"scenario": res.Name, "schedule": res.Samples[len(res.Samples)-1]})
	}
	a.Nondet = append(a.Nondet, res.NondetErrors...)
	for i := range res.Violations {
		v := &res.Violations[i]
		key := res.Name
		if keyFn != nil {
			key = keyFn(v)
		}
		a.Run.Violation(key, fmt.Sprintf("%s [preemptions=%d]", v.What, v.Preempt), map[string]any{
			"scenario": res.Name, "choices": v.Choices, "trace": v.Trace, "log": v.Log,
		})
	}
}

// Finish writes coverage keys into the run. It fails loudly (exit 2) on
// nondeterminism or vacuous exploration.
func (a *Agg) Finish(wantConcurrency bool) {
	if len(a.Nondet) > 0 {
		evid.Fatal("nondeterministic exploration: %v", a.Nondet[0])
	}
	if wantConcurrency && a.MaxEnabled < 2 {
		evid.Fatal("vacuous exploration: never two threads enabled")
	}
	c := a.Run.Cov
	c["states"] = a.States
	c["transitions"] = a.Trans
	c["traces_validated_against_impl"] = a.Execs
	c["executions"] = a.Execs
	c["samples"] = a.Samples
	c["scenarios"] = a.Scenarios
	c["distinct_outcomes"] = a.Outcomes
	c["env_choices"] = a.EnvChoices
	c["deadlocks"] = a.Deadlocks
	c["horizon_hits"] = a.Horizon
	c["max_depth"] = a.MaxDepth
	c["exhaustive"] = a.Exhaustive
}
