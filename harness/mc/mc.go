// Package mc glues vsync exploration results to evidence files.
package mc

import (
	"context"
	"encoding/json"
	"fmt"
	"os"
	"os/exec"
	"path/filepath"
	"runtime"
	"strconv"
	"strings"
	"sync"
	"testing"
	"time"

	"verifh/evid"
	"verifh/hist"
	"verifh/vsync"
)

// Agg accumulates several explorations into one model_checking evidence.
type Agg struct {
	Run        *evid.Run
	States     int
	Trans      int
	Execs      int
	Outcomes   int
	EnvChoices int
	Deadlocks  int
	Horizon    int
	MaxDepth   int
	MaxEnabled int
	Exhaustive bool
	Scenarios  []map[string]any
	Samples    []any
	Nondet     []string
	Tags       map[string]int
}

// NewAgg starts an aggregate.
func NewAgg(r *evid.Run) *Agg { return &Agg{Run: r, Exhaustive: true} }

// Add merges one exploration; keyFn maps a violation to its known-findings key.
func (a *Agg) Add(res *vsync.Result, keyFn func(v *vsync.Violation) string) {
	a.States += res.States
	a.Trans += res.Transitions
	a.Execs += res.Executions
	a.Outcomes += res.DistinctOutcomes
	a.EnvChoices += res.EnvChoices
	a.Deadlocks += res.Deadlocks
	a.Horizon += res.HorizonHits
	if res.MaxDepth > a.MaxDepth {
		a.MaxDepth = res.MaxDepth
	}
	if res.MaxEnabled > a.MaxEnabled {
		a.MaxEnabled = res.MaxEnabled
	}
	if !res.Exhaustive {
		a.Exhaustive = false
	}
	for k, v := range res.Tags {
		if a.Tags == nil {
			a.Tags = map[string]int{}
		}
		a.Tags[k] += v
	}
	a.Scenarios = append(a.Scenarios, map[string]any{
		"name": res.Name, "executions": res.Executions, "states": res.States, "transitions": res.Transitions,
		"preemption_bound_completed": res.BoundCompleted, "exhaustive": res.Exhaustive, "distinct_outcomes": res.DistinctOutcomes,
		"deadlocks": res.Deadlocks, "horizon_hits": res.HorizonHits, "violations": res.NViolations, "cap": res.Cap, "pruned_at_visited_state": res.Pruned, "wedged_executions": res.Hangs,
		"max_simultaneously_enabled": res.MaxEnabled,
	})
	if len(a.Samples) < 4 && len(res.Samples) > 0 {
		a.Samples = append(a.Samples, map[string]any{"scenario": res.Name, "schedule": res.Samples[len(res.Samples)-1]})
	}
	for _, e := range res.NondetErrors {
		a.Nondet = append(a.Nondet, res.Name+": "+e)
	}
	for i := range res.Violations {
		v := &res.Violations[i]
		key := res.Name
		if keyFn != nil {
			key = keyFn(v)
		}
		// a key may name several violation classes separated by " ; "
		for _, k := range strings.Split(key, " ; ") {
			a.Run.Violation(k, fmt.Sprintf("%s [scenario=%s preemptions=%d]", v.What, res.Name, v.Preempt), map[string]any{
				"scenario": res.Name, "choices": CompactChoices(v.Choices), "trace": v.Trace, "log": v.Log,
			})
		}
	}
}

// CompactChoices renders a choice list as "chosen/n" strings (e = environment choice).
func CompactChoices(ps []vsync.Point) []string {
	out := make([]string, len(ps))
	for i, p := range ps {
		e := ""
		if p.Env {
			e = "e"
		}
		out[i] = fmt.Sprintf("%s%d/%d", e, p.Chosen, p.N)
	}
	return out
}

// Finish writes coverage keys into the run. It fails loudly (exit 2) on
// nondeterminism or vacuous exploration.
func (a *Agg) Finish(wantConcurrency bool) {
	if len(a.Nondet) > 0 {
		// replays that diverged are not believed and not reported; the run is
		// then not exhaustive.
		fmt.Printf("NOTE: %d non-reproducible replays, e.g. %s\n", len(a.Nondet), a.Nondet[0])
		a.Exhaustive = false
		a.Run.Cov["nondeterministic_replays"] = len(a.Nondet)
		a.Run.Cov["nondeterministic_example"] = a.Nondet[0]
	}
	if wantConcurrency && a.MaxEnabled < 2 {
		evid.Fatal("vacuous exploration: never two threads enabled")
	}
	c := a.Run.Cov
	c["states"] = a.States
	c["transitions"] = a.Trans
	c["traces_validated_against_impl"] = a.Execs
	c["executions"] = a.Execs
	c["samples"] = a.Samples
	c["scenarios"] = a.Scenarios
	c["distinct_outcomes"] = a.Outcomes
	c["env_choices"] = a.EnvChoices
	c["deadlocks"] = a.Deadlocks
	c["horizon_hits"] = a.Horizon
	c["max_depth"] = a.MaxDepth
	c["exhaustive"] = a.Exhaustive
	if a.Tags != nil {
		c["execution_tags"] = a.Tags
	}
}

// RequireTag fails loudly (exit 2) if no complete execution carried the tag:
// the scenarios did not reach the behaviour the oracle is about.
func (a *Agg) RequireTag(tag string) {
	if a.Tags[tag] == 0 && a.Run.NViolations() == 0 {
		evid.Fatal("vacuous exploration: no execution reached %q", tag)
	}
}

// RunScenarios explores n scenarios. With VERIF_PAR != "1" the scenarios are
// spread over worker subprocesses (re-executions of the test binary), because a
// process hosts one scheduler at a time; results are merged into agg.
func RunScenarios(t *testing.T, agg *Agg, n int, mk func(i int) *vsync.Config, keyFn func(v *vsync.Violation) string) {
	callNo++
	if sh := os.Getenv("VERIF_SHARD_OUT"); sh != "" {
		if os.Getenv("VERIF_SHARD_CALL") != strconv.Itoa(callNo) {
			return // a worker for another RunScenarios call of this test
		}
		// worker: run the scenarios assigned to this shard, dump results, exit
		var idx []int
		json.Unmarshal([]byte(os.Getenv("VERIF_SHARD_IDX")), &idx)
		var out []*vsync.Result
		for _, i := range idx {
			out = append(out, vsync.Explore(t, mk(i)))
		}
		b, _ := json.Marshal(out)
		if err := os.WriteFile(sh, b, 0o644); err != nil {
			evid.Fatal("shard write: %v", err)
		}
		os.Exit(0)
	}
	workers := runtime.NumCPU()
	if w := os.Getenv("VERIF_WORKERS"); w != "" {
		workers, _ = strconv.Atoi(w)
	}
	if workers > n {
		workers = n
	}
	if workers <= 1 {
		for i := 0; i < n; i++ {
			agg.Add(vsync.Explore(t, mk(i)), keyFn)
		}
		return
	}
	dir, err := os.MkdirTemp(filepath.Join(evid.Root, ".work"), "shard-")
	if err != nil {
		evid.Fatal("shard dir: %v", err)
	}
	defer os.RemoveAll(dir)
	// dynamic assignment: one scenario per subprocess invocation, `workers` at a time
	results := make([]*vsync.Result, n)
	var wg sync.WaitGroup
	next := make(chan int, n)
	for i := 0; i < n; i++ {
		next <- i
	}
	close(next)
	var mu sync.Mutex
	var firstErr string
	nfail := 0
	for w := 0; w < workers; w++ {
		wg.Add(1)
		go func(w int) {
			defer wg.Done()
			for i := range next {
				if time.Now().After(agg.Run.Deadline()) {
					// the run's time budget is used up: the scenario is not started and
					// the run reports exhaustive=false
					results[i] = &vsync.Result{Name: fmt.Sprintf("scenario-%d", i), BoundCompleted: -1, Cap: "not started: time budget exhausted"}
					continue
				}
				outf := filepath.Join(dir, fmt.Sprintf("r%d.json", i))
				// a worker that hangs (e.g. un-instrumented code blocked on a lock held by a
				// parked thread) is killed after the run's budget; its scenario is then
				// reported as not exhausted, never as a violation.
				budget := time.Until(agg.Run.Deadline()) + 2*time.Minute
				if budget < 3*time.Minute {
					budget = 3 * time.Minute
				}
				cctx, ccancel := context.WithTimeout(context.Background(), budget)
				cmd := exec.CommandContext(cctx, os.Args[0], "-test.run", "^"+t.Name()+"$", "-test.count", "1", "-test.timeout", "60m")
				cmd.Env = append(os.Environ(), "VERIF_SHARD_OUT="+outf, "VERIF_SHARD_CALL="+strconv.Itoa(callNo), fmt.Sprintf("VERIF_SHARD_IDX=[%d]", i), "GOMAXPROCS=1")
				ob, err := cmd.CombinedOutput()
				timedOut := cctx.Err() != nil
				ccancel()
				if timedOut {
					results[i] = &vsync.Result{Name: fmt.Sprintf("scenario-%d", i), BoundCompleted: -1, Cap: "worker killed after exceeding the time budget (hang)"}
					continue
				}
				b, rerr := os.ReadFile(outf)
				var rs []*vsync.Result
				if err != nil || rerr != nil || json.Unmarshal(b, &rs) != nil || len(rs) != 1 {
					// a worker that died (killed for memory, crashed runtime) loses its
					// scenario: reported as not exhausted with the reason, never as a verdict
					results[i] = &vsync.Result{Name: fmt.Sprintf("scenario-%d", i), BoundCompleted: -1, Cap: fmt.Sprintf("worker failed: %v %v :: %s", err, rerr, tail(string(ob), 300))}
					mu.Lock()
					nfail++
					mu.Unlock()
					continue
				}
				results[i] = rs[0]
			}
		}(w)
	}
	wg.Wait()
	if firstErr != "" {
		evid.Fatal("%s", firstErr)
	}
	if nfail == n {
		evid.Fatal("every scenario worker failed: %s", results[0].Cap)
	}
	for _, r := range results {
		agg.Add(r, keyFn)
	}
}

var callNo int

func tail(s string, n int) string {
	if len(s) > n {
		return s[len(s)-n:]
	}
	return s
}

// AddHist merges an explicit-state (hist.BFS) result into the aggregate.
func (a *Agg) AddHist(res *hist.Result) {
	a.States += res.States
	a.Trans += res.Transitions
	a.Execs += res.Histories
	a.MaxEnabled = 2
	if res.DepthCompleted > a.MaxDepth {
		a.MaxDepth = res.DepthCompleted
	}
	if !res.Exhaustive {
		a.Exhaustive = false
	}
	a.Scenarios = append(a.Scenarios, map[string]any{"name": res.Name, "states": res.States, "transitions": res.Transitions, "histories_replayed": res.Histories,
		"depth_completed": res.DepthCompleted, "exhaustive": res.Exhaustive, "violations": len(res.Violations), "nondeterministic_states": len(res.Nondet)})
	for _, s := range res.Samples {
		if len(a.Samples) < 6 {
			a.Samples = append(a.Samples, map[string]any{"scenario": res.Name, "history": s})
		}
	}
	for _, e := range res.Nondet {
		a.Nondet = append(a.Nondet, res.Name+": "+e)
	}
	for _, v := range res.Violations {
		a.Run.Violation(v.Key, fmt.Sprintf("%s [history=%v]", v.What, v.History), map[string]any{"scenario": res.Name, "history": v.History})
	}
}
