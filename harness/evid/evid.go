// Package evid writes evidence files, reports violations against the
// known-findings list and produces replay artefacts.
package evid

import (
	"bufio"
	"crypto/sha256"
	"encoding/hex"
	"encoding/json"
	"fmt"
	"os"
	"path/filepath"
	"sort"
	"strconv"
	"strings"
	"sync"
	"testing"
	"time"
)

// Root is the /verif directory.
var Root = func() string {
	if r := os.Getenv("VERIF_ROOT"); r != "" {
		return r
	}
	return "/verif"
}()

// Viol is one violation class found by a run.
type Viol struct {
	Key    string `json:"key"`
	What   string `json:"what"`
	Count  int    `json:"count"`
	Replay any    `json:"replay,omitempty"`
	Known  bool   `json:"known"`
}

// Run accumulates what one check invocation covered.
type Run struct {
	ID          string
	Tier        string
	Seed        int64
	Level       string
	Cov         map[string]any
	Assumptions []string

	mu       sync.Mutex
	start    time.Time
	viols    map[string]*Viol
	order    []string
	replayK  string
	deadline time.Time
}

// Start begins a run for property id at the given evidence level.
func Start(id, level string) *Run {
	r := &Run{ID: id, Level: level, Cov: map[string]any{}, start: time.Now(), viols: map[string]*Viol{}}
	r.Tier = os.Getenv("VERIF_TIER")
	if r.Tier != "thorough" {
		r.Tier = "quick"
	}
	if s := os.Getenv("VERIF_SEED"); s != "" {
		r.Seed, _ = strconv.ParseInt(s, 10, 64)
	}
	r.replayK = os.Getenv("VERIF_REPLAY_KEY")
	budget := 150 * time.Second
	if r.Tier == "thorough" {
		budget = 25 * time.Minute
	}
	if s := os.Getenv("VERIF_BUDGET_S"); s != "" {
		if n, err := strconv.Atoi(s); err == nil {
			budget = time.Duration(n) * time.Second
		}
	}
	r.deadline = r.start.Add(budget)
	if current == nil {
		current = r
	}
	return r
}

// Quick reports whether this is the quick tier.
func (r *Run) Quick() bool { return r.Tier != "thorough" }

// Deadline is the internal wall-clock deadline; reaching it ends exploration
// with exhaustive=false and exit 0.
func (r *Run) Deadline() time.Time { return r.deadline }

// Expired reports whether the internal deadline has passed.
func (r *Run) Expired() bool { return time.Now().After(r.deadline) }

// Violation records a violation. key identifies the minimal counterexample
// class (used to match known findings); replay is any JSON-able reproducer.
func (r *Run) Violation(key, what string, replay any) {
	r.mu.Lock()
	defer r.mu.Unlock()
	v := r.viols[key]
	if v == nil {
		v = &Viol{Key: key, What: what, Replay: replay}
		r.viols[key] = v
		r.order = append(r.order, key)
	}
	v.Count++
}

// NViolations returns the number of distinct violation keys so far.
func (r *Run) NViolations() int {
	r.mu.Lock()
	defer r.mu.Unlock()
	return len(r.viols)
}

type known struct{ prop, key, text string }

func loadKnown() []known {
	f, err := os.Open(filepath.Join(Root, "known-findings.txt"))
	if err != nil {
		return nil
	}
	defer f.Close()
	var ks []known
	sc := bufio.NewScanner(f)
	sc.Buffer(make([]byte, 1<<20), 1<<20)
	for sc.Scan() {
		ln := strings.TrimSpace(sc.Text())
		if !strings.HasPrefix(ln, "known:") {
			continue // "fixed:" entries and comments suppress nothing
		}
		fs := strings.Fields(strings.TrimPrefix(ln, "known:"))
		k := known{}
		var rest []string
		for _, f := range fs {
			switch {
			case strings.HasPrefix(f, "property=") && k.prop == "":
				k.prop = strings.TrimPrefix(f, "property=")
			case strings.HasPrefix(f, "key=") && k.key == "":
				k.key = strings.TrimPrefix(f, "key=")
			default:
				rest = append(rest, f)
			}
		}
		k.text = strings.Join(rest, " ")
		ks = append(ks, k)
	}
	return ks
}

// Finish writes the evidence file, prints KNOWN-FINDING / VIOLATION lines and
// exits the process: 0 if nothing unlisted was violated, 1 otherwise.
func (r *Run) Finish(t *testing.T) {
	if FreeRun() > 0 || os.Getenv("VERIF_RACEPASS") != "" {
		// race pass: no verdict and no evidence file; the race detector's
		// reports are collected by racepass.sh
		fmt.Printf("RACEPASS-DONE property=%s violations-ignored=%d\n", r.ID, r.NViolations())
		os.Exit(0)
	}
	r.mu.Lock()
	defer r.mu.Unlock()
	ks := loadKnown()
	var unlisted []*Viol
	for _, k := range r.order {
		v := r.viols[k]
		if r.replayK != "" && v.Key != r.replayK {
			continue
		}
		for _, kn := range ks {
			if kn.prop == r.ID && kn.key == v.Key {
				v.Known = true
				fmt.Printf("KNOWN-FINDING: property=%s key=%s %s\n", r.ID, v.Key, kn.text)
			}
		}
		if !v.Known {
			unlisted = append(unlisted, v)
		}
	}
	cov := r.Cov
	if _, ok := cov["exhaustive"]; !ok {
		cov["exhaustive"] = false
	}
	var vl []*Viol
	for _, k := range r.order {
		vl = append(vl, r.viols[k])
	}
	if len(vl) > 0 {
		cov["violation_keys"] = vl
	}
	ev := map[string]any{
		"property_id": r.ID,
		"tier":        r.Tier,
		"seed":        r.Seed,
		"level":       r.Level,
		"coverage":    cov,
		"assumptions": r.Assumptions,
		"wall_s":      time.Since(r.start).Seconds(),
		"violations":  len(unlisted),
	}
	if ev["assumptions"] == nil {
		ev["assumptions"] = []string{}
	}
	if r.replayK == "" {
		b, err := json.MarshalIndent(ev, "", " ")
		if err != nil {
			fmt.Println("evid: cannot marshal evidence:", err)
			os.Exit(2)
		}
		_ = os.MkdirAll(filepath.Join(Root, "evidence"), 0o755)
		p := filepath.Join(Root, "evidence", r.ID+".json")
		if err := os.WriteFile(p, append(b, '\n'), 0o644); err != nil {
			fmt.Println("evid: cannot write evidence:", err)
			os.Exit(2)
		}
	}
	if len(unlisted) == 0 {
		fmt.Printf("OK property=%s tier=%s wall=%.1fs\n", r.ID, r.Tier, time.Since(r.start).Seconds())
		os.Exit(0)
	}
	_ = os.MkdirAll(filepath.Join(Root, "replays"), 0o755)
	sort.SliceStable(unlisted, func(i, j int) bool { return false })
	for i, v := range unlisted {
		if i >= 20 {
			fmt.Printf("... %d more violation keys\n", len(unlisted)-i)
			break
		}
		h := sha256.Sum256([]byte(v.Key))
		p := filepath.Join(Root, "replays", fmt.Sprintf("%s-%s.json", r.ID, hex.EncodeToString(h[:6])))
		b, _ := json.MarshalIndent(map[string]any{"property": r.ID, "key": v.Key, "what": v.What, "count": v.Count, "replay": v.Replay, "tier": r.Tier, "seed": r.Seed}, "", " ")
		_ = os.WriteFile(p, append(b, '\n'), 0o644)
		fmt.Printf("VIOLATION property=%s replay=%s key=%s :: %s\n", r.ID, p, v.Key, oneLine(v.What))
	}
	os.Exit(1)
}

func oneLine(s string) string {
	s = strings.ReplaceAll(s, "\n", " | ")
	if len(s) > 300 {
		s = s[:300] + "…"
	}
	return s
}

// Fatal reports an infrastructure problem (never a VIOLATION) and exits 2.
func Fatal(format string, a ...any) {
	if FreeRun() > 0 {
		// race pass: nothing is decided, vacuity / set-up complaints do not apply
		fmt.Printf("freerun: ignored: "+format+"\n", a...)
		return
	}
	if r := current; r != nil && r.unlisted() > 0 {
		// A guard of the harness (fixture sanity, vacuity, set-up) fired AFTER the
		// run had recorded violations that are not known findings: on a tree that
		// breaks the property such a guard is usually a consequence of the defect,
		// and the verdict must not be lost to exit code 2. Report what was found.
		fmt.Printf("NOTE: a harness guard fired after violations had been recorded (reported below): "+format+"\n", a...)
		r.Cov["exhaustive"] = false
		r.Cov["aborted_by_harness_guard"] = fmt.Sprintf(format, a...)
		r.Finish(nil)
	}
	fmt.Printf("CHECK-ERROR: "+format+"\n", a...)
	os.Exit(2)
}

// current is the run created by the first Start of the process.
var current *Run

// unlisted counts recorded violations that are not known findings.
func (r *Run) unlisted() int {
	r.mu.Lock()
	defer r.mu.Unlock()
	ks := loadKnown()
	n := 0
	for _, k := range r.order {
		known := false
		for _, kn := range ks {
			if kn.prop == r.ID && kn.key == r.viols[k].Key {
				known = true
			}
		}
		if !known {
			n++
		}
	}
	return n
}

// FreeRun reports the number of free-running (scheduler-less) repetitions of
// each controlled-scheduler scenario requested by the race pass
// (VERIF_FREERUN); 0 in normal checks.
func FreeRun() int {
	n, _ := strconv.Atoi(os.Getenv("VERIF_FREERUN"))
	return n
}
