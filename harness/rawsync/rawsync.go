// Package rawsync re-exports the real sync primitives for harness code that
// is itself instrumented by vinstr but needs a lock that is not a scheduling
// point (pure bookkeeping).
package rawsync

import "sync"

type Mutex = sync.Mutex
