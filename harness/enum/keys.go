package enum

import (
	"crypto/ed25519"
	"crypto/sha256"
	"fmt"
	"os"

	"github.com/aperturerobotics/bifrost/crypto"
	"github.com/aperturerobotics/bifrost/peer"
)

// Key is a fixture identity.
type Key struct {
	Name string
	Priv crypto.PrivKey
	Pub  crypto.PubKey
	ID   peer.ID
	Std  ed25519.PrivateKey
}

// Keys returns n deterministic Ed25519 fixture identities derived from
// VERIF_SEED (default 0).
func Keys(n int) []*Key {
	seed := os.Getenv("VERIF_SEED")
	var ks []*Key
	for i := 0; i < n; i++ {
		s := sha256.Sum256([]byte(fmt.Sprintf("verif-fixture-key/%s/%d", seed, i)))
		std := ed25519.NewKeyFromSeed(s[:])
		priv, err := crypto.UnmarshalEd25519PrivateKey(std)
		if err != nil {
			panic(err)
		}
		id, err := peer.IDFromPrivateKey(priv)
		if err != nil {
			panic(err)
		}
		ks = append(ks, &Key{Name: fmt.Sprintf("k%d", i+1), Priv: priv, Pub: priv.GetPublic(), ID: id, Std: std})
	}
	return ks
}
