// Package enum has the bounded-exhaustive enumerators and the coverage
// accounting used by the E1 (input / configuration enumeration) checks.
package enum

import (
	"fmt"
	"hash/fnv"
	"sync"

	"verifh/evid"
)

// Acc counts what an enumeration covered. Safe for concurrent use.
type Acc struct {
	Run  *evid.Run
	Rule string

	mu       sync.Mutex
	evals    int
	distinct map[uint64]struct{}
	outcomes map[string]int
	samples  []any
	capped   bool
	groups   map[string]int
}

// NewAcc creates an accumulator; rule describes how cases are generated and
// what makes one non-trivial / distinct.
func NewAcc(r *evid.Run, rule string) *Acc {
	return &Acc{Run: r, Rule: rule, distinct: map[uint64]struct{}{}, outcomes: map[string]int{}, groups: map[string]int{}}
}

// Case records one executed case. group names the sub-enumeration; caseKey
// canonically identifies the case (distinct cases are counted by its hash);
// nontrivial says whether it counts for distinct_nontrivial; outcome is a
// short classification of what happened.
func (a *Acc) Case(group, caseKey string, nontrivial bool, outcome string) {
	a.mu.Lock()
	a.evals++
	a.groups[group]++
	if nontrivial {
		h := fnv.New64a()
		h.Write([]byte(group))
		h.Write([]byte{0})
		h.Write([]byte(caseKey))
		a.distinct[h.Sum64()] = struct{}{}
	}
	a.outcomes[group+": "+outcome]++
	a.mu.Unlock()
}

// Sample keeps a written-out case (at most 12 are kept).
func (a *Acc) Sample(v any) {
	a.mu.Lock()
	if len(a.samples) < 12 {
		a.samples = append(a.samples, v)
	}
	a.mu.Unlock()
}

// Capped marks the enumeration as not exhaustive (deadline or cap hit).
func (a *Acc) Capped() { a.mu.Lock(); a.capped = true; a.mu.Unlock() }

// Evals returns the number of cases so far.
func (a *Acc) Evals() int { a.mu.Lock(); defer a.mu.Unlock(); return a.evals }

// Finish writes the coverage keys. It exits 2 on a vacuous enumeration.
func (a *Acc) Finish() {
	a.mu.Lock()
	defer a.mu.Unlock()
	if a.evals == 0 || len(a.distinct) < 2 {
		evid.Fatal("vacuous enumeration: %d cases, %d distinct non-trivial", a.evals, len(a.distinct))
	}
	if len(a.outcomes) < 2 {
		evid.Fatal("vacuous enumeration: a single outcome class over %d cases", a.evals)
	}
	c := a.Run.Cov
	c["evaluations"] = a.evals
	c["distinct_nontrivial"] = len(a.distinct)
	c["rule"] = a.Rule
	c["samples"] = a.samples
	c["outcomes"] = a.outcomes
	c["distinct_outcomes"] = len(a.outcomes)
	c["groups"] = a.groups
	c["exhaustive"] = !a.capped
	if len(a.samples) == 0 {
		c["samples"] = []any{fmt.Sprintf("%d cases", a.evals)}
	}
}

// ---- enumerators ----

// Product calls f with every index tuple of the given dimension sizes.
func Product(dims []int, f func(idx []int)) {
	idx := make([]int, len(dims))
	for _, d := range dims {
		if d == 0 {
			return
		}
	}
	for {
		f(idx)
		i := len(dims) - 1
		for i >= 0 {
			idx[i]++
			if idx[i] < dims[i] {
				break
			}
			idx[i] = 0
			i--
		}
		if i < 0 {
			return
		}
	}
}

// Subsets calls f with every subset of {0..n-1} as a bitmask.
func Subsets(n int, f func(mask uint)) {
	for m := uint(0); m < 1<<uint(n); m++ {
		f(m)
	}
}

// Sequences calls f with every sequence over {0..k-1} of length 0..maxLen.
func Sequences(k, maxLen int, f func(seq []int)) {
	var rec func(seq []int)
	rec = func(seq []int) {
		f(seq)
		if len(seq) == maxLen {
			return
		}
		for i := 0; i < k; i++ {
			rec(append(seq, i))
		}
	}
	rec(nil)
}

// Compositions calls f with every ordered way to write n as a sum of positive
// integers (all chunkings of an n-byte stream): 2^(n-1) of them.
func Compositions(n int, f func(parts []int)) {
	if n == 0 {
		f(nil)
		return
	}
	for m := uint(0); m < 1<<uint(n-1); m++ {
		var parts []int
		cur := 1
		for i := 0; i < n-1; i++ {
			if m&(1<<uint(i)) != 0 {
				parts = append(parts, cur)
				cur = 1
			} else {
				cur++
			}
		}
		parts = append(parts, cur)
		f(parts)
	}
}

// Permutations calls f with every permutation of 0..n-1.
func Permutations(n int, f func(p []int)) {
	p := make([]int, n)
	for i := range p {
		p[i] = i
	}
	var rec func(k int)
	rec = func(k int) {
		if k == n {
			f(p)
			return
		}
		for i := k; i < n; i++ {
			p[k], p[i] = p[i], p[k]
			rec(k + 1)
			p[k], p[i] = p[i], p[k]
		}
	}
	rec(0)
}

// Mut is one deviation of a byte string.
type Mut struct {
	Desc string
	Data []byte
}

// ByteSubst yields every single-byte substitution (pos × vals) of b. If vals
// is nil all 255 other values are used.
func ByteSubst(b []byte, vals []byte, f func(m Mut)) {
	for i := range b {
		if vals == nil {
			for v := 0; v < 256; v++ {
				if byte(v) == b[i] {
					continue
				}
				c := append([]byte{}, b...)
				c[i] = byte(v)
				f(Mut{Desc: fmt.Sprintf("subst[%d]=%02x", i, v), Data: c})
			}
			continue
		}
		for _, v := range vals {
			if v == b[i] {
				continue
			}
			c := append([]byte{}, b...)
			c[i] = v
			f(Mut{Desc: fmt.Sprintf("subst[%d]=%02x", i, v), Data: c})
		}
	}
}

// BitFlips yields every single-bit flip of b.
func BitFlips(b []byte, f func(m Mut)) {
	for i := range b {
		for k := 0; k < 8; k++ {
			c := append([]byte{}, b...)
			c[i] ^= 1 << uint(k)
			f(Mut{Desc: fmt.Sprintf("flip[%d.%d]", i, k), Data: c})
		}
	}
}

// Truncations yields every proper prefix of b (including empty).
func Truncations(b []byte, f func(m Mut)) {
	for n := 0; n < len(b); n++ {
		f(Mut{Desc: fmt.Sprintf("trunc[%d]", n), Data: append([]byte{}, b[:n]...)})
	}
}

// Extensions yields b followed by each of the given bytes (all 256 if nil).
func Extensions(b []byte, vals []byte, f func(m Mut)) {
	if vals == nil {
		for v := 0; v < 256; v++ {
			f(Mut{Desc: fmt.Sprintf("ext=%02x", v), Data: append(append([]byte{}, b...), byte(v))})
		}
		return
	}
	for _, v := range vals {
		f(Mut{Desc: fmt.Sprintf("ext=%02x", v), Data: append(append([]byte{}, b...), v)})
	}
}

// Strings yields every string over alphabet of length 0..maxLen.
func Strings(alphabet []byte, maxLen int, f func(s []byte)) {
	Sequences(len(alphabet), maxLen, func(seq []int) {
		s := make([]byte, len(seq))
		for i, k := range seq {
			s[i] = alphabet[k]
		}
		f(s)
	})
}

// Par runs f(i) for i in [0,n) on w workers.
func Par(n, w int, f func(i int)) {
	if w < 1 {
		w = 1
	}
	var wg sync.WaitGroup
	ch := make(chan int, 64)
	for k := 0; k < w; k++ {
		wg.Add(1)
		go func() {
			defer wg.Done()
			for i := range ch {
				f(i)
			}
		}()
	}
	for i := 0; i < n; i++ {
		ch <- i
	}
	close(ch)
	wg.Wait()
}

// Try runs f under recover and returns the panic value (nil if none).
func Try(f func()) (p any) {
	defer func() {
		if r := recover(); r != nil {
			p = r
		}
	}()
	f()
	return nil
}
