// Package bytepipe is an in-memory ordered byte stream whose Read returns a
// harness-decided number of bytes. It is instrumented by vinstr (its mutex and
// channels are scheduling points).
package bytepipe

import (
	"io"
	"sync"

	"verifh/vsync"
)

// Mode selects how many bytes a Read returns.
type Mode int

const (
	Full   Mode = iota // as many as available and fit
	OneByte            // one byte per read
	Explore            // deviation-bounded: default full, every shorter length is a costed alternative
)

// Pipe is one direction of a byte stream.
type Pipe struct {
	Mode Mode
	// ErrWithLastData: a Read that drains the buffer after the stream ended
	// returns the final bytes together with the end error (n > 0, err != nil),
	// as io.Reader allows, instead of reporting the error on the next call.
	ErrWithLastData bool

	mu     sync.Mutex
	buf    []byte
	err    error
	wait   chan struct{}
	Reads  []int // sizes returned, for reporting
	Writes int
	// DataWithErr counts reads that returned data and the end error together.
	DataWithErr int
	// gate: while non-nil, Write blocks (the reader's side is not draining:
	// back-pressure); see Stall / Resume.
	gate chan struct{}
}

// Stall makes subsequent Writes block until Resume.
func (p *Pipe) Stall() {
	p.mu.Lock()
	if p.gate == nil {
		p.gate = make(chan struct{})
	}
	p.mu.Unlock()
}

// Resume lets blocked and later Writes proceed.
func (p *Pipe) Resume() {
	p.mu.Lock()
	if p.gate != nil {
		close(p.gate)
		p.gate = nil
	}
	p.mu.Unlock()
}

// Buffered returns a copy of the bytes written and not yet read.
func (p *Pipe) Buffered() []byte {
	p.mu.Lock()
	defer p.mu.Unlock()
	return append([]byte{}, p.buf...)
}

func (p *Pipe) bcast() {
	if p.wait != nil {
		close(p.wait)
		p.wait = nil
	}
}

// Write appends b atomically.
func (p *Pipe) Write(b []byte) (int, error) {
	for {
		p.mu.Lock()
		g := p.gate
		p.mu.Unlock()
		if g == nil {
			break
		}
		<-g
	}
	p.mu.Lock()
	defer p.mu.Unlock()
	if p.err != nil {
		return 0, io.ErrClosedPipe
	}
	p.buf = append(p.buf, b...)
	p.Writes++
	p.bcast()
	return len(b), nil
}

// CloseWith ends the stream: readers get err (io.EOF if nil) after the data.
func (p *Pipe) CloseWith(err error) {
	if err == nil {
		err = io.EOF
	}
	p.mu.Lock()
	if p.err == nil {
		p.err = err
		p.bcast()
	}
	p.mu.Unlock()
}

// Close implements io.Closer.
func (p *Pipe) Close() error { p.CloseWith(io.EOF); return nil }

// Read blocks until data or the end of the stream.
func (p *Pipe) Read(b []byte) (int, error) {
	if len(b) == 0 {
		return 0, nil
	}
	for {
		p.mu.Lock()
		if len(p.buf) > 0 {
			n := len(p.buf)
			if n > len(b) {
				n = len(b)
			}
			switch p.Mode {
			case OneByte:
				n = 1
			case Explore:
				n -= vsync.ChooseCost(n)
			}
			copy(b, p.buf[:n])
			p.buf = p.buf[n:]
			p.Reads = append(p.Reads, n)
			var err error
			if p.ErrWithLastData && len(p.buf) == 0 && p.err != nil {
				err = p.err
				p.DataWithErr++
			}
			p.mu.Unlock()
			return n, err
		}
		if p.err != nil {
			err := p.err
			p.mu.Unlock()
			return 0, err
		}
		if p.wait == nil {
			p.wait = make(chan struct{})
		}
		w := p.wait
		p.mu.Unlock()
		<-w
	}
}

// Duplex is an io.ReadWriteCloser made of two pipes.
type Duplex struct {
	R *Pipe
	W *Pipe
}

func (d *Duplex) Read(b []byte) (int, error)  { return d.R.Read(b) }
func (d *Duplex) Write(b []byte) (int, error) { return d.W.Write(b) }
func (d *Duplex) Close() error {
	d.R.CloseWith(io.ErrClosedPipe)
	d.W.CloseWith(io.EOF)
	return nil
}
