// Package sigfake has in-memory signaling streams between harness clients and
// the real signaling server. It is instrumented by vinstr like the packages
// under test, so its mutexes and channels are scheduling points.
package sigfake

import (
	"sync"
	"context"
	"errors"
	"fmt"
	"io"

	"verifh/rawsync"

	signaling "github.com/aperturerobotics/bifrost/signaling/rpc"
	"github.com/aperturerobotics/starpc/srpc"
)

// Tap observes every message pushed on a pipe (label, message).
type Tap func(label string, m any)

// Pipe is a FIFO with close; Pop blocks. It is a buffered channel so that
// each operation is a single scheduling point.
type Pipe struct {
	Label string
	tap   Tap

	q      chan any
	done   chan struct{}
	err    error
	Pushed int
}

// NewPipe builds a pipe.
func NewPipe(label string, tap Tap) *Pipe {
	return &Pipe{Label: label, tap: tap, q: make(chan any, 256), done: make(chan struct{})}
}

// Push appends m. Pushing on a closed pipe is accepted and never read, like a
// write into a connection whose peer is gone.
func (p *Pipe) Push(m any) error {
	p.q <- m
	p.Pushed++
	if p.tap != nil {
		p.tap(p.Label, m)
	}
	return nil
}

// Close ends the pipe for the reader.
func (p *Pipe) Close(err error) {
	if err == nil {
		err = io.EOF
	}
	if p.err == nil {
		p.err = err
		close(p.done)
	}
}

// Pop removes the next message, blocking until one is available, the pipe is
// closed or ctx ends.
func (p *Pipe) Pop(ctx context.Context) (any, error) {
	select {
	case m := <-p.q:
		return m, nil
	case <-p.done:
		return nil, p.err
	case <-ctx.Done():
		return nil, context.Canceled
	}
}

type identKey struct{}

// WithIdent attaches the authenticated peer id string to a stream context.
func WithIdent(ctx context.Context, id string) context.Context {
	return context.WithValue(ctx, identKey{}, id)
}

// Ident reads the authenticated peer id of a stream context.
func Ident(ctx context.Context) string {
	s, _ := ctx.Value(identKey{}).(string)
	return s
}

type base struct {
	ctx    context.Context
	cancel context.CancelFunc
}

func (b *base) Context() context.Context       { return b.ctx }
func (b *base) MsgSend(msg srpc.Message) error { return errors.New("sigfake: MsgSend unused") }
func (b *base) MsgRecv(msg srpc.Message) error { return errors.New("sigfake: MsgRecv unused") }
func (b *base) CloseSend() error               { return nil }

// Duplex is one Session or Listen call: two pipes and a context.
type Duplex struct {
	base
	Name  string
	ToSrv *Pipe
	ToCli *Pipe
	// open is closed while the client drains its responses; a stalled call
	// (StallFromStart) has it open until Resume: the server's Send blocks
	// (back-pressure) until then or until the call's context ends.
	gmu  sync.Mutex
	open chan struct{}
	// silent: the client's end failed without the relay noticing (a network
	// partition): the client's Close does not reach the server side
	silent bool
	// detached calls: the server side has its own context, so that the client's
	// end can go away (FailSilently) without the relay noticing
	cliCtx    context.Context
	cliCancel context.CancelFunc
}

// NewDetachedDuplex is NewDuplex for a call whose server side does not see the
// client's context end (only an explicit Cancel or a non-silent Close).
func NewDetachedDuplex(ctx context.Context, name, id string, tap Tap) *Duplex {
	d := NewDuplex(context.Background(), name, id, tap)
	d.cliCtx, d.cliCancel = context.WithCancel(ctx)
	return d
}

func (d *Duplex) cctx() context.Context {
	if d.cliCtx != nil {
		return d.cliCtx
	}
	return d.ctx
}

// FailSilently makes the client's Recv fail with err while the server side of
// the call keeps running, unaware (its context is not cancelled and it is not
// told about the client's Close).
func (d *Duplex) FailSilently(err error) {
	d.gmu.Lock()
	d.silent = true
	d.gmu.Unlock()
	d.ToCli.Close(err)
}

func (d *Duplex) isSilent() bool {
	d.gmu.Lock()
	defer d.gmu.Unlock()
	return d.silent
}

// StallFromStart makes the server's Sends on this call block until Resume.
// It must be called before the call is started.
func (d *Duplex) StallFromStart() { d.open = make(chan struct{}) }

// Stall makes the server's subsequent Sends on this call block until Resume
// (a Send already past the gate completes).
func (d *Duplex) Stall() {
	d.gmu.Lock()
	if d.open == nil {
		d.open = make(chan struct{})
	}
	d.gmu.Unlock()
}

// Stalled reports whether the server's Sends on this call currently block.
func (d *Duplex) Stalled() bool {
	d.gmu.Lock()
	defer d.gmu.Unlock()
	return d.open != nil
}

// Resume lets the server's Sends proceed.
func (d *Duplex) Resume() {
	d.gmu.Lock()
	if d.open != nil {
		close(d.open)
		d.open = nil
	}
	d.gmu.Unlock()
}

// gate blocks a server-side Send while the call is stalled.
func (d *Duplex) gate() error {
	for {
		d.gmu.Lock()
		ch := d.open
		d.gmu.Unlock()
		if ch == nil {
			return nil
		}
		select {
		case <-ch:
		case <-d.ctx.Done():
			return context.Canceled
		}
	}
}

// NewDuplex creates the pipes of a call made by the peer with identity id.
func NewDuplex(ctx context.Context, name, id string, tap Tap) *Duplex {
	cctx, cancel := context.WithCancel(WithIdent(ctx, id))
	return &Duplex{
		base:  base{ctx: cctx, cancel: cancel},
		Name:  name,
		ToSrv: NewPipe(name+">srv", tap),
		ToCli: NewPipe("srv>"+name, tap),
	}
}

// Cancel cancels the call's context (client went away).
func (d *Duplex) Cancel() {
	d.cancel()
	if d.cliCancel != nil {
		d.cliCancel()
	}
}

// SrvSession is the server's view of a Session call.
type SrvSession struct{ *Duplex }

func (s SrvSession) Send(m *signaling.SessionResponse) error {
	if err := s.gate(); err != nil {
		return err
	}
	return s.ToCli.Push(m.CloneVT())
}
func (s SrvSession) SendAndClose(m *signaling.SessionResponse) error {
	if m != nil {
		if err := s.Send(m); err != nil {
			return err
		}
	}
	return nil
}
func (s SrvSession) Recv() (*signaling.SessionRequest, error) {
	m, err := s.ToSrv.Pop(s.ctx)
	if err != nil {
		return nil, err
	}
	return m.(*signaling.SessionRequest), nil
}

// RecvTo decodes the next request INTO m the way the real transport does
// (starpc's MsgRecv calls UnmarshalVT on the target without resetting it:
// fields absent on the wire keep their previous values).
func (s SrvSession) RecvTo(m *signaling.SessionRequest) error {
	x, err := s.ToSrv.Pop(s.ctx)
	if err != nil {
		return err
	}
	b, err := x.(*signaling.SessionRequest).MarshalVT()
	if err != nil {
		return err
	}
	return m.UnmarshalVT(b)
}
func (s SrvSession) Close() error                             { return nil }

var _ signaling.SRPCSignaling_SessionStream = SrvSession{}

// SrvListen is the server's view of a Listen call.
type SrvListen struct{ *Duplex }

func (s SrvListen) Send(m *signaling.ListenResponse) error {
	if err := s.gate(); err != nil {
		return err
	}
	return s.ToCli.Push(m.CloneVT())
}
func (s SrvListen) SendAndClose(m *signaling.ListenResponse) error {
	if m != nil {
		return s.Send(m)
	}
	return nil
}
func (s SrvListen) Close() error { return nil }

var _ signaling.SRPCSignaling_ListenStream = SrvListen{}

// CliSession is the client's view of a Session call.
type CliSession struct{ *Duplex }

func (c CliSession) Send(m *signaling.SessionRequest) error {
	if m == nil {
		return nil
	}
	return c.ToSrv.Push(m.CloneVT())
}
func (c CliSession) Recv() (*signaling.SessionResponse, error) {
	m, err := c.ToCli.Pop(c.cctx())
	if err != nil {
		return nil, err
	}
	return m.(*signaling.SessionResponse), nil
}
func (c CliSession) RecvTo(m *signaling.SessionResponse) error {
	x, err := c.ToCli.Pop(c.cctx())
	if err != nil {
		return err
	}
	b, err := x.(*signaling.SessionResponse).MarshalVT()
	if err != nil {
		return err
	}
	return m.UnmarshalVT(b)
}
func (c CliSession) Close() error {
	if c.cliCancel != nil {
		c.cliCancel()
	}
	if c.isSilent() {
		return nil // partitioned: the relay does not learn about it
	}
	c.cancel()
	c.ToSrv.Close(io.EOF)
	return nil
}

var _ signaling.SRPCSignaling_SessionClient = CliSession{}

// CliListen is the client's view of a Listen call.
type CliListen struct{ *Duplex }

func (c CliListen) Recv() (*signaling.ListenResponse, error) {
	m, err := c.ToCli.Pop(c.cctx())
	if err != nil {
		return nil, err
	}
	return m.(*signaling.ListenResponse), nil
}
func (c CliListen) RecvTo(m *signaling.ListenResponse) error {
	x, err := c.ToCli.Pop(c.cctx())
	if err != nil {
		return err
	}
	b, err := x.(*signaling.ListenResponse).MarshalVT()
	if err != nil {
		return err
	}
	return m.UnmarshalVT(b)
}
func (c CliListen) Close() error {
	c.cancel()
	return nil
}

var _ signaling.SRPCSignaling_ListenClient = CliListen{}

// Calls tracks the calls running on a server, for "which calls are active".
type Calls struct {
	mu     rawsync.Mutex
	Active map[string]bool
	Ended  map[string]string // name -> error text
	seq    int
}

// NewCalls builds the call table.
func NewCalls() *Calls { return &Calls{Active: map[string]bool{}, Ended: map[string]string{}} }

// RunSession runs srv.Session for d in a new goroutine.
func (c *Calls) RunSession(srv signaling.SRPCSignalingServer, d *Duplex, onEnd func(name string, err error)) {
	c.mu.Lock()
	c.Active[d.Name] = true
	c.mu.Unlock()
	go func() {
		err := srv.Session(SrvSession{d})
		c.end(d, err, onEnd)
	}()
}

// RunListen runs srv.Listen for d in a new goroutine.
func (c *Calls) RunListen(srv signaling.SRPCSignalingServer, d *Duplex, onEnd func(name string, err error)) {
	c.mu.Lock()
	c.Active[d.Name] = true
	c.mu.Unlock()
	go func() {
		err := srv.Listen(&signaling.ListenRequest{}, SrvListen{d})
		c.end(d, err, onEnd)
	}()
}

func (c *Calls) end(d *Duplex, err error, onEnd func(name string, err error)) {
	c.mu.Lock()
	delete(c.Active, d.Name)
	c.Ended[d.Name] = fmt.Sprint(err)
	c.mu.Unlock()
	if err == nil {
		err = io.EOF
	}
	d.ToCli.Close(err)
	if onEnd != nil {
		onEnd(d.Name, err)
	}
}

// Snapshot returns the active call names and the ended calls.
func (c *Calls) Snapshot() (active []string, ended map[string]string) {
	c.mu.Lock()
	defer c.mu.Unlock()
	for n := range c.Active {
		active = append(active, n)
	}
	ended = map[string]string{}
	for k, v := range c.Ended {
		ended[k] = v
	}
	return
}

// Relay is a signaling.SRPCSignalingClient for one identity that runs calls
// directly on a real server.
type Relay struct {
	Srv   signaling.SRPCSignalingServer
	ID    string
	Name  string
	Tap   Tap
	Calls *Calls

	mu       rawsync.Mutex
	n        int
	Sessions []*Duplex
	Listens  []*Duplex
	// FailNext makes the next n Session() attempts fail before reaching the server.
	FailNext int
	// DetachFirst: the first Session call gets a server side with its own
	// context (needed for FailSilently)
	DetachFirst bool
}

func (r *Relay) SRPCClient() srpc.Client { return nil }

func (r *Relay) Session(ctx context.Context) (signaling.SRPCSignaling_SessionClient, error) {
	r.mu.Lock()
	if r.FailNext > 0 {
		r.FailNext--
		r.mu.Unlock()
		return nil, errors.New("sigfake: dial failed")
	}
	r.n++
	var d *Duplex
	if r.DetachFirst && len(r.Sessions) == 0 {
		d = NewDetachedDuplex(ctx, fmt.Sprintf("%s.s%d", r.Name, r.n), r.ID, r.Tap)
	} else {
		d = NewDuplex(ctx, fmt.Sprintf("%s.s%d", r.Name, r.n), r.ID, r.Tap)
	}
	r.Sessions = append(r.Sessions, d)
	r.mu.Unlock()
	r.Calls.RunSession(r.Srv, d, nil)
	return CliSession{d}, nil
}

func (r *Relay) Listen(ctx context.Context, in *signaling.ListenRequest) (signaling.SRPCSignaling_ListenClient, error) {
	r.mu.Lock()
	r.n++
	d := NewDuplex(ctx, fmt.Sprintf("%s.l%d", r.Name, r.n), r.ID, r.Tap)
	r.Listens = append(r.Listens, d)
	r.mu.Unlock()
	r.Calls.RunListen(r.Srv, d, nil)
	return CliListen{d}, nil
}

// LastSession returns the most recent session call.
func (r *Relay) LastSession() *Duplex {
	r.mu.Lock()
	defer r.mu.Unlock()
	if len(r.Sessions) == 0 {
		return nil
	}
	return r.Sessions[len(r.Sessions)-1]
}

var _ signaling.SRPCSignalingClient = (*Relay)(nil)
