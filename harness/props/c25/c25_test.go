package c25

import (
	"testing"

	"verifh/evid"
	"verifh/mc"
	"verifh/sigh"
)

func scenarios(quick bool) []sigh.Scen {
	s := []sigh.Scen{
		{"dup-session", [][]string{{"attach:a1:A:B"}, {"attach:a2:A:B"}}},
		{"dup-listen", [][]string{{"listen:l1:C"}, {"listen:l2:C"}, {"attach:a1:A:C"}}},
		{"listen-reopen", [][]string{{"listen:l1:C"}, {"attach:a1:A:C", "cancel:a1", "listen:l2:C"}}},
		{"cancel-race", [][]string{{"attach:a1:A:B", "cancel:a1"}, {"attach:b1:B:A", "cancel:b1"}}},
		{"usurp-then-cancel", [][]string{{"attach:a1:A:B", "attach:a2:A:B", "cancel:a2"}, {"attach:b1:B:A"}}},
		// a replaced Listen call that is slow to exit (blocked in Send to a client that does not read) outlives its peer tracker:
		// the tracker is released and re-created (nonce restarts) before the old call runs its cleanup
		{"slow-listen-outlives-tracker", [][]string{{"listens:l1:A", "wait", "attach:b1:B:A", "wait", "cancel:b1", "wait", "listen:l2:A", "wait", "cancel:l2", "wait", "listen:l3:A", "wait", "resume:l1", "wait", "attach:b2:B:A"}}},
		{"slow-session-outlives-tracker", [][]string{{"attachs:a1:A:B", "wait", "attach:a2:A:B", "wait", "cancel:a2", "wait", "attach:a3:A:B", "wait", "resume:a1", "wait", "attach:b1:B:A"}}},
		{"replace-racing-with-cancel", [][]string{{"!setup", "attach:a1:A:B", "attach:b1:B:A", "listen:l1:B", "wait"}, {"attach:a2:A:B", "cancel:a2"}, {"cancel:b1", "listen:l2:B"}}},
		// a replaced call that is blocked in Send (slow client) leaves through its cancelled context / failing Send, without ever noticing that it was replaced
		{"replaced-stalled-session-exits-by-cancel", [][]string{{"attach:b1:B:A", "attachs:a1:A:B", "wait", "attach:a2:A:B", "wait", "cancel:a1", "wait", "send:a2:m1"}}},
		{"replaced-stalled-listen-exits-by-cancel", [][]string{{"attach:a1:A:C", "listens:l1:C", "wait", "listen:l2:C", "wait", "cancel:l1", "wait", "attach:b1:B:C"}}},
		{"listen-cancel-race", [][]string{{"listen:l1:C", "cancel:l1"}, {"attach:a1:A:C", "cancel:a1"}}},
	}
	if !quick {
		s = append(s,
			sigh.Scen{"dup-session-seq", [][]string{{"attach:a1:A:B", "attach:a2:A:B"}, {"attach:b1:B:A"}}},
			sigh.Scen{"listen-reopen-2", [][]string{{"listen:l1:C", "listen:l2:C"}, {"attach:a1:A:C", "cancel:a1", "attach:a2:A:C"}}},
			sigh.Scen{"dup-session-3", [][]string{{"attach:a1:A:B"}, {"attach:a2:A:B"}, {"attach:b1:B:A"}}},
			sigh.Scen{"listen-reopen-3", [][]string{{"listen:l1:C"}, {"attach:a1:A:C", "cancel:a1", "attach:a2:A:C"}, {"listen:l2:C"}}},
			sigh.Scen{"three-peers", [][]string{{"listen:l1:C", "attach:c1:C:A"}, {"attach:a1:A:C", "attach:a2:A:B"}, {"attach:b1:B:A", "listen:l2:B"}}},
			sigh.Scen{"dup-session-both-sides", [][]string{{"attach:a1:A:B", "attach:a2:A:B"}, {"attach:b1:B:A", "attach:b2:B:A"}}},
			sigh.Scen{"triple-listen", [][]string{{"listen:l1:C"}, {"listen:l2:C"}, {"listen:l3:C", "cancel:l3"}}},
			sigh.Scen{"with-traffic", [][]string{{"attach:a1:A:B", "send:a1:m1", "cancel:a1"}, {"attach:b1:B:A", "ack:b1:last", "attach:b2:B:A"}}},
		)
	}
	return s
}

func TestC25(t *testing.T) {
	run := evid.Start("C25", "model_checking")
	agg := mc.NewAgg(run)
	bound := 1
	if !run.Quick() {
		bound = 2
	}
	sigh.ExploreS1(t, run, agg, "V25:", scenarios(run.Quick()), bound)
	agg.Finish(true)
	run.Cov["preemption_bound"] = bound
	run.Assumptions = append(run.Assumptions,
		"clients are harness script threads speaking the raw Listen/Session streams over instrumented in-memory FIFOs",
		"leftover state is read from the relay's private maps (overlay accessor) after every call was cancelled and the system quiesced")
	run.Finish(t)
}
