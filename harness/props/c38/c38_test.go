package c38

import (
	"bytes"
	"crypto/ed25519"
	"encoding/pem"
	"fmt"
	"reflect"
	"strings"
	"sync"
	"testing"
	"time"

	"github.com/aperturerobotics/bifrost/crypto"
	"github.com/aperturerobotics/bifrost/peer"
	"github.com/aperturerobotics/bifrost/protocol"
	"github.com/aperturerobotics/bifrost/tptaddr"
	tptaddr_static "github.com/aperturerobotics/bifrost/tptaddr/static"
	"github.com/aperturerobotics/bifrost/util/confparse"
	"github.com/mr-tron/base58/base58"

	"verifh/enum"
	"verifh/evid"
	"verifh/ref"
)

// refUTF8 is a table-driven UTF-8 validator written from RFC 3629 §4.
func refUTF8(s string) bool {
	b := []byte(s)
	in := func(c, lo, hi byte) bool { return c >= lo && c <= hi }
	for i := 0; i < len(b); {
		c := b[i]
		var lo, hi byte = 0x80, 0xbf
		n := 0
		switch {
		case c <= 0x7f:
			i++
			continue
		case in(c, 0xc2, 0xdf):
			n = 1
		case c == 0xe0:
			n, lo = 2, 0xa0
		case in(c, 0xe1, 0xec) || c == 0xee || c == 0xef:
			n = 2
		case c == 0xed:
			n, hi = 2, 0x9f
		case c == 0xf0:
			n, lo = 3, 0x90
		case in(c, 0xf1, 0xf3):
			n = 3
		case c == 0xf4:
			n, hi = 3, 0x8f
		default:
			return false
		}
		if i+n >= len(b) {
			return false // not enough continuation bytes
		}
		if !in(b[i+1], lo, hi) {
			return false
		}
		for k := 2; k <= n; k++ {
			if !in(b[i+k], 0x80, 0xbf) {
				return false
			}
		}
		i += n + 1
	}
	return true
}

func idStrings(ids []peer.ID) []string {
	out := make([]string, 0, len(ids))
	for _, id := range ids {
		out = append(out, id.String())
	}
	return out
}

func peerID(s string) peer.ID { return peer.ID(s) }

// mutations of a valid textual value: every single-character substitution
// from alphabet, every proper prefix, one appended character.
func textMutations(valid string, alphabet []byte, f func(desc, s string)) {
	enum.ByteSubst([]byte(valid), alphabet, func(m enum.Mut) { f(m.Desc, string(m.Data)) })
	enum.Truncations([]byte(valid), func(m enum.Mut) { f(m.Desc, string(m.Data)) })
	enum.Extensions([]byte(valid), alphabet, func(m enum.Mut) { f(m.Desc, string(m.Data)) })
}

func TestC38(t *testing.T) {
	run := evid.Start("C38", "exploration")
	acc := enum.NewAcc(run, "per parser: all strings up to a length bound over a parser-specific boundary alphabet, a list of valid values, and every single-character substitution (from the alphabet) / truncation / one-character extension of each valid value; address lists: every list of length <= 4 over 2 peers x 3 addresses + 7 malformed entries (all orders, duplicates included); a case is non-trivial if it is not one of the unmodified valid values; distinct by (parser, input)")
	keys := enum.Keys(3)
	quick := run.Quick()

	// one: run a single case under recover.
	one := func(group, key string, nontrivial bool, f func() string) {
		var out string
		if p := enum.Try(func() { out = f() }); p != nil {
			acc.Case(group, key, nontrivial, "panic")
			run.Violation("panic/"+group, fmt.Sprintf("%s panicked on input %s: %v", group, key, p), map[string]any{"parser": group, "input": key})
			return
		}
		acc.Case(group, key, nontrivial, out)
	}
	viol := func(key, what, group, input string) {
		run.Violation(key, what, map[string]any{"parser": group, "input": input})
	}

	// ---------------- protocol IDs ----------------
	{
		alpha := []byte{'a', '/', 0x00, 0x7f, 0x80, 0xbf, 0xc2, 0xe0, 0xa0, 0xed, 0xf0, 0x90, 0xf4, 0xff}
		maxLen := 4
		check := func(s string, nontrivial bool) {
			q := fmt.Sprintf("%q", s)
			want := len(s) > 0 && refUTF8(s)
			one("protocol-id", q, nontrivial, func() string {
				got := protocol.ID(s).Validate() == nil
				if got != want {
					viol(fmt.Sprintf("protocol-id/accept=%v-want=%v", got, want), fmt.Sprintf("protocol.ID(%s).Validate() accepted=%v but non-empty valid UTF-8 = %v", q, got, want), "protocol.ID.Validate", q)
				}
				for _, allowEmpty := range []bool{false, true} {
					id, err := confparse.ParseProtocolID(s, allowEmpty)
					verr := confparse.ValidateProtocolID(s, allowEmpty)
					if (err == nil) != (verr == nil) {
						viol("protocol-id/validate-disagrees-with-parse", fmt.Sprintf("ValidateProtocolID(%s,%v)=%v but ParseProtocolID err=%v", q, allowEmpty, verr, err), "ParseProtocolID", q)
					}
					if s == "" && allowEmpty {
						continue // the caller asked for empty to be let through; not judged
					}
					if (err == nil) != want {
						viol(fmt.Sprintf("protocol-id/parse-accept=%v-want=%v", err == nil, want), fmt.Sprintf("ParseProtocolID(%s,%v) err=%v but non-empty valid UTF-8 = %v", q, allowEmpty, err, want), "ParseProtocolID", q)
					}
					if err == nil {
						id2, err2 := confparse.ParseProtocolID(id.String(), allowEmpty)
						if err2 != nil || id2 != id || string(id) != s {
							viol("roundtrip/protocol-id", fmt.Sprintf("ParseProtocolID(%s) = %q, re-parsing its String() gives %q, %v", q, id, id2, err2), "ParseProtocolID", q)
						}
					}
				}
				if got {
					return "accepted"
				}
				return "rejected"
			})
		}
		enum.Strings(alpha, maxLen, func(b []byte) { check(string(b), true) })
		for _, v := range []string{"bifrost/floodsub", "bifrost/solicit", "x", "héllo/世界", "a\u0000b", "\ufeff", "\ufffd", "\ufffc", "\ufffe", "a\ufffd", "bifrost/\ufffd/1", "\xef\xbf", "\U0010ffff", "\xed\xa0\x80", "\xf4\x90\x80\x80", "\xc0\xaf"} {
			check(v, false)
		}
		// lists
		uni := []string{"", "a", "b", "\xff"}
		enum.Sequences(len(uni), 3, func(seq []int) {
			l := make([]string, len(seq))
			for i, k := range seq {
				l[i] = uni[k]
			}
			for _, allowEmpty := range []bool{false, true} {
				q := fmt.Sprintf("%q/allowEmpty=%v", l, allowEmpty)
				wantOK := true
				for _, e := range l {
					if !(refUTF8(e) && (e != "" || allowEmpty)) {
						wantOK = false
					}
				}
				one("protocol-id-list", q, true, func() string {
					r1, e1 := confparse.ParseProtocolIDs(l, allowEmpty)
					r2, e2 := confparse.ParseProtocolIDsUnique(l, allowEmpty)
					if (e1 == nil) != wantOK || (e2 == nil) != wantOK {
						viol("protocol-id/list-accept", fmt.Sprintf("ParseProtocolIDs(%s): err=%v, unique err=%v, want accepted=%v", q, e1, e2, wantOK), "ParseProtocolIDs", q)
					}
					if wantOK && e1 == nil && e2 == nil {
						// re-parsing the formatted output is a fixed point
						r1b, _ := confparse.ParseProtocolIDs(protocol.IDsToString(r1), allowEmpty)
						r2b, _ := confparse.ParseProtocolIDsUnique(protocol.IDsToString(r2), allowEmpty)
						if !reflect.DeepEqual(r1, r1b) || !reflect.DeepEqual(r2, r2b) {
							viol("roundtrip/protocol-id-list", fmt.Sprintf("ParseProtocolIDs(%s) does not round-trip", q), "ParseProtocolIDs", q)
						}
						return "accepted"
					}
					return "rejected"
				})
			}
		})
	}

	// ---------------- peer IDs ----------------
	var validPeerIDs []string
	{
		for _, k := range keys {
			validPeerIDs = append(validPeerIDs, base58.Encode(ref.EncodeID(k.Std.Public().(ed25519.PublicKey))))
		}
		// a SHA2-256 multihash peer ID (no embedded key): still a well-formed ID
		validPeerIDs = append(validPeerIDs, base58.Encode(append([]byte{0x12, 0x20}, bytes.Repeat([]byte{0x5a}, 32)...)))
		alpha := []byte{'1', '2', 'z', 'Q', '0', 'O', 'I', 'l', ' ', '\n', 0x00, 0xff}
		check := func(s string, nontrivial bool) {
			q := fmt.Sprintf("%q", s)
			one("peer-id", q, nontrivial, func() string {
				id, err := confparse.ParsePeerID(s)
				verr := confparse.ValidatePeerID(s)
				if s != "" && (err == nil) != (verr == nil) {
					viol("peer-id/validate-disagrees-with-parse", fmt.Sprintf("ValidatePeerID(%s)=%v but ParsePeerID err=%v", q, verr, err), "ParsePeerID", q)
				}
				if err != nil {
					if id != "" {
						viol("peer-id/value-and-error", fmt.Sprintf("ParsePeerID(%s) returned both an ID and an error", q), "ParsePeerID", q)
					}
					return "rejected"
				}
				if s == "" {
					return "empty"
				}
				id2, err2 := confparse.ParsePeerID(id.String())
				if err2 != nil || id2 != id {
					viol("roundtrip/peer-id", fmt.Sprintf("ParsePeerID(%s) ok, but re-parsing its String() %q gives %q, %v", q, id.String(), id2.String(), err2), "ParsePeerID", q)
				}
				return "accepted"
			})
		}
		enum.Strings(alpha, 3, func(b []byte) { check(string(b), true) })
		for _, v := range validPeerIDs {
			check(v, false)
			check(" "+v+"\n", true)
			textMutations(v, alpha, func(_, s string) { check(s, true) })
		}
		// lists
		uni := []string{"", validPeerIDs[0], validPeerIDs[1], " " + validPeerIDs[0] + " ", "junk", "\xff"}
		enum.Sequences(len(uni), 3, func(seq []int) {
			l := make([]string, len(seq))
			for i, k := range seq {
				l[i] = uni[k]
			}
			for _, allowEmpty := range []bool{false, true} {
				q := fmt.Sprintf("%q/allowEmpty=%v", l, allowEmpty)
				one("peer-id-list", q, true, func() string {
					r1, e1 := confparse.ParsePeerIDs(l, allowEmpty)
					r2, e2 := confparse.ParsePeerIDsUnique(l, allowEmpty)
					out := "rejected"
					for pass, r := range [][]string{idStrings(r1), idStrings(r2)} {
						if (pass == 0 && e1 != nil) || (pass == 1 && e2 != nil) {
							continue
						}
						out = "accepted"
						var rb []string
						if pass == 0 {
							x, err := confparse.ParsePeerIDs(r, allowEmpty)
							if err != nil {
								viol("roundtrip/peer-id-list", fmt.Sprintf("ParsePeerIDs(%s) ok but its formatted output is rejected: %v", q, err), "ParsePeerIDs", q)
							}
							rb = idStrings(x)
						} else {
							x, err := confparse.ParsePeerIDsUnique(r, allowEmpty)
							if err != nil {
								viol("roundtrip/peer-id-list", fmt.Sprintf("ParsePeerIDsUnique(%s) ok but its formatted output is rejected: %v", q, err), "ParsePeerIDsUnique", q)
							}
							rb = idStrings(x)
						}
						if !reflect.DeepEqual(r, rb) {
							viol("roundtrip/peer-id-list", fmt.Sprintf("peer ID list %s does not round-trip: %q vs %q", q, r, rb), "ParsePeerIDs", q)
						}
					}
					return out
				})
			}
		})
	}

	// ---------------- keys (base58 and PEM) ----------------
	{
		pubB58 := func(k *enum.Key) string {
			return base58.Encode(append([]byte{0x08, 0x01, 0x12, 0x20}, k.Std.Public().(ed25519.PublicKey)...))
		}
		privB58 := func(k *enum.Key) string { return base58.Encode(append([]byte{0x08, 0x01, 0x12, 0x40}, k.Std...)) }
		pubPEM := func(k *enum.Key) string {
			return string(pem.EncodeToMemory(&pem.Block{Type: "LIBP2P PUBLIC KEY", Bytes: append([]byte{0x08, 0x01, 0x12, 0x20}, k.Std.Public().(ed25519.PublicKey)...)}))
		}
		privPEM := func(k *enum.Key) string {
			return string(pem.EncodeToMemory(&pem.Block{Type: "LIBP2P PRIVATE KEY", Bytes: append([]byte{0x08, 0x01, 0x12, 0x40}, k.Std...)}))
		}
		keyEq := func(a, b crypto.Key) bool {
			ra, e1 := a.Raw()
			rb, e2 := b.Raw()
			return e1 == nil && e2 == nil && bytes.Equal(ra, rb) && a.Type() == b.Type() && a.Equals(b) && b.Equals(a)
		}
		checkPub := func(s string, nontrivial bool) {
			q := fmt.Sprintf("%q", s)
			one("public-key", q, nontrivial, func() string {
				k, err := confparse.ParsePublicKey(s)
				if err != nil {
					if k != nil {
						viol("public-key/value-and-error", fmt.Sprintf("ParsePublicKey(%s) returned both a key and an error", q), "ParsePublicKey", q)
					}
					return "rejected"
				}
				if k == nil {
					return "absent"
				}
				f1, merr := confparse.MarshalPublicKey(k)
				k2, err2 := confparse.ParsePublicKey(f1)
				if merr != nil || err2 != nil || k2 == nil || !keyEq(k, k2) {
					viol("roundtrip/public-key-b58", fmt.Sprintf("ParsePublicKey(%s) ok, MarshalPublicKey -> %q (%v), re-parse: %v", q, f1, merr, err2), "ParsePublicKey", q)
				}
				f2, merr := confparse.MarshalPublicKeyPEM(k)
				k3, err3 := confparse.ParsePublicKeyPEM(f2)
				k4, err4 := confparse.ParsePublicKey(string(f2))
				if merr != nil || err3 != nil || err4 != nil || k3 == nil || k4 == nil || !keyEq(k, k3) || !keyEq(k, k4) {
					viol("roundtrip/public-key-pem", fmt.Sprintf("ParsePublicKey(%s) ok, but PEM form does not parse back to the same key (%v %v %v)", q, merr, err3, err4), "ParsePublicKeyPEM", q)
				}
				return "accepted"
			})
		}
		checkPriv := func(s string, nontrivial bool) {
			q := fmt.Sprintf("%q", s)
			one("private-key", q, nontrivial, func() string {
				k, err := confparse.ParsePrivateKey(s)
				if err != nil {
					if k != nil {
						viol("private-key/value-and-error", fmt.Sprintf("ParsePrivateKey(%s) returned both a key and an error", q), "ParsePrivateKey", q)
					}
					return "rejected"
				}
				if k == nil {
					return "absent"
				}
				f1, merr := confparse.MarshalPrivateKey(k)
				k2, err2 := confparse.ParsePrivateKey(f1)
				if merr != nil || err2 != nil || k2 == nil || !keyEq(k, k2) {
					viol("roundtrip/private-key-b58", fmt.Sprintf("ParsePrivateKey(%s) ok, MarshalPrivateKey -> (%v), re-parse: %v", q, merr, err2), "ParsePrivateKey", q)
				}
				f2, merr := confparse.MarshalPrivateKeyPEM(k)
				k3, err3 := confparse.ParsePrivateKeyPEM(f2)
				k4, err4 := confparse.ParsePrivateKey(string(f2))
				if merr != nil || err3 != nil || err4 != nil || k3 == nil || k4 == nil || !keyEq(k, k3) || !keyEq(k, k4) {
					viol("roundtrip/private-key-pem", fmt.Sprintf("ParsePrivateKey(%s) ok, but PEM form does not parse back to the same key (%v %v %v)", q, merr, err3, err4), "ParsePrivateKeyPEM", q)
				}
				return "accepted"
			})
		}
		b58alpha := []byte{'1', '2', 'z', '0', 'O', 'l', ' ', 0x00, 0xff}
		pemAlpha := []byte{'A', '/', '=', '-', ' ', '\n', 0x00, 0xff}
		if !quick {
			pemAlpha = append(pemAlpha, 'B', '+', 'z', '0', ':', '\r')
			b58alpha = append(b58alpha, 'A', 'a', '9', 'I', '\n')
		}
		enum.Strings(b58alpha[:9], 3, func(b []byte) { checkPub(string(b), true); checkPriv(string(b), true) })
		nk := 2
		for _, k := range keys[:nk] {
			for _, v := range []string{pubB58(k), pubPEM(k), privPEM(k), privB58(k)} {
				isPEM := strings.HasPrefix(v, "-----")
				checkPub(v, false)
				checkPriv(v, false)
				checkPub("  "+v+"\n\n", true)
				checkPriv("\t"+v+" ", true)
				a := b58alpha
				if isPEM {
					a = pemAlpha
				}
				textMutations(v, a, func(_, s string) { checkPub(s, true); checkPriv(s, true) })
			}
		}
		// a private key whose redundant trailing public key is present (96-byte libp2p legacy form)
		legacy := base58.Encode(append(append([]byte{0x08, 0x01, 0x12, 0x60}, keys[0].Std...), keys[0].Std[32:]...))
		checkPriv(legacy, false)
		textMutations(legacy, b58alpha, func(_, s string) { checkPriv(s, true) })
		// PEM block types / bodies
		for _, typ := range []string{"LIBP2P PUBLIC KEY", "LIBP2P PRIVATE KEY", "RSA PRIVATE KEY", ""} {
			for _, body := range [][]byte{nil, {0x08}, {0x08, 0x01}, {0x08, 0x01, 0x12, 0x00}, {0x08, 0x00, 0x12, 0x20}, append([]byte{0x08, 0x02, 0x12, 0x20}, make([]byte, 32)...), append([]byte{0x08, 0x01, 0x12, 0x21}, make([]byte, 33)...)} {
				v := string(pem.EncodeToMemory(&pem.Block{Type: typ, Bytes: body}))
				checkPub(v, true)
				checkPriv(v, true)
			}
		}
		// ParsePeer: every combination of {absent, valid, invalid} for the three fields
		privs := []string{"", privB58(keys[0]), privPEM(keys[1]), "junk"}
		pubs := []string{"", pubB58(keys[0]), pubPEM(keys[1]), "junk"}
		ids := []string{"", validPeerIDs[0], validPeerIDs[1], validPeerIDs[3], "junk"}
		enum.Product([]int{len(privs), len(pubs), len(ids)}, func(ix []int) {
			q := fmt.Sprintf("priv#%d,pub#%d,id#%d", ix[0], ix[1], ix[2])
			one("parse-peer", q, true, func() string {
				p, err := confparse.ParsePeer(privs[ix[0]], pubs[ix[1]], ids[ix[2]])
				if (p == nil) == (err == nil) {
					viol("parse-peer/value-xor-error", fmt.Sprintf("ParsePeer(%s) returned peer==nil:%v err:%v", q, p == nil, err), "ParsePeer", q)
				}
				if err != nil {
					return "rejected"
				}
				return "accepted"
			})
			one("validate-pub-key", q, true, func() string {
				var pid string
				if id, err := confparse.ParsePeerID(ids[ix[2]]); err == nil {
					pid = string(id)
				}
				err := confparse.ValidatePubKey(pubs[ix[1]], peerID(pid))
				if err != nil {
					return "rejected"
				}
				return "accepted"
			})
		})
	}

	// ---------------- URLs ----------------
	{
		alpha := []byte{'a', ':', '/', '?', '#', '%', '@', '[', ']', ' ', '.', '2', 0x00, 0x7f, 0xff}
		maxLen := 4
		if quick {
			maxLen = 3
		}
		var urlMu sync.Mutex
		var urlFails []string
		urlFail := 0
		check := func(s string, nontrivial bool) {
			q := fmt.Sprintf("%q", s)
			one("url", q, nontrivial, func() string {
				u, err := confparse.ParseURL(s)
				verr := confparse.ValidateURL(s, false)
				if (verr == nil) != (err == nil && u != nil) {
					viol("url/validate-disagrees-with-parse", fmt.Sprintf("ValidateURL(%s,false)=%v but ParseURL gives nil:%v err:%v", q, verr, u == nil, err), "ParseURL", q)
				}
				if err != nil {
					if u != nil {
						viol("url/value-and-error", fmt.Sprintf("ParseURL(%s) returned both", q), "ParseURL", q)
					}
					return "rejected"
				}
				if u == nil {
					return "absent"
				}
				f := u.String()
				u2, err2 := confparse.ParseURL(f)
				if f == "" {
					// a non-empty input whose canonical form is empty (e.g. "?"): formatting yields "no URL"
					if err2 != nil {
						viol("roundtrip/url", fmt.Sprintf("ParseURL(%s) ok, String()=\"\" fails to re-parse: %v", q, err2), "ParseURL", q)
					}
					return "accepted-formats-empty"
				}
				if err2 != nil || u2 == nil || u2.String() != f {
					// Known net/url behaviour, outside bifrost: a byte >= 0x80 inside an IPv6 zone
					// identifier is emitted by URL.String() as %XX, which url.Parse rejects in a host.
					// Only exactly this shape is exempted; it is counted and sampled in the evidence.
					if !(strings.Contains(u.Host, "%") && strings.HasPrefix(u.Host, "[") && strings.IndexFunc(u.Host, func(r rune) bool { return r >= 0x80 }) >= 0) {
						viol("roundtrip/url", fmt.Sprintf("ParseURL(%s) ok, String()=%q, re-parse: %v / %v", q, f, u2, err2), "ParseURL", q)
						return "accepted-no-roundtrip"
					}
					urlMu.Lock()
					urlFail++
					if len(urlFails) < 60 {
						urlFails = append(urlFails, fmt.Sprintf("%s -> %q -> %v", q, f, err2))
					}
					urlMu.Unlock()
					return "accepted-stdlib-format-not-reparsable"
				}
				if !reflect.DeepEqual(u, u2) {
					return "accepted-reparse-equal-string-different-fields"
				}
				return "accepted"
			})
		}
		enum.Strings(alpha, maxLen, func(b []byte) { check(string(b), true) })
		for _, v := range []string{"http://example.com:8080/a/b?x=1#f", "ws://[::1]:5112/bifrost.ws", "udp://127.0.0.1:5000", "https://user:pw@host/p%2Fq?a=b&c", "/relative/path", "mailto:x@y", "http://h/a b", "//host/path", "http://h?", "http://[fe80::1%25eth0]:80/"} {
			check(v, false)
			textMutations(v, alpha, func(_, s string) { check(s, true) })
		}
		run.Cov["url_format_not_reparsable"] = urlFail
		run.Cov["url_format_not_reparsable_samples"] = urlFails
		uni := []string{"", "http://a", "%zz", "/x"}
		enum.Sequences(len(uni), 3, func(seq []int) {
			l := make([]string, len(seq))
			for i, k := range seq {
				l[i] = uni[k]
			}
			for _, allowEmpty := range []bool{false, true} {
				q := fmt.Sprintf("%q/allowEmpty=%v", l, allowEmpty)
				one("url-list", q, true, func() string {
					us, err := confparse.ParseURLs(l, allowEmpty)
					if err != nil {
						return "rejected"
					}
					var f []string
					for _, u := range us {
						f = append(f, u.String())
					}
					us2, err2 := confparse.ParseURLs(f, allowEmpty)
					if err2 != nil || !reflect.DeepEqual(us, us2) {
						if len(us) != 0 || len(us2) != 0 {
							viol("roundtrip/url-list", fmt.Sprintf("ParseURLs(%s) does not round-trip: %v", q, err2), "ParseURLs", q)
						}
					}
					return "accepted"
				})
			}
		})
	}

	// ---------------- timestamps ----------------
	{
		alpha := []byte{'0', '1', '9', '-', ':', '.', 'T', 'Z', '+', ' ', '"', '\\', 'e', 'n', 0x00, 0xff}
		maxLen := 4
		if quick {
			maxLen = 3
		}
		check := func(s string, nontrivial bool) {
			q := fmt.Sprintf("%q", s)
			one("timestamp", q, nontrivial, func() string {
				ts, err := confparse.ParseTimestamp(s)
				if err != nil {
					if ts != nil {
						viol("timestamp/value-and-error", fmt.Sprintf("ParseTimestamp(%s) returned both", q), "ParseTimestamp", q)
					}
					return "rejected"
				}
				if ts == nil {
					if s != "" {
						viol("timestamp/nil-nil", fmt.Sprintf("ParseTimestamp(%s) returned (nil, nil) for a non-empty input", q), "ParseTimestamp", q)
					}
					return "absent"
				}
				f := confparse.MarshalTimestamp(ts)
				ts2, err2 := confparse.ParseTimestamp(f)
				switch {
				case err2 != nil || ts2 == nil:
					k := "roundtrip/timestamp-formatted-value-rejected"
					if ts.GetSeconds() < -62135596800 || ts.GetSeconds() > 253402300799 {
						k = "roundtrip/timestamp-outside-year-1-9999"
					}
					viol(k, fmt.Sprintf("ParseTimestamp(%s) = {seconds:%d nanos:%d}; MarshalTimestamp gives %q which ParseTimestamp rejects: %v", q, ts.GetSeconds(), ts.GetNanos(), f, err2), "ParseTimestamp", q)
					return "accepted-no-roundtrip"
				case ts2.GetSeconds() != ts.GetSeconds() || ts2.GetNanos() != ts.GetNanos():
					class := "other"
					if ts2.GetSeconds() == ts.GetSeconds() && ts2.GetNanos() == 0 {
						class = "subsecond-digits-lost"
					} else if ts.GetSeconds() < -62135596800 || ts.GetSeconds() > 253402300799 {
						class = "outside-year-1-9999" // accepted by the parser although no RFC 3339 string can denote it
					}
					viol("roundtrip/timestamp-"+class, fmt.Sprintf("ParseTimestamp(%s) = {seconds:%d nanos:%d}; MarshalTimestamp gives %q which parses to {seconds:%d nanos:%d}", q, ts.GetSeconds(), ts.GetNanos(), f, ts2.GetSeconds(), ts2.GetNanos()), "ParseTimestamp", q)
					return "accepted-no-roundtrip"
				}
				return "accepted"
			})
		}
		// shortest first, so that the first recorded counterexample is the smallest
		enum.Strings(alpha, maxLen, func(b []byte) { check(string(b), true) })
		valid := []string{"2021-08-15T15:49:13Z", "1629048153000", "0001-01-01T00:00:00Z", "9999-12-31T23:59:59Z", "1970-01-01T00:00:00Z",
			"2021-08-15T15:49:13.5Z", "2021-08-15T15:49:13.123456789Z", "1629048153500", "-1000", "253402300799000", "-62135596800000"}
		for _, v := range []string{"253402300799999", "253402300800000", "-62135596800001", "9223372036854775807", "-9223372036854775808", "9223372036854775808",
			"2021-08-15T15:49:13+02:00", "2021-08-15 15:49:13Z", "2021-08-15T15:49:13", "2021-08-15T15:49:60Z", "2021-02-30T00:00:00Z", "10000-01-01T00:00:00Z", "0000-01-01T00:00:00Z",
			"null", "true", "{}", "[]", "1.5", "1e3", "\"1\"", "\"2021-08-15T15:49:13Z\"", " 1", "1 ", "01"} {
			check(v, true)
		}
		for _, v := range valid {
			check(v, false)
			textMutations(v, alpha, func(_, s string) { check(s, true) })
		}
	}

	// ---------------- durations ----------------
	{
		alpha := []byte{'0', '1', '9', '-', '+', '.', 'h', 'm', 's', 'n', 'u', 0xc2, 0xb5, ' ', 0xff}
		maxLen := 4
		if quick {
			maxLen = 3
		}
		check := func(s string, nontrivial bool) {
			q := fmt.Sprintf("%q", s)
			one("duration", q, nontrivial, func() string {
				d, err := confparse.ParseDuration(s)
				if err != nil {
					if d != 0 {
						viol("duration/value-and-error", fmt.Sprintf("ParseDuration(%s) returned both", q), "ParseDuration", q)
					}
					return "rejected"
				}
				for _, ie := range []bool{false, true} {
					f := confparse.MarshalDuration(d, ie)
					d2, err2 := confparse.ParseDuration(f)
					if err2 != nil || d2 != d {
						viol("roundtrip/duration", fmt.Sprintf("ParseDuration(%s) = %d ns; MarshalDuration(.,%v) gives %q which parses to %d ns, %v", q, int64(d), ie, f, int64(d2), err2), "ParseDuration", q)
					}
				}
				if d == 0 {
					return "zero"
				}
				return "accepted"
			})
		}
		enum.Strings(alpha, maxLen, func(b []byte) { check(string(b), true) })
		for _, v := range []string{"0", "0s", "-1h", "1.5h", "1h2m3.004s", "9223372036854775807ns", "-9223372036854775808ns", "2562047h47m16.854775807s", "1µs", "1us", "1ms", "100ms", "-0.000000001s"} {
			check(v, false)
			textMutations(v, alpha, func(_, s string) { check(s, true) })
		}
		for _, d := range []time.Duration{0, 1, -1, 999, 1000, 1e6, 1e9, 59 * time.Second, 60 * time.Second, 1<<63 - 1, -1 << 63, -1<<63 + 1} {
			check(d.String(), true)
		}
	}

	// ---------------- transport addresses ----------------
	{
		alpha := []byte{'a', '|', ' ', ':', '/', '1', 0x00, 0xff}
		check := func(s string, nontrivial bool) {
			q := fmt.Sprintf("%q", s)
			one("tptaddr", q, nontrivial, func() string {
				id, addr, err := tptaddr.ParseTptAddr(s)
				if err != nil {
					if id != "" || addr != "" {
						viol("tptaddr/value-and-error", fmt.Sprintf("ParseTptAddr(%s) returned both", q), "ParseTptAddr", q)
					}
					return "rejected"
				}
				f := id + string([]rune{tptaddr.TptAddrDelimiter}) + addr
				id2, addr2, err2 := tptaddr.ParseTptAddr(f)
				if err2 != nil || id2 != id || addr2 != addr {
					viol("roundtrip/tptaddr", fmt.Sprintf("ParseTptAddr(%s) = (%q,%q); formatted %q parses to (%q,%q,%v)", q, id, addr, f, id2, addr2, err2), "ParseTptAddr", q)
				}
				return "accepted"
			})
		}
		enum.Strings(alpha, 5, func(b []byte) { check(string(b), true) })
		for _, v := range []string{"udp|127.0.0.1:5000", "ws|ws://host/x|y", "webrtc|12D3KooW", "a|b"} {
			check(v, false)
			textMutations(v, alpha, func(_, s string) { check(s, true) })
		}
	}

	// ---------------- static peer address lists ----------------
	{
		p1, p2 := validPeerIDs[0], validPeerIDs[1]
		addrs := []string{"udp|1.1.1.1:1", "udp|2.2.2.2:2", "ws|ws://h/x"}
		type entry struct {
			s        string
			peer     string // canonical peer, "" if the entry names no valid peer
			addr     string // the address (trimmed remainder)
			wellForm bool   // {peer}|{transport}|{address} with all three parts non-empty and a valid peer
			formatOK bool   // has the two delimiters at all
		}
		var uni []entry
		for _, p := range []string{p1, p2} {
			for _, a := range addrs {
				uni = append(uni, entry{p + "|" + a, p, a, true, true})
			}
		}
		uni = append(uni,
			entry{"", "", "", false, false},
			entry{p1, "", "", false, false},
			entry{p1 + "|udp", p1, "udp", false, false},
			entry{"junk|udp|1.1.1.1:1", "", "udp|1.1.1.1:1", false, true},
			entry{" " + p1 + " | udp|1.1.1.1:1 ", p1, "udp|1.1.1.1:1", true, true},
			entry{p1 + "||", p1, "|", false, true},
			entry{"|udp|1.1.1.1:1", "", "udp|1.1.1.1:1", false, true},
		)
		maxLen := 4
		enum.Sequences(len(uni), maxLen, func(seq []int) {
			l := make([]string, len(seq))
			for i, k := range seq {
				l[i] = uni[k].s
			}
			q := fmt.Sprintf("%v", seq)
			one("static-address-list", q, true, func() string {
				got, errs := tptaddr_static.ParsePeerAddressMap(l)
				// model: must-have and may-have address sets per peer
				must := map[string]map[string]bool{}
				may := map[string]map[string]bool{}
				for _, k := range seq {
					e := uni[k]
					if e.peer == "" || !e.formatOK {
						continue
					}
					if may[e.peer] == nil {
						may[e.peer] = map[string]bool{}
					}
					may[e.peer][e.addr] = true
					if e.wellForm {
						if must[e.peer] == nil {
							must[e.peer] = map[string]bool{}
						}
						must[e.peer][e.addr] = true
					}
				}
				desc := func() string { return fmt.Sprintf("ParsePeerAddressMap(%q) = %v (errors: %d)", l, got, len(errs)) }
				for p, as := range got {
					if may[p] == nil {
						viol("static/peer-not-given", desc()+": peer "+p+" was given no address", "ParsePeerAddressMap", q)
						continue
					}
					for i, a := range as {
						if !may[p][a] {
							viol("static/address-not-given", desc()+fmt.Sprintf(": address %q was not given for peer %s", a, p), "ParsePeerAddressMap", q)
						}
						if i > 0 && !(as[i-1] < a) {
							if as[i-1] == a {
								viol("static/duplicate", desc()+fmt.Sprintf(": address %q listed twice for peer %s", a, p), "ParsePeerAddressMap", q)
							} else {
								viol("static/unsorted", desc()+fmt.Sprintf(": addresses of peer %s are not sorted", p), "ParsePeerAddressMap", q)
							}
						}
					}
				}
				for p, as := range must {
					have := map[string]bool{}
					for _, a := range got[p] {
						have[a] = true
					}
					for a := range as {
						if !have[a] {
							viol("static/address-missing", desc()+fmt.Sprintf(": address %q given for peer %s is missing", a, p), "ParsePeerAddressMap", q)
						}
					}
				}
				// round trip: format the map as a list and parse it again
				var f []string
				for p, as := range got {
					for _, a := range as {
						f = append(f, p+"|"+a)
					}
				}
				got2, errs2 := tptaddr_static.ParsePeerAddressMap(f)
				if len(errs2) != 0 || !reflect.DeepEqual(got, got2) {
					viol("roundtrip/static-address-list", desc()+fmt.Sprintf("; formatted and re-parsed: %v (errors: %v)", got2, errs2), "ParsePeerAddressMap", q)
				}
				return fmt.Sprintf("peers=%d errs=%d", len(got), len(errs))
			})
		})
		acc.Sample(map[string]any{"parser": "ParsePeerAddressMap", "input": []string{uni[1].s, uni[0].s, uni[1].s, uni[3].s}, "expected": map[string][]string{p1: {addrs[0], addrs[1]}, p2: {addrs[0]}}})
	}

	// ---------------- regular expressions (also in util/confparse) ----------------
	{
		alpha := []byte{'a', '(', ')', '[', ']', '*', '+', '?', '\\', '|', '{', '}', '^', '$', '.', ',', '1', 0xff}
		enum.Strings(alpha, 3, func(b []byte) {
			s := string(b)
			q := fmt.Sprintf("%q", s)
			one("regexp", q, true, func() string {
				re, err := confparse.ParseRegexp(s)
				if err != nil {
					return "rejected"
				}
				if re == nil {
					return "absent"
				}
				re2, err2 := confparse.ParseRegexp(re.String())
				if err2 != nil || re2 == nil || re2.String() != re.String() {
					viol("roundtrip/regexp", fmt.Sprintf("ParseRegexp(%s) does not round-trip: %v", q, err2), "ParseRegexp", q)
				}
				return "accepted"
			})
		})
	}

	acc.Sample(map[string]any{"parser": "ParseTimestamp", "input": "2021-08-15T15:49:13.5Z", "oracle": "MarshalTimestamp(parse(s)) must parse back to seconds=1629042553 nanos=500000000"})
	acc.Sample(map[string]any{"parser": "protocol.ID.Validate", "input": "\xed\xa0\x80", "expected": "rejected (UTF-16 surrogate encoded in UTF-8)"})
	acc.Sample(map[string]any{"parser": "ParseDuration", "input": "-9223372036854775808ns", "oracle": "round-trips through MarshalDuration for both ignoreEmpty values"})
	acc.Finish()
	run.Assumptions = append(run.Assumptions,
		"URLs are formatted with net/url's String(); 'same value' for URLs means the re-parsed URL formats to the same string (field-level differences inside net/url are recorded as an outcome class, not judged)",
		"an address with surrounding white space is considered the same address as its trimmed form",
		"entries of an address list that are not of the form {peer}|{transport}|{address} with three non-empty parts may be kept or skipped",
		"reference UTF-8 validator written from RFC 3629; inputs outside the enumerated alphabets, lengths and mutation ball are not covered")
	run.Finish(t)
}
