package c17

import (
	"bytes"
	"crypto/sha256"
	"encoding/binary"
	"fmt"
	"hash/fnv"
	"sort"
	"sync"
	"sync/atomic"
	"testing"
	"time"

	"github.com/aperturerobotics/bifrost/crypto"
	"github.com/aperturerobotics/bifrost/envelope"

	"verifh/enum"
	"verifh/evid"
	"verifh/ref"
)

// detReader is a deterministic byte stream (SHA-256 in counter mode). It only
// supplies the sealing randomness, which no oracle ever compares.
type detReader struct {
	seed [32]byte
	ctr  uint64
	buf  []byte
}

func newDetReader(s string) *detReader { return &detReader{seed: sha256.Sum256([]byte(s))} }

func (r *detReader) Read(p []byte) (int, error) {
	for i := range p {
		if len(r.buf) == 0 {
			var c [8]byte
			binary.LittleEndian.PutUint64(c[:], r.ctr)
			h := sha256.Sum256(append(r.seed[:], c[:]...))
			r.buf = h[:]
			r.ctr++
		}
		p[i] = r.buf[0]
		r.buf = r.buf[1:]
	}
	return len(p), nil
}

var (
	payloadMenu = [][]byte{{0x42}, bytes.Repeat([]byte{0xa5}, 32), bytes.Repeat([]byte("bifrost!"), 25)}
	ctxMenu     = []string{"", "ctx-a", "myapp/session v1", "5:ctx-a 1"}
)

func pbConfig(c ref.EnvConfig) *envelope.EnvelopeConfig {
	pc := &envelope.EnvelopeConfig{Threshold: c.Threshold, TotalShares: c.Total}
	for _, g := range c.Grants {
		pc.GrantConfigs = append(pc.GrantConfigs, &envelope.EnvelopeGrantConfig{
			ShareCount:     g.ShareCount,
			KeypairIndexes: append([]uint32(nil), g.Idx...),
		})
	}
	return pc
}

// size orders counterexamples: fewer keys, fewer grants, smaller numbers first.
func size(c ref.EnvConfig) int {
	n := c.NKeys*1000000 + len(c.Grants)*100000 + int(c.Threshold)*1000 + int(c.Total)*100
	for _, g := range c.Grants {
		n += int(g.ShareCount)*10 + len(g.Idx)
		if len(g.Idx) == 0 {
			n += 5 // prefer counterexamples whose grants all have a key
		}
	}
	return n
}

func TestC17(t *testing.T) {
	run := evid.Start("C17", "exploration")
	t0 := time.Now()
	limit := 55 * time.Second
	if !run.Quick() {
		limit = 14 * time.Minute
	}
	expired := func() bool { return run.Expired() || time.Since(t0) > limit }

	acc := enum.NewAcc(run, "every sealing configuration in the bound (blocks listed under 'alphabet': recipient keys x grant lists x per-grant share count x key index list {every subset of the recipients, plus the duplicate list 0,0} x threshold 0-3 x total-share override {0,1,2,3,5} x recipient lists with distinct keys and with a key named more than once ([A,A], [A,B,A], [A,A,A])) is passed to the real BuildEnvelope; every accepted one is unsealed with the private keys of all recipients; a combinatorial model says whether any key set can reach threshold+1 shares; a case is one configuration, all distinct by construction and all non-trivial (there is no fixture case); payload and context come from a fixed menu selected by a hash of the configuration")

	keys := enum.Keys(3)
	spaces := ref.EnvSpaces(run.Quick())
	layouts := ref.EnvLayoutsOf(spaces)
	thresholds, totals := ref.EnvThresholds, ref.EnvTotals

	// smallest counterexample per violation key
	var mu sync.Mutex
	type cex struct {
		c    ref.EnvConfig
		what string
	}
	smallest := map[string]cex{}
	counts := map[string]int{}
	note := func(key string, c ref.EnvConfig, what string) {
		mu.Lock()
		counts[key]++
		if old, ok := smallest[key]; !ok || size(c) < size(old.c) || (size(c) == size(old.c) && c.Key() < old.c.Key()) {
			smallest[key] = cex{c, what}
		}
		mu.Unlock()
	}

	// aliases: which fixture key each recipient position holds. Besides the
	// identity, recipient lists that name the same key more than once
	// (the last position repeats the first; all positions hold the same key).
	aliases := func(n int) [][]int {
		switch n {
		case 2:
			return [][]int{{0, 1}, {0, 0}}
		case 3:
			return [][]int{{0, 1, 2}, {0, 1, 0}, {0, 0, 0}}
		}
		id := make([]int, n)
		for i := range id {
			id[i] = i
		}
		return [][]int{id}
	}
	one := func(c ref.EnvConfig, alias []int) {
		ck := c.Key()
		repeated := false
		for i, a := range alias {
			if a != i {
				repeated = true
			}
		}
		if repeated {
			ck += fmt.Sprintf("/recipient-keys=%v", alias)
		}
		h := fnv.New32a()
		h.Write([]byte(ck))
		hv := h.Sum32()
		payload := payloadMenu[hv%uint32(len(payloadMenu))]
		ctx := ctxMenu[(hv/7)%uint32(len(ctxMenu))]
		pubs := make([]crypto.PubKey, c.NKeys)
		privs := make([]crypto.PrivKey, c.NKeys)
		for i := range pubs {
			pubs[i], privs[i] = keys[alias[i]].Pub, keys[alias[i]].Priv
		}
		var env *envelope.Envelope
		var berr error
		if p := enum.Try(func() { env, berr = envelope.BuildEnvelope(newDetReader(ck), ctx, payload, pubs, pbConfig(c)) }); p != nil {
			acc.Case("seal", ck, true, "panic")
			run.Violation("panic/seal", fmt.Sprintf("BuildEnvelope panicked on configuration %s: %v", ck, p), ck)
			return
		}
		openable := c.Openable()
		if berr != nil {
			if openable {
				acc.Case("seal", ck, true, "rejected although openable (allowed by the property): "+berr.Error())
			} else {
				acc.Case("seal", ck, true, "rejected, unopenable ("+c.WhyUnopenable()+"): "+berr.Error())
			}
			return
		}
		// accepted: all recipients together must be able to open it
		var got []byte
		var res *envelope.EnvelopeUnlockResult
		var uerr error
		if p := enum.Try(func() { got, res, uerr = envelope.UnlockEnvelope(ctx, env, privs) }); p != nil {
			acc.Case("seal", ck, true, "accepted, unseal panics")
			run.Violation("panic/unseal", fmt.Sprintf("UnlockEnvelope panicked on %s with all recipient keys: %v", ck, p), ck)
			return
		}
		opened := uerr == nil && res.GetSuccess() && bytes.Equal(got, payload)
		_, reach := c.Reach(c.AllKeys())
		need := int(c.Threshold) + 1
		obs := fmt.Sprintf("observed with all %d recipient keys: err=%v success=%v shares_available=%d shares_needed=%d", c.NKeys, uerr, res.GetSuccess(), res.GetSharesAvailable(), res.GetSharesNeeded())
		switch {
		case openable && opened:
			acc.Case("seal", ck, true, "accepted, opened by all recipients")
		case openable && !opened:
			acc.Case("seal", ck, true, "accepted, openable per model, NOT opened")
			key := "accepted-but-recipients-cannot-open/model-says-openable"
			what := fmt.Sprintf("BuildEnvelope accepted %s and the model says all recipients reach %d >= %d shares, but unsealing with all recipient keys did not return the payload; %s", ck, reach, need, obs)
			note(key, c, what)
		case !openable && !opened:
			why := c.WhyUnopenable()
			acc.Case("seal", ck, true, "accepted, unopenable ("+why+")")
			key := "accepts-unopenable/" + why
			what := fmt.Sprintf("BuildEnvelope accepted %s although no set of recipient keys can ever reach threshold+1=%d shares (shares created %d, placed in grants %v, reachable by all recipients %d); %s", ck, need, c.Created(), c.Placed(), reach, obs)
			note(key, c, what)
		default: // !openable && opened
			acc.Case("seal", ck, true, "accepted, unopenable per model, opened")
			key := "opened-although-model-says-unreachable"
			what := fmt.Sprintf("%s: the model says only %d of %d shares are reachable, yet unsealing returned the payload; %s", ck, reach, need, obs)
			note(key, c, what)
		}
	}

	var done atomic.Int64
	enum.Par(len(layouts), 16, func(i int) {
		for _, th := range thresholds {
			for _, tot := range totals {
				if expired() {
					acc.Capped()
					return
				}
				c := layouts[i]
				c.Threshold, c.Total = th, tot
				for _, al := range aliases(c.NKeys) {
					one(c, al)
					done.Add(1)
				}
			}
		}
	})

	ex := ref.EnvConfig{NKeys: 1, Threshold: 3, Total: 5, Grants: []ref.EnvGrant{{ShareCount: 1, Idx: []uint32{0}}}}
	acc.Sample(map[string]any{"config": ex.Key(), "meaning": "1 recipient, threshold 3 (4 shares needed), total_shares override 5, one grant with 1 share for key0", "model_created": ex.Created(), "model_placed": ex.Placed(), "model_openable": ex.Openable(), "model_cause": ex.WhyUnopenable()})
	acc.Sample(map[string]any{"first": layouts[0].Key(), "last": layouts[len(layouts)-1].Key()})
	// report every violation class once, with its smallest counterexample
	var vkeys []string
	for k := range smallest {
		vkeys = append(vkeys, k)
	}
	sort.Strings(vkeys)
	for _, k := range vkeys {
		for i := 0; i < counts[k]; i++ {
			run.Violation(k, smallest[k].what, smallest[k].c.Key())
		}
	}
	mins := map[string]any{}
	for _, k := range vkeys {
		v := smallest[k]
		mins[k] = map[string]any{"config": v.c.Key(), "what": v.what}
		acc.Sample(map[string]any{"violation": k, "smallest_counterexample": v.c.Key()})
	}
	acc.Finish()
	if len(mins) > 0 {
		run.Cov["smallest_counterexamples"] = mins
	}
	planned := 0
	for _, l := range layouts {
		planned += len(aliases(l.NKeys)) * len(thresholds) * len(totals)
	}
	run.Cov["configurations_planned"] = planned
	run.Cov["configurations_done"] = done.Load()
	var blocks []string
	for _, sp := range spaces {
		blocks = append(blocks, sp.String())
	}
	run.Cov["alphabet"] = map[string]any{"blocks": blocks, "threshold": thresholds, "total_shares": totals, "key_index_lists": "every subset of the recipients (ascending) and the list 0,0", "recipient_keys": "distinct; [A,A]; [A,B,A]; [A,A,A]"}
	run.Assumptions = append(run.Assumptions,
		"the share-distribution model in harness/ref/envelope_model.go (sequential hand-out, distinct share ids, grant reachable iff a listed key is offered) is what doc/ENVELOPE.md and envelope.proto describe",
		"only the stated direction is checked: accepted => openable by all recipients; a rejected but openable configuration is not a violation of the property as written",
		"BuildEnvelope is given a deterministic stream, but circl's Ristretto255 group ignores the reader and draws the secret from crypto/rand: share values differ from run to run and are never compared; payload/context come from a fixed menu; configurations outside the bound are not covered")
	run.Finish(t)
}
