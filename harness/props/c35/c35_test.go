package c35

import (
	"context"
	"fmt"
	"io"
	"net/http"
	"net/url"
	"regexp"
	"sort"
	"strings"
	"sync"
	"testing"
	"time"

	bifrost_http "github.com/aperturerobotics/bifrost/http"
	bifrost_rpc "github.com/aperturerobotics/bifrost/rpc"
	websocket_http "github.com/aperturerobotics/bifrost/transport/websocket/http"
	"github.com/aperturerobotics/controllerbus/bus"
	"github.com/aperturerobotics/controllerbus/controller"
	"github.com/aperturerobotics/controllerbus/core"
	"github.com/aperturerobotics/controllerbus/directive"
	"github.com/aperturerobotics/starpc/srpc"
	"github.com/blang/semver/v4"
	"github.com/sirupsen/logrus"

	"verifh/enum"
	"verifh/evid"
	"verifh/fakes"
)

// ---------------------------------------------------------------------------
// resolving a returned resolver without a bus
// ---------------------------------------------------------------------------

// recHandler is a directive.ResolverHandler that keeps the values a resolver
// emits and signals when the resolver marks itself idle.
type recHandler struct {
	mu     sync.Mutex
	nextID uint32
	ids    []uint32
	vals   map[uint32]directive.Value
	idleCh chan struct{}
	once   sync.Once
}

func newRecHandler() *recHandler {
	return &recHandler{vals: map[uint32]directive.Value{}, idleCh: make(chan struct{})}
}

func (h *recHandler) AddValue(v directive.Value) (uint32, bool) {
	h.mu.Lock()
	defer h.mu.Unlock()
	h.nextID++
	h.ids = append(h.ids, h.nextID)
	h.vals[h.nextID] = v
	return h.nextID, true
}

func (h *recHandler) RemoveValue(id uint32) (directive.Value, bool) {
	h.mu.Lock()
	defer h.mu.Unlock()
	v, ok := h.vals[id]
	delete(h.vals, id)
	return v, ok
}

func (h *recHandler) CountValues(all bool) int {
	h.mu.Lock()
	defer h.mu.Unlock()
	return len(h.vals)
}

func (h *recHandler) ClearValues() []uint32 {
	h.mu.Lock()
	defer h.mu.Unlock()
	var out []uint32
	for _, id := range h.ids {
		if _, ok := h.vals[id]; ok {
			out = append(out, id)
		}
	}
	h.vals = map[uint32]directive.Value{}
	return out
}

func (h *recHandler) MarkIdle(idle bool) {
	if idle {
		h.once.Do(func() { close(h.idleCh) })
	}
}
func (h *recHandler) AddValueRemovedCallback(id uint32, cb func()) func() { return func() {} }
func (h *recHandler) AddResolverRemovedCallback(cb func()) func()         { return func() {} }
func (h *recHandler) AddResolver(r directive.Resolver, cb func()) func()  { return func() {} }

func (h *recHandler) snapshot() []directive.Value {
	h.mu.Lock()
	defer h.mu.Unlock()
	var out []directive.Value
	for _, id := range h.ids {
		if v, ok := h.vals[id]; ok {
			out = append(out, v)
		}
	}
	return out
}

var _ directive.ResolverHandler = (*recHandler)(nil)

// resolveAll runs every resolver until it returns or marks itself idle, calls
// use with the values present at that point, then cancels the resolver and
// waits for it to return. ok=false means the liveness cap expired (reported
// as not exhaustive, never as a violation).
func resolveAll(resolvers []directive.Resolver, use func(vals []directive.Value)) (ok bool) {
	for _, res := range resolvers {
		h := newRecHandler()
		ctx, cancel := context.WithCancel(context.Background())
		done := make(chan struct{})
		go func() {
			defer close(done)
			_ = res.Resolve(ctx, h)
		}()
		returned := false
		select {
		case <-done:
			returned = true
		case <-h.idleCh:
		case <-time.After(60 * time.Second):
			cancel()
			return false
		}
		use(h.snapshot())
		cancel()
		if !returned {
			select {
			case <-done:
			case <-time.After(60 * time.Second):
				return false
			}
		}
	}
	return true
}

// ---------------------------------------------------------------------------
// shared oracle pieces
// ---------------------------------------------------------------------------

// reSpec is a regular expression of the plan together with the same
// predicate written by hand.
type reSpec struct {
	src   string
	match func(s string) bool
}

func (r *reSpec) compile() *regexp.Regexp {
	if r == nil {
		return nil
	}
	return regexp.MustCompile(r.src)
}

func (r *reSpec) String() string {
	if r == nil {
		return "-"
	}
	return r.src
}

var (
	reStartA = &reSpec{`^a`, func(s string) bool { return len(s) > 0 && s[0] == 'a' }}
	reEndB   = &reSpec{`b$`, func(s string) bool { return len(s) > 0 && s[len(s)-1] == 'b' }}
	reAny    = &reSpec{`.*`, func(s string) bool { return true }}
	reSlashA = &reSpec{`^/a`, func(s string) bool { return len(s) > 1 && s[0] == '/' && s[1] == 'a' }}
	reS      = &reSpec{`^s$`, func(s string) bool { return s == "s" }}
)

// firstPrefix returns the first configured prefix that id starts with.
func firstPrefix(id string, prefixes []string) (string, bool) {
	for _, p := range prefixes {
		if len(id) >= len(p) && id[:len(p)] == p {
			return p, true
		}
	}
	return "", false
}

// laterNonEmpty reports whether a non-empty configured prefix matches id.
func nonEmptyPrefixMatches(id string, prefixes []string) bool {
	for _, p := range prefixes {
		if p != "" && len(id) >= len(p) && id[:len(p)] == p {
			return true
		}
	}
	return false
}

// sawClass summarises what a handler saw relative to the query.
func sawClass(seen []string, query string) string {
	switch {
	case len(seen) == 0:
		return "handler not reached"
	case len(seen) == 1 && seen[0] == query:
		return "handler saw the query unchanged"
	}
	return "handler saw something else"
}

func prefixLists(menu []string) [][]string { return prefixListsN(menu, 2) }

// prefixListsN: every ordered list (repetitions allowed) of at most n entries.
func prefixListsN(menu []string, n int) [][]string {
	var out [][]string
	enum.Sequences(len(menu), n, func(seq []int) {
		var l []string
		for _, k := range seq {
			l = append(l, menu[k])
		}
		out = append(out, l)
	})
	return out
}

func allStrings(alphabet string, maxLen int) []string {
	var out []string
	enum.Strings([]byte(alphabet), maxLen, func(s []byte) { out = append(out, string(s)) })
	return out
}

func q(l []string) string {
	if len(l) == 0 {
		return "[]"
	}
	return fmt.Sprintf("%q", l)
}

// ---------------------------------------------------------------------------
// recording endpoints
// ---------------------------------------------------------------------------

// recInvoker is the srpc.Invoker behind the RPC controllers: it records the
// service ID it is invoked with.
type recInvoker struct {
	mu   sync.Mutex
	seen []string
}

func (r *recInvoker) InvokeMethod(serviceID, methodID string, strm srpc.Stream) (bool, error) {
	r.mu.Lock()
	r.seen = append(r.seen, serviceID)
	r.mu.Unlock()
	return true, nil
}
func (r *recInvoker) take() []string {
	r.mu.Lock()
	defer r.mu.Unlock()
	s := r.seen
	r.seen = nil
	return s
}

// recHTTP is the http.Handler behind the HTTP controller.
type recHTTP struct {
	name string
	mu   sync.Mutex
	seen []string
}

func (r *recHTTP) ServeHTTP(w http.ResponseWriter, req *http.Request) {
	r.mu.Lock()
	r.seen = append(r.seen, req.URL.Path)
	r.mu.Unlock()
}
func (r *recHTTP) take() []string {
	r.mu.Lock()
	defer r.mu.Unlock()
	s := r.seen
	r.seen = nil
	return s
}

type nullRW struct {
	h    http.Header
	code int
}

func (w *nullRW) Header() http.Header {
	if w.h == nil {
		w.h = http.Header{}
	}
	return w.h
}
func (w *nullRW) Write(b []byte) (int, error) { return len(b), nil }
func (w *nullRW) WriteHeader(c int)           { w.code = c }

// ---------------------------------------------------------------------------

type viol struct {
	what, caseKey string
	count         int
}

type checker struct {
	vmu      sync.Mutex
	viols    map[string]*viol
	run      *evid.Run
	acc      *enum.Acc
	capped   bool
	cappedMu sync.Mutex
	samples  map[string]int
	smu      sync.Mutex
}

// violate keeps, per key, the smallest counterexample (shortest case key,
// then lexicographic) so that the report does not depend on worker timing.
func (c *checker) violate(key, what, caseKey string) {
	c.vmu.Lock()
	defer c.vmu.Unlock()
	v := c.viols[key]
	if v == nil {
		c.viols[key] = &viol{what, caseKey, 1}
		return
	}
	v.count++
	if len(caseKey) < len(v.caseKey) || (len(caseKey) == len(v.caseKey) && caseKey < v.caseKey) {
		v.what, v.caseKey = what, caseKey
	}
}

func (c *checker) flush() {
	keys := make([]string, 0, len(c.viols))
	for k := range c.viols {
		keys = append(keys, k)
	}
	sort.Strings(keys)
	for _, k := range keys {
		v := c.viols[k]
		c.run.Violation(k, fmt.Sprintf("%s [%d cases in this class]", v.what, v.count), map[string]any{"case": v.caseKey, "cases_in_class": v.count})
	}
}

func (c *checker) cap() {
	c.cappedMu.Lock()
	c.capped = true
	c.cappedMu.Unlock()
	c.acc.Capped()
}

// sampleOnce keeps the first case of each outcome class of a group (bounded).
func (c *checker) sampleOnce(class string, v map[string]any) {
	g, _ := v["group"].(string)
	c.smu.Lock()
	n := c.samples[class]
	c.samples[class]++
	ng := c.samples["group:"+g]
	if n == 0 && ng < 2 {
		c.samples["group:"+g]++
	}
	c.smu.Unlock()
	if n == 0 && ng < 2 {
		c.acc.Sample(v)
	}
}

var info = controller.NewInfo("verif/c35", semver.MustParse("0.0.1"), "c35 harness")

// ---- RpcServiceController --------------------------------------------------

type rpcConf struct {
	prefixes []string
	re       *reSpec
	list     []string
	serverRe *reSpec
	strip    bool
}

func (c rpcConf) String() string {
	return fmt.Sprintf("prefixes=%s re=%s list=%s serverRe=%s strip=%v", q(c.prefixes), c.re, q(c.list), c.serverRe, c.strip)
}

func (ck *checker) rpcService(group string, ids, servers []string, prefixMenu []string, maxPrefixes int, viaBus bool, le *logrus.Entry) {
	var confs []rpcConf
	for _, pl := range prefixListsN(prefixMenu, maxPrefixes) {
		for _, re := range []*reSpec{nil, reStartA, reEndB, reAny} {
			for _, list := range [][]string{nil, {"a"}, {"ab"}, {"a", "ab"}} {
				for _, sre := range []*reSpec{nil, reS} {
					for _, strip := range []bool{false, true} {
						confs = append(confs, rpcConf{pl, re, list, sre, strip})
					}
				}
			}
		}
	}
	enum.Par(len(confs), 16, func(ci int) {
		if ck.run.Expired() {
			ck.cap()
			return
		}
		cf := confs[ci]
		rec := &recInvoker{}
		ctrl := bifrost_rpc.NewRpcServiceController(info, bifrost_rpc.NewRpcServiceBuilder(rec), cf.prefixes, cf.strip, cf.re.compile(), cf.list, cf.serverRe.compile())
		ctx, cancel := context.WithCancel(context.Background())
		defer cancel()
		var b bus.Bus
		if viaBus {
			var err error
			b, _, err = core.NewCoreBus(ctx, le)
			if err != nil {
				evid.Fatal("NewCoreBus: %v", err)
			}
			if _, err := b.AddController(ctx, ctrl, nil); err != nil {
				evid.Fatal("AddController: %v", err)
			}
		} else {
			_ = ctrl.Execute(ctx)
		}
		// lookup performs one lookup and invokes whatever it yields.
		lookup := func(id, srv string) (answered bool, nvals int, seen []string, fail string, live bool) {
			live = true
			if viaBus {
				var vals []bifrost_rpc.LookupRpcServiceValue
				var ref directive.Reference
				var err error
				pv := enum.Try(func() {
					lctx, lcancel := context.WithTimeout(ctx, 60*time.Second)
					defer lcancel()
					vals, _, ref, err = bifrost_rpc.ExLookupRpcService(lctx, b, id, srv, false, nil)
					if err != nil && lctx.Err() != nil && ctx.Err() == nil {
						live = false
					}
				})
				if !live {
					return
				}
				if pv != nil || err != nil {
					return false, 0, nil, fmt.Sprintf("panic=%v err=%v", pv, err), true
				}
				for _, v := range vals {
					_, _ = v.InvokeMethod(id, "m", nil)
				}
				if ref != nil {
					ref.Release()
				}
				return len(vals) != 0, len(vals), rec.take(), "", true
			}
			var resolvers []directive.Resolver
			var err error
			pv := enum.Try(func() {
				resolvers, err = ctrl.HandleDirective(ctx, &fakes.Instance{Dir: bifrost_rpc.NewLookupRpcService(id, srv), Ctx: ctx})
			})
			if pv != nil || err != nil {
				return false, 0, nil, fmt.Sprintf("panic=%v err=%v", pv, err), true
			}
			if len(resolvers) == 0 {
				return false, 0, nil, "", true
			}
			live = resolveAll(resolvers, func(vals []directive.Value) {
				nvals += len(vals)
				for _, v := range vals {
					if inv, ok := v.(srpc.Invoker); ok {
						_, _ = inv.InvokeMethod(id, "m", nil)
					}
				}
				seen = append(seen, rec.take()...)
			})
			return true, nvals, seen, "", live
		}
		noFilter := len(cf.prefixes) == 0 && cf.re == nil && len(cf.list) == 0
		nt := !noFilter || cf.serverRe != nil // a configuration that filters something
		for _, id := range ids {
			fp, byPrefix := firstPrefix(id, cf.prefixes)
			byRe := cf.re != nil && cf.re.match(id)
			byList := false
			for _, l := range cf.list {
				byList = byList || l == id
			}
			for _, srv := range servers {
				caseKey := fmt.Sprintf("%s | id=%q server=%q", cf, id, srv)
				serverOK := cf.serverRe == nil || cf.serverRe.match(srv)
				want := (noFilter || byPrefix || byRe || byList) && serverOK
				got, nvals, seen, fail, live := lookup(id, srv)
				if !live {
					ck.cap()
					ck.acc.Case(group, caseKey, nt, "liveness-cap")
					continue
				}
				if fail != "" {
					ck.acc.Case(group, caseKey, nt, "panic-or-error")
					ck.violate("rpc-service/panic-or-error", fmt.Sprintf("lookup failed for %s: %s", caseKey, fail), caseKey)
					continue
				}
				if got != want {
					out := "answers-nonmatching"
					if want {
						out = "declines-matching"
					}
					ck.acc.Case(group, caseKey, nt, out)
					ck.violate("rpc-service/"+out, fmt.Sprintf("RpcServiceController{%s}: lookup (service %q, server %q) answered=%v, filters say %v (prefix=%v regex=%v list=%v nofilter=%v serverOK=%v)", cf, id, srv, got, want, byPrefix, byRe, byList, noFilter, serverOK), caseKey)
					continue
				}
				if !got {
					ck.acc.Case(group, caseKey, nt, "declined")
					continue
				}
				sawDesc := fmt.Sprintf("values=%d handler-saw=%q", nvals, seen)
				// what the handler must see
				var wantSeen string
				judged := true
				class := ""
				switch {
				case !cf.strip || len(cf.prefixes) == 0:
					wantSeen, class = id, "answered/unstripped"
				case byPrefix:
					wantSeen, class = id[len(fp):], "answered/stripped-prefix"
					if fp == "" {
						class = "answered/stripped-empty-prefix"
					}
				default:
					// matched by regex / list only while stripping is on: no
					// prefix was matched, so nothing is removed - and a
					// registration that answers must be reachable
					wantSeen, class = id, "answered/strip-on-matched-by-regex-or-list-only"
				}
				if !judged {
					ck.acc.Case(group, caseKey, nt, class)
					ck.sampleOnce(group+class, map[string]any{"group": group, "config": cf.String(), "service_id": id, "server_id": srv, "observed": sawDesc, "judged": false})
					continue
				}
				if len(seen) == 1 && seen[0] == wantSeen && nvals == 1 {
					ck.acc.Case(group, caseKey, nt, class)
					ck.sampleOnce(group+class, map[string]any{"group": group, "config": cf.String(), "service_id": id, "server_id": srv, "handler_saw": seen[0]})
					continue
				}
				key := "rpc-service/handler-sees-wrong-id"
				if len(seen) == 0 {
					key = "rpc-service/answered-but-handler-unreachable"
				}
				if fp == "" && byPrefix && cf.strip {
					key += "/empty-prefix"
				}
				ck.acc.Case(group, caseKey, nt, "wrong: "+key)
				ck.violate(key, fmt.Sprintf("RpcServiceController{%s}: lookup (service %q, server %q) is answered, first matching prefix %q, handler must see %q; observed %s", cf, id, srv, fp, wantSeen, sawDesc), caseKey)
			}
		}
	})
}

// ---- InvokerController ------------------------------------------------------

func (ck *checker) invoker(ids, servers []string, lists [][]string, le *logrus.Entry) {
	const group = "invoker"
	enum.Par(len(lists), 16, func(ci int) {
		prefixes := lists[ci]
		rec := &recInvoker{}
		ctrl := bifrost_rpc.NewInvokerController(le, nil, info, rec, prefixes)
		ctx := context.Background()
		nt := len(prefixes) != 0
		for _, id := range ids {
			fp, byPrefix := firstPrefix(id, prefixes)
			want := len(prefixes) == 0 || byPrefix
			for _, srv := range servers {
				caseKey := fmt.Sprintf("prefixes=%s | id=%q server=%q", q(prefixes), id, srv)
				var resolvers []directive.Resolver
				var err error
				pv := enum.Try(func() {
					resolvers, err = ctrl.HandleDirective(ctx, &fakes.Instance{Dir: bifrost_rpc.NewLookupRpcService(id, srv), Ctx: ctx})
				})
				if pv != nil || err != nil {
					ck.acc.Case(group, caseKey, nt, "panic-or-error")
					ck.violate(group+"/panic-or-error", fmt.Sprintf("HandleDirective failed for %s: panic=%v err=%v", caseKey, pv, err), caseKey)
					continue
				}
				got := len(resolvers) != 0
				if got != want {
					out := "answers-nonmatching"
					if want {
						out = "declines-matching"
						if fp == "" {
							// the first matching prefix is the empty string
							if nonEmptyPrefixMatches(id, prefixes) {
								out += "/empty-prefix-hides-later-matching-prefix"
							} else {
								out += "/empty-prefix"
							}
						}
					}
					ck.acc.Case(group, caseKey, nt, out)
					ck.violate(group+"/"+out, fmt.Sprintf("InvokerController{prefixes=%s}: lookup (service %q, server %q) answered=%v, prefix filter says %v (first matching prefix %q)", q(prefixes), id, srv, got, want, fp), caseKey)
					continue
				}
				if !got {
					ck.acc.Case(group, caseKey, nt, "declined")
					continue
				}
				var seen []string
				nvals := 0
				if !resolveAll(resolvers, func(vals []directive.Value) {
					nvals += len(vals)
					for _, v := range vals {
						if inv, ok := v.(srpc.Invoker); ok {
							_, _ = inv.InvokeMethod(id, "m", nil)
						}
					}
					seen = append(seen, rec.take()...)
				}) {
					ck.cap()
					continue
				}
				wantSeen := id
				class := "answered/no-prefixes"
				if len(prefixes) != 0 {
					wantSeen = id[len(fp):]
					class = "answered/stripped-prefix"
				}
				if len(seen) == 1 && seen[0] == wantSeen && nvals == 1 {
					ck.acc.Case(group, caseKey, nt, class)
					ck.sampleOnce(group+class, map[string]any{"group": group, "prefixes": prefixes, "service_id": id, "server_id": srv, "handler_saw": seen[0]})
					continue
				}
				key := group + "/handler-sees-wrong-id"
				if len(seen) == 0 {
					key = group + "/answered-but-handler-unreachable"
				}
				ck.acc.Case(group, caseKey, nt, "wrong: "+key)
				ck.violate(key, fmt.Sprintf("InvokerController{prefixes=%s}: lookup (service %q) answered, first matching prefix %q, handler must see %q; observed values=%d handler-saw=%q", q(prefixes), id, fp, wantSeen, nvals, seen), caseKey)
			}
		}
	})
}

// ---- HTTPHandlerController --------------------------------------------------

type httpConf struct {
	prefixes []string
	re       *reSpec
	strip    bool
}

func (c httpConf) String() string {
	return fmt.Sprintf("prefixes=%s re=%s strip=%v", q(c.prefixes), c.re, c.strip)
}

func (ck *checker) httpHandler(paths, methods []string) {
	var confs []httpConf
	for _, pl := range prefixLists([]string{"", "a", "a/", "ab", "b", "/", "/a"}) {
		for _, re := range []*reSpec{nil, reStartA, reEndB, reAny, reSlashA} {
			for _, strip := range []bool{false, true} {
				confs = append(confs, httpConf{pl, re, strip})
			}
		}
	}
	const group = "http"
	enum.Par(len(confs), 16, func(ci int) {
		if ck.run.Expired() {
			ck.cap()
			return
		}
		cf := confs[ci]
		rec := &recHTTP{}
		ctrl := bifrost_http.NewHTTPHandlerController(info, bifrost_http.NewHTTPHandlerBuilder(rec), cf.prefixes, cf.strip, cf.re.compile())
		ctx, cancel := context.WithCancel(context.Background())
		defer cancel()
		_ = ctrl.Execute(ctx)
		noFilter := len(cf.prefixes) == 0 && cf.re == nil
		nt := !noFilter
		for _, p := range paths {
			fp, byPrefix := firstPrefix(p, cf.prefixes)
			byRe := cf.re != nil && cf.re.match(p)
			want := noFilter || byPrefix || byRe
			for _, m := range methods {
				caseKey := fmt.Sprintf("%s | %s %q", cf, m, p)
				u := &url.URL{Path: p}
				var resolvers []directive.Resolver
				var err error
				pv := enum.Try(func() {
					resolvers, err = ctrl.HandleDirective(ctx, &fakes.Instance{Dir: bifrost_http.NewLookupHTTPHandler(m, u, "client"), Ctx: ctx})
				})
				if pv != nil || err != nil {
					ck.acc.Case(group, caseKey, nt, "panic-or-error")
					ck.violate(group+"/panic-or-error", fmt.Sprintf("HandleDirective failed for %s: panic=%v err=%v", caseKey, pv, err), caseKey)
					continue
				}
				got := len(resolvers) != 0
				if got != want {
					out := "answers-nonmatching"
					if want {
						out = "declines-matching"
					}
					ck.acc.Case(group, caseKey, nt, out)
					ck.violate(group+"/"+out, fmt.Sprintf("HTTPHandlerController{%s}: lookup %s %q answered=%v, filters say %v (prefix=%v regex=%v nofilter=%v)", cf, m, p, got, want, byPrefix, byRe, noFilter), caseKey)
					continue
				}
				if !got {
					ck.acc.Case(group, caseKey, nt, "declined")
					continue
				}
				var seen []string
				nvals, code := 0, 0
				if !resolveAll(resolvers, func(vals []directive.Value) {
					nvals += len(vals)
					for _, v := range vals {
						if h, ok := v.(http.Handler); ok {
							rm := m
							if rm == "" {
								rm = "GET"
							}
							w := &nullRW{}
							h.ServeHTTP(w, &http.Request{Method: rm, URL: &url.URL{Path: p}, Header: http.Header{}})
							code = w.code
						}
					}
					seen = append(seen, rec.take()...)
				}) {
					ck.cap()
					continue
				}
				sawDesc := fmt.Sprintf("values=%d handler-saw=%q status=%d", nvals, seen, code)
				var wantSeen, class string
				judged := true
				switch {
				case !cf.strip || len(cf.prefixes) == 0:
					wantSeen, class = p, "answered/unstripped"
				case byPrefix:
					wantSeen, class = p[len(fp):], "answered/stripped-prefix"
					if fp == "" {
						class = "answered/stripped-empty-prefix"
					}
				default:
					// matched by the regex only: no prefix to remove, the request arrives unchanged
					wantSeen, class = p, "answered/strip-on-matched-by-regex-only"
				}
				if !judged {
					ck.acc.Case(group, caseKey, nt, class)
					ck.sampleOnce(group+class, map[string]any{"group": group, "config": cf.String(), "method": m, "path": p, "observed": sawDesc, "judged": false})
					continue
				}
				if len(seen) == 1 && seen[0] == wantSeen && nvals == 1 {
					ck.acc.Case(group, caseKey, nt, class)
					ck.sampleOnce(group+class, map[string]any{"group": group, "config": cf.String(), "method": m, "path": p, "handler_saw": seen[0]})
					continue
				}
				key := group + "/handler-sees-wrong-path"
				if len(seen) == 0 {
					key = group + "/answered-but-handler-unreachable"
				}
				ck.acc.Case(group, caseKey, nt, "wrong: "+key)
				ck.violate(key, fmt.Sprintf("HTTPHandlerController{%s}: lookup %s %q is answered, first matching prefix %q, handler must see %q; observed %s", cf, m, p, fp, wantSeen, sawDesc), caseKey)
			}
		}
	})
}

// ---- ServeMux pattern matching ---------------------------------------------

type muxPat struct {
	method, path string
}

func (p muxPat) String() string {
	if p.method == "" {
		return p.path
	}
	return p.method + " " + p.path
}

func (p muxPat) subtree() bool { return strings.HasSuffix(p.path, "/") }

func (p muxPat) pathOK(path string) bool {
	if p.subtree() {
		return strings.HasPrefix(path, p.path)
	}
	return path == p.path
}

// methodOK: a pattern without a method matches any; GET also matches HEAD.
func (p muxPat) methodOK(m string) bool {
	return p.method == "" || p.method == m || (p.method == "GET" && m == "HEAD")
}

// cleanPath reports whether ServeMux would use the path as is: rooted, no
// empty segment except a trailing one, no "." or ".." segment.
func cleanPath(p string) bool {
	if !strings.HasPrefix(p, "/") {
		return false
	}
	segs := strings.Split(p[1:], "/")
	for i, s := range segs {
		if s == "." || s == ".." {
			return false
		}
		if s == "" && i != len(segs)-1 {
			return false
		}
	}
	return true
}

// mostSpecific orders matching patterns: exact path before subtree, longer
// path first, with method before without.
func mostSpecific(ms []muxPat) muxPat {
	sort.SliceStable(ms, func(i, j int) bool {
		a, b := ms[i], ms[j]
		if a.subtree() != b.subtree() {
			return !a.subtree()
		}
		if len(a.path) != len(b.path) {
			return len(a.path) > len(b.path)
		}
		return a.method != "" && b.method == ""
	})
	return ms[0]
}

func (ck *checker) mux(menu []muxPat, paths, methods []string, le *logrus.Entry) {
	nsets := 1 << len(menu)
	const gF, gR = "mux-match", "mux-registration"
	enum.Par(nsets, 16, func(mask int) {
		var set []muxPat
		var patStrs []string
		for i, p := range menu {
			if mask&(1<<i) != 0 {
				set = append(set, p)
				patStrs = append(patStrs, p.String())
			}
		}
		// function level: own mux with one recording handler per pattern
		mux := http.NewServeMux()
		recs := map[string]*recHTTP{}
		for _, p := range set {
			r := &recHTTP{name: p.String()}
			recs[p.String()] = r
			mux.Handle(p.String(), r)
		}
		// registration level: the real websocket-http controller with these patterns
		ws, err := websocket_http.NewWebSocketHttp(le, nil, &websocket_http.Config{HttpPatterns: patStrs})
		if err != nil {
			evid.Fatal("NewWebSocketHttp(%v): %v", patStrs, err)
		}
		ctx := context.Background()
		nt := len(set) != 0
		for _, p := range paths {
			clean := cleanPath(p)
			treeRedirect := false
			if clean && !strings.HasSuffix(p, "/") {
				for _, pt := range set {
					if pt.path == p+"/" {
						treeRedirect = true
					}
				}
			}
			for _, m := range methods {
				caseKey := fmt.Sprintf("patterns=%s | %s %q", q(patStrs), m, p)
				dir := bifrost_http.NewLookupHTTPHandler(m, &url.URL{Path: p}, "client")
				var h http.Handler
				var pat string
				var resolvers []directive.Resolver
				pv := enum.Try(func() {
					h, pat = bifrost_http.MatchServeMuxPattern(mux, dir)
					resolvers, err = ws.ResolveLookupHTTPHandler(ctx, dir)
				})
				if pv != nil || err != nil {
					ck.acc.Case(gF, caseKey, nt, "panic-or-error")
					ck.violate(gF+"/panic-or-error", fmt.Sprintf("mux matching failed for %s: panic=%v err=%v", caseKey, pv, err), caseKey)
					continue
				}
				answered := len(resolvers) != 0
				obs := fmt.Sprintf("pattern=%q handler-nil=%v registration-answers=%v", pat, h == nil, answered)
				if !clean {
					ck.acc.Case(gF, caseKey, nt, "unjudged/path-not-canonical: "+fmt.Sprintf("handler-nil=%v answers=%v", h == nil, answered))
					continue
				}
				if treeRedirect {
					ck.acc.Case(gF, caseKey, nt, "unjudged/trailing-slash-redirect-candidate")
					continue
				}
				// reference match sets
				var strict, anyMethod []muxPat
				for _, pt := range set {
					if !pt.pathOK(p) {
						continue
					}
					anyMethod = append(anyMethod, pt)
					if m == "" {
						if pt.method == "" {
							strict = append(strict, pt)
						}
					} else if pt.methodOK(m) {
						strict = append(strict, pt)
					}
				}
				wantMatch := len(strict) != 0
				judgePattern := true
				if m == "" {
					// "empty method = any": defined only where both readings agree
					if (len(strict) != 0) != (len(anyMethod) != 0) {
						ck.acc.Case(gF, caseKey, nt, "unjudged/empty-method-vs-method-specific-pattern: "+fmt.Sprintf("pattern=%q answers=%v", pat, answered))
						ck.sampleOnce(gF+"emptymethod", map[string]any{"group": gF, "patterns": patStrs, "method": m, "path": p, "observed": obs, "judged": false})
						continue
					}
					if wantMatch && mostSpecific(append([]muxPat{}, strict...)) != mostSpecific(append([]muxPat{}, anyMethod...)) {
						judgePattern = false
					}
				}
				wantPat := ""
				if wantMatch {
					wantPat = mostSpecific(append([]muxPat{}, strict...)).String()
				}
				// function level: the reported pattern
				switch {
				case judgePattern && pat != wantPat:
					ck.acc.Case(gF, caseKey, nt, "wrong-pattern")
					ck.violate(gF+"/wrong-pattern", fmt.Sprintf("MatchServeMuxPattern(patterns %s, %s %q) reports pattern %q, the matching pattern is %q", q(patStrs), m, p, pat, wantPat), caseKey)
				case wantMatch:
					// the returned handler must be the one registered for the pattern and see the path
					reached := ""
					if h != nil {
						rm := m
						if rm == "" {
							rm = "OPTIONS"
						}
						h.ServeHTTP(&nullRW{}, &http.Request{Method: rm, URL: &url.URL{Path: p}, Header: http.Header{}})
						for name, r := range recs {
							if s := r.take(); len(s) != 0 {
								reached += fmt.Sprintf("%s saw %q;", name, s)
							}
						}
					}
					wantReached := fmt.Sprintf("%s saw %q;", pat, []string{p})
					if reached != wantReached {
						ck.acc.Case(gF, caseKey, nt, "wrong-handler")
						ck.violate(gF+"/wrong-handler", fmt.Sprintf("MatchServeMuxPattern(patterns %s, %s %q): pattern %q, but invoking the returned handler gives [%s]", q(patStrs), m, p, pat, reached), caseKey)
					} else {
						ck.acc.Case(gF, caseKey, nt, "match")
						ck.sampleOnce(gF+"match", map[string]any{"group": gF, "patterns": patStrs, "method": m, "path": p, "pattern": pat})
					}
				default:
					ck.acc.Case(gF, caseKey, nt, fmt.Sprintf("no-match: pattern=%q handler-nil=%v", pat, h == nil))
					ck.sampleOnce(gF+"nomatch", map[string]any{"group": gF, "patterns": patStrs, "method": m, "path": p, "observed": obs})
				}
				// registration level: answered exactly when a pattern matches
				switch {
				case answered == wantMatch:
					ck.acc.Case(gR, caseKey, nt, fmt.Sprintf("answered=%v", answered))
				case answered:
					ck.acc.Case(gR, caseKey, nt, "answers-nonmatching")
					ck.violate(gR+"/answers-nonmatching-lookup", fmt.Sprintf("WebSocketHttp{http_patterns=%s} answers the lookup %s %q although no configured pattern matches it (MatchServeMuxPattern: %s)", q(patStrs), m, p, obs), caseKey)
				default:
					ck.acc.Case(gR, caseKey, nt, "declines-matching")
					ck.violate(gR+"/declines-matching-lookup", fmt.Sprintf("WebSocketHttp{http_patterns=%s} does not answer the lookup %s %q although pattern %q matches it", q(patStrs), m, p, wantPat), caseKey)
				}
			}
		}
	})
}

func TestC35(t *testing.T) {
	run := evid.Start("C35", "exploration")
	acc := enum.NewAcc(run, "four groups. rpc-service: every RpcServiceController configuration (prefix list of <=2 from {\"\",a,a/,ab,b} x regex {none,^a,b$,.*} x service list subset of {a,ab} x server regex {none,^s$} x strip) x every non-empty service ID of length <=3 over {a,b,/,.} x server ID {\"\",s,t}; invoker: every InvokerController prefix list x the same lookups; http: every HTTPHandlerController configuration (prefix list of <=2 from {\"\",a,a/,ab,b,/,/a} x regex {none,^a,b$,.*,^/a} x strip) x every path of length <=3 over the alphabet x method {\"\",GET,POST}; mux: every subset of 6 ServeMux patterns x paths (all strings <=3 and \"/\"+string) x method {\"\",GET,POST,HEAD}. Each case calls the real HandleDirective with a fake directive instance, resolves the returned resolver and invokes the value with a recording endpoint. A case is non-trivial if its configuration filters something (not the match-everything configuration / the empty pattern set); distinct by (group, configuration, lookup)")
	ck := &checker{run: run, acc: acc, samples: map[string]int{}, viols: map[string]*viol{}}

	log := logrus.New()
	log.SetOutput(io.Discard)
	le := logrus.NewEntry(log)

	alphabet := "ab/."
	maxLen, maxPrefixes := 3, 2
	busPrefixes := 1
	muxMenu := []muxPat{{"", "/"}, {"", "/a"}, {"", "/a/"}, {"GET", "/b"}, {"POST", "/b"}, {"", "/a/b"}}
	if !run.Quick() {
		maxLen, maxPrefixes, busPrefixes = 4, 3, 2
		muxMenu = append(muxMenu, muxPat{"", "/b/"}, muxPat{"HEAD", "/a"})
	}
	allN := allStrings(alphabet, maxLen)
	all3 := allStrings(alphabet, 3)
	nonEmpty := func(l []string) []string {
		var ids []string
		for _, s := range l {
			if s != "" {
				ids = append(ids, s) // LookupRpcServiceID "cannot be empty"
			}
		}
		return ids
	}
	servers := []string{"", "s", "t"}
	menu := []string{"", "a", "a/", "ab", "b"}
	ck.rpcService("rpc-service", nonEmpty(allN), servers, menu, maxPrefixes, false, le)
	// the same lookups through a real controller bus (ExLookupRpcService)
	ck.rpcService("rpc-service-bus", nonEmpty(all3), servers, menu, busPrefixes, true, le)
	ck.invoker(nonEmpty(allN), servers, prefixListsN(menu, maxPrefixes), le)
	ck.httpHandler(allN, []string{"", "GET", "POST"})
	seenPath := map[string]bool{}
	var muxPaths []string
	for _, s := range allN {
		for _, p := range []string{s, "/" + s} {
			if !seenPath[p] {
				seenPath[p] = true
				muxPaths = append(muxPaths, p)
			}
		}
	}
	ck.mux(muxMenu, muxPaths, []string{"", "GET", "POST", "HEAD"}, le)

	ck.flush()
	acc.Finish()
	run.Cov["alphabet"] = "a b / ."
	run.Cov["bound"] = "service IDs / paths of length <=3 (mux: <=4 with leading slash); prefix lists of <=2 entries"
	run.Assumptions = append(run.Assumptions,
		"the oracle is the filter rule written in the controllers' documentation: answered <=> (no filter or a prefix or the regex or the list matches) and the server regex matches; with stripping on and a prefix match the handler sees the query minus the first matching configured prefix",
		"regular expressions are evaluated by hand-written predicates in the oracle (prefix a, suffix b, always, prefix /a, equals s)",
		"cases the statement does not define are recorded with what was observed and not judged: a lookup matched only by regex/list while stripping is on; for the ServeMux matcher non-canonical paths, trailing-slash redirect candidates and an empty lookup method against method-specific patterns",
		"the resolvers returned by HandleDirective are run against a recording directive.ResolverHandler of the harness instead of a controller bus; the fake directive.Instance only carries the directive",
		"ServeMux reference model: a pattern [METHOD ]PATH matches a canonical path exactly, or as a subtree when PATH ends in '/'; GET also matches HEAD; most specific pattern wins (no wildcards, no hosts in the enumerated patterns)",
	)
	run.Finish(t)
}
