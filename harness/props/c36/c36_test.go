package c36

import (
	"context"
	"errors"
	"fmt"
	"io"
	"math/big"
	"sort"
	"strings"
	"sync"
	"sync/atomic"
	"testing"
	"testing/synctest"

	bifrost_rpc "github.com/aperturerobotics/bifrost/rpc"
	access "github.com/aperturerobotics/bifrost/rpc/access"
	"github.com/aperturerobotics/controllerbus/bus"
	"github.com/aperturerobotics/controllerbus/controller"
	"github.com/aperturerobotics/controllerbus/core"
	"github.com/aperturerobotics/controllerbus/directive"
	"github.com/aperturerobotics/starpc/srpc"
	"github.com/blang/semver/v4"
	"github.com/sirupsen/logrus"

	"verifh/enum"
	"verifh/evid"
	"verifh/hist"
	"verifh/mc"
)

// ---------------------------------------------------------------------------
// Part 1 (E3): histories of providers / idle changes against the real
// AccessRpcServiceServer.LookupRpcService on a real controller bus.
// ---------------------------------------------------------------------------

// recStream is the harness side of the lookup stream: it records every
// response the server sends.
type recStream struct {
	ctx  context.Context
	mu   sync.Mutex
	msgs []string
	// back-pressure: when held, every Send blocks until the harness releases it
	held    bool
	pending int
	gate    chan struct{}
}

func (s *recStream) isPending() bool { s.mu.Lock(); defer s.mu.Unlock(); return s.pending > 0 }

func (s *recStream) Context() context.Context { return s.ctx }
func (s *recStream) MsgSend(m srpc.Message) error {
	if r, ok := m.(*access.LookupRpcServiceResponse); ok {
		return s.Send(r)
	}
	return errors.New("unexpected message type")
}
func (s *recStream) MsgRecv(m srpc.Message) error { <-s.ctx.Done(); return context.Canceled }
func (s *recStream) CloseSend() error             { return nil }
func (s *recStream) Close() error                 { return nil }
func (s *recStream) SendAndClose(m *access.LookupRpcServiceResponse) error {
	return s.Send(m)
}

// Send classifies a response by its three flags: "E" exists, "R" removed,
// "I1"/"I0" a pure idle report; combinations are written out ("E+I1", ...).
func (s *recStream) Send(m *access.LookupRpcServiceResponse) error {
	var parts []string
	if m.GetExists() {
		parts = append(parts, "E")
	}
	if m.GetRemoved() {
		parts = append(parts, "R")
	}
	switch {
	case m.GetIdle():
		parts = append(parts, "I1")
	case len(parts) == 0:
		parts = append(parts, "I0")
	}
	s.mu.Lock()
	held := s.held
	if held {
		s.pending++
	}
	s.mu.Unlock()
	if held {
		// the remote is slow: the write completes only when released
		select {
		case <-s.gate:
		case <-s.ctx.Done():
			return context.Canceled
		}
	}
	s.mu.Lock()
	if held {
		s.pending--
	}
	s.msgs = append(s.msgs, strings.Join(parts, "+"))
	s.mu.Unlock()
	return nil
}

func (s *recStream) snapshot() []string {
	s.mu.Lock()
	defer s.mu.Unlock()
	return append([]string{}, s.msgs...)
}

// observed counts what kinds of reports were seen over the whole search
// (vacuity guard) and keeps a few written-out streams.
var observed = struct {
	mu       sync.Mutex
	kinds    map[string]int
	examples []map[string]any
}{kinds: map[string]int{}}

// nopInvoker is a provider value.
type nopInvoker struct{ name string }

func (n *nopInvoker) InvokeMethod(serviceID, methodID string, strm srpc.Stream) (bool, error) {
	return false, nil
}

// resCtrl is a harness controller whose single long-lived resolver is driven
// by the harness: the resolver handler is kept and AddValue / RemoveValue /
// MarkIdle are called on it by the events.
type resCtrl struct {
	name      string
	startIdle bool
	val       srpc.Invoker
	// foreign, if set, is attached instead of val: a value that is NOT an
	// srpc.Invoker, i.e. not a provider of the service
	foreign any

	// filter, if set, restricts the controller to lookups with exactly this
	// server id (a provider that serves one server id only)
	filter *string
	// multi: the controller may serve several lookup directives at once (one
	// resolver handler per server id); events apply to all of them
	multi  bool
	hs     map[string]directive.ResolverHandler
	valIDs map[string]uint32

	mu    sync.Mutex
	h     directive.ResolverHandler
	valID uint32
}

// handlers returns the handlers of a multi controller in server-id order.
func (c *resCtrl) handlers() (keys []string, hs map[string]directive.ResolverHandler) {
	c.mu.Lock()
	defer c.mu.Unlock()
	hs = map[string]directive.ResolverHandler{}
	for k, h := range c.hs {
		keys = append(keys, k)
		hs[k] = h
	}
	sort.Strings(keys)
	return keys, hs
}

func (c *resCtrl) GetControllerInfo() *controller.Info {
	return controller.NewInfo("verif/c36/"+c.name, semver.MustParse("0.0.1"), "harness provider")
}
func (c *resCtrl) Execute(ctx context.Context) error { return nil }
func (c *resCtrl) Close() error                      { return nil }
func (c *resCtrl) HandleDirective(ctx context.Context, di directive.Instance) ([]directive.Resolver, error) {
	if d, ok := di.GetDirective().(bifrost_rpc.LookupRpcService); ok {
		if c.filter != nil && d.LookupRpcServerID() != *c.filter {
			return nil, nil
		}
		return directive.R(&resRes{c, d.LookupRpcServerID()}, nil)
	}
	return nil, nil
}
func (c *resCtrl) handler() directive.ResolverHandler {
	c.mu.Lock()
	defer c.mu.Unlock()
	return c.h
}

type resRes struct {
	c      *resCtrl
	server string
}

func (r *resRes) Resolve(ctx context.Context, h directive.ResolverHandler) error {
	r.c.mu.Lock()
	r.c.h = h
	if r.c.multi {
		if r.c.hs == nil {
			r.c.hs, r.c.valIDs = map[string]directive.ResolverHandler{}, map[string]uint32{}
		}
		r.c.hs[r.server] = h
	}
	r.c.mu.Unlock()
	if r.c.startIdle {
		h.MarkIdle(true)
	}
	<-ctx.Done()
	return context.Canceled
}

// scenario selects how providers appear / disappear.
type scenario struct {
	name string
	// ctrlLevel: a provider is a real bifrost controller (InvokerController /
	// RpcServiceController) added to / removed from the bus; otherwise a
	// provider is a long-lived harness resolver adding / removing its value.
	ctrlLevel bool
	// idlerStartsIdle: the idle-toggling resolver marks itself idle at start.
	idlerStartsIdle bool
	nprov           int
	// backpressure: the remote end of the stream is slow; every write blocks
	// until a "rel" event lets it complete. Reports then lag behind the model:
	// what was delivered must be a prefix of what the model expects.
	backpressure bool
	// foreign: one more resolver attaches / removes a value that is not an
	// srpc.Invoker to the lookup ("addf" / "remf"); it is no provider.
	foreign bool
	// joinExisting: before the remote lookup starts, an equivalent
	// LookupRpcService directive is already referenced on the bus, provider 1
	// is attached to it and a resolver is still busy: the server's directive
	// is de-duplicated onto it and the provider is replayed synchronously.
	joinExisting bool
	// otherServer: the remote request is (svc, "") - no server id - while a
	// lookup for (svc, "srv") is already referenced on the bus. Provider 1
	// serves server id "srv" only, so it is no provider for the remote
	// request; provider 2 and the idler serve every lookup.
	otherServer bool
}

type sys struct {
	sc     scenario
	cancel context.CancelFunc
	ctx    context.Context
	b      bus.Bus
	le     *logrus.Entry

	strm       *recStream
	strmCancel context.CancelFunc
	done       chan struct{}
	retErr     error

	prov   []*resCtrl // resolver-level providers
	preRef directive.Reference
	forn   *resCtrl // resolver attaching a non-invoker value
	hasF   bool
	rels   []func() // controller-level providers: release funcs (nil = absent)
	idler  *resCtrl

	// model
	has       []bool
	idle      bool // the idler resolver's state = the directive's idle state at quiescence
	cancelled bool
	wantER    []string // expected exists/removed projection
	wantIdle  []string // expected idle projection (resolver-level scenarios)
	atCancel  int      // number of messages recorded when cancel was applied
	infra     []string
	applied   []string
}

func newSys(sc scenario) *sys {
	s := &sys{sc: sc}
	log := logrus.New()
	log.SetOutput(io.Discard)
	s.le = logrus.NewEntry(log)
	s.ctx, s.cancel = context.WithCancel(context.Background())
	b, _, err := core.NewCoreBus(s.ctx, s.le)
	if err != nil {
		evid.Fatal("NewCoreBus: %v", err)
	}
	s.b = b
	s.has = make([]bool, sc.nprov)
	s.rels = make([]func(), sc.nprov)
	add := func(c controller.Controller) {
		if _, err := b.AddController(s.ctx, c, nil); err != nil {
			evid.Fatal("AddController: %v", err)
		}
	}
	if !sc.ctrlLevel {
		for i := 0; i < sc.nprov; i++ {
			p := &resCtrl{name: fmt.Sprintf("p%d", i+1), startIdle: true, val: &nopInvoker{fmt.Sprintf("p%d", i+1)}}
			if sc.otherServer {
				if i == 0 {
					only := "srv"
					p.filter = &only
				} else {
					p.multi = true
				}
			}
			s.prov = append(s.prov, p)
			add(p)
		}
	}
	if sc.foreign {
		s.forn = &resCtrl{name: "foreign", startIdle: true, foreign: "not-an-invoker"}
		add(s.forn)
	}
	s.idler = &resCtrl{name: "idler", startIdle: sc.idlerStartsIdle, multi: sc.otherServer}
	s.idle = sc.idlerStartsIdle
	if s.idle {
		s.wantIdle = append(s.wantIdle, "I1")
	}
	add(s.idler)

	if sc.joinExisting {
		_, ref, err := b.AddDirective(bifrost_rpc.NewLookupRpcService("svc", "srv"), nil)
		if err != nil {
			evid.Fatal("AddDirective (pre-existing lookup): %v", err)
		}
		s.preRef = ref
		synctest.Wait()
		h := s.prov[0].handler()
		if h == nil {
			evid.Fatal("pre-existing lookup: provider resolver not running")
		}
		id, ok := h.AddValue(s.prov[0].val)
		if !ok {
			evid.Fatal("pre-existing lookup: AddValue rejected")
		}
		s.prov[0].valID = id
		s.has[0] = true
		s.wantER = append(s.wantER, "E")
		synctest.Wait()
	}
	reqServer := "srv"
	if sc.otherServer {
		_, ref, err := b.AddDirective(bifrost_rpc.NewLookupRpcService("svc", "srv"), nil)
		if err != nil {
			evid.Fatal("AddDirective (lookup for the other server id): %v", err)
		}
		s.preRef = ref
		synctest.Wait()
		reqServer = ""
	}
	var sctx context.Context
	sctx, s.strmCancel = context.WithCancel(s.ctx)
	s.strm = &recStream{ctx: sctx, held: sc.backpressure, gate: make(chan struct{})}
	s.done = make(chan struct{})
	srv := access.NewAccessRpcServiceServer(b, false, nil)
	req := access.NewLookupRpcServiceRequest("svc", reqServer)
	go func() {
		defer close(s.done)
		s.retErr = srv.LookupRpcService(req, s.strm)
	}()
	return s
}

func (s *sys) count() int {
	n := 0
	for i, h := range s.has {
		if h && !(s.sc.otherServer && i == 0) {
			n++
		}
	}
	return n
}

func (s *sys) Enabled() []string {
	var evs []string
	if s.cancelled {
		// the server drops its reference: the directive is disposed, nothing
		// more can be provided to it and the statement says nothing further
		return nil
	}
	for i := range s.has {
		if s.has[i] {
			evs = append(evs, fmt.Sprintf("rem%d", i+1))
		} else {
			evs = append(evs, fmt.Sprintf("add%d", i+1))
		}
	}
	if s.sc.foreign {
		if s.hasF {
			evs = append(evs, "remf")
		} else {
			evs = append(evs, "addf")
		}
	}
	if s.idle {
		evs = append(evs, "busy")
	} else {
		evs = append(evs, "idle")
	}
	if !s.cancelled && !s.sc.backpressure {
		evs = append(evs, "cancel")
	}
	if s.sc.backpressure && s.strm.isPending() {
		evs = append(evs, "rel")
	}
	return evs
}

func (s *sys) Apply(ev string) {
	s.applied = append(s.applied, ev)
	if ev == "rel" {
		s.strm.gate <- struct{}{}
		return
	}
	switch {
	case ev == "addf" || ev == "remf":
		h := s.forn.handler()
		if h == nil {
			s.infra = append(s.infra, "foreign resolver not running")
			return
		}
		if ev == "addf" {
			id, ok := h.AddValue(s.forn.foreign)
			if !ok {
				s.infra = append(s.infra, "AddValue(foreign) rejected")
				return
			}
			s.forn.valID = id
		} else if _, ok := h.RemoveValue(s.forn.valID); !ok {
			s.infra = append(s.infra, "RemoveValue(foreign): not found")
			return
		}
		s.hasF = ev == "addf"
		foreignEvents.Add(1)
	case strings.HasPrefix(ev, "add"), strings.HasPrefix(ev, "rem"):
		i := int(ev[3] - '1')
		adding := ev[:3] == "add"
		before := s.count()
		if s.sc.ctrlLevel {
			if adding {
				var c controller.Controller
				inv := &nopInvoker{ev}
				info := controller.NewInfo(fmt.Sprintf("verif/c36/prov%d", i+1), semver.MustParse("0.0.1"), "provider")
				if i%2 == 0 {
					c = bifrost_rpc.NewInvokerController(s.le, s.b, info, inv, nil)
				} else {
					c = bifrost_rpc.NewRpcServiceController(info, bifrost_rpc.NewRpcServiceBuilder(inv), nil, false, nil, nil, nil)
				}
				rel, err := s.b.AddController(s.ctx, c, nil)
				if err != nil {
					s.infra = append(s.infra, "AddController: "+err.Error())
					return
				}
				s.rels[i] = rel
			} else {
				s.rels[i]()
				s.rels[i] = nil
			}
		} else {
			p := s.prov[i]
			h := p.handler()
			if p.multi {
				keys, hs := p.handlers()
				if len(keys) == 0 {
					s.infra = append(s.infra, "provider resolver not running")
					return
				}
				for _, k := range keys {
					if adding {
						id, ok := hs[k].AddValue(p.val)
						if !ok {
							s.infra = append(s.infra, "AddValue rejected")
							return
						}
						p.valIDs[k] = id
					} else if _, ok := hs[k].RemoveValue(p.valIDs[k]); !ok {
						s.infra = append(s.infra, "RemoveValue: not found")
						return
					}
				}
			} else if h == nil {
				s.infra = append(s.infra, "provider resolver not running")
				return
			}
			if p.multi {
				// done above
			} else if adding {
				id, ok := h.AddValue(p.val)
				if !ok {
					s.infra = append(s.infra, "AddValue rejected")
					return
				}
				p.valID = id
			} else {
				if _, ok := h.RemoveValue(p.valID); !ok {
					s.infra = append(s.infra, "RemoveValue: not found")
					return
				}
			}
		}
		s.has[i] = adding
		after := s.count()
		if !s.cancelled {
			if before == 0 && after == 1 {
				s.wantER = append(s.wantER, "E")
			}
			if before == 1 && after == 0 {
				s.wantER = append(s.wantER, "R")
			}
		}
	case ev == "idle" || ev == "busy":
		h := s.idler.handler()
		if h == nil {
			s.infra = append(s.infra, "idler resolver not running")
			return
		}
		s.idle = ev == "idle"
		if s.idler.multi {
			keys, hs := s.idler.handlers()
			for _, k := range keys {
				hs[k].MarkIdle(s.idle)
			}
		} else {
			h.MarkIdle(s.idle)
		}
		if !s.cancelled {
			if s.idle {
				s.wantIdle = append(s.wantIdle, "I1")
			} else {
				s.wantIdle = append(s.wantIdle, "I0")
			}
		}
	case ev == "cancel":
		s.atCancel = len(s.strm.snapshot())
		s.cancelled = true
		s.strmCancel()
	}
}

// project splits the recorded stream into its exists/removed projection and
// its idle projection.
func project(msgs []string) (er, idle, malformed []string) {
	for _, m := range msgs {
		hasE := strings.Contains(m, "E")
		hasR := strings.Contains(m, "R")
		if hasE && hasR {
			malformed = append(malformed, m)
			continue
		}
		if hasE {
			er = append(er, "E")
		}
		if hasR {
			er = append(er, "R")
		}
		if strings.Contains(m, "I1") {
			idle = append(idle, "I1")
		}
		if m == "I0" {
			idle = append(idle, "I0")
		}
	}
	return
}

func classify(got, want []string, pos, neg, posName, negName string) string {
	for i := range got {
		if i > 0 && got[i] == got[i-1] {
			if got[i] == pos {
				return "duplicate-" + posName
			}
			return "duplicate-" + negName
		}
	}
	if len(got) > 0 && got[0] == neg {
		return negName + "-first"
	}
	if len(got) < len(want) {
		if want[len(got)] == pos {
			return "missing-" + posName
		}
		return "missing-" + negName
	}
	if len(got) > len(want) {
		if got[len(want)] == pos {
			return "spurious-" + posName
		}
		return "spurious-" + negName
	}
	return "order"
}

func eq(a, b []string) bool {
	if len(a) != len(b) {
		return false
	}
	for i := range a {
		if a[i] != b[i] {
			return false
		}
	}
	return true
}

func (s *sys) Check() []string {
	var out []string
	msgs := s.strm.snapshot()
	if s.cancelled && len(msgs) > s.atCancel {
		// what is sent after the client cancelled is not covered by the statement
		msgs = msgs[:s.atCancel]
	}
	er, idle, malformed := project(msgs)
	if s.sc.backpressure {
		if len(malformed) > 0 {
			out = append(out, fmt.Sprintf("response-both-exists-and-removed :: a response carries exists and removed at once: %v", malformed))
		}
		if !isPrefix(er, s.wantER) {
			k := classify(er, s.wantER[:min(len(er), len(s.wantER))], "E", "R", "exists", "removed")
			out = append(out, fmt.Sprintf("slow-remote/%s :: with a slow remote the exists/removed reports delivered so far are %v, not a prefix of what the provider count model expects %v (full stream %v)", k, er, s.wantER, msgs))
		}
		if !isPrefix(idle, s.wantIdle) {
			out = append(out, fmt.Sprintf("slow-remote/idle-reports-wrong :: with a slow remote the idle reports delivered so far are %v, not a prefix of what the idle model expects %v (full stream %v)", idle, s.wantIdle, msgs))
		}
		return out
	}
	if len(malformed) > 0 {
		out = append(out, fmt.Sprintf("response-both-exists-and-removed :: a response carries exists and removed at once: %v", malformed))
	}
	if !eq(er, s.wantER) {
		k := classify(er, s.wantER, "E", "R", "exists", "removed")
		out = append(out, fmt.Sprintf("%s :: exists/removed reports %v, provider count model expects %v (providers present %v; full stream %v)", k, er, s.wantER, s.has, msgs))
	}
	if !s.sc.ctrlLevel {
		if !eq(idle, s.wantIdle) {
			k := classify(idle, s.wantIdle, "I1", "I0", "idle", "busy")
			out = append(out, fmt.Sprintf("idle-%s :: idle reports %v, resolver idle model expects %v (full stream %v)", k, idle, s.wantIdle, msgs))
		}
	} else if !s.cancelled {
		// controller-level providers make the directive busy while their
		// resolver starts; only alternation and the settled state are judged.
		for i := range idle {
			if i > 0 && idle[i] == idle[i-1] {
				out = append(out, fmt.Sprintf("idle-duplicate :: the same idle state is reported twice in a row: %v", idle))
				break
			}
		}
		if len(idle) > 0 && idle[0] == "I0" {
			out = append(out, fmt.Sprintf("idle-busy-first :: first idle report is not-idle: %v", idle))
		}
		last := "I0"
		if len(idle) > 0 {
			last = idle[len(idle)-1]
		}
		want := "I0"
		if s.idle {
			want = "I1"
		}
		if last != want {
			out = append(out, fmt.Sprintf("idle-stale :: at quiescence the last idle report is %s but the directive's resolvers are idle=%v (idle reports %v)", last, s.idle, idle))
		}
	}
	for _, e := range s.infra {
		out = append(out, "harness-infra :: "+e)
	}
	return out
}

func tailOf(a []string, n int) []string {
	if len(a) > n {
		return a[len(a)-n:]
	}
	return a
}

func isPrefix(a, b []string) bool {
	if len(a) > len(b) {
		return false
	}
	for i := range a {
		if a[i] != b[i] {
			return false
		}
	}
	return true
}

func (s *sys) returned() string {
	select {
	case <-s.done:
		return fmt.Sprintf("returned(%v)", s.retErr)
	default:
		return "running"
	}
}

func (s *sys) Canon() string {
	msgs := s.strm.snapshot()
	observed.mu.Lock()
	for _, m := range msgs {
		observed.kinds[m]++
	}
	dup := false
	for _, e := range observed.examples {
		if e["scenario"] == s.sc.name {
			dup = true
		}
	}
	if !dup && len(s.applied) >= 5 && len(observed.examples) < 4 && strings.Contains(strings.Join(msgs, " "), "R") && strings.Contains(strings.Join(msgs, " "), "I0") {
		observed.examples = append(observed.examples, map[string]any{"scenario": s.sc.name, "history": append([]string{}, s.applied...), "stream": msgs})
	}
	observed.mu.Unlock()
	if s.sc.backpressure {
		// the server's queue of undelivered reports is part of the state: it is a
		// function of the expected report sequences and of what was delivered
		return fmt.Sprintf("has=%v idle=%v stream=%v wantER=%v wantIdle=%v pending=%v applied-tail=%v server=%s", s.has, s.idle, s.strm.snapshot(), s.wantER, s.wantIdle, s.strm.isPending(), tailOf(s.applied, 3), s.returned())
	}
	return fmt.Sprintf("has=%v foreign=%v idle=%v cancelled=%v stream=%v server=%s", s.has, s.hasF, s.idle, s.cancelled, s.strm.snapshot(), s.returned())
}

func (s *sys) Close() {
	s.cancel()
}

// ---------------------------------------------------------------------------
// Part 2 (E1): component-ID encode / decode.
// ---------------------------------------------------------------------------

const b58Alphabet = "123456789ABCDEFGHJKLMNPQRSTUVWXYZabcdefghijkmnopqrstuvwxyz"

// refB58 is a plain big-integer base58 (bitcoin alphabet) encoder.
func refB58(b []byte) string {
	zeros := 0
	for zeros < len(b) && b[zeros] == 0 {
		zeros++
	}
	n := new(big.Int).SetBytes(b)
	var out []byte
	radix := big.NewInt(58)
	mod := new(big.Int)
	for n.Sign() > 0 {
		n.DivMod(n, radix, mod)
		out = append(out, b58Alphabet[mod.Int64()])
	}
	for i := 0; i < zeros; i++ {
		out = append(out, '1')
	}
	for i, j := 0, len(out)-1; i < j; i, j = i+1, j-1 {
		out[i], out[j] = out[j], out[i]
	}
	return string(out)
}

// refEncode is the independent encoding of a request: protobuf fields 1
// (service_id) and 2 (server_id) as length-delimited strings, empty fields
// omitted, base58.
func refEncode(service, server string) string {
	var b []byte
	if service != "" {
		b = append(b, 0x0a, byte(len(service)))
		b = append(b, service...)
	}
	if server != "" {
		b = append(b, 0x12, byte(len(server)))
		b = append(b, server...)
	}
	return refB58(b)
}

func symStrings(maxLen int) []string {
	syms := []string{"a", "/", "\x00", "é"}
	var out []string
	enum.Sequences(len(syms), maxLen, func(seq []int) {
		var sb strings.Builder
		for _, k := range seq {
			sb.WriteString(syms[k])
		}
		out = append(out, sb.String())
	})
	return out
}

func componentIDs(run *evid.Run, acc *enum.Acc) {
	maxLen := 2
	strs := symStrings(maxLen)
	type pair struct{ svc, srv string }
	var pairs []pair
	for _, a := range strs {
		for _, b := range strs {
			pairs = append(pairs, pair{a, b})
		}
	}
	substVals := []byte(nil) // all 255 other values
	enum.Par(len(pairs), 16, func(pi int) {
		p := pairs[pi]
		ck := fmt.Sprintf("%q/%q", p.svc, p.srv)
		// directive -> request -> component id -> request -> directive
		var id string
		var err error
		var back access.LookupRpcServiceRequest
		var dsvc, dsrv string
		pv := enum.Try(func() {
			dir := bifrost_rpc.NewLookupRpcService(p.svc, p.srv)
			id, err = access.RequestFromDirective(dir).MarshalComponentID()
			if err != nil {
				return
			}
			err = back.UnmarshalComponentID(id)
			if err != nil {
				return
			}
			d2 := back.ToDirective()
			dsvc, dsrv = d2.LookupRpcServiceID(), d2.LookupRpcServerID()
		})
		switch {
		case pv != nil:
			acc.Case("component-id/roundtrip", ck, true, "panic")
			run.Violation("component-id/panic-roundtrip", fmt.Sprintf("encode/decode of request %s panicked: %v", ck, pv), ck)
			return
		case err != nil && p.svc == "":
			// a request without a service ID is not a valid lookup request
			// (LookupRpcServiceID "cannot be empty", Validate rejects it):
			// recorded, not judged. Only ""/"" ends up here (empty component ID).
			acc.Case("component-id/roundtrip", ck, false, "invalid request (empty service id) not decodable: "+err.Error())
			return
		case err != nil:
			acc.Case("component-id/roundtrip", ck, true, "error")
			run.Violation("component-id/roundtrip-error", fmt.Sprintf("request %s does not survive MarshalComponentID/UnmarshalComponentID: %v", ck, err), ck)
			return
		case back.GetServiceId() != p.svc || back.GetServerId() != p.srv || dsvc != p.svc || dsrv != p.srv:
			acc.Case("component-id/roundtrip", ck, true, "changed")
			run.Violation("component-id/roundtrip-changed", fmt.Sprintf("request %s decodes back to (%q,%q) / directive (%q,%q) via component id %q", ck, back.GetServiceId(), back.GetServerId(), dsvc, dsrv, id), ck)
			return
		}
		out := "same"
		if want := refEncode(p.svc, p.srv); want != id {
			// the exact text of the ID is not part of the statement: recorded only
			out = "same (encoding differs from reference)"
		}
		acc.Case("component-id/roundtrip", ck, p.svc != "" || p.srv != "", out)
		if pi == len(pairs)-1 || pi == 5 {
			acc.Sample(map[string]any{"group": "component-id/roundtrip", "service": p.svc, "server": p.srv, "component_id": id})
		}
		// every single-byte substitution of the encoded ID
		enum.ByteSubst([]byte(id), substVals, func(m enum.Mut) {
			mk := ck + "/" + m.Desc
			var r1, r2 access.LookupRpcServiceRequest
			var e1, e2, e3 error
			var id2 string
			pv := enum.Try(func() {
				e1 = r1.UnmarshalComponentID(string(m.Data))
				if e1 != nil {
					return
				}
				id2, e2 = r1.MarshalComponentID()
				if e2 != nil {
					return
				}
				e3 = r2.UnmarshalComponentID(id2)
			})
			switch {
			case pv != nil:
				acc.Case("component-id/subst", mk, true, "panic")
				run.Violation("component-id/panic-decode", fmt.Sprintf("UnmarshalComponentID(%q) panicked: %v", m.Data, pv), mk)
			case e1 != nil:
				acc.Case("component-id/subst", mk, true, "rejected")
			case e2 != nil || e3 != nil || r2.GetServiceId() != r1.GetServiceId() || r2.GetServerId() != r1.GetServerId():
				acc.Case("component-id/subst", mk, true, "accepted-unstable")
				run.Violation("component-id/decoded-request-not-stable", fmt.Sprintf("UnmarshalComponentID(%q) yields (%q,%q) which does not round-trip (%v %v -> (%q,%q))", m.Data, r1.GetServiceId(), r1.GetServerId(), e2, e3, r2.GetServiceId(), r2.GetServerId()), mk)
			default:
				acc.Case("component-id/subst", mk, true, "accepted-other-request")
			}
		})
	})
}

var foreignEvents atomic.Int64

func TestC36(t *testing.T) {
	run := evid.Start("C36", "model_checking")

	// --- E3 ---
	depth := 8
	scs := []scenario{
		{name: "resolver-providers/idler-starts-busy", nprov: 2},
		{name: "resolver-providers/idler-starts-idle", nprov: 2, idlerStartsIdle: true},
		{name: "controller-providers", nprov: 2, ctrlLevel: true},
		{name: "resolver-provider/slow-remote", nprov: 1, backpressure: true},
		{name: "resolver-provider/plus-non-invoker-value", nprov: 1, foreign: true},
		{name: "resolver-providers/lookup-joins-existing-busy-directive", nprov: 2, joinExisting: true},
		{name: "resolver-providers/lookup-joins-existing-idle-directive", nprov: 2, joinExisting: true, idlerStartsIdle: true},
		{name: "resolver-providers/request-without-server-id-while-lookup-for-a-server-id-runs", nprov: 2, otherServer: true, idlerStartsIdle: true},
	}
	if !run.Quick() {
		depth = 12
		scs = append(scs,
			scenario{name: "resolver-providers/3", nprov: 3},
			scenario{name: "controller-providers/3/idler-starts-idle", nprov: 3, ctrlLevel: true, idlerStartsIdle: true},
		)
	}
	agg := mc.NewAgg(run)
	for _, sc := range scs {
		sc := sc
		d := depth
		if sc.nprov == 3 {
			d = depth - 1
		}
		if sc.backpressure {
			d = depth + 1 // three events per state: deeper at the same cost
		}
		res := hist.BFS(t, &hist.Config{
			Name:     sc.name,
			New:      func() hist.Sys { return newSys(sc) },
			MaxDepth: d,
			Deadline: run.Deadline(),
		})
		for i := range res.Violations {
			if res.Violations[i].Key == "harness-infra" || res.Violations[i].Key == "panic" {
				evid.Fatal("scenario %s: %s %s (history %v)", sc.name, res.Violations[i].Key, res.Violations[i].What, res.Violations[i].History)
			}
		}
		if res.States < 10 {
			evid.Fatal("vacuous history search in %s: %d states", sc.name, res.States)
		}
		agg.AddHist(res)
	}
	agg.Finish(false)
	run.Cov["depth_completed"] = agg.MaxDepth
	delete(run.Cov, "distinct_outcomes")
	for _, k := range []string{"E", "R", "I1", "I0"} {
		if observed.kinds[k] == 0 && run.NViolations() == 0 {
			evid.Fatal("vacuous history search: no %s report was ever observed (%v)", k, observed.kinds)
		}
	}
	run.Cov["observed_report_kinds"] = observed.kinds
	run.Cov["example_streams"] = observed.examples
	run.Cov["nondeterministic_states"] = 0
	run.Cov["events"] = []string{"add<i>", "rem<i>", "idle", "busy", "cancel"}

	// --- E1 ---
	scratch := &evid.Run{ID: "C36", Cov: map[string]any{}}
	acc := enum.NewAcc(scratch, "component IDs: every (service id, server id) with both strings of <=2 symbols over {a, /, NUL, é} is sent through directive -> request -> MarshalComponentID -> UnmarshalComponentID -> directive; every single-byte substitution (255 values per position) of every such encoded ID is decoded; non-trivial = not the empty request; distinct by (request, substitution)")
	componentIDs(run, acc)
	acc.Finish()
	run.Cov["evaluations"] = scratch.Cov["evaluations"]
	run.Cov["distinct_nontrivial"] = scratch.Cov["distinct_nontrivial"]
	run.Cov["rule"] = scratch.Cov["rule"]
	run.Cov["component_id_enumeration"] = scratch.Cov
	run.Cov["exhaustive"] = run.Cov["exhaustive"] == true && scratch.Cov["exhaustive"] == true
	keys := make([]string, 0)
	for _, sc := range scs {
		keys = append(keys, sc.name)
	}
	sort.Strings(keys)
	run.Cov["scenario_names"] = keys
	run.Assumptions = append(run.Assumptions,
		"E3 explores orders of events, each run to quiescence (synctest) before the next; interleavings inside one event's settling are those the Go scheduler produces in the bubble",
		"the controller bus (controllerbus v0.53.1) is the trusted environment: it delivers value-added / value-removed / idle callbacks as its documentation says",
		"a response with no flag set is read as the report 'not idle'; exists / removed responses carry no idle report unless idle=true",
		"responses sent after the client cancelled the stream are not judged",
	)
	run.Finish(t)
}
