package c08

import (
	"bytes"
	"context"
	"encoding/binary"
	"fmt"
	"io"
	"net"
	"os"
	"strings"
	"testing"

	"github.com/aperturerobotics/bifrost/peer"
	stream_packet "github.com/aperturerobotics/bifrost/stream/packet"
	"github.com/aperturerobotics/bifrost/util/rwc"

	"verifh/bytepipe"
	"verifh/evid"
	"verifh/mc"
	"verifh/vsync"
)

const maxPkt = 6

type addr string

func (a addr) Network() string { return "pipe" }
func (a addr) String() string  { return string(a) }

type scen struct {
	name    string
	kind    string  // "pc" (rwc.PacketConn) or "sess" (stream_packet.Session)
	writers [][]int // per writer: packet sizes
	rbuf    int     // reader buffer size (pc only)
	mode    bytepipe.Mode
	corrupt int64 // -1 none; else the bad length prefix value
	corrAt  int   // index of the packet whose prefix is replaced (raw single writer)
	// endWithData: the (single) writer closes the byte stream after its last
	// packet and the underlying Read hands over the final bytes together with
	// io.EOF (n > 0 and err != nil in one call)
	endWithData bool
}

func pkt(w, i, size int) []byte {
	b := make([]byte, size)
	for k := range b {
		b[k] = byte(0x10*(w+1) + i*3 + k + 1)
	}
	return b
}

// sessMsg builds a protobuf message whose encoding has exactly `size` bytes (0, or >= 3;
// scenarios use distinct sizes/payloads so that every message is identifiable).
func sessMsg(w, i, size int) *peer.SignedMsg {
	if size == 0 {
		return &peer.SignedMsg{}
	}
	return &peer.SignedMsg{FromPeerId: string(pkt(w, i, size-2))}
}

func frame(body []byte) []byte {
	b := make([]byte, 4+len(body))
	binary.LittleEndian.PutUint32(b, uint32(len(body)))
	copy(b[4:], body)
	return b
}

func body(sc scen) func() {
	return func() {
		pipe := &bytepipe.Pipe{Mode: sc.mode, ErrWithLastData: sc.endWithData}
		back := &bytepipe.Pipe{}
		ctx, cancel := context.WithCancel(context.Background())
		defer cancel()
		total := 0
		for _, w := range sc.writers {
			total += len(w)
		}
		var wg vsync.WaitGroup
		switch sc.kind {
		case "pc":
			rd := rwc.NewPacketConn(ctx, &bytepipe.Duplex{R: pipe, W: back}, addr("r"), addr("w"), maxPkt, 2)
			wr := rwc.NewPacketConn(ctx, &bytepipe.Duplex{R: back, W: pipe}, addr("w"), addr("r"), maxPkt, 2)
			for wi, sizes := range sc.writers {
				wg.Add(1)
				vsync.GoNamed(fmt.Sprintf("writer%d", wi), func() {
					defer wg.Done()
					if sc.endWithData {
						defer pipe.CloseWith(io.EOF)
					}
					for i, sz := range sizes {
						if sc.corrupt >= 0 && i == sc.corrAt {
							// raw bytes with a bad length prefix, then the body
							raw := frame(pkt(wi, i, sz))
							binary.LittleEndian.PutUint32(raw, uint32(sc.corrupt))
							_, _ = pipe.Write(raw)
							continue
						}
						n, err := wr.WriteTo(pkt(wi, i, sz), addr("r"))
						if err != nil || n != sz {
							vsync.Logf("write w%d.%d n=%d err=%v", wi, i, n, err)
						}
					}
				})
			}
			wg.Add(1)
			vsync.GoNamed("reader", func() {
				defer wg.Done()
				buf := make([]byte, sc.rbuf)
				for k := 0; k < total; k++ {
					for j := range buf {
						buf[j] = 0xEE
					}
					n, _, err := rd.ReadFrom(buf)
					if err != nil && err != io.ErrShortBuffer {
						vsync.Logf("read err")
						return
					}
					short := ""
					if err == io.ErrShortBuffer {
						short = " short"
					}
					vsync.Logf("read %x%s", buf[:n], short)
				}
				vsync.Logf("read done")
			})
			wg.Wait()
			_ = rd.Close()
			_ = wr.Close()
		case "sess":
			rd := stream_packet.NewSession(&bytepipe.Duplex{R: pipe, W: back}, maxPkt)
			wr := stream_packet.NewSession(&bytepipe.Duplex{R: back, W: pipe}, maxPkt)
			for wi, sizes := range sc.writers {
				wg.Add(1)
				vsync.GoNamed(fmt.Sprintf("writer%d", wi), func() {
					defer wg.Done()
					if sc.endWithData {
						defer pipe.CloseWith(io.EOF)
					}
					for i, sz := range sizes {
						if sc.corrupt >= 0 && i == sc.corrAt {
							m, _ := sessMsg(wi, i, sz).MarshalVT()
							raw := frame(m)
							binary.LittleEndian.PutUint32(raw, uint32(sc.corrupt))
							if sc.corrupt == 0 {
								raw = raw[:4] // a zero prefix is a complete (empty) message
							}
							_, _ = pipe.Write(raw)
							continue
						}
						if err := wr.SendMsg(sessMsg(wi, i, sz)); err != nil {
							vsync.Logf("write w%d.%d err=%v", wi, i, err)
						}
					}
				})
			}
			wg.Add(1)
			vsync.GoNamed("reader", func() {
				defer wg.Done()
				for k := 0; k < total; k++ {
					m := &peer.SignedMsg{FromPeerId: "stale"}
					if err := rd.RecvMsg(m); err != nil {
						vsync.Logf("read err")
						return
					}
					b, _ := m.MarshalVT()
					vsync.Logf("read %x", b)
				}
				vsync.Logf("read done")
			})
			wg.Wait()
			_ = rd.Close()
		}
		cancel()
		vsync.Quiesce()
	}
}

// check compares the reader's observations with the list model.
func check(sc scen) func(x *vsync.Exec) string {
	return func(x *vsync.Exec) string {
		if x.Deadlock {
			return "V08:deadlock"
		}
		if x.HorizonHit {
			return ""
		}
		// expected packets per writer, in order
		exp := make([][][]byte, len(sc.writers))
		for wi, sizes := range sc.writers {
			for i, sz := range sizes {
				var b []byte
				if sc.kind == "pc" {
					b = pkt(wi, i, sz)
				} else {
					b, _ = sessMsg(wi, i, sz).MarshalVT()
					if sc.corrupt == 0 && i == sc.corrAt {
						b = nil // zero prefix on the session = empty message
					}
				}
				exp[wi] = append(exp[wi], b)
			}
		}
		next := make([]int, len(sc.writers))
		sawErr, done := false, false
		nread := 0
		for _, l := range x.Log {
			switch {
			case strings.HasPrefix(l, "write "):
				return "V08:write-failed " + l
			case l == "read err":
				sawErr = true
			case l == "read done":
				done = true
			case strings.HasPrefix(l, "read "):
				if sawErr {
					return "V08:packet-after-error"
				}
				f := strings.Fields(l)
				var got []byte
				if len(f) > 1 && f[1] != "short" {
					fmt.Sscanf(f[1], "%x", &got)
				}
				short := strings.HasSuffix(l, " short")
				matched := false
				for wi := range exp {
					if next[wi] >= len(exp[wi]) {
						continue
					}
					want := exp[wi][next[wi]]
					if sc.corrupt >= 0 && next[wi] == sc.corrAt && !(sc.kind == "sess" && sc.corrupt == 0) {
						continue // the corrupted packet must never be delivered
					}
					if short {
						if len(want) > sc.rbuf && bytes.Equal(got, want[:sc.rbuf]) {
							matched = true
						}
					} else if bytes.Equal(got, want) {
						if sc.kind == "pc" && len(want) > sc.rbuf {
							continue
						}
						matched = true
					}
					if matched {
						next[wi]++
						break
					}
				}
				if !matched {
					return fmt.Sprintf("V08:misframed-or-reordered-packet got=%x short=%v", got, short)
				}
				nread++
			}
		}
		if sc.corrupt >= 0 && !(sc.kind == "sess" && sc.corrupt == 0) {
			if !sawErr {
				return fmt.Sprintf("V08:bad-length-prefix-not-reported prefix=%d", sc.corrupt)
			}
			if nread != sc.corrAt {
				return fmt.Sprintf("V08:packets-before-bad-prefix-lost delivered=%d want=%d", nread, sc.corrAt)
			}
			return ""
		}
		if sawErr {
			return "V08:unexpected-read-error"
		}
		if !done {
			return "V08:reader-did-not-finish"
		}
		for wi := range exp {
			if next[wi] != len(exp[wi]) {
				return "V08:packet-lost"
			}
		}
		return ""
	}
}

func scenarios(quick bool) []scen {
	s := []scen{
		{"pc/1w-1,6,2/buf10/explore", "pc", [][]int{{1, 6, 2}}, 10, bytepipe.Explore, -1, 0, false},
		{"pc/1w-1,6,2/buf6/onebyte", "pc", [][]int{{1, 6, 2}}, 6, bytepipe.OneByte, -1, 0, false},
		{"pc/2w-5+6,1/buf6/full", "pc", [][]int{{5}, {6, 1}}, 6, bytepipe.Full, -1, 0, false},
		{"pc/2w-2+5/buf6/explore", "pc", [][]int{{2}, {5}}, 6, bytepipe.Explore, -1, 0, false},
		{"pc/1w-2,5,1/buf3-short/full", "pc", [][]int{{2, 5, 1}}, 3, bytepipe.Full, -1, 0, false},
		{"pc/corrupt0@1/explore", "pc", [][]int{{2, 3, 1}}, 6, bytepipe.Explore, 0, 1, false},
		{"pc/corrupt7@1/explore", "pc", [][]int{{2, 3, 1}}, 6, bytepipe.Explore, 7, 1, false},
		{"pc/corruptffffffff@0/full", "pc", [][]int{{2, 1}}, 6, bytepipe.Full, 0xffffffff, 0, false},
		{"pc/1w-2,5/buf6/full/eof-with-last-data", "pc", [][]int{{2, 5}}, 6, bytepipe.Full, -1, 0, true},
		{"pc/1w-1,6,2/buf10/explore/eof-with-last-data", "pc", [][]int{{1, 6, 2}}, 10, bytepipe.Explore, -1, 0, true},
		{"sess/1w-3,5/full/eof-with-last-data", "sess", [][]int{{3, 5}}, 0, bytepipe.Full, -1, 0, true},
		{"sess/1w-4,0,6/explore", "sess", [][]int{{4, 0, 6}}, 0, bytepipe.Explore, -1, 0, false},
		{"sess/2w-6+3,4/full", "sess", [][]int{{6}, {3, 4}}, 0, bytepipe.Full, -1, 0, false},
		{"sess/1w-3,5/onebyte", "sess", [][]int{{3, 5}}, 0, bytepipe.OneByte, -1, 0, false},
		{"sess/corrupt7@1/explore", "sess", [][]int{{5, 3, 4}}, 0, bytepipe.Explore, 7, 1, false},
		{"sess/corrupt0@1/full", "sess", [][]int{{5, 3, 4}}, 0, bytepipe.Full, 0, 1, false},
	}
	if !quick {
		s = append(s,
			scen{"pc/2w-1,6+5,2/buf6/explore", "pc", [][]int{{1, 6}, {5, 2}}, 6, bytepipe.Explore, -1, 0, false},
			scen{"pc/1w-6,6,6/buf6/explore", "pc", [][]int{{6, 6, 6}}, 6, bytepipe.Explore, -1, 0, false},
			scen{"pc/corruptffffffff@2/explore", "pc", [][]int{{1, 2, 3}}, 6, bytepipe.Explore, 0xffffffff, 2, false},
			scen{"sess/2w-6,0+3,4/explore", "sess", [][]int{{6, 0}, {3, 4}}, 0, bytepipe.Explore, -1, 0, false},
			scen{"sess/corruptffffffff@0/explore", "sess", [][]int{{5, 3}}, 0, bytepipe.Explore, 0xffffffff, 0, false},
		)
	}
	return s
}

func TestC08(t *testing.T) {
	run := evid.Start("C08", "model_checking")
	agg := mc.NewAgg(run)
	bound := 3
	if !run.Quick() {
		bound = 4
	}
	scens := scenarios(run.Quick())
	mc.RunScenarios(t, agg, len(scens), func(i int) *vsync.Config {
		sc := scens[i]
		return &vsync.Config{Name: sc.name, Bound: bound, Deadline: run.Deadline(), MaxStep: 5000, Body: body(sc), Check: check(sc), NoCache: os.Getenv("VERIF_NOCACHE") != ""}
	}, func(v *vsync.Violation) string { return strings.Fields(v.What)[0] })
	agg.Finish(true)
	run.Cov["deviation_bound"] = bound
	run.Cov["max_packet_size"] = maxPkt
	run.Assumptions = append(run.Assumptions,
		"the underlying stream is an in-memory ordered byte pipe with atomic writes; in 'explore' mode every Read may return any shorter length, each such short read costing one unit of the deviation bound shared with preemptions",
		"for the message session a zero length prefix is an empty message (an empty protobuf message encodes to zero bytes), so only 'later packets are not misframed' is demanded there")
	run.Finish(t)
}

var _ net.Addr = addr("")
