package c23

import (
	"context"
	"fmt"
	"os"
	"strconv"
	"strings"
	"testing"
	"time"

	"verifh/evid"
	"verifh/mc"
	"verifh/sigh"
	"verifh/vsync"
)

type scen struct {
	name      string
	faults    []string // executed in order by the fault thread: break-a, break-b, reattach-a, reattach-b
	nmsg      int
	both      bool // B also sends to A
	reattachB bool
}

// body: fault prefix, then a stable suffix in which everything enabled is run
// to exhaustion while virtual time passes over back-off timers. Progress is
// violated iff the system is quiescent with a send or receive still pending.
func body(sc scen) func() {
	return func() {
		e := sigh.NewE2E("A", "B")
		for _, f := range sc.faults {
			if strings.HasPrefix(f, "silent-break-a") {
				e.Relays["A"].DetachFirst = true
			}
			if strings.HasPrefix(f, "silent-break-b") {
				e.Relays["B"].DetachFirst = true
			}
		}
		pending := map[string]bool{}
		var wg vsync.WaitGroup
		start := func(name string, fn func()) {
			pending[name] = true
			wg.Add(1)
			vsync.GoNamed(name, func() {
				defer wg.Done()
				fn()
				vsync.Touch(&pending)
				delete(pending, name)
			})
		}
		// startBg: a thread that runs until shutdown (receivers); not part of "pending"
		startBg := func(name string, fn func()) {
			wg.Add(1)
			vsync.GoNamed(name, func() {
				defer wg.Done()
				fn()
			})
		}
		start("sendA", func() {
			for i := 0; i < sc.nmsg; i++ {
				e.Send(e.Ctx, "A", "B", fmt.Sprintf("m%d", i+1))
			}
		})
		startBg("recvB", func() {
			if sc.reattachB {
				// B drops its peer reference and takes a new one before receiving
				e.Ref("B", "A")
				vsync.Yield("reattach")
				e.Reattach("B", "A")
			}
			// the application keeps receiving (delivery is at least once: after a
			// reconnect a message may arrive again, and its ack needs a receiver)
			for e.RecvOK(e.Ctx, "B", "A") {
			}
		})
		if sc.both {
			start("sendB", func() { e.Send(e.Ctx, "B", "A", "n1") })
			startBg("recvA", func() {
				for e.RecvOK(e.Ctx, "A", "B") {
				}
			})
		}
		faultsDone := false
		// "@n1-forwarded": the fault fires at an arbitrary point AFTER the relay has
		// put B's message n1 on A's stream (a fault thread that may fire anywhere
		// fires early by default, and each postponement costs a deviation)
		n1Forwarded := make(chan struct{})
		fwdOnce := false
		e.OnTap = func(label, desc string) {
			if !fwdOnce && strings.HasPrefix(label, "srv>a.") && strings.HasPrefix(desc, "RecvMsg(n1") {
				fwdOnce = true
				close(vsync.C(n1Forwarded))
			}
		}
		wg.Add(1)
		vsync.GoNamed("fault", func() {
			defer wg.Done()
			for _, f := range sc.faults {
				if strings.HasSuffix(f, "@n1-forwarded") {
					f = strings.TrimSuffix(f, "@n1-forwarded")
					<-vsync.R(n1Forwarded)
				}
				vsync.Yield("fault " + f)
				switch f {
				case "break-a":
					e.BreakSession("A")
				case "break-b":
					e.BreakSession("B")
				case "silent-break-a":
					e.BreakSessionSilently("A")
				case "silent-break-b":
					e.BreakSessionSilently("B")
				}
			}
			vsync.Touch(&pending)
			faultsDone = true
		})
		// stable suffix
		vsync.Quiesce()
		time.Sleep(5 * time.Minute)
		vsync.Quiesce()
		vsync.Touch(&pending)
		var ps []string
		for k := range pending {
			ps = append(ps, k)
		}
		if len(ps) > 0 && faultsDone {
			vsync.Logf("V23:pending-at-quiescence n=%d", len(ps))
		}
		e.Shutdown()
		wg.Wait()
	}
}

func TestC23(t *testing.T) {
	run := evid.Start("C23", "model_checking")
	agg := mc.NewAgg(run)
	bound := 1
	scens := []scen{
		{"stable", nil, 1, false, false},
		{"break-b", []string{"break-b"}, 1, false, false},
		{"break-a", []string{"break-a"}, 1, false, false},
		{"reattach-b", nil, 1, false, true},
		// the client's stream fails without the relay noticing: the retry usurps the old, still registered call
		{"both-ways-silent-break-a", []string{"silent-break-a"}, 1, true, false},
	}
	if !run.Quick() {
		bound = 2
		scens = append(scens,
			scen{"two-messages-break-b", []string{"break-b"}, 2, false, false},
			scen{"both-ways-break-b", []string{"break-b"}, 1, true, false},
			scen{"break-b-twice", []string{"break-b", "break-b"}, 1, false, false},
			scen{"break-both", []string{"break-a", "break-b"}, 1, false, false},
			scen{"both-ways-silent-break-a-after-b's-message-was-forwarded", []string{"silent-break-a@n1-forwarded"}, 1, true, false},
		)
	}
	if b := os.Getenv("VERIF_BOUND"); b != "" {
		bound, _ = strconv.Atoi(b)
	}
	if only := os.Getenv("VERIF_ONLY"); only != "" {
		var f []scen
		for _, s := range scens {
			if strings.Contains(s.name, only) {
				f = append(f, s)
			}
		}
		scens = f
	}
	mc.RunScenarios(t, agg, len(scens), func(i int) *vsync.Config {
		sc := scens[i]
		return &vsync.Config{Name: "relay-e2e/" + sc.name, Bound: bound, Delay: true, Deadline: run.Deadline(), MaxStep: 20000, Horizon: 10 * time.Minute,
			Body: body(sc),
			Check: func(x *vsync.Exec) string {
				if x.HorizonHit {
					return ""
				}
				if x.Deadlock {
					return "V23:deadlock"
				}
				return strings.Join(sigh.Verdicts(x.Log, "V23:"), " ; ")
			}}
	}, sigh.ClassKeys)
	// S2: real client against the reference relay, re-opens / failures at every relay step
	type s2 struct {
		name                                   string
		nmsg, reopens, fails, resets, detaches int
	}
	s2s := []s2{{"1msg-1reopen", 1, 1, 0, 0, 0}, {"1msg-1fail", 1, 0, 1, 0, 0}, {"2msg-1reopen", 2, 1, 0, 0, 0},
		{"1msg-1fail-state-reset", 1, 0, 1, 1, 0}, {"1msg-1detach", 1, 0, 0, 0, 1}, {"2msg-1detach-1fail-reset", 2, 0, 1, 1, 1}}
	if !run.Quick() {
		s2s = append(s2s, s2{"1msg-2reopen", 1, 2, 0, 0, 0}, s2{"2msg-2reopen", 2, 2, 0, 0, 0}, s2{"2msg-1reopen-1fail", 2, 1, 1, 0, 0},
			s2{"2msg-2fail-2reset", 2, 0, 2, 2, 0}, s2{"2msg-1reopen-1detach-1fail-reset", 2, 1, 1, 1, 1})
	}
	// the client-only harness is small: one more delay than the end-to-end one
	// (a write caught between two of the client's critical sections while the
	// relay's re-open is processed needs two)
	s2bound := bound + 1
	mc.RunScenarios(t, agg, len(s2s), func(i int) *vsync.Config {
		sc := s2s[i]
		b := s2bound
		if run.Quick() && sc.detaches > 0 && sc.fails > 0 {
			b = bound // the largest client-only scenario keeps the end-to-end bound in the quick tier (90 k executions otherwise)
		}
		return &vsync.Config{Name: "client-s2/" + sc.name, Bound: b, Delay: true, Deadline: run.Deadline(), MaxStep: 20000, Horizon: 10 * time.Minute,
			Body: s2body(sc.nmsg, sc.reopens, sc.fails, sc.resets, sc.detaches),
			Check: func(x *vsync.Exec) string {
				if x.HorizonHit {
					return ""
				}
				if x.Deadlock {
					return "V23:deadlock"
				}
				return strings.Join(sigh.Verdicts(x.Log, "V23:"), " ; ")
			}}
	}, sigh.ClassKeys)
	// S1: the real relay with scripted clients, one of them slow to drain its
	// stream (the relay's Send blocks) while the other side's call ends and a new
	// one attaches and sends: at quiescence, with every stream draining again,
	// nothing may be left queued at the relay for an attached peer
	s1 := []sigh.Scen{
		{"slow-receiver/sender-reattaches-then-sends", [][]string{{"attach:a1:A:B", "attachs:b1:B:A", "wait", "cancel:a1", "wait", "attach:a2:A:B", "wait", "send:a2:m1", "wait", "resume:b1", "wait"}}},
		{"slow-receiver/sender-usurps-then-sends", [][]string{{"attach:a1:A:B", "attachs:b1:B:A", "wait", "attach:a2:A:B", "wait", "send:a2:m1", "wait", "resume:b1", "wait"}}},
		{"receiver-stalls-later/sender-reattaches-then-sends", [][]string{{"attach:a1:A:B", "attach:b1:B:A", "wait", "stall:b1", "cancel:a1", "wait", "attach:a2:A:B", "wait", "send:a2:m1", "wait", "resume:b1", "wait"}}},
	}
	if !run.Quick() {
		s1 = append(s1, sigh.Scen{"slow-receiver/send-in-flight-across-reattach", [][]string{{"attach:a1:A:B", "attachs:b1:B:A", "wait", "send:a1:m1", "cancel:a1", "attach:a2:A:B", "wait", "send:a2:m2", "wait", "resume:b1", "wait"}}})
	}
	sigh.ExploreS1(t, run, agg, "V23:", s1, bound)
	agg.Finish(true)
	run.Cov["delay_bound"] = bound
	run.Cov["delay_bound_client_only_harness"] = s2bound
	run.Assumptions = append(run.Assumptions,
		"real relay server and two real signaling clients over instrumented in-memory streams; constant 1 s back-off; virtual time",
		"liveness reduced to safety: in the stable suffix every enabled goroutine is run to exhaustion and virtual time advances 5 minutes; progress is violated iff the system is then quiescent with a Send/Recv still pending (fairness is built in, nothing spins)")
	run.Finish(t)
}

var _ = context.Background

// s2body: client-only harness. The real client sends nmsg messages through a
// reference relay that may re-open the session / fail the stream at every step
// (bounded), then stays stable.
func s2body(nmsg, reopens, fails, resets, detaches int) func() {
	return func() {
		s := sigh.NewS2Ex(reopens, fails, resets, detaches)
		done := 0
		var wg vsync.WaitGroup
		wg.Add(1)
		vsync.GoNamed("sendA", func() {
			defer wg.Done()
			for i := 0; i < nmsg; i++ {
				_, err := s.Ref.Send(s.Ctx, []byte(fmt.Sprintf("m%d", i+1)))
				if err != nil {
					return
				}
				vsync.Touch(&done)
				done++
			}
		})
		vsync.Quiesce()
		time.Sleep(5 * time.Minute)
		vsync.Quiesce()
		vsync.Touch(&done)
		if done < nmsg {
			vsync.Logf("V23:send-pending-at-quiescence done=%d of %d", done, nmsg)
		}
		s.Shutdown()
		wg.Wait()
	}
}
