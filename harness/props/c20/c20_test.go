package c20

import (
	"testing"

	"verifh/evid"
	"verifh/mc"
	"verifh/sigh"
)

func scenarios(quick bool) []sigh.Scen {
	s := []sigh.Scen{
		// the sender itself opens a second call (usurping its first) / re-attaches while its message is still queued for the partner
		{"sender-usurps-with-message-queued", [][]string{{"attach:a1:A:B", "wait", "send:a1:m1", "attach:a2:A:B"}, {"attach:b1:B:A"}}},
		{"honest", [][]string{{"attach:a1:A:B", "wait", "send:a1:m1"}, {"attach:b1:B:A", "wait", "send:b1:n1"}}},
		{"foreign-key", [][]string{{"attach:a1:A:B", "wait", "sendas:a1:m1:C"}, {"attach:b1:B:A"}}},
		{"tampered", [][]string{{"attach:a1:A:B", "wait", "sendbad:a1:m1", "send:a1:m2"}, {"attach:b1:B:A"}}},
		{"claims-partner", [][]string{{"attach:a1:A:B", "wait", "sendclaim:a1:m1:B"}, {"attach:b1:B:A"}}},
		// a forgery that re-uses the message seqno of an authentic message the same call sent before
		{"authentic-then-forged-same-seqno", [][]string{{"attach:a1:A:B", "wait", "send:a1:m1", "wait", "sendas=:a1:f1:C"}, {"attach:b1:B:A"}}},
		{"authentic-then-tampered-same-seqno", [][]string{{"attach:a1:A:B", "wait", "send:a1:m1", "sendbad=:a1:f2"}, {"attach:b1:B:A", "wait", "ack:b1:last"}}},
		{"authentic-then-claim-same-seqno", [][]string{{"attach:a1:A:B", "wait", "send:a1:m1", "sendclaim=:a1:f3:B"}, {"attach:b1:B:A"}}},
		// both sides send at the same time (the race is between the two submissions only)
		{"both-send-racing", [][]string{{"!setup", "attach:a1:A:B", "attach:b1:B:A", "wait"}, {"send:a1:m1", "send:a1:m2"}, {"send:b1:n1", "ack:b1:last"}}},
		{"forgery-racing-with-partner-reattach", [][]string{{"!setup", "attach:a1:A:B", "attach:b1:B:A", "wait"}, {"send:a1:m1", "sendas=:a1:f1:C"}, {"cancel:b1", "attach:b2:B:A"}}},
		{"future-epoch", [][]string{{"attach:a1:A:B", "sende:a1:m1:3"}, {"attach:b1:B:A"}}},
		{"stale-then-current", [][]string{{"attach:a1:A:B", "sende:a1:m1:1", "sende:a1:m2:2"}, {"attach:b1:B:A"}}},
		{"no-init", [][]string{{"noinit:a1:A:B"}, {"attach:b1:B:A"}}},
		{"third-party-lite", [][]string{{"attach:a1:A:B"}, {"attach:c1:C:A", "sende:c1:x1:1", "sende:c1:x2:2"}}},
		{"bogus-acks", [][]string{{"attach:a1:A:B", "wait", "send:a1:m1"}, {"attach:b1:B:A", "acke:b1:7:2", "cleare:b1:7:2"}}},
	}
	if !quick {
		s = append(s,
			sigh.Scen{"sender-reattaches-with-message-queued", [][]string{{"attach:a1:A:B", "wait", "send:a1:m1", "cancel:a1", "attach:a2:A:B"}, {"attach:b1:B:A"}}},
			sigh.Scen{"third-party", [][]string{{"attach:a1:A:B", "wait", "send:a1:m1"}, {"attach:b1:B:A"}, {"attach:c1:C:A", "sende:c1:x1:1", "sende:c1:x2:2"}}},
			sigh.Scen{"foreign-then-honest-reattach", [][]string{{"attach:a1:A:B", "wait", "sendas:a1:m1:C", "attach:a2:A:B", "wait", "send:a2:m2"}, {"attach:b1:B:A"}}},
			sigh.Scen{"future-epoch-after-reattach", [][]string{{"attach:a1:A:B", "sende:a1:m1:5"}, {"attach:b1:B:A", "cancel:b1", "attach:b2:B:A"}}},
			sigh.Scen{"cross-pair", [][]string{{"attach:a1:A:B", "wait", "send:a1:m1"}, {"attach:b1:B:C", "wait", "send:b1:n1"}, {"attach:c1:C:B", "wait", "send:c1:x1"}}},
			sigh.Scen{"claims-third", [][]string{{"attach:a1:A:B", "wait", "sendclaim:a1:m1:C"}, {"attach:b1:B:A"}, {"attach:c1:C:B"}}},
		)
	}
	return s
}

func TestC20(t *testing.T) {
	run := evid.Start("C20", "model_checking")
	agg := mc.NewAgg(run)
	bound := 1
	if !run.Quick() {
		bound = 2
	}
	sigh.ExploreS1(t, run, agg, "V20:", scenarios(run.Quick()), bound)
	agg.Finish(true)
	agg.RequireTag("saw RecvMsg")
	run.Cov["preemption_bound"] = bound
	run.Assumptions = append(run.Assumptions,
		"clients (honest and malicious) are harness script threads speaking the raw Session stream; identities come from the stream context as with NewServerWithIdentify",
		"a forwarded message is matched to its submission by payload and message seqno; signatures are made with real keys and verified by the real server")
	run.Finish(t)
}
