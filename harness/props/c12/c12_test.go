package c12

import (
	"bytes"
	"crypto/sha256"
	"encoding/hex"
	"fmt"
	"testing"

	"github.com/aperturerobotics/bifrost/peer"

	"verifh/enum"
	"verifh/evid"
)

// The oracle is the property itself, as a combinatorial model over how a
// ciphertext was produced and how it is opened:
//
//	plaintext returned  <=>  matching key AND same context AND unmodified
//	and then the plaintext equals the original message;
//	every other case returns an error and no bytes; nothing panics.
//
// No cryptography is re-implemented: the model knows, by construction of the
// case, which of the three conditions hold.

// stream returns n deterministic incompressible bytes (sha256 counter mode).
func stream(label string, n int) []byte {
	var out []byte
	for i := 0; len(out) < n; i++ {
		h := sha256.Sum256([]byte(fmt.Sprintf("verif-c12/%s/%d", label, i)))
		out = append(out, h[:]...)
	}
	return out[:n]
}

type fixture struct {
	ki, ci, mi int
	ct         []byte
}

func short(b []byte) string {
	if len(b) <= 48 {
		return hex.EncodeToString(b)
	}
	return fmt.Sprintf("%s..(%d bytes)", hex.EncodeToString(b[:48]), len(b))
}

func TestC12(t *testing.T) {
	run := evid.Start("C12", "exploration")
	acc := enum.NewAcc(run, "7 messages (0,1,31,32,33 B, 4 KiB compressible, 4 KiB incompressible) x 4 contexts x 3 keys encrypted with EncryptToPubKey; each ciphertext opened with every (key, context) combination; selected ciphertexts (quick: 4, thorough: all 84) under every single-bit flip, every truncation length and every 1-byte extension; raw byte strings of every length 0..64 over 8 fill patterns x 3 keys x 2 contexts. Non-trivial = any case other than an unmodified ciphertext opened with its own key and context; distinct by (group, case description)")
	keys := enum.Keys(3)
	msgs := [][]byte{
		{},
		{0x42},
		stream("m31", 31),
		stream("m32", 32),
		stream("m33", 33),
		bytes.Repeat([]byte("bifrost "), 512),
		stream("m4k", 4096),
	}
	msgNames := []string{"empty", "1B", "31B", "32B", "33B", "4KiB-compressible", "4KiB-incompressible"}
	ctxs := []string{"", "ctx-a", "ctx-a ", "ctx-b"}

	// open runs the real decryption under recover and judges it against the model.
	// wantOK: the model says this must return exactly want.
	open := func(group, desc string, ki, ci int, ct []byte, wantOK bool, want []byte) {
		var got []byte
		var err error
		p := enum.Try(func() { got, err = peer.DecryptWithPrivKey(keys[ki].Priv, ctxs[ci], ct) })
		caseKey := fmt.Sprintf("%s/open-k%d-c%d", desc, ki, ci)
		replay := map[string]any{"case": caseKey, "key_fixture": ki, "context": ctxs[ci], "ciphertext_len": len(ct), "ciphertext": short(ct)}
		if p != nil {
			acc.Case(group, caseKey, !wantOK, "panic")
			k := "panic/" + group
			if len(ct) < 36 {
				k = "panic/ciphertext-shorter-than-36"
			}
			run.Violation(k, fmt.Sprintf("DecryptWithPrivKey panicked on a %d-byte ciphertext (%s): %v", len(ct), caseKey, p), replay)
			return
		}
		out := "error"
		if err == nil {
			out = "plaintext"
		}
		acc.Case(group, caseKey, !wantOK, out)
		switch {
		case wantOK && err != nil:
			run.Violation("roundtrip-fails/"+group, fmt.Sprintf("decrypting an unmodified ciphertext with the matching key and context failed (%s): %v", caseKey, err), replay)
		case wantOK && !bytes.Equal(got, want):
			run.Violation("roundtrip-differs/"+group, fmt.Sprintf("decryption returned %d bytes that differ from the %d-byte original (%s)", len(got), len(want), caseKey), replay)
		case !wantOK && err == nil && bytes.Equal(got, want) && want != nil:
			run.Violation("accepts/"+group, fmt.Sprintf("decryption succeeded although key, context or ciphertext differ from the encryption (%s); the original plaintext was returned", caseKey), replay)
		case !wantOK && err == nil:
			run.Violation("other-plaintext/"+group, fmt.Sprintf("decryption returned %d bytes of plaintext without error for a wrong key / context / modified or arbitrary ciphertext (%s)", len(got), caseKey), replay)
		case !wantOK && len(got) != 0:
			run.Violation("bytes-with-error/"+group, fmt.Sprintf("decryption failed with %v but still returned %d bytes (%s)", err, len(got), caseKey), replay)
		}
	}

	// --- arbitrary bytes as ciphertext ---
	fills := []struct {
		name string
		f    func(i, n int) byte
	}{
		{"00", func(i, n int) byte { return 0x00 }},
		{"ff", func(i, n int) byte { return 0xff }},
		{"01", func(i, n int) byte { return 0x01 }},
		{"7f", func(i, n int) byte { return 0x7f }},
		{"80", func(i, n int) byte { return 0x80 }},
		{"a5", func(i, n int) byte { return 0xa5 }},
		{"count", func(i, n int) byte { return byte(i) }},
		{"sha", nil},
	}
	type rcase struct {
		desc   string
		ki, ci int
		ct     []byte
	}
	var rcs []rcase
	for n := 0; n <= 64; n++ {
		for _, fl := range fills {
			b := make([]byte, n)
			if fl.f == nil {
				copy(b, stream(fmt.Sprintf("raw%d", n), n))
			} else {
				for i := range b {
					b[i] = fl.f(i, n)
				}
			}
			for ki := range keys {
				for _, ci := range []int{0, 1} {
					rcs = append(rcs, rcase{fmt.Sprintf("raw/len%d/%s", n, fl.name), ki, ci, b})
				}
			}
		}
	}
	// sequential and first, so that the reported counterexample is the smallest one
	for _, c := range rcs {
		open("raw", c.desc, c.ki, c.ci, c.ct, false, nil)
	}
	acc.Sample(map[string]any{"group": "raw", "example": "raw/len34/00 opened with k0 under context \"\": 34 zero bytes"})

	// --- grid: encrypt, then open with every (key, context) ---
	var fx []fixture
	for ki, k := range keys {
		for ci, ctx := range ctxs {
			for mi, m := range msgs {
				var ct []byte
				var err error
				base := fmt.Sprintf("k%d/c%d/%s", ki, ci, msgNames[mi])
				if p := enum.Try(func() { ct, err = peer.EncryptToPubKey(k.Pub, ctx, append([]byte{}, m...)) }); p != nil {
					acc.Case("encrypt", base, true, "panic")
					run.Violation("panic/encrypt", fmt.Sprintf("EncryptToPubKey panicked (%s): %v", base, p), base)
					continue
				}
				if err != nil {
					acc.Case("encrypt", base, true, "error")
					run.Violation("roundtrip-fails/encrypt", fmt.Sprintf("EncryptToPubKey to a valid key failed (%s): %v", base, err), base)
					continue
				}
				fx = append(fx, fixture{ki, ci, mi, ct})
				if len(fx) == 1 || (ki == 1 && ci == 1 && mi == 4) {
					acc.Sample(map[string]any{"group": "grid", "case": base, "context": ctx, "message_len": len(m), "ciphertext_len": len(ct), "ciphertext": short(ct)})
				}
			}
		}
	}
	enum.Par(len(fx), 16, func(i int) {
		f := fx[i]
		base := fmt.Sprintf("k%d/c%d/%s", f.ki, f.ci, msgNames[f.mi])
		for kj := range keys {
			for cj := range ctxs {
				match := kj == f.ki && cj == f.ci
				g := "grid-match"
				switch {
				case kj != f.ki && cj != f.ci:
					g = "grid-wrong-key-and-context"
				case kj != f.ki:
					g = "grid-wrong-key"
				case cj != f.ci:
					g = "grid-wrong-context"
				}
				open(g, base, kj, cj, f.ct, match, msgs[f.mi])
			}
		}
	})

	// --- deviation 1 of the ciphertext, opened with the right key and context ---
	// quick: every ciphertext of the five short messages, plus one of each 4 KiB
	// kind; thorough: all 84.
	var sel []fixture
	for _, f := range fx {
		if !run.Quick() || f.mi <= 4 ||
			(f.ki == 2 && f.ci == 2 && f.mi == 5) ||
			(f.ki == 1 && f.ci == 3 && f.mi == 6) {
			sel = append(sel, f)
		}
	}
	for _, f := range sel {
		n := len(f.ct)
		name := fmt.Sprintf("k%d/c%d/%s/", f.ki, f.ci, msgNames[f.mi])
		// indices: [0,8n) bit flips, [8n,9n) truncation lengths, [9n,9n+256) appended byte
		enum.Par(9*n+256, 16, func(i int) {
			if run.Expired() {
				acc.Capped()
				return
			}
			switch {
			case i < 8*n:
				c := append([]byte{}, f.ct...)
				c[i/8] ^= 1 << uint(i%8)
				open("bitflip", fmt.Sprintf("%sflip[%d.%d]", name, i/8, i%8), f.ki, f.ci, c, false, msgs[f.mi])
			case i < 9*n:
				l := i - 8*n
				open("truncation", fmt.Sprintf("%strunc[%d]", name, l), f.ki, f.ci, append([]byte{}, f.ct[:l]...), false, msgs[f.mi])
			default:
				v := byte(i - 9*n)
				open("extension", fmt.Sprintf("%sext=%02x", name, v), f.ki, f.ci, append(append([]byte{}, f.ct...), v), false, msgs[f.mi])
			}
		})
	}
	acc.Sample(map[string]any{"group": "bitflip", "example": "k0/c1/33B/flip[35.7]: top bit of the last byte of the wrapped ephemeral key flipped, all else as encrypted"})
	acc.Sample(map[string]any{"group": "truncation", "example": "k0/c1/33B/trunc[35]: first 35 bytes of a valid ciphertext"})

	acc.Finish()
	run.Cov["ciphertexts"] = len(fx)
	run.Cov["mutated_ciphertexts"] = len(sel)
	run.Cov["alphabet"] = "messages {0,1,31,32,33 B, 4 KiB x2}; contexts {\"\", \"ctx-a\", \"ctx-a \", \"ctx-b\"}; 3 fixture keys; bit flips / truncations / 1-byte extensions; raw strings len 0..64 x 8 fills"
	run.Cov["bound"] = "deviation <= 1 around valid ciphertexts; raw strings up to 64 bytes over the stated fill patterns"
	run.Assumptions = append(run.Assumptions,
		"the oracle is the case construction itself (which key, context and ciphertext were used); no cryptographic reference is needed",
		"ciphertexts outside the deviation-1 ball and raw strings outside the stated family are not covered")
	run.Finish(t)
}
