package c29

import (
	"context"
	"io"
	"strings"
	"testing"

	"github.com/aperturerobotics/bifrost/pubsub"
	"github.com/aperturerobotics/bifrost/pubsub/floodsub"
	"github.com/sirupsen/logrus"

	"verifh/enum"
	"verifh/evid"
	"verifh/mc"
	"verifh/vsync"
)

// e2: a message is being delivered to a subscription with two handlers while
// another goroutine releases the subscription (or removes the handlers). All
// interleavings within the preemption bound run on the real FloodSub under the
// controlled scheduler. A handler invocation may not *start* after Release (or
// the remove function) has returned.
type e2scen struct {
	name string
	op   string // "release" | "remove"
	msgs int
}

func e2body(sc e2scen) func() {
	return func() {
		lg := logrus.New()
		lg.SetOutput(io.Discard)
		key := enum.Keys(1)[0]
		ctx, cancel := context.WithCancel(context.Background())
		ps, err := floodsub.NewFloodSub(ctx, logrus.NewEntry(lg), key.Priv, &floodsub.Config{})
		if err != nil {
			vsync.Logf("BROKEN %v", err)
			cancel()
			return
		}
		// also runs when the execution is cut (threads unwound): the cache's
		// finalizer must never find a live janitor
		defer floodsub.VerifStopJanitor(ps)
		fs := ps.(*floodsub.FloodSub)
		sub, err := fs.AddSubscription(ctx, key.Priv, "ch")
		if err != nil {
			vsync.Logf("BROKEN %v", err)
			cancel()
			return
		}
		handler := func(m pubsub.Message) {
			vsync.LogOrdered("handler-start")
			vsync.Yield("in-handler")
			vsync.LogOrdered("handler-end")
		}
		rm1 := sub.AddHandler(handler)
		rm2 := sub.AddHandler(handler)
		var wg vsync.WaitGroup
		wg.Add(2)
		vsync.GoNamed("publisher", func() {
			defer wg.Done()
			for i := 0; i < sc.msgs; i++ {
				// Publish delivers to the local subscriptions, then queues the
				// message for the router loop (not running here: cancelled below)
				_ = fs.Publish(ctx, "ch", key.Priv, []byte{byte('a' + i)})
			}
		})
		vsync.GoNamed("releaser", func() {
			defer wg.Done()
			vsync.Yield("before-release")
			if sc.op == "release" {
				sub.Release()
			} else {
				rm1()
				rm2()
			}
			vsync.LogOrdered("released")
		})
		vsync.Quiesce()
		cancel()
		wg.Wait()
		vsync.Quiesce()
	}
}

func e2check(x *vsync.Exec) string {
	if x.HorizonHit || x.Deadlock {
		return ""
	}
	released := false
	for _, l := range x.Log {
		switch {
		case strings.HasPrefix(l, "BROKEN"):
			return ""
		case l == "released":
			released = true
		case l == "handler-start" && released:
			return "handler-invoked-after-release-returned"
		}
	}
	return ""
}

func exploreE2(t *testing.T, run *evid.Run, agg *mc.Agg) {
	scens := []e2scen{{"release-during-delivery", "release", 1}, {"remove-during-delivery", "remove", 1}}
	bound := 2
	if !run.Quick() {
		bound = 3
		scens = append(scens, e2scen{"release-during-two-deliveries", "release", 2})
	}
	mc.RunScenarios(t, agg, len(scens), func(i int) *vsync.Config {
		sc := scens[i]
		return &vsync.Config{Name: "floodsub-e2/" + sc.name, Bound: bound, Deadline: run.Deadline(), MaxStep: 5000, Body: e2body(sc), Check: e2check,
			Observe: func(x *vsync.Exec) []string {
				for _, l := range x.Log {
					if l == "handler-start" {
						return []string{"handler ran"}
					}
				}
				return nil
			}}
	}, func(v *vsync.Violation) string { return "concurrent/" + v.What })
}
