package c29

import (
	"context"
	"fmt"
	"io"
	"runtime"
	"sort"
	"strings"
	"sync"
	"sync/atomic"
	"testing"
	"testing/synctest"
	"time"

	"github.com/aperturerobotics/bifrost/crypto"
	"github.com/aperturerobotics/bifrost/hash"
	"github.com/aperturerobotics/bifrost/link"
	"github.com/aperturerobotics/bifrost/peer"
	"github.com/aperturerobotics/bifrost/protocol"
	"github.com/aperturerobotics/bifrost/pubsub"
	pubsub_controller "github.com/aperturerobotics/bifrost/pubsub/controller"
	"github.com/aperturerobotics/bifrost/pubsub/floodsub"
	"github.com/aperturerobotics/bifrost/pubsub/util/pubmessage"
	"github.com/aperturerobotics/controllerbus/controller"
	timestamp "github.com/aperturerobotics/protobuf-go-lite/types/known/timestamppb"
	"github.com/sirupsen/logrus"

	"verifh/enum"
	"verifh/evid"
	"verifh/fakes"
	"verifh/hist"
	"verifh/mc"
	"verifh/ref"
)

func discardLogger() *logrus.Entry {
	lg := logrus.New()
	lg.SetOutput(io.Discard)
	return logrus.NewEntry(lg)
}

// =====================================================================
// Part A: opener rule on the real pubsub controller (tracked-link logic)
// =====================================================================

// fakePubSub records the peer streams the controller hands to the router.
type fakePubSub struct {
	mu      sync.Mutex
	streams []string
}

func (f *fakePubSub) Execute(ctx context.Context) error { <-ctx.Done(); return ctx.Err() }
func (f *fakePubSub) AddPeerStream(tpl pubsub.PeerLinkTuple, initiator bool, ms link.MountedStream) {
	f.mu.Lock()
	f.streams = append(f.streams, fmt.Sprintf("peer=%s link=%d initiator=%v", tpl.PeerID.String(), tpl.LinkID, initiator))
	f.mu.Unlock()
}
func (f *fakePubSub) AddSubscription(ctx context.Context, k crypto.PrivKey, ch string) (pubsub.Subscription, error) {
	return nil, context.Canceled
}
func (f *fakePubSub) Close() {}

const testProto = protocol.ID("verif/pubsub")

// side is one end of the simulated links: a real Controller whose Execute
// loop tracks the links delivered through its real EstablishLink handler.
type side struct {
	local  peer.ID
	ps     *fakePubSub
	inst   *fakes.Instance
	opened map[string]int // remote peer -> OpenMountedStream calls
	mu     sync.Mutex
}

func startSide(ctx context.Context, local peer.ID) *side {
	s := &side{local: local, ps: &fakePubSub{}, opened: map[string]int{}}
	c := pubsub_controller.NewController(discardLogger(), nil, &controller.Info{Id: "verif/pubsub"}, "", testProto,
		func(ctx context.Context, le *logrus.Entry, p peer.Peer, h pubsub.PubSubHandler) (pubsub.PubSub, error) {
			return s.ps, nil
		})
	go func() { _ = c.Execute(ctx) }()
	s.inst = &fakes.Instance{Dir: link.NewEstablishLinkWithPeer("", "")}
	if _, err := c.HandleDirective(ctx, s.inst); err != nil {
		evid.Fatal("HandleDirective: %v", err)
	}
	if len(s.inst.Handlers) != 1 {
		evid.Fatal("pubsub controller did not register an EstablishLink reference handler")
	}
	return s
}

// addLink announces a mounted link to remote through the directive value callback.
func (s *side) addLink(remote peer.ID, uuid uint64) {
	r := remote.String()
	ml := &fakes.MountedLink{UUID: uuid, Local: s.local, Remote: remote}
	ml.OpenFn = func(ctx context.Context, pid protocol.ID) (link.MountedStream, error) {
		s.mu.Lock()
		s.opened[r]++
		s.mu.Unlock()
		return &fakes.MountedStream{Strm: &fakes.Stream{Name: "s"}, Proto: pid, Peer: remote, Link: ml}, nil
	}
	s.inst.Handlers[0].HandleValueAdded(s.inst, &fakes.Value{ID: uint32(uuid), Val: link.MountedLink(ml)})
}

func openerRule(t *testing.T, run *evid.Run, acc *enum.Acc, ids []*enum.Key) {
	n := len(ids)
	// opens[a][b]: OpenMountedStream calls made by the controller of a on its link to b
	opens := make([][]int, n)
	for i := range opens {
		opens[i] = make([]int, n)
	}
	// (1) every unordered pair, both ends simulated in one bubble: 2 ordered pairs each
	for a := 0; a < n; a++ {
		for b := a + 1; b < n; b++ {
			var oa, ob, sa, sb int
			var strs []string
			p := enum.Try(func() {
				synctest.Test(t, func(t *testing.T) {
					ctx, cancel := context.WithCancel(context.Background())
					A, B := startSide(ctx, ids[a].ID), startSide(ctx, ids[b].ID)
					synctest.Wait()
					A.addLink(ids[b].ID, 7)
					B.addLink(ids[a].ID, 7)
					synctest.Wait()
					time.Sleep(time.Second)
					synctest.Wait()
					oa, ob = A.opened[ids[b].ID.String()], B.opened[ids[a].ID.String()]
					sa, sb = len(A.ps.streams), len(B.ps.streams)
					strs = append(append(strs, A.ps.streams...), B.ps.streams...)
					cancel()
					synctest.Wait()
				})
			})
			pair := fmt.Sprintf("%s|%s", ids[a].Name, ids[b].Name)
			if p != nil {
				acc.Case("pair", pair, true, "panic")
				run.Violation("opener/panic", fmt.Sprintf("pair %s: %v", pair, p), pair)
				continue
			}
			opens[a][b], opens[b][a] = oa, ob
			out := fmt.Sprintf("opens %d+%d", oa, ob)
			acc.Case("pair", pair+"/"+ids[a].Name, true, out)
			acc.Case("pair", pair+"/"+ids[b].Name, true, out)
			desc := fmt.Sprintf("link between %s (%s) and %s (%s): controller of %s opened %d stream(s), controller of %s opened %d", ids[a].Name, ids[a].ID.String(), ids[b].Name, ids[b].ID.String(), ids[a].Name, oa, ids[b].Name, ob)
			switch {
			case oa+ob == 0:
				run.Violation("opener/no-side-opens", desc, pair)
			case oa+ob > 1:
				run.Violation("opener/both-or-repeated-open", desc, pair)
			}
			if sa != oa || sb != ob {
				run.Violation("opener/stream-not-handed-to-router", desc+fmt.Sprintf("; AddPeerStream calls %d / %d", sa, sb), pair)
			}
			for _, s := range strs {
				if !strings.HasSuffix(s, "link=7 initiator=true") {
					run.Violation("opener/wrong-stream-attributes", desc+": "+s, pair)
				}
			}
			if a == 0 && b == 1 {
				acc.Sample(map[string]any{"part": "opener", "pair": pair, "ids": []string{ids[a].ID.String(), ids[b].ID.String()}, "opens": []int{oa, ob}, "router_streams": strs})
			}
		}
	}
	// (2) one controller with links to all other peers at once (star): the
	// decision per link must be the same as in the pairwise runs
	for a := 0; a < n; a++ {
		got := make([]int, n)
		p := enum.Try(func() {
			synctest.Test(t, func(t *testing.T) {
				ctx, cancel := context.WithCancel(context.Background())
				A := startSide(ctx, ids[a].ID)
				synctest.Wait()
				for b := 0; b < n; b++ {
					if b != a {
						A.addLink(ids[b].ID, uint64(10+b))
					}
				}
				synctest.Wait()
				time.Sleep(time.Second)
				synctest.Wait()
				for b := 0; b < n; b++ {
					got[b] = A.opened[ids[b].ID.String()]
				}
				cancel()
				synctest.Wait()
			})
		})
		name := "star/" + ids[a].Name
		if p != nil {
			acc.Case("star", name, true, "panic")
			run.Violation("opener/panic", fmt.Sprintf("%s: %v", name, p), name)
			continue
		}
		tot := 0
		for b := 0; b < n; b++ {
			tot += got[b]
			if b != a && got[b] != opens[a][b] {
				run.Violation("opener/decision-depends-on-other-links", fmt.Sprintf("controller of %s opened %d stream(s) to %s when it had %d links, but %d when it had only that link", ids[a].Name, got[b], ids[b].Name, n-1, opens[a][b]), name)
			}
		}
		acc.Case("star", name, true, fmt.Sprintf("opens %d of %d", tot, n-1))
	}
}

// =====================================================================
// Part B: release histories on a real FloodSub subscription (E3)
// =====================================================================

const (
	ch1    = "ch1"
	pubCtx = "bifrost/pubsub/pubmessage 2024-06-05T02:38:47.55258Z channel/"
)

var (
	keys          = enum.Keys(3) // 0 node, 1 remote peer P / author
	statInv       atomic.Int64
	statUnsub     atomic.Int64
	statRaceEvent atomic.Int64
)

type handlerSt struct {
	remove  func()
	removed bool
}

type subSt struct {
	sub      pubsub.Subscription
	released int // number of Release calls
	handlers []*handlerSt
}

type logEnt struct {
	kind string // inv, released, removed
	sub  int
	h    int
	msg  string
}

type rsys struct {
	maxSubs, maxHandlers, maxMsgs int
	ctx                           context.Context
	cancel                        context.CancelFunc
	ps                            pubsub.PubSub
	peerEnd                       *ref.WireEnd
	mu                            sync.Mutex
	log                           []logEnt
	told                          []bool // Subscribe flags the node announced to P for ch1, in order
	otherTold                     []string
	subs                          []*subSt
	nmsg                          int
	dirty                         bool // a subscribe/release happened since the last tick event
	lastTick                      bool
	viol                          []string
}

func newRsys(maxSubs, maxHandlers, maxMsgs int) hist.Sys {
	s := &rsys{maxSubs: maxSubs, maxHandlers: maxHandlers, maxMsgs: maxMsgs}
	s.ctx, s.cancel = context.WithCancel(context.Background())
	ps, err := floodsub.NewFloodSub(s.ctx, discardLogger(), nil, &floodsub.Config{})
	if err != nil {
		evid.Fatal("NewFloodSub: %v", err)
	}
	s.ps = ps
	go func() { _ = ps.Execute(s.ctx) }()
	w := ref.NewWire()
	df := &ref.Deframer{}
	w.Tap = func(from int, b []byte) {
		if from != 0 {
			return
		}
		for _, fr := range df.Push(b) {
			pkt := &floodsub.Packet{}
			if pkt.UnmarshalVT(fr) != nil {
				continue
			}
			s.mu.Lock()
			for _, so := range pkt.GetSubscriptions() {
				if so.GetChannelId() == ch1 {
					s.told = append(s.told, so.GetSubscribe())
					if !so.GetSubscribe() {
						statUnsub.Add(1)
					}
				} else {
					s.otherTold = append(s.otherTold, so.GetChannelId())
				}
			}
			s.mu.Unlock()
		}
	}
	P := keys[1]
	lnk := &fakes.MountedLink{UUID: 1, Local: keys[0].ID, Remote: P.ID}
	ps.AddPeerStream(pubsub.PeerLinkTuple{PeerID: P.ID, LinkID: 1}, false, &fakes.MountedStream{Strm: w.End(0), Proto: floodsub.FloodSubID, Peer: P.ID, Link: lnk})
	s.peerEnd = w.End(1)
	pkt, _ := (&floodsub.Packet{Subscriptions: []*floodsub.SubscriptionOpts{{ChannelId: ch1, Subscribe: true}}}).MarshalVT()
	s.peerEnd.Write(ref.Frame(pkt))
	time.Sleep(250 * time.Millisecond)
	synctest.Wait()
	return s
}

func (s *rsys) live() int {
	n := 0
	for _, x := range s.subs {
		if x.released == 0 {
			n++
		}
	}
	return n
}

func (s *rsys) Enabled() []string {
	var ev []string
	if s.nmsg < s.maxMsgs {
		ev = append(ev, "deliver")
	}
	if len(s.subs) < s.maxSubs && s.live() < 2 {
		ev = append(ev, "subscribe")
	}
	ev = append(ev, "tick")
	for i, x := range s.subs {
		if len(x.handlers) < s.maxHandlers && x.released <= 1 {
			ev = append(ev, fmt.Sprintf("addh:%d", i))
		}
		for j, h := range x.handlers {
			if !h.removed {
				ev = append(ev, fmt.Sprintf("rmh:%d.%d", i, j))
				if x.released == 0 && s.nmsg < s.maxMsgs {
					ev = append(ev, fmt.Sprintf("pub+rmh:%d.%d", i, j))
				}
			}
		}
		if x.released < 2 {
			ev = append(ev, fmt.Sprintf("rel:%d", i))
		}
		if x.released == 0 && s.nmsg < s.maxMsgs {
			ev = append(ev, fmt.Sprintf("pub+rel:%d", i))
		}
	}
	return ev
}

func (s *rsys) rec(e logEnt) { s.mu.Lock(); s.log = append(s.log, e); s.mu.Unlock() }

func (s *rsys) nextMsg() string { s.nmsg++; return fmt.Sprintf("m%d", s.nmsg) }

func (s *rsys) release(i int) {
	s.subs[i].sub.Release()
	s.rec(logEnt{kind: "released", sub: i})
	s.subs[i].released++
	s.dirty = true
}

func (s *rsys) removeHandler(i, j int) {
	s.subs[i].handlers[j].remove()
	s.rec(logEnt{kind: "removed", sub: i, h: j})
	s.subs[i].handlers[j].removed = true
}

// publishLocal publishes through the router's own Publish (synchronously runs
// handleValidMessage, which starts the handler goroutines) and returns
// without waiting for them.
func (s *rsys) publishLocal() {
	if err := s.ps.(*floodsub.FloodSub).Publish(s.ctx, ch1, keys[0].Priv, []byte(s.nextMsg())); err != nil {
		evid.Fatal("Publish: %v", err)
	}
}

func (s *rsys) Apply(ev string) {
	s.lastTick = false
	var i, j int
	switch {
	case ev == "deliver":
		in := &pubmessage.PubMessageInner{Data: []byte(s.nextMsg()), Channel: ch1, Timestamp: &timestamp.Timestamp{Seconds: 946684800}}
		body, _ := in.MarshalVT()
		m, err := peer.NewSignedMsg(pubCtx+ch1, keys[1].Priv, hash.HashType_HashType_SHA256, body)
		if err != nil {
			evid.Fatal("NewSignedMsg: %v", err)
		}
		pkt, _ := (&floodsub.Packet{Publish: []*peer.SignedMsg{m}}).MarshalVT()
		s.peerEnd.Write(ref.Frame(pkt))
	case ev == "subscribe":
		sub, err := s.ps.AddSubscription(s.ctx, keys[0].Priv, ch1)
		if err != nil {
			evid.Fatal("AddSubscription: %v", err)
		}
		s.subs = append(s.subs, &subSt{sub: sub})
		s.dirty = true
	case ev == "tick":
		time.Sleep(150 * time.Millisecond)
		s.dirty = false
		s.lastTick = true
	case scan(ev, "addh:%d", &i):
		x := s.subs[i]
		hIdx := len(x.handlers)
		h := &handlerSt{}
		h.remove = x.sub.AddHandler(func(m pubsub.Message) {
			statInv.Add(1)
			s.rec(logEnt{kind: "inv", sub: i, h: hIdx, msg: string(m.GetData())})
		})
		x.handlers = append(x.handlers, h)
	case scan(ev, "rmh:%d.%d", &i, &j):
		s.removeHandler(i, j)
	case scan(ev, "rel:%d", &i):
		s.release(i)
	case scan(ev, "pub+rel:%d", &i):
		statRaceEvent.Add(1)
		s.publishLocal()
		s.release(i)
	case scan(ev, "pub+rmh:%d.%d", &i, &j):
		statRaceEvent.Add(1)
		s.publishLocal()
		s.removeHandler(i, j)
	default:
		evid.Fatal("unknown event %q", ev)
	}
}

func scan(s, format string, a ...any) bool {
	n, err := fmt.Sscanf(s, format, a...)
	if err != nil || n != len(a) {
		return false
	}
	// Sscanf accepts a prefix match; require the exact rendering
	vals := make([]any, len(a))
	for k, p := range a {
		vals[k] = *(p.(*int))
	}
	return fmt.Sprintf(format, vals...) == s
}

// Canon: the structure that determines future behaviour (not the invocation
// log, which the oracle reads in Check): subscriptions with their release and
// handler states, the router's channel entry, what the peer was last told,
// whether an evaluation tick has passed since the last change.
func (s *rsys) Canon() string {
	s.mu.Lock()
	defer s.mu.Unlock()
	var ss []string
	for _, x := range s.subs {
		var hs []string
		for _, h := range x.handlers {
			hs = append(hs, fmt.Sprint(h.removed))
		}
		ss = append(ss, fmt.Sprintf("rel=%d h=%v", x.released, hs))
	}
	present, n := floodsub.VerifLocalChannel(s.ps, ch1)
	told := "never"
	if len(s.told) > 0 {
		told = fmt.Sprint(s.told[len(s.told)-1])
	}
	return fmt.Sprintf("subs=%v chan=%v/%d told=%s dirty=%v msgs=%d other=%v", ss, present, n, told, s.dirty, s.nmsg, s.otherTold)
}

func (s *rsys) Check() []string {
	s.mu.Lock()
	defer s.mu.Unlock()
	var out []string
	released := map[int]bool{}
	removed := map[[2]int]bool{}
	for _, e := range s.log {
		switch e.kind {
		case "released":
			released[e.sub] = true
		case "removed":
			removed[[2]int{e.sub, e.h}] = true
		case "inv":
			if released[e.sub] {
				out = append(out, fmt.Sprintf("handler-invoked-after-release :: handler %d of subscription %d was invoked with %s after Release() of that subscription had returned", e.h, e.sub, e.msg))
			} else if removed[[2]int{e.sub, e.h}] {
				out = append(out, fmt.Sprintf("handler-invoked-after-remove :: handler %d of subscription %d was invoked with %s after its remove function had returned", e.h, e.sub, e.msg))
			}
		}
	}
	if s.lastTick {
		live := 0
		for _, x := range s.subs {
			if x.released == 0 {
				live++
			}
		}
		if live == 0 && len(s.told) > 0 && s.told[len(s.told)-1] {
			out = append(out, fmt.Sprintf("unsubscribe-not-announced :: every local subscription to %s is released and an evaluation tick (150ms) has passed, but the last thing the peer was told about %s is Subscribe=true (announcements so far: %v)", ch1, ch1, s.told))
		}
	}
	for _, c := range s.otherTold {
		out = append(out, "announcement-for-foreign-channel :: node announced channel "+c)
	}
	sort.Strings(out)
	return out
}

func (s *rsys) Close() {
	s.cancel()
	s.peerEnd.Close()
	synctest.Wait()
	floodsub.VerifStopJanitor(s.ps)
}

func TestC29(t *testing.T) {
	run := evid.Start("C29", "model_checking")
	runtime.GOMAXPROCS(1)

	// Part A
	acc := enum.NewAcc(run, "opener rule: for every unordered pair of 10 fixture peer IDs both ends of one link are simulated with a real pubsub Controller each (2 ordered pairs per run), plus one run per peer with links to all 9 others at once; every case is non-trivial (distinct peers); distinct by (pair, side)")
	ids := enum.Keys(10)
	openerRule(t, run, acc, ids)
	acc.Finish()
	opener := map[string]any{}
	for _, k := range []string{"evaluations", "distinct_nontrivial", "rule", "samples", "outcomes", "distinct_outcomes", "groups", "exhaustive"} {
		opener[k] = run.Cov[k]
		delete(run.Cov, k)
	}
	openerExhaustive, _ := opener["exhaustive"].(bool)

	// Part B
	agg := mc.NewAgg(run)
	depth, maxSubs, maxH, maxMsgs := 8, 3, 2, 3
	if !run.Quick() {
		depth, maxSubs, maxH, maxMsgs = 11, 3, 2, 4
	}
	res := hist.BFS(t, &hist.Config{Name: "floodsub-release", New: func() hist.Sys { return newRsys(maxSubs, maxH, maxMsgs) },
		MaxDepth: depth, Deadline: run.Deadline()})
	agg.AddHist(res)
	exploreE2(t, run, agg)
	slow := slowPeer(t, run)
	replaced := replacedStream(t, run)
	window := windowOrders(t, run)
	agg.Finish(false)
	agg.RequireTag("handler ran")
	if run.NViolations() == 0 && (statInv.Load() == 0 || statUnsub.Load() == 0 || statRaceEvent.Load() == 0) {
		evid.Fatal("vacuous: %d handler invocations, %d unsubscribe announcements, %d publish+release events", statInv.Load(), statUnsub.Load(), statRaceEvent.Load())
	}
	run.Cov["exhaustive"] = run.Cov["exhaustive"].(bool) && openerExhaustive
	run.Cov["opener_rule"] = opener
	run.Cov["slow_peer"] = slow
	run.Cov["replaced_stream"] = replaced
	run.Cov["subscribe_release_attach_orders"] = window
	run.Cov["evaluations"] = opener["evaluations"]
	run.Cov["distinct_nontrivial"] = opener["distinct_nontrivial"]
	run.Cov["rule"] = opener["rule"]
	run.Cov["handler_invocations_observed"] = statInv.Load()
	run.Cov["unsubscribe_announcements_observed"] = statUnsub.Load()
	run.Cov["publish_then_release_events"] = statRaceEvent.Load()
	run.Cov["depth_completed"] = res.DepthCompleted
	run.Cov["bound"] = fmt.Sprintf("release histories up to depth %d over <=%d subscriptions (<=2 live), <=%d handlers each, <=%d messages; opener rule over %d peer IDs (%d ordered pairs)", depth, maxSubs, maxH, maxMsgs, len(ids), len(ids)*(len(ids)-1))
	run.Assumptions = append(run.Assumptions,
		"opener rule: links are fakes delivered through the controller's real EstablishLink reference handler; the controller's real Execute/trackLink decide; the router is a recording fake; the controller runs without a bus (empty peer id: no peer lookup)",
		"release histories: events are applied at quiescence (synctest.Wait); 'tick' advances virtual time by 150ms (evaluation period 100ms); the compound events publish+release / publish+remove call the router's Publish and then Release/remove back to back on one goroutine with GOMAXPROCS=1, i.e. the one interleaving where the handler goroutines have been started but not yet run; other interleavings inside one event are not explored",
		"invocation-after-release is judged on an ordered log: a 'released'/'removed' entry is written after the call returned, an 'inv' entry at the start of the callback",
		"the unsubscribe obligation is checked only in states whose last event is a tick, and only if the peer had been told Subscribe=true before",
		"go-cache's janitor goroutine is stopped through an export shim at teardown")
	run.Finish(t)
}
