package c29

import (
	"context"
	"fmt"
	"testing"
	"testing/synctest"
	"time"

	"github.com/aperturerobotics/bifrost/pubsub"
	"github.com/aperturerobotics/bifrost/pubsub/floodsub"

	"verifh/evid"
	"verifh/fakes"
	"verifh/ref"
)

// slowPeer: the unsubscription must reach a peer that is slow to drain its
// stream. The peer P (subscribed to ch1) stops reading; the node subscribes,
// publishes j messages for every j from 0 up to the free space of P's send
// queue (so that the queue occupancy at the time of the release takes every
// value up to full, never beyond: nothing the node does here blocks it), then
// releases its only subscription; the router's sweep runs; P starts reading
// again. At quiescence the last thing P was told about ch1 must be
// Subscribe=false. Two placements of the stall: before the session is
// attached (the writer is stuck on the initial set) and after.
func slowPeer(t *testing.T, run *evid.Run) map[string]any {
	cases, full, unsubs := 0, 0, 0
	type out struct {
		told     []bool
		free     int
		occupied int
		skip     bool
	}
	one := func(stallFirst bool, j int) (o out) {
		synctest.Test(t, func(t *testing.T) {
			ctx, cancel := context.WithCancel(context.Background())
			ps, err := floodsub.NewFloodSub(ctx, discardLogger(), nil, &floodsub.Config{})
			if err != nil {
				evid.Fatal("NewFloodSub: %v", err)
			}
			go func() { _ = ps.Execute(ctx) }()
			w := ref.NewWire()
			df := &ref.Deframer{}
			w.Tap = func(from int, b []byte) {
				if from != 0 {
					return
				}
				for _, fr := range df.Push(b) {
					pkt := &floodsub.Packet{}
					if pkt.UnmarshalVT(fr) != nil {
						continue
					}
					for _, so := range pkt.GetSubscriptions() {
						if so.GetChannelId() == ch1 {
							o.told = append(o.told, so.GetSubscribe())
						}
					}
				}
			}
			settle := func() { time.Sleep(250 * time.Millisecond); synctest.Wait() }
			if stallFirst {
				w.SetStall(0, true)
			}
			P := keys[1]
			lnk := &fakes.MountedLink{UUID: 1, Local: keys[0].ID, Remote: P.ID}
			ps.AddPeerStream(pubsub.PeerLinkTuple{PeerID: P.ID, LinkID: 1}, false, &fakes.MountedStream{Strm: w.End(0), Proto: floodsub.FloodSubID, Peer: P.ID, Link: lnk})
			peerEnd := w.End(1)
			pkt, _ := (&floodsub.Packet{Subscriptions: []*floodsub.SubscriptionOpts{{ChannelId: ch1, Subscribe: true}}}).MarshalVT()
			peerEnd.Write(ref.Frame(pkt))
			settle()
			if !stallFirst {
				w.SetStall(0, true)
			}
			sub, err := ps.AddSubscription(ctx, keys[0].Priv, ch1)
			if err != nil {
				evid.Fatal("AddSubscription: %v", err)
			}
			settle()
			n, c, ok := floodsub.VerifPeerQueue(ps)
			if !ok {
				evid.Fatal("slow peer: no peer session")
			}
			o.free = c - n
			if j > o.free {
				o.skip = true
			} else {
				for k := 0; k < j; k++ {
					if err := ps.(*floodsub.FloodSub).Publish(ctx, ch1, keys[0].Priv, []byte(fmt.Sprintf("s%d", k))); err != nil {
						evid.Fatal("Publish: %v", err)
					}
					settle()
				}
				n, _, _ = floodsub.VerifPeerQueue(ps)
				o.occupied = n
				sub.Release()
				settle()
				settle()
				w.SetStall(0, false)
				settle()
				settle()
			}
			cancel()
			w.SetStall(0, false)
			peerEnd.Close()
			w.End(0).Close()
			synctest.Wait()
			floodsub.VerifStopJanitor(ps)
		})
		return o
	}
	for _, stallFirst := range []bool{false, true} {
		probe := one(stallFirst, 1<<30) // measures the free space only
		for j := 0; j <= probe.free; j++ {
			o := one(stallFirst, j)
			if o.skip {
				evid.Fatal("slow peer: free space changed between runs (%d vs %d)", probe.free, o.free)
			}
			cases++
			if j == probe.free {
				full++
			}
			place := "after-attach"
			if stallFirst {
				place = "before-attach"
			}
			if len(o.told) == 0 || o.told[len(o.told)-1] {
				run.Violation("unsubscribe-not-announced/slow-peer", fmt.Sprintf("peer P stopped reading (%s); the node subscribed to %s, published %d message(s) (send queue of P: %d of %d slots used), released its only subscription, the sweep ran, P resumed reading: at quiescence the announcements P received for %s are %v", place, ch1, j, o.occupied, o.occupied+probe.free-j, ch1, o.told),
					map[string]any{"stall": place, "published": j, "told": o.told})
			} else {
				unsubs++
			}
		}
	}
	if cases == 0 || full == 0 {
		evid.Fatal("slow peer: vacuous (%d cases, %d with a full queue)", cases, full)
	}
	return map[string]any{"cases": cases, "cases_with_full_send_queue_at_release": full, "unsubscriptions_received": unsubs,
		"space": "stall placement {before, after attach} x messages published while stalled 0..free slots of the peer's send queue"}
}
