package c29

import (
	"context"
	"fmt"
	"testing"
	"testing/synctest"
	"time"

	"github.com/aperturerobotics/bifrost/pubsub"
	"github.com/aperturerobotics/bifrost/pubsub/floodsub"

	"verifh/evid"
	"verifh/fakes"
	"verifh/ref"
)

// slowPeer: the unsubscription must reach a peer that is slow to drain its
// stream. The peer P (subscribed to ch1) stops reading; the node subscribes,
// publishes j messages for every j from 0 up to the free space of P's send
// queue (so that the queue occupancy at the time of the release takes every
// value up to full, never beyond: nothing the node does here blocks it), then
// releases its only subscription; the router's sweep runs; P starts reading
// again. At quiescence the last thing P was told about ch1 must be
// Subscribe=false. Two placements of the stall: before the session is
// attached (the writer is stuck on the initial set) and after.
func slowPeer(t *testing.T, run *evid.Run) map[string]any {
	cases, full, unsubs := 0, 0, 0
	type out struct {
		told     []bool
		free     int
		occupied int
		skip     bool
	}
	// extraChange: while the peer is still not reading and the unsubscription is
	// queued for it, the node subscribes to ANOTHER channel (the next evaluation
	// produces another subscription change)
	one := func(stallFirst bool, j int, extraChange bool) (o out) {
		synctest.Test(t, func(t *testing.T) {
			ctx, cancel := context.WithCancel(context.Background())
			ps, err := floodsub.NewFloodSub(ctx, discardLogger(), nil, &floodsub.Config{})
			if err != nil {
				evid.Fatal("NewFloodSub: %v", err)
			}
			go func() { _ = ps.Execute(ctx) }()
			w := ref.NewWire()
			df := &ref.Deframer{}
			w.Tap = func(from int, b []byte) {
				if from != 0 {
					return
				}
				for _, fr := range df.Push(b) {
					pkt := &floodsub.Packet{}
					if pkt.UnmarshalVT(fr) != nil {
						continue
					}
					for _, so := range pkt.GetSubscriptions() {
						if so.GetChannelId() == ch1 {
							o.told = append(o.told, so.GetSubscribe())
						}
					}
				}
			}
			settle := func() { time.Sleep(250 * time.Millisecond); synctest.Wait() }
			if stallFirst {
				w.SetStall(0, true)
			}
			P := keys[1]
			lnk := &fakes.MountedLink{UUID: 1, Local: keys[0].ID, Remote: P.ID}
			ps.AddPeerStream(pubsub.PeerLinkTuple{PeerID: P.ID, LinkID: 1}, false, &fakes.MountedStream{Strm: w.End(0), Proto: floodsub.FloodSubID, Peer: P.ID, Link: lnk})
			peerEnd := w.End(1)
			pkt, _ := (&floodsub.Packet{Subscriptions: []*floodsub.SubscriptionOpts{{ChannelId: ch1, Subscribe: true}}}).MarshalVT()
			peerEnd.Write(ref.Frame(pkt))
			settle()
			if !stallFirst {
				w.SetStall(0, true)
			}
			sub, err := ps.AddSubscription(ctx, keys[0].Priv, ch1)
			if err != nil {
				evid.Fatal("AddSubscription: %v", err)
			}
			settle()
			n, c, ok := floodsub.VerifPeerQueue(ps)
			if !ok {
				evid.Fatal("slow peer: no peer session")
			}
			o.free = c - n
			if j > o.free {
				o.skip = true
			} else {
				for k := 0; k < j; k++ {
					if err := ps.(*floodsub.FloodSub).Publish(ctx, ch1, keys[0].Priv, []byte(fmt.Sprintf("s%d", k))); err != nil {
						evid.Fatal("Publish: %v", err)
					}
					settle()
				}
				n, _, _ = floodsub.VerifPeerQueue(ps)
				o.occupied = n
				sub.Release()
				settle()
				settle()
				if extraChange {
					if _, err := ps.AddSubscription(ctx, keys[0].Priv, "ch-other"); err != nil {
						evid.Fatal("AddSubscription: %v", err)
					}
					settle()
					settle()
				}
				w.SetStall(0, false)
				settle()
				settle()
			}
			cancel()
			w.SetStall(0, false)
			peerEnd.Close()
			w.End(0).Close()
			synctest.Wait()
			floodsub.VerifStopJanitor(ps)
		})
		return o
	}
	for _, stallFirst := range []bool{false, true} {
		probe := one(stallFirst, 1<<30, false) // measures the free space only
		for jj := 0; jj <= 2*probe.free+1; jj++ {
			j, extra := jj, false
			if jj > probe.free {
				j, extra = jj-probe.free-1, true
			}
			if extra && j > probe.free-1 {
				continue // keep one slot for the extra announcement: nothing may block the node
			}
			o := one(stallFirst, j, extra)
			if o.skip {
				evid.Fatal("slow peer: free space changed between runs (%d vs %d)", probe.free, o.free)
			}
			cases++
			if j == probe.free {
				full++
			}
			place := "after-attach"
			if stallFirst {
				place = "before-attach"
			}
			if extra {
				place += ", then a subscription to another channel while still stalled"
			}
			if len(o.told) == 0 || o.told[len(o.told)-1] {
				run.Violation("unsubscribe-not-announced/slow-peer", fmt.Sprintf("peer P stopped reading (%s); the node subscribed to %s, published %d message(s) (send queue of P: %d of %d slots used), released its only subscription, the sweep ran, P resumed reading: at quiescence the announcements P received for %s are %v", place, ch1, j, o.occupied, o.occupied+probe.free-j, ch1, o.told),
					map[string]any{"stall": place, "published": j, "told": o.told})
			} else {
				unsubs++
			}
		}
	}
	if cases == 0 || full == 0 {
		evid.Fatal("slow peer: vacuous (%d cases, %d with a full queue)", cases, full)
	}
	return map[string]any{"cases": cases, "cases_with_full_send_queue_at_release": full, "unsubscriptions_received": unsubs,
		"space": "stall placement {before, after attach} x messages published while stalled 0..free slots of the peer's send queue x {release only, release then a subscription to another channel while still stalled}"}
}

// replacedStream: a second stream for the SAME (peer, link) tuple is attached
// while the first one is still around (healthy, or stuck in a write because
// the peer stopped reading it); the peer closes the old stream at some point.
// After the node's only subscription is released and the sweep ran, the newest
// stream - the one the peer is listening on - must have been told
// Subscribe=false (if it was ever told Subscribe=true).
func replacedStream(t *testing.T, run *evid.Run) map[string]any {
	cases, told := 0, 0
	type variant struct {
		stallOld     bool
		subFirst     bool // the node subscribes before the second stream is attached
		closeOld     int  // 0 never, 1 before the release, 2 after the release
		settleBefore bool // let the router settle between attaching the new stream and closing the old one
	}
	var vs []variant
	for _, so := range []bool{false, true} {
		for _, sf := range []bool{false, true} {
			for co := 0; co < 3; co++ {
				for _, sb := range []bool{false, true} {
					vs = append(vs, variant{so, sf, co, sb})
				}
			}
		}
	}
	for _, v := range vs {
		var toldNew []bool
		synctest.Test(t, func(t *testing.T) {
			ctx, cancel := context.WithCancel(context.Background())
			ps, err := floodsub.NewFloodSub(ctx, discardLogger(), nil, &floodsub.Config{})
			if err != nil {
				evid.Fatal("NewFloodSub: %v", err)
			}
			go func() { _ = ps.Execute(ctx) }()
			settle := func() { time.Sleep(250 * time.Millisecond); synctest.Wait() }
			P := keys[1]
			tpl := pubsub.PeerLinkTuple{PeerID: P.ID, LinkID: 1}
			lnk := &fakes.MountedLink{UUID: 1, Local: keys[0].ID, Remote: P.ID}
			mkWire := func(rec *[]bool) *ref.Wire {
				w := ref.NewWire()
				df := &ref.Deframer{}
				w.Tap = func(from int, b []byte) {
					if from != 0 {
						return
					}
					for _, fr := range df.Push(b) {
						pkt := &floodsub.Packet{}
						if pkt.UnmarshalVT(fr) != nil {
							continue
						}
						for _, so := range pkt.GetSubscriptions() {
							if so.GetChannelId() == ch1 && rec != nil {
								*rec = append(*rec, so.GetSubscribe())
							}
						}
					}
				}
				return w
			}
			attach := func(w *ref.Wire) {
				ps.AddPeerStream(tpl, false, &fakes.MountedStream{Strm: w.End(0), Proto: floodsub.FloodSubID, Peer: P.ID, Link: lnk})
				pkt, _ := (&floodsub.Packet{Subscriptions: []*floodsub.SubscriptionOpts{{ChannelId: ch1, Subscribe: true}}}).MarshalVT()
				w.End(1).Write(ref.Frame(pkt))
			}
			w1 := mkWire(nil)
			attach(w1)
			settle()
			if v.stallOld {
				w1.SetStall(0, true)
			}
			var sub pubsub.Subscription
			subscribe := func() {
				sub, err = ps.AddSubscription(ctx, keys[0].Priv, ch1)
				if err != nil {
					evid.Fatal("AddSubscription: %v", err)
				}
				settle()
			}
			if v.subFirst {
				subscribe()
			}
			w2 := mkWire(&toldNew)
			attach(w2)
			if v.settleBefore {
				settle()
			}
			if v.closeOld == 1 {
				w1.End(1).Close()
			}
			settle()
			if !v.subFirst {
				subscribe()
			}
			sub.Release()
			settle()
			if v.closeOld == 2 {
				w1.End(1).Close()
				settle()
			}
			settle()
			w1.SetStall(0, false)
			settle()
			settle()
			cancel()
			w1.End(0).Close()
			w1.End(1).Close()
			w2.End(0).Close()
			w2.End(1).Close()
			synctest.Wait()
			floodsub.VerifStopJanitor(ps)
		})
		cases++
		desc := fmt.Sprintf("old stream %s, node subscribes %s the second stream is attached, peer closes the old stream %s, settle-before-close=%v",
			map[bool]string{false: "healthy", true: "stuck in a write (peer not reading it)"}[v.stallOld],
			map[bool]string{false: "after", true: "before"}[v.subFirst],
			[]string{"never", "before the release", "after the release"}[v.closeOld], v.settleBefore)
		everTrue := false
		for _, b := range toldNew {
			if b {
				everTrue = true
			}
		}
		if everTrue {
			told++
			if toldNew[len(toldNew)-1] {
				run.Violation("unsubscribe-not-announced/replaced-stream", fmt.Sprintf("a second stream for the same (peer, link) was attached (%s); the node released its only subscription to %s and the sweep ran: the announcements received on the newest stream are %v", desc, ch1, toldNew),
					map[string]any{"variant": desc, "told_on_newest_stream": toldNew})
			}
		}
	}
	if told == 0 {
		evid.Fatal("replaced stream: vacuous (%d cases, none announced the channel on the second stream)", cases)
	}
	return map[string]any{"cases": cases, "cases_in_which_the_newest_stream_was_told_subscribe": told,
		"space": "old stream {healthy, stuck in a write} x node subscribes {before, after} the second attach x peer closes the old stream {never, before, after the release} x {settle, no settle} between attach and close"}
}

// windowOrders: a subscription is taken and released, and a peer session is
// attached, in every order and with every placement of router evaluations
// (settle points) between the three steps. At quiescence the node holds no
// subscription to ch1: the last thing the peer was told about ch1 must not be
// Subscribe=true (it may never have been told anything).
func windowOrders(t *testing.T, run *evid.Run) map[string]any {
	steps := [][]string{{"sub", "rel", "att"}, {"sub", "att", "rel"}, {"att", "sub", "rel"}}
	cases, toldTrue := 0, 0
	for _, order := range steps {
		for mask := 0; mask < 4; mask++ { // settle after step 1 / after step 2
			var told []bool
			synctest.Test(t, func(t *testing.T) {
				ctx, cancel := context.WithCancel(context.Background())
				ps, err := floodsub.NewFloodSub(ctx, discardLogger(), nil, &floodsub.Config{})
				if err != nil {
					evid.Fatal("NewFloodSub: %v", err)
				}
				go func() { _ = ps.Execute(ctx) }()
				settle := func() { time.Sleep(250 * time.Millisecond); synctest.Wait() }
				settle()
				w := ref.NewWire()
				df := &ref.Deframer{}
				w.Tap = func(from int, b []byte) {
					if from != 0 {
						return
					}
					for _, fr := range df.Push(b) {
						pkt := &floodsub.Packet{}
						if pkt.UnmarshalVT(fr) != nil {
							continue
						}
						for _, so := range pkt.GetSubscriptions() {
							if so.GetChannelId() == ch1 {
								told = append(told, so.GetSubscribe())
							}
						}
					}
				}
				P := keys[1]
				lnk := &fakes.MountedLink{UUID: 1, Local: keys[0].ID, Remote: P.ID}
				var sub pubsub.Subscription
				for i, st := range order {
					switch st {
					case "sub":
						sub, err = ps.AddSubscription(ctx, keys[0].Priv, ch1)
						if err != nil {
							evid.Fatal("AddSubscription: %v", err)
						}
					case "rel":
						sub.Release()
					case "att":
						ps.AddPeerStream(pubsub.PeerLinkTuple{PeerID: P.ID, LinkID: 1}, false, &fakes.MountedStream{Strm: w.End(0), Proto: floodsub.FloodSubID, Peer: P.ID, Link: lnk})
					}
					if i < 2 && mask&(1<<uint(i)) != 0 {
						settle()
					}
				}
				settle()
				settle()
				cancel()
				w.End(0).Close()
				w.End(1).Close()
				synctest.Wait()
				floodsub.VerifStopJanitor(ps)
			})
			cases++
			for _, b := range told {
				if b {
					toldTrue++
					break
				}
			}
			if len(told) > 0 && told[len(told)-1] {
				desc := fmt.Sprintf("steps %v, router evaluation after step 1: %v, after step 2: %v", order, mask&1 != 0, mask&2 != 0)
				run.Violation("unsubscribe-not-announced/within-one-evaluation", fmt.Sprintf("the node's only subscription to %s was taken and released and a peer session attached (%s); at quiescence the node holds no subscription, but the announcements the peer received for %s are %v", ch1, desc, ch1, told),
					map[string]any{"order": order, "settle_mask": mask, "told": told})
			}
		}
	}
	if toldTrue == 0 {
		evid.Fatal("window orders: vacuous (the peer was never told about the channel in %d cases)", cases)
	}
	return map[string]any{"cases": cases, "cases_in_which_the_peer_was_told_subscribe": toldTrue,
		"space": "orders {subscribe, release, attach | subscribe, attach, release | attach, subscribe, release} x router evaluation {yes, no} after the first and after the second step"}
}
