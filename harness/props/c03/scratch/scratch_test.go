package scratch

import (
	"context"
	"fmt"
	"testing"
	"testing/synctest"
	"time"

	"verifh/enum"
	"verifh/props/c03/qnet"
)

func body(t *testing.T, bubble bool) {
	keys := enum.Keys(3)
	ctx, cancel := context.WithCancel(context.Background())
	sw := qnet.NewSwitch()
	L, err := qnet.NewNode(ctx, sw, "L", keys[0], "aL")
	if err != nil {
		t.Fatal(err)
	}
	X, err := qnet.NewNode(ctx, sw, "X", keys[1], "aX")
	if err != nil {
		t.Fatal(err)
	}
	sw.Bind("aL", L.Conn)
	sw.Bind("aX", X.Conn)
	if bubble {
		synctest.Wait()
	}
	t0 := time.Now()
	type res struct {
		remote string
		err    error
	}
	ch := make(chan res, 1)
	go func() {
		lnk, _, err := L.Tpt.DialPeer(ctx, keys[1].ID, "aX")
		r := res{err: err}
		if lnk != nil {
			r.remote = lnk.GetRemotePeer().String()
		}
		ch <- r
	}()
	if bubble {
		synctest.Wait()
	}
	r := <-ch
	fmt.Println("dial result", r.remote == keys[1].ID.String(), r.err, "elapsed", time.Since(t0))
	if bubble {
		synctest.Wait()
	}
	fmt.Println("L events", len(L.Rec.Events()), "X events", len(X.Rec.Events()))
	// dial an unbound address
	sw.Bind("aX", nil)
	go func() {
		dctx, c := context.WithTimeout(ctx, 20*time.Second)
		defer c()
		lnk, _, err := L.Tpt.DialPeer(dctx, keys[2].ID, "aZ")
		r := res{err: err}
		if lnk != nil {
			r.remote = lnk.GetRemotePeer().String()
		}
		ch <- r
	}()
	r = <-ch
	fmt.Println("dial unbound", r.err, "elapsed", time.Since(t0))
	if bubble {
		time.Sleep(time.Minute)
		synctest.Wait()
		for _, e := range L.Rec.Events() {
			fmt.Println("L ev est=", e.Est)
		}
	}
	cancel()
	L.Close()
	X.Close()
	if bubble {
		synctest.Wait()
		fmt.Println("closed; waiting bubble exit")
	}
}

func TestBubble(t *testing.T) {
	synctest.Test(t, func(t *testing.T) { body(t, true) })
}

func TestReal(t *testing.T) {
	body(t, false)
}
