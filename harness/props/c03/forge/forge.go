// Package forge builds honest and deviating bifrost TLS certificates with
// crypto/x509 and encoding/asn1 only (no bifrost code), and contains the
// independent reference verifier used as oracle by the C03 check.
package forge

import (
	"bytes"
	"crypto"
	"crypto/ecdsa"
	"crypto/ed25519"
	"crypto/elliptic"
	"crypto/rand"
	"crypto/x509"
	"crypto/x509/pkix"
	"encoding/asn1"
	"fmt"
	"math/big"
	"strings"
	"time"

	"verifh/ref"
)

// Prefix is the key-binding signature prefix (libp2p TLS spec).
const Prefix = "libp2p-tls-handshake:"

// BindingOID is the OID of the key-binding extension; OtherOID is a neighbour.
var (
	BindingOID = asn1.ObjectIdentifier{1, 3, 6, 1, 4, 1, 53594, 1, 1}
	OtherOID   = asn1.ObjectIdentifier{1, 3, 6, 1, 4, 1, 53594, 1, 2}
)

// SignedKey is the ASN.1 body of the binding extension.
type SignedKey struct {
	PubKey    []byte
	Signature []byte
}

// Ident is a bifrost identity reduced to its standard-library key.
type Ident struct {
	Name string
	Priv ed25519.PrivateKey
}

// Pub returns the public key.
func (i *Ident) Pub() ed25519.PublicKey { return i.Priv.Public().(ed25519.PublicKey) }

// PubProto is the marshalled crypto.PublicKey message of an Ed25519 key.
func PubProto(pub ed25519.PublicKey) []byte {
	return append([]byte{0x08, 0x01, 0x12, 0x20}, pub...)
}

// CertKey is a TLS certificate key pair.
type CertKey struct {
	Name   string
	Signer crypto.Signer
}

// PKIX returns the SubjectPublicKeyInfo encoding of the public key.
func (k *CertKey) PKIX() []byte {
	b, err := x509.MarshalPKIXPublicKey(k.Signer.Public())
	if err != nil {
		panic(err)
	}
	return b
}

// NewECDSAKey makes a fresh P-256 certificate key.
func NewECDSAKey(name string) *CertKey {
	k, err := ecdsa.GenerateKey(elliptic.P256(), rand.Reader)
	if err != nil {
		panic(err)
	}
	return &CertKey{name, k}
}

// NewEd25519Key makes a fresh Ed25519 certificate key.
func NewEd25519Key(name string) *CertKey {
	_, k, err := ed25519.GenerateKey(rand.Reader)
	if err != nil {
		panic(err)
	}
	return &CertKey{name, k}
}

// Ext is one extension to put into a certificate.
type Ext struct {
	OID      asn1.ObjectIdentifier
	Critical bool
	Value    []byte
}

// Binding returns the honest extension value: id signs Prefix || PKIX(certKey).
func Binding(id *Ident, ck *CertKey) []byte {
	sig := ed25519.Sign(id.Priv, append([]byte(Prefix), ck.PKIX()...))
	return MarshalSK(PubProto(id.Pub()), sig)
}

// MarshalSK encodes a SignedKey.
func MarshalSK(pub, sig []byte) []byte {
	b, err := asn1.Marshal(SignedKey{PubKey: pub, Signature: sig})
	if err != nil {
		panic(err)
	}
	return b
}

// CertSpec says how to build one certificate.
type CertSpec struct {
	Key       *CertKey // subject key
	Exts      []Ext
	NotBefore time.Time
	NotAfter  time.Time
	// Issuer, if non-nil, signs the certificate instead of Key (not self-signed).
	Issuer *CertKey
	// IssuerName: give the issuer a different distinguished name than the subject.
	IssuerName bool
	Serial     int64
}

// Build creates the DER certificate.
func Build(s CertSpec) ([]byte, error) {
	serial := s.Serial
	if serial == 0 {
		serial = 4242
	}
	tmpl := &x509.Certificate{
		SerialNumber: big.NewInt(serial),
		NotBefore:    s.NotBefore,
		NotAfter:     s.NotAfter,
		Subject:      pkix.Name{SerialNumber: "1000001"},
	}
	for _, e := range s.Exts {
		tmpl.ExtraExtensions = append(tmpl.ExtraExtensions, pkix.Extension{Id: e.OID, Critical: e.Critical, Value: e.Value})
	}
	parent := tmpl
	signer := s.Key.Signer
	if s.Issuer != nil {
		signer = s.Issuer.Signer
		if s.IssuerName {
			parent = &x509.Certificate{Subject: pkix.Name{SerialNumber: "2000002"}}
		}
	}
	return x509.CreateCertificate(rand.Reader, tmpl, parent, s.Key.Signer.Public(), signer)
}

// Verdict of the reference verifier.
type Verdict int

const (
	MustReject Verdict = iota
	MustAccept
	Either // the property does not decide (e.g. expired but otherwise authentic)
)

func (v Verdict) String() string { return [...]string{"reject", "accept", "either"}[v] }

// RefResult is what the reference says about a chain.
type RefResult struct {
	Verdict Verdict
	Why     string            // why rejected / why undecided
	Class   string            // stable class of the rejection reason
	Key     ed25519.PublicKey // identity bound (if the binding is valid)
}

// RefVerify is the independent oracle, written from the property statement:
// accept iff the chain is exactly one parsable certificate that is self-signed
// (issuer name = subject name and the signature verifies under its own key),
// carries exactly one extension with the binding OID whose value is a SignedKey
// holding an Ed25519 bifrost key and a signature by that key over
// Prefix || PKIX(certificate key), and the expected peer (binary ID, may be
// empty) is empty or the ID of that key. Where the property is silent
// (validity period, unknown critical extensions, trailing bytes after the
// SignedKey) the verdict is Either, provided the certificate is otherwise
// authentic; the bound key must still be the signer's.
func RefVerify(raw [][]byte, expected []byte, now time.Time) RefResult {
	if len(raw) != 1 {
		return RefResult{Verdict: MustReject, Class: "chain-length", Why: fmt.Sprintf("%d certificates", len(raw))}
	}
	cert, err := x509.ParseCertificate(raw[0])
	if err != nil {
		return RefResult{Verdict: MustReject, Class: "unparsable", Why: "unparsable certificate: " + err.Error()}
	}
	var rej, why, und []string
	no := func(class, text string) { rej = append(rej, class); why = append(why, text) }
	// self-signed?
	if !bytes.Equal(cert.RawIssuer, cert.RawSubject) {
		no("not-self-signed", "issuer differs from subject")
	} else if err := cert.CheckSignature(cert.SignatureAlgorithm, cert.RawTBSCertificate, cert.Signature); err != nil {
		no("not-self-signed", "certificate signature does not verify under its own key")
	}
	// exactly one valid binding?
	var pub ed25519.PublicKey
	var bind []pkix.Extension
	for _, e := range cert.Extensions {
		if e.Id.Equal(BindingOID) {
			bind = append(bind, e)
		}
	}
	if len(bind) != 1 {
		no("binding-count", fmt.Sprintf("%d binding extensions", len(bind)))
	} else {
		var sk SignedKey
		rest, err := asn1.Unmarshal(bind[0].Value, &sk)
		if err != nil {
			no("binding-malformed", "binding is not a SignedKey: "+err.Error())
		} else if k, err := ref.PubKeyFromProto(sk.PubKey); err == ref.ErrUndecided {
			und = append(und, "binding-key-encoding")
		} else if err != nil {
			no("binding-key", "binding key: "+err.Error())
		} else if spki, err := x509.MarshalPKIXPublicKey(cert.PublicKey); err != nil {
			no("cert-key", "certificate key: "+err.Error())
		} else if !ed25519.Verify(k, append([]byte(Prefix), spki...), sk.Signature) {
			no("binding-signature", "binding signature does not verify over the certificate's own key")
		} else {
			pub = k
			if len(rest) != 0 {
				und = append(und, "binding-trailing")
			}
			if len(expected) != 0 && !bytes.Equal(expected, ref.EncodeID(pub)) {
				no("peer-mismatch", "expected peer differs from the bound identity")
			}
		}
	}
	if len(rej) != 0 {
		return RefResult{Verdict: MustReject, Class: strings.Join(rej, "+"), Why: strings.Join(why, "; "), Key: pub}
	}
	// where the property is silent
	if now.Before(cert.NotBefore) || now.After(cert.NotAfter) {
		und = append(und, "validity")
	}
	for _, oid := range cert.UnhandledCriticalExtensions {
		if !oid.Equal(BindingOID) {
			und = append(und, "unknown-critical")
			break
		}
	}
	if len(und) != 0 {
		return RefResult{Verdict: Either, Class: strings.Join(und, "+"), Why: "property silent: " + strings.Join(und, ", "), Key: pub}
	}
	return RefResult{Verdict: MustAccept, Key: pub}
}
