package c03

import (
	"crypto/x509"
	"fmt"
	"strings"
	"time"

	p2ptls "github.com/aperturerobotics/bifrost/crypto/tls"
	"github.com/aperturerobotics/bifrost/peer"

	"verifh/enum"
	"verifh/evid"
	"verifh/props/c03/forge"
)

// seam C: verification must not depend on what was verified before. Every
// sequence (length <= depth) over a small alphabet of chains is verified in one
// process, in order; each element's verdict must be the one the stateless
// reference gives. The alphabet pairs honest chains with forgeries that re-use
// an honest chain's key-binding extension byte for byte on another certificate
// key (the extension is public: every handshake sends it).
func runSeamC(run *evid.Run, f *fixtures, depth int) map[string]any {
	nb, na := f.now.Add(-time.Hour), f.now.Add(1000*time.Hour)
	mk := func(key *forge.CertKey, id *forge.Ident, boundTo *forge.CertKey) []byte {
		der, err := forge.Build(forge.CertSpec{Key: key, Exts: []forge.Ext{{OID: forge.BindingOID, Value: forge.Binding(id, boundTo)}}, NotBefore: nb, NotAfter: na})
		if err != nil {
			evid.Fatal("seam C fixture: %v", err)
		}
		return der
	}
	type letter struct {
		name string
		der  []byte
	}
	alphabet := []letter{
		{"honest-S-on-A", mk(f.ckA, f.iS, f.ckA)},
		{"honest-O-on-B", mk(f.ckB, f.iO, f.ckB)},
		{"forged-S-extension-of-A-on-B", mk(f.ckB, f.iS, f.ckA)},
		{"forged-O-extension-of-B-on-A", mk(f.ckA, f.iO, f.ckB)},
		{"forged-S-extension-of-A-on-E", mk(f.ckE, f.iS, f.ckA)},
	}
	expects := []struct {
		name string
		id   peer.ID
	}{{"none", ""}, {"S", f.S.ID}, {"O", f.O.ID}}
	seqs, evals, accepted := 0, 0, 0
	enum.Sequences(len(alphabet), depth, func(seq []int) {
		if len(seq) == 0 {
			return
		}
		seqs++
		var names []string
		for _, k := range seq {
			names = append(names, alphabet[k].name)
		}
		for pos, k := range seq {
			l := alphabet[k]
			raw := [][]byte{l.der}
			for _, ex := range expects {
				rr := forge.RefVerify(raw, []byte(ex.id), f.now)
				conf, _ := f.verifier.ConfigForPeer(ex.id)
				var err error
				if p := enum.Try(func() { err = conf.VerifyPeerCertificate(raw, nil) }); p != nil {
					run.Violation("panic/verify-after-history", fmt.Sprintf("VerifyPeerCertificate panicked on %s after %v: %v", l.name, names[:pos], p), names)
					continue
				}
				evals++
				got := err == nil
				if got {
					accepted++
				}
				if got && rr.Verdict == forge.MustReject {
					run.Violation("accepts-after-history/"+rr.Class, fmt.Sprintf("after verifying %v, ConfigForPeer(%s).VerifyPeerCertificate accepted %s, which must be refused (%s)", names[:pos], ex.name, l.name, rr.Why), map[string]any{"sequence": names, "position": pos, "expected_peer": ex.name})
				}
				if !got && rr.Verdict == forge.MustAccept {
					run.Violation("rejects-authentic-after-history", fmt.Sprintf("after verifying %v, the authentic chain %s was refused: %v", names[:pos], l.name, err), names)
				}
			}
			var kerr error
			var ok bool
			if p := enum.Try(func() {
				chain := parseChain(raw)
				if chain == nil {
					kerr = fmt.Errorf("unparsable")
					return
				}
				k, e := p2ptls.PubKeyFromCertChain(chain)
				kerr, ok = e, k != nil
			}); p != nil {
				run.Violation("panic/pubkey-from-cert-chain-after-history", fmt.Sprint(p), names)
				continue
			}
			rr := forge.RefVerify(raw, nil, f.now)
			if kerr == nil && ok && rr.Verdict == forge.MustReject {
				run.Violation("accepts-after-history/"+rr.Class+"/pubkey-from-cert-chain", fmt.Sprintf("after verifying %v, PubKeyFromCertChain accepted %s (%s)", names[:pos], l.name, rr.Why), names)
			}
		}
	})
	var an []string
	for _, l := range alphabet {
		an = append(an, l.name)
	}
	return map[string]any{"alphabet": an, "sequence_depth": depth, "sequences": seqs, "verifications": evals, "accepted": accepted,
		"note": "verdicts are judged by the stateless reference; " + strings.TrimSpace("the sequences only matter if the implementation keeps state between verifications")}
}

func parseChain(raw [][]byte) []*x509.Certificate {
	var chain []*x509.Certificate
	for _, r := range raw {
		c, err := x509.ParseCertificate(r)
		if err != nil {
			return nil
		}
		chain = append(chain, c)
	}
	return chain
}
