package c03

import (
	"bytes"
	"crypto/ed25519"
	"crypto/sha256"
	"crypto/x509"
	"fmt"
	"sort"
	"strings"
	"sync"
	"time"

	p2ptls "github.com/aperturerobotics/bifrost/crypto/tls"
	"github.com/aperturerobotics/bifrost/peer"

	"verifh/enum"
	"verifh/evid"
	"verifh/props/c03/forge"
)

// ---- seam A: VerifyPeerCertificate / PubKeyFromCertChain with crafted chains ----

// dimension names; value 0 of every dimension is the honest choice.
var dimNames = []string{"layout", "pub", "sig", "shape", "issue", "valid", "ckey", "chain"}

var (
	layoutNames = []string{"one", "none", "dup-same", "moved-to-other-oid", "critical", "plus-other-oid", "plus-other-oid-critical", "other-oid-first", "dup-different"}
	pubNames    = []string{"S", "O", "truncated-proto", "keytype-2", "empty", "T"}
	sigFixed    = []string{"S-over-own", "O-over-own", "S-over-other-cert-key", "S-without-prefix", "S-other-prefix", "empty", "truncated-63", "extended-65", "T-over-own"}
	shapeNames  = []string{"ok", "trunc-1", "trunc-half", "empty", "trailing-byte", "fields-swapped", "set-tag"}
	issueNames  = []string{"self-signed", "issued-by-other-key-other-name", "issued-by-other-key-same-name", "self-signature-corrupted"}
	validNames  = []string{"valid", "expired", "not-yet-valid"}
	ckeyNames   = []string{"ecdsa-p256", "ed25519"}
	chainNames  = []string{"single", "zero", "twice", "then-honest-O", "after-honest-O", "der-trunc-1", "der-trailing-00", "garbage", "empty-der", "der-trunc-half"}
)

type fixtures struct {
	V, S, O, T    *enum.Key
	keyless       []*enum.Key
	iS, iO, iT    *forge.Ident
	ckA, ckB, ckE *forge.CertKey
	honestO       []byte
	now           time.Time
	verifier      *p2ptls.Identity
	nflips        int
}

func newFixtures() *fixtures {
	ks := enum.Keys(4)
	f := &fixtures{V: ks[0], S: ks[1], O: ks[2], T: ks[3], now: time.Now()}
	f.iS, f.iO, f.iT = &forge.Ident{Name: "S", Priv: ks[1].Std}, &forge.Ident{Name: "O", Priv: ks[2].Std}, &forge.Ident{Name: "T", Priv: ks[3].Std}
	f.ckA, f.ckB, f.ckE = forge.NewECDSAKey("A"), forge.NewECDSAKey("B"), forge.NewEd25519Key("E")
	f.keylessExpected() // built here, before the parallel workers read it
	var err error
	f.honestO, err = forge.Build(forge.CertSpec{Key: f.ckB, Exts: []forge.Ext{{OID: forge.BindingOID, Value: forge.Binding(f.iO, f.ckB)}}, NotBefore: f.now.Add(-time.Hour), NotAfter: f.now.Add(1000 * time.Hour)})
	if err != nil {
		evid.Fatal("fixture certificate: %v", err)
	}
	f.verifier, err = p2ptls.NewIdentity(f.V.Priv)
	if err != nil {
		evid.Fatal("NewIdentity: %v", err)
	}
	f.nflips = 512
	return f
}

func (f *fixtures) dimSizes() []int {
	return []int{len(layoutNames), len(pubNames), len(sigFixed) + f.nflips, len(shapeNames), len(issueNames), len(validNames), len(ckeyNames), len(chainNames)}
}

func (f *fixtures) valueName(dim, v int) string {
	switch dim {
	case 0:
		return layoutNames[v]
	case 1:
		return pubNames[v]
	case 2:
		if v < len(sigFixed) {
			return sigFixed[v]
		}
		return fmt.Sprintf("bitflip-%d", (v-len(sigFixed))*(512/f.nflips))
	case 3:
		return shapeNames[v]
	case 4:
		return issueNames[v]
	case 5:
		return validNames[v]
	case 6:
		return ckeyNames[v]
	}
	return chainNames[v]
}

func (f *fixtures) specName(s []int) string {
	var parts []string
	for d, v := range s {
		if v != 0 {
			parts = append(parts, dimNames[d]+"="+f.valueName(d, v))
		}
	}
	if len(parts) == 0 {
		return "honest"
	}
	return strings.Join(parts, ",")
}

func devDims(s []int) string {
	var parts []string
	for d, v := range s {
		if v != 0 {
			parts = append(parts, dimNames[d])
		}
	}
	if len(parts) == 0 {
		return "honest"
	}
	return strings.Join(parts, "+")
}

// build makes the raw chain for a spec (crypto/x509 + encoding/asn1 only).
func (f *fixtures) build(s []int) [][]byte {
	layout, pub, sig, shape, issue, valid, ckey, chain := s[0], s[1], s[2], s[3], s[4], s[5], s[6], s[7]
	ck := f.ckA
	if ckey == 1 {
		ck = f.ckE
	}
	// binding public key
	var pb []byte
	switch pub {
	case 0:
		pb = forge.PubProto(f.iS.Pub())
	case 1:
		pb = forge.PubProto(f.iO.Pub())
	case 2:
		pb = forge.PubProto(f.iS.Pub())
		pb = pb[:len(pb)-1]
	case 3:
		pb = forge.PubProto(f.iS.Pub())
		pb[1] = 2
	case 4:
		pb = nil
	case 5:
		pb = forge.PubProto(f.iT.Pub())
	}
	// binding signature
	own := append([]byte(forge.Prefix), ck.PKIX()...)
	sign := func(i *forge.Ident, msg []byte) []byte { return edSign(i, msg) }
	var sg []byte
	switch {
	case sig == 0:
		sg = sign(f.iS, own)
	case sig == 1:
		sg = sign(f.iO, own)
	case sig == 2:
		sg = sign(f.iS, append([]byte(forge.Prefix), f.ckB.PKIX()...))
	case sig == 3:
		sg = sign(f.iS, ck.PKIX())
	case sig == 4:
		sg = sign(f.iS, append([]byte("bifrost-tls-handshake:"), ck.PKIX()...))
	case sig == 5:
		sg = nil
	case sig == 6:
		sg = sign(f.iS, own)[:63]
	case sig == 7:
		sg = append(sign(f.iS, own), 0)
	case sig == 8:
		sg = sign(f.iT, own)
	default:
		bit := (sig - len(sigFixed)) * (512 / f.nflips)
		sg = sign(f.iS, own)
		sg[bit/8] ^= 1 << uint(bit%8)
	}
	val := forge.MarshalSK(pb, sg)
	switch shape {
	case 1:
		val = val[:len(val)-1]
	case 2:
		val = val[:len(val)/2]
	case 3:
		val = nil
	case 4:
		val = append(val, 0x00)
	case 5:
		val = forge.MarshalSK(sg, pb)
	case 6:
		val = append([]byte{0x31}, val[1:]...)
	}
	otherVal := forge.Binding(f.iO, ck) // an honest binding by O over this certificate key
	var exts []forge.Ext
	switch layout {
	case 0:
		exts = []forge.Ext{{OID: forge.BindingOID, Value: val}}
	case 1:
	case 2:
		exts = []forge.Ext{{OID: forge.BindingOID, Value: val}, {OID: forge.BindingOID, Value: val}}
	case 3:
		exts = []forge.Ext{{OID: forge.OtherOID, Value: val}}
	case 4:
		exts = []forge.Ext{{OID: forge.BindingOID, Critical: true, Value: val}}
	case 5:
		exts = []forge.Ext{{OID: forge.BindingOID, Value: val}, {OID: forge.OtherOID, Value: otherVal}}
	case 6:
		exts = []forge.Ext{{OID: forge.BindingOID, Value: val}, {OID: forge.OtherOID, Critical: true, Value: otherVal}}
	case 7:
		exts = []forge.Ext{{OID: forge.OtherOID, Value: otherVal}, {OID: forge.BindingOID, Value: val}}
	case 8:
		exts = []forge.Ext{{OID: forge.BindingOID, Value: val}, {OID: forge.BindingOID, Value: otherVal}}
	}
	cs := forge.CertSpec{Key: ck, Exts: exts, NotBefore: f.now.Add(-time.Hour), NotAfter: f.now.Add(1000 * time.Hour)}
	switch valid {
	case 1:
		cs.NotBefore, cs.NotAfter = f.now.Add(-2*time.Hour), f.now.Add(-time.Hour)
	case 2:
		cs.NotBefore, cs.NotAfter = f.now.Add(time.Hour), f.now.Add(2*time.Hour)
	}
	switch issue {
	case 1:
		cs.Issuer, cs.IssuerName = f.ckB, true
	case 2:
		cs.Issuer = f.ckB
	}
	der, err := forge.Build(cs)
	if err != nil {
		evid.Fatal("cannot build certificate for %s: %v", f.specName(s), err)
	}
	if issue == 3 {
		der[len(der)-1] ^= 0x01
	}
	switch chain {
	case 1:
		return [][]byte{}
	case 2:
		return [][]byte{der, der}
	case 3:
		return [][]byte{der, f.honestO}
	case 4:
		return [][]byte{f.honestO, der}
	case 5:
		return [][]byte{der[:len(der)-1]}
	case 6:
		return [][]byte{append(append([]byte{}, der...), 0)}
	case 7:
		return [][]byte{bytes.Repeat([]byte{0x30, 0x82, 0x01}, 21)}
	case 8:
		return [][]byte{{}}
	case 9:
		return [][]byte{der[:len(der)/2]}
	}
	return [][]byte{der}
}

// specVerdict derives the expected verdict from how the chain was built
// (second, construction-based oracle; must agree with forge.RefVerify).
func (f *fixtures) specVerdict(s []int, expected *enum.Key) (forge.Verdict, *enum.Key) {
	layout, pub, sig, shape, issue, valid, chain := s[0], s[1], s[2], s[3], s[4], s[5], s[7]
	if chain != 0 {
		return forge.MustReject, nil
	}
	var binder *enum.Key
	switch {
	case pub == 0 && sig == 0:
		binder = f.S
	case pub == 1 && sig == 1:
		binder = f.O
	case pub == 5 && sig == 8:
		binder = f.T
	}
	either := false
	switch shape {
	case 0:
	case 4:
		either = true
	default:
		binder = nil
	}
	switch layout {
	case 1, 2, 3, 8:
		binder = nil
	case 6:
		either = true
	}
	if valid != 0 {
		either = true
	}
	if binder == nil || issue != 0 {
		return forge.MustReject, binder
	}
	if expected != nil && expected != binder {
		return forge.MustReject, binder
	}
	if either {
		return forge.Either, binder
	}
	return forge.MustAccept, binder
}

// enumDeviations calls fn with every vector over sizes having at most maxDev non-zero entries.
func enumDeviations(sizes []int, maxDev int, fn func(s []int)) {
	s := make([]int, len(sizes))
	var rec func(d, left int)
	rec = func(d, left int) {
		if d == len(sizes) {
			fn(append([]int(nil), s...))
			return
		}
		s[d] = 0
		rec(d+1, left)
		if left > 0 {
			for v := 1; v < sizes[d]; v++ {
				s[d] = v
				rec(d+1, left-1)
			}
			s[d] = 0
		}
	}
	rec(0, maxDev)
}

// violCollector keeps, per violation key, the smallest counterexample (fewest
// deviations, then shortest / lexicographically first name) so that the
// reported case does not depend on goroutine timing.
type violCollector struct {
	mu sync.Mutex
	m  map[string]*collected
}

type collected struct {
	rank   int
	name   string
	what   string
	replay any
	count  int
}

func (c *violCollector) add(key string, rank int, name, what string, replay any) {
	c.mu.Lock()
	defer c.mu.Unlock()
	e := c.m[key]
	if e == nil {
		c.m[key] = &collected{rank, name, what, replay, 1}
		return
	}
	e.count++
	if rank < e.rank || (rank == e.rank && (len(name) < len(e.name) || (len(name) == len(e.name) && name < e.name))) {
		e.rank, e.name, e.what, e.replay = rank, name, what, replay
	}
}

func (c *violCollector) flush(run *evid.Run) {
	var keys []string
	for k := range c.m {
		keys = append(keys, k)
	}
	sort.Strings(keys)
	for _, k := range keys {
		e := c.m[k]
		for i := 0; i < e.count; i++ {
			run.Violation(k, e.what, e.replay)
		}
	}
}

type seamAStats struct {
	vc                *violCollector
	mu                sync.Mutex
	accepts, rejects  int
	acceptByDims      map[string]int
	directCalls       int
	refSpecCrossCheck int
}

// keylessExpected: well-formed, non-empty peer IDs that do not embed a usable
// Ed25519 key (no honest chain can satisfy them): the legacy sha2-256
// multihash of the subject's marshalled key, an identity multihash carrying a
// secp256k1 key record, and an identity multihash carrying a 31-byte Ed25519
// key. Requiring such a peer must refuse every chain.
func (f *fixtures) keylessExpected() []*enum.Key {
	if f.keyless != nil {
		return f.keyless
	}
	sPub := append([]byte{0x08, 0x01, 0x12, 0x20}, f.S.Std.Public().(ed25519.PublicKey)...)
	sum := sha256.Sum256(sPub)
	secp := append([]byte{0x08, 0x02, 0x12, 0x21, 0x02}, sum[:]...)
	short := append([]byte{0x08, 0x01, 0x12, 0x1f}, sPub[4:35]...)
	mk := func(name string, b []byte) *enum.Key { return &enum.Key{Name: name, ID: peer.ID(b)} }
	f.keyless = []*enum.Key{
		mk("keyless/sha256-multihash-of-subject-key", append([]byte{0x12, 0x20}, sum[:]...)),
		mk("keyless/identity-multihash-secp256k1", append([]byte{0x00, byte(len(secp))}, secp...)),
		mk("keyless/identity-multihash-ed25519-31-bytes", append([]byte{0x00, byte(len(short))}, short...)),
	}
	return f.keyless
}

// judge runs one chain through the real verifier for every expected peer and
// compares with the reference. spec may be nil (then only RefVerify decides).
func (f *fixtures) judge(run *evid.Run, acc *enum.Acc, st *seamAStats, group, name string, raw [][]byte, spec []int, honest bool) {
	exps := append([]*enum.Key{nil, f.S, f.O, f.T}, f.keylessExpected()...)
	rank := 9
	if spec != nil {
		rank = 0
		for _, v := range spec {
			if v != 0 {
				rank++
			}
		}
	}
	viol := func(key, what string, replay any) { st.vc.add(key, rank, name, what, replay) }
	for ei, exp := range exps {
		var expID peer.ID
		var expBin []byte
		expName := "any"
		if exp != nil {
			expID, expBin, expName = exp.ID, []byte(exp.ID), exp.Name
		}
		rr := forge.RefVerify(raw, expBin, f.now)
		if spec != nil {
			sv, binder := f.specVerdict(spec, exp)
			st.mu.Lock()
			st.refSpecCrossCheck++
			st.mu.Unlock()
			if strings.Contains(rr.Class, "binding-key-encoding") {
				// the reference cannot decide how a protobuf decoder treats this key encoding
			} else if sv != rr.Verdict {
				evid.Fatal("harness oracles disagree on %s expected=%s: construction says %s, reference verifier says %s (%s)", name, expName, sv, rr.Verdict, rr.Why)
			}
			if sv != forge.MustReject && !strings.Contains(rr.Class, "binding-key-encoding") && !bytes.Equal(rr.Key, edPub(binder)) {
				evid.Fatal("harness oracles disagree on the bound identity for %s", name)
			}
		}
		conf, keyCh := f.verifier.ConfigForPeer(expID)
		var err error
		p := enum.Try(func() { err = conf.VerifyPeerCertificate(raw, nil) })
		caseKey := name + "/expect=" + expName
		nontrivial := !(honest && (ei == 0 || exp == f.S))
		if p != nil {
			acc.Case(group, caseKey, nontrivial, "panic")
			viol("panic/verify-peer-certificate", fmt.Sprintf("VerifyPeerCertificate panicked on %s: %v", caseKey, p), caseKey)
			continue
		}
		var gotKey []byte
		select {
		case k, ok := <-keyCh:
			if ok && k != nil {
				gotKey, _ = k.Raw()
			}
		default:
		}
		got := err == nil
		out := "reject"
		if got {
			out = "accept"
		}
		acc.Case(group, caseKey, nontrivial, out+"/ref-"+rr.Verdict.String())
		st.mu.Lock()
		if got {
			st.accepts++
			if spec != nil {
				st.acceptByDims[devDims(spec)]++
			}
		} else {
			st.rejects++
		}
		st.mu.Unlock()
		replay := map[string]any{"seam": "A", "case": caseKey, "chain_der_hex": hexChain(raw), "expected_peer": expID.String()}
		switch {
		case got && rr.Verdict == forge.MustReject:
			viol("accepts/"+rr.Class, fmt.Sprintf("ConfigForPeer(%s).VerifyPeerCertificate accepted chain %q which must be refused: %s", expName, name, rr.Why), replay)
		case !got && rr.Verdict == forge.MustAccept:
			viol("rejects-authentic", fmt.Sprintf("ConfigForPeer(%s).VerifyPeerCertificate refused the authentic chain %q: %v", expName, name, err), replay)
		}
		if got {
			if gotKey == nil {
				viol("no-key-on-accept", fmt.Sprintf("VerifyPeerCertificate accepted %q but delivered no key", caseKey), replay)
			} else if rr.Key != nil && !bytes.Equal(gotKey, rr.Key) {
				viol("wrong-identity", fmt.Sprintf("VerifyPeerCertificate accepted %q but delivered a key that is not the one that signed the binding", caseKey), replay)
			}
		} else if gotKey != nil {
			viol("key-delivered-on-reject", fmt.Sprintf("VerifyPeerCertificate refused %q but still delivered a key", caseKey), replay)
		}
		// PubKeyFromCertChain directly (no expected peer), once per chain
		if ei == 0 {
			var chain []*x509.Certificate
			ok := true
			for _, r := range raw {
				c, perr := x509.ParseCertificate(r)
				if perr != nil {
					ok = false
					break
				}
				chain = append(chain, c)
			}
			if ok {
				var derr error
				var dk []byte
				p := enum.Try(func() {
					k, e := p2ptls.PubKeyFromCertChain(chain)
					derr = e
					if k != nil {
						dk, _ = k.Raw()
					}
				})
				st.mu.Lock()
				st.directCalls++
				st.mu.Unlock()
				dout := "reject"
				if p == nil && derr == nil {
					dout = "accept"
				}
				acc.Case(group+"/direct", name, nontrivial, dout+"/ref-"+rr.Verdict.String())
				switch {
				case p != nil:
					viol("panic/pubkey-from-cert-chain", fmt.Sprintf("PubKeyFromCertChain panicked on %s: %v", name, p), replay)
				case derr == nil && rr.Verdict == forge.MustReject:
					viol("accepts/"+rr.Class+"/pubkey-from-cert-chain", fmt.Sprintf("PubKeyFromCertChain accepted chain %q which must be refused: %s", name, rr.Why), replay)
				case derr != nil && rr.Verdict == forge.MustAccept:
					viol("rejects-authentic/pubkey-from-cert-chain", fmt.Sprintf("PubKeyFromCertChain refused the authentic chain %q: %v", name, derr), replay)
				case derr == nil && rr.Key != nil && !bytes.Equal(dk, rr.Key):
					viol("wrong-identity/pubkey-from-cert-chain", fmt.Sprintf("PubKeyFromCertChain accepted %q but returned a key that is not the one that signed the binding", name), replay)
				}
			}
		}
	}
}

func hexChain(raw [][]byte) []string {
	out := make([]string, len(raw))
	for i, r := range raw {
		out[i] = fmt.Sprintf("%x", r)
	}
	return out
}

func runSeamA(run *evid.Run, acc *enum.Acc) map[string]any {
	f := newFixtures()
	st := &seamAStats{acceptByDims: map[string]int{}, vc: &violCollector{m: map[string]*collected{}}}
	maxDev := 2
	// (1) crafted certificates: all deviation vectors
	var specs [][]int
	if run.Quick() {
		f.nflips = 32
	}
	enumDeviations(f.dimSizes(), 2, func(s []int) { specs = append(specs, s) })
	if !run.Quick() {
		// exactly three deviations over a reduced bit-flip menu (every 32nd bit)
		maxDev = 3
		sizes := f.dimSizes()
		sizes[2] = len(sigFixed) + 16
		enumDeviations(sizes, 3, func(s []int) {
			n := 0
			for _, v := range s {
				if v != 0 {
					n++
				}
			}
			if n == 3 {
				if s[2] >= len(sigFixed) {
					s[2] = len(sigFixed) + (s[2]-len(sigFixed))*(f.nflips/16)
				}
				specs = append(specs, s)
			}
		})
	}
	capped := false
	var cmu sync.Mutex
	enum.Par(len(specs), 16, func(i int) {
		if i%256 == 0 && run.Expired() {
			cmu.Lock()
			capped = true
			cmu.Unlock()
		}
		cmu.Lock()
		c := capped
		cmu.Unlock()
		if c {
			return
		}
		s := specs[i]
		ndev := 0
		for _, v := range s {
			if v != 0 {
				ndev++
			}
		}
		f.judge(run, acc, st, fmt.Sprintf("crafted/deviations=%d", ndev), f.specName(s), f.build(s), s, ndev == 0)
	})
	if capped {
		acc.Capped()
	}
	acc.Sample(map[string]any{"seam": "A", "group": "crafted", "spec": f.specName(specs[len(specs)/2]), "expected_peers": []string{"any", "S", "O", "T"}})
	acc.Sample(map[string]any{"seam": "A", "group": "crafted", "spec": f.specName(specs[len(specs)-1])})

	// (2) certificates generated by the repository's own identity code
	for _, signer := range []*enum.Key{f.S, f.O} {
		id, err := p2ptls.NewIdentity(signer.Priv)
		if err != nil {
			evid.Fatal("NewIdentity: %v", err)
		}
		der := p2ptls.VerifCertificate(id).Certificate[0]
		hon := signer == f.S
		f.judge(run, acc, st, "repo-cert", "repo-cert("+signer.Name+")", [][]byte{der}, nil, hon)
		f.judge(run, acc, st, "repo-cert", "repo-cert("+signer.Name+")x2", [][]byte{der, der}, nil, false)
		f.judge(run, acc, st, "repo-cert", "repo-cert("+signer.Name+")+crafted-O", [][]byte{der, f.honestO}, nil, false)
		f.judge(run, acc, st, "repo-cert", "none", [][]byte{}, nil, false)
		var muts []enum.Mut
		enum.Truncations(der, func(m enum.Mut) { muts = append(muts, m) })
		if run.Quick() {
			for i := range der {
				for _, v := range []byte{der[i] ^ 0x01, der[i] ^ 0x80, 0x00, 0xff} {
					if v != der[i] {
						c := append([]byte{}, der...)
						c[i] = v
						muts = append(muts, enum.Mut{Desc: fmt.Sprintf("subst[%d]=%02x", i, v), Data: c})
					}
				}
			}
		} else {
			enum.ByteSubst(der, nil, func(m enum.Mut) { muts = append(muts, m) })
		}
		enum.Extensions(der, []byte{0x00, 0x30}, func(m enum.Mut) { muts = append(muts, m) })
		enum.Par(len(muts), 16, func(i int) {
			if i%1024 == 0 && run.Expired() {
				cmu.Lock()
				capped = true
				cmu.Unlock()
			}
			cmu.Lock()
			c := capped
			cmu.Unlock()
			if c {
				return
			}
			f.judge(run, acc, st, "repo-cert/der-mutation", "repo-cert("+signer.Name+")/"+muts[i].Desc, [][]byte{muts[i].Data}, nil, false)
		})
		if capped {
			acc.Capped()
		}
		acc.Sample(map[string]any{"seam": "A", "group": "repo-cert/der-mutation", "signer": signer.Name, "der_len": len(der), "mutations": len(muts)})
	}
	st.vc.flush(run)
	if st.accepts == 0 || st.rejects == 0 {
		evid.Fatal("vacuous seam A: %d accepts, %d rejects", st.accepts, st.rejects)
	}
	var dims []string
	for k, n := range st.acceptByDims {
		dims = append(dims, fmt.Sprintf("%s:%d", k, n))
	}
	sort.Strings(dims)
	return map[string]any{"max_deviations": maxDev, "crafted_specs": len(specs), "accepted": st.accepts, "refused": st.rejects, "direct_pubkey_from_cert_chain_calls": st.directCalls,
		"construction_vs_reference_crosschecks": st.refSpecCrossCheck, "accepted_by_deviating_dimensions": dims, "dimension_sizes": f.dimSizes()}
}

func edSign(i *forge.Ident, msg []byte) []byte { return ed25519.Sign(i.Priv, msg) }

func edPub(k *enum.Key) []byte { return []byte(k.Std.Public().(ed25519.PublicKey)) }
