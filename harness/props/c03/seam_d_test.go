package c03

import (
	"bytes"
	stded "crypto/ed25519"
	"crypto/sha256"
	"errors"
	"fmt"
	"strings"
	"testing"
	"time"

	"github.com/aperturerobotics/bifrost/crypto"
	p2ptls "github.com/aperturerobotics/bifrost/crypto/tls"
	"github.com/aperturerobotics/bifrost/peer"

	"verifh/evid"
	"verifh/mc"
	"verifh/props/c03/forge"
	"verifh/vsync"
)

// Seam D: two certificate chains are verified CONCURRENTLY in one process (two
// handshakes in flight). The crypto/tls package has no synchronisation of its
// own, so the scheduling point is supplied through the repository's public
// extension point for key types (crypto.PubKeyUnmarshallers): the bound
// identity S uses a key type whose Verify first yields to the scheduler and
// then verifies as plain Ed25519 - i.e. a verification that can be preempted
// between the moment its input is assembled and the moment it is read. One
// thread verifies the authentic certificate of S, the other a self-signed
// certificate for the ATTACKER's key that carries S's (public) binding
// extension. In every interleaving the forged chain must be refused and the
// authentic one accepted.

const yieldKeyType = crypto.KeyType(77)

type yieldPub struct{ k stded.PublicKey }

func (p *yieldPub) Equals(o crypto.Key) bool {
	q, ok := o.(*yieldPub)
	return ok && bytes.Equal(p.k, q.k)
}
func (p *yieldPub) Raw() ([]byte, error) { return append([]byte{}, p.k...), nil }
func (p *yieldPub) Type() crypto.KeyType { return yieldKeyType }
func (p *yieldPub) Verify(data, sig []byte) (bool, error) {
	vsync.Yield("verify: input assembled, not yet read")
	return stded.Verify(p.k, data, sig), nil
}

func init() {
	crypto.PubKeyUnmarshallers[yieldKeyType] = func(data []byte) (crypto.PubKey, error) {
		if len(data) != stded.PublicKeySize {
			return nil, errors.New("yield key: bad length")
		}
		return &yieldPub{k: append(stded.PublicKey{}, data...)}, nil
	}
}

func runSeamD(t *testing.T, run *evid.Run, agg *mc.Agg) {
	seed := sha256.Sum256([]byte("c03/seam-d/S"))
	sPriv := stded.NewKeyFromSeed(seed[:])
	sPub := sPriv.Public().(stded.PublicKey)
	// marshalled crypto.PublicKey{key_type: 77, data: sPub}
	sProto := append([]byte{0x08, byte(yieldKeyType), 0x12, 0x20}, sPub...)
	sID, err := peer.IDFromPublicKey(&yieldPub{k: sPub})
	if err != nil {
		evid.Fatal("seam D: peer id of the yielding key: %v", err)
	}
	// validity spans the virtual clock of the bubbles (which starts in 2000) and the real clock
	ckS, ckAtt := forge.NewECDSAKey("cert-key-of-S"), forge.NewECDSAKey("cert-key-of-attacker")
	binding := forge.MarshalSK(sProto, stded.Sign(sPriv, append([]byte(forge.Prefix), ckS.PKIX()...)))
	exts := []forge.Ext{{OID: forge.BindingOID, Value: binding}}
	genuine, err := forge.Build(forge.CertSpec{Key: ckS, Exts: exts, NotBefore: time.Date(1990, 1, 1, 0, 0, 0, 0, time.UTC), NotAfter: time.Date(2100, 1, 1, 0, 0, 0, 0, time.UTC)})
	if err != nil {
		evid.Fatal("seam D: %v", err)
	}
	forged, err := forge.Build(forge.CertSpec{Key: ckAtt, Exts: exts, NotBefore: time.Date(1990, 1, 1, 0, 0, 0, 0, time.UTC), NotAfter: time.Date(2100, 1, 1, 0, 0, 0, 0, time.UTC)})
	if err != nil {
		evid.Fatal("seam D: %v", err)
	}
	f := newFixtures()
	type sc struct {
		name     string
		expected peer.ID
		chains   [][]byte // one per thread
		names    []string
	}
	scens := []sc{
		{"forged+authentic/expect-any", "", [][]byte{forged, genuine}, []string{"forged", "authentic"}},
		{"forged+authentic/expect-S", sID, [][]byte{forged, genuine}, []string{"forged", "authentic"}},
		{"forged+authentic+authentic/expect-S", sID, [][]byte{forged, genuine, genuine}, []string{"forged", "authentic", "authentic2"}},
		{"forged+forged+authentic/expect-any", "", [][]byte{forged, forged, genuine}, []string{"forged", "forged2", "authentic"}},
	}
	for _, s := range scens {
		s := s
		// NoCache: the happens-before state cache assumes that threads interact only through
		// instrumented operations; the hazard looked for here is exactly an unsynchronised shared buffer
		cfg := &vsync.Config{Name: "seam-d/" + s.name, Bound: 3, NoCache: true, Deadline: run.Deadline(), MaxStep: 2000,
			Body: func() {
				var wg vsync.WaitGroup
				for i := range s.chains {
					i := i
					wg.Add(1)
					vsync.GoNamed(s.names[i], func() {
						defer wg.Done()
						conf, _ := f.verifier.ConfigForPeer(s.expected)
						err := conf.VerifyPeerCertificate([][]byte{s.chains[i]}, nil)
						vsync.Logf("verdict %s accepted=%v", s.names[i], err == nil)
					})
				}
				wg.Wait()
			},
			Check: func(x *vsync.Exec) string {
				if x.Deadlock || x.HorizonHit {
					return ""
				}
				for _, l := range x.Log {
					switch {
					case strings.HasPrefix(l, "verdict forged") && strings.HasSuffix(l, "accepted=true"):
						return "accepts/binding-signature-over-a-different-key/concurrent-verifications a self-signed certificate for the attacker's key carrying S's binding extension was accepted while S's authentic certificate was being verified concurrently"
					case strings.HasPrefix(l, "verdict authentic") && strings.HasSuffix(l, "accepted=false"):
						return "rejects-authentic/concurrent-verifications S's authentic certificate was refused while another chain was being verified concurrently"
					}
				}
				return ""
			},
			Observe: func(x *vsync.Exec) []string { return []string{"seam D: concurrent verifications"} },
		}
		res := vsync.Explore(t, cfg)
		agg.Add(res, func(v *vsync.Violation) string { return strings.Fields(v.What)[0] })
	}
	// sanity, sequentially: the forged chain is refused, the authentic one accepted
	conf1, _ := f.verifier.ConfigForPeer("")
	conf2, _ := f.verifier.ConfigForPeer(sID)
	// (after the concurrent scenarios: the process has verified both chains before)
	e1, e2 := conf1.VerifyPeerCertificate([][]byte{forged}, nil), conf2.VerifyPeerCertificate([][]byte{genuine}, nil)
	if e1 == nil {
		run.Violation("accepts/binding-signature-over-a-different-key/sequential-after-concurrent-scenarios", "seam D: a self-signed certificate for the attacker's key carrying S's binding extension was accepted in a plain sequential verification (after the same process had verified S's authentic certificate)", "seam-d/sequential")
	}
	if e2 != nil {
		run.Violation("rejects-authentic/seam-d-sequential", fmt.Sprintf("seam D: S's authentic certificate (yielding key type) was refused in a plain sequential verification: %v", e2), "seam-d/sequential")
	}
	_ = fmt.Sprint
	_ = p2ptls.NewIdentity
}
