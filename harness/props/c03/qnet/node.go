package qnet

import (
	"context"
	"errors"
	"fmt"
	"io"
	"runtime/debug"
	"sync"

	"github.com/aperturerobotics/bifrost/crypto"
	"github.com/aperturerobotics/bifrost/link"
	"github.com/aperturerobotics/bifrost/peer"
	"github.com/aperturerobotics/bifrost/transport"
	"github.com/aperturerobotics/bifrost/transport/common/dialer"
	"github.com/aperturerobotics/bifrost/transport/common/pconn"
	"github.com/sirupsen/logrus"

	"verifh/enum"
)

// TransportType is the tptaddr transport id of the harness transport.
const TransportType = "qnet"

// Transport is the real pconn transport plus the one method a dialing
// transport has to add (exactly what transport/inproc and transport/udp do).
type Transport struct {
	*pconn.Transport
}

// MatchTransportType implements dialer.TransportDialer.
func (t *Transport) MatchTransportType(s string) bool { return s == TransportType }

var _ dialer.TransportDialer = (*Transport)(nil)
var _ transport.Transport = (*Transport)(nil)

// Quiet returns a logger that discards everything.
func Quiet() *logrus.Entry {
	lg := logrus.New()
	lg.SetOutput(io.Discard)
	lg.SetLevel(logrus.PanicLevel)
	return logrus.NewEntry(lg)
}

// NewTransport builds the real pconn transport for key on conn.
func NewTransport(ctx context.Context, le *logrus.Entry, priv crypto.PrivKey, conn *PConn, h transport.TransportHandler, static map[string]*dialer.DialerOpts) (*Transport, error) {
	t, err := pconn.NewTransport(ctx, le, priv, h, nil, 0, conn, ParseAddr, static)
	if err != nil {
		return nil, err
	}
	return &Transport{t}, nil
}

// LinkEvent is one callback received from a transport.
type LinkEvent struct {
	Est    bool // established (else lost)
	Link   link.Link
	Remote peer.ID
}

// Recorder is a transport.TransportHandler that records callbacks.
type Recorder struct {
	// Pump: accept (and discard) streams on every established link and close
	// the link when accepting fails, as the transport controller does; this is
	// how the passive side of a QUIC link learns that the session is gone.
	Pump   bool
	mu     sync.Mutex
	events []LinkEvent
	Notify chan struct{} // receives a token per callback (never blocks the caller)
}

// NewRecorder builds a recorder.
func NewRecorder() *Recorder { return &Recorder{Notify: make(chan struct{}, 1024)} }

func (r *Recorder) add(e LinkEvent) {
	r.mu.Lock()
	r.events = append(r.events, e)
	r.mu.Unlock()
	select {
	case r.Notify <- struct{}{}:
	default:
	}
}

// HandleLinkEstablished implements transport.TransportHandler.
func (r *Recorder) HandleLinkEstablished(l link.Link) {
	r.add(LinkEvent{Est: true, Link: l, Remote: l.GetRemotePeer()})
	if r.Pump {
		go func() {
			for {
				s, _, err := l.AcceptStream()
				if err != nil {
					_ = l.Close()
					return
				}
				if s != nil {
					_ = s.Close()
				}
			}
		}()
	}
}

// Live returns the links reported established and not (yet) reported lost.
func (r *Recorder) Live() []link.Link {
	r.mu.Lock()
	defer r.mu.Unlock()
	var out []link.Link
	for _, e := range r.events {
		if e.Est {
			out = append(out, e.Link)
			continue
		}
		for i, l := range out {
			if l == e.Link {
				out = append(out[:i:i], out[i+1:]...)
				break
			}
		}
	}
	return out
}

// HandleLinkLost implements transport.TransportHandler.
func (r *Recorder) HandleLinkLost(l link.Link) {
	r.add(LinkEvent{Est: false, Link: l, Remote: l.GetRemotePeer()})
}

// Events returns a copy of the callbacks so far.
func (r *Recorder) Events() []LinkEvent {
	r.mu.Lock()
	defer r.mu.Unlock()
	return append([]LinkEvent(nil), r.events...)
}

var (
	panicsMu sync.Mutex
	panics   []string
)

// Panics returns the panics recovered from transports' Execute loops so far.
func Panics() []string {
	panicsMu.Lock()
	defer panicsMu.Unlock()
	return append([]string(nil), panics...)
}

// Node is one identity running the real transport on one packet conn.
type Node struct {
	Name    string
	Key     *enum.Key
	Conn    *PConn
	Tpt     *Transport
	Rec     *Recorder
	cancel  context.CancelFunc
	Done    chan struct{} // closed when Execute returned
	ExecErr error
}

// NewNode builds and starts (listens) a node whose conn has local address laddr.
// The conn is not bound at the switch: the caller decides who serves laddr.
func NewNode(ctx context.Context, sw *Switch, name string, key *enum.Key, laddr string) (*Node, error) {
	nctx, cancel := context.WithCancel(ctx)
	n := &Node{Name: name, Key: key, Conn: sw.NewConn(laddr), Rec: NewRecorder(), cancel: cancel, Done: make(chan struct{})}
	n.Rec.Pump = true
	t, err := NewTransport(nctx, Quiet(), key.Priv, n.Conn, n.Rec, nil)
	if err != nil {
		cancel()
		return nil, err
	}
	n.Tpt = t
	go func() {
		defer close(n.Done)
		defer func() {
			// a panic in the transport's own accept/execute loop would take the
			// process down; it is recorded so that the check can report it.
			if r := recover(); r != nil {
				msg := fmt.Sprintf("node %s: transport Execute panicked: %v\n%s", name, r, debug.Stack())
				n.ExecErr = errors.New(msg)
				panicsMu.Lock()
				panics = append(panics, msg)
				panicsMu.Unlock()
			}
		}()
		n.ExecErr = t.Execute(nctx)
	}()
	return n, nil
}

// Close stops the node: cancels its context, closes all its links and its conn.
func (n *Node) Close() {
	n.cancel()
	for _, e := range n.Rec.Events() {
		if e.Est {
			_ = e.Link.Close()
		}
	}
	_ = n.Conn.Close()
}
