// Package qnet is the harness network for the C03 / C05 checks: an in-memory
// packet switch whose address bindings are decided by the harness (an address
// can be served by the intended peer, by an impostor, or by nobody), and nodes
// that run the real packet-conn QUIC transport of bifrost
// (transport/common/pconn on transport/common/quic on quic-go with the real
// p2ptls identity) on top of it.
package qnet

import (
	"context"
	"errors"
	"net"
	"os"
	"strings"
	"sync"
	"time"
)

// Addr is a switch address.
type Addr string

func (a Addr) Network() string { return "qnet" }
func (a Addr) String() string  { return string(a) }

// ParseAddr parses a dial string into an Addr (every non-empty string is valid).
// A dial string of the form "alias:<addr>" resolves to <addr>, like a host
// name resolving to an IP address: the string a caller dials then differs from
// the canonical string of the address the session reports.
func ParseAddr(s string) (net.Addr, error) {
	if s == "" {
		return nil, errors.New("qnet: empty address")
	}
	if r := strings.TrimPrefix(s, "alias:"); r != s && r != "" {
		return Addr(r), nil
	}
	return Addr(s), nil
}

type pkt struct {
	data []byte
	from net.Addr
}

// Switch routes packets by destination address string. Unroutable packets are
// dropped silently, like datagrams sent to a host that is not there.
type Switch struct {
	mu      sync.Mutex
	bind    map[string]*PConn
	Sent    int
	Dropped int
}

// NewSwitch builds an empty switch.
func NewSwitch() *Switch { return &Switch{bind: map[string]*PConn{}} }

// Bind makes addr deliver to c (nil unbinds).
func (s *Switch) Bind(addr string, c *PConn) {
	s.mu.Lock()
	if c == nil {
		delete(s.bind, addr)
	} else {
		s.bind[addr] = c
	}
	s.mu.Unlock()
}

// Bound returns the conn currently serving addr.
func (s *Switch) Bound(addr string) *PConn {
	s.mu.Lock()
	defer s.mu.Unlock()
	return s.bind[addr]
}

// PConn is a net.PacketConn attached to the switch. Its local address is the
// source address stamped on everything it sends; whether packets addressed to
// that address reach it is decided by the switch bindings alone.
type PConn struct {
	sw     *Switch
	laddr  Addr
	ch     chan pkt
	closed chan struct{}
	once   sync.Once

	mu    sync.Mutex
	rd    time.Time
	rdChg chan struct{}
	rx    int
}

// Rx returns the number of packets delivered to this conn.
func (c *PConn) Rx() int {
	c.mu.Lock()
	defer c.mu.Unlock()
	return c.rx
}

// NewConn creates an unbound packet conn with the given local address.
func (s *Switch) NewConn(laddr string) *PConn {
	return &PConn{sw: s, laddr: Addr(laddr), ch: make(chan pkt, 4096), closed: make(chan struct{}), rdChg: make(chan struct{})}
}

func (c *PConn) ReadFrom(p []byte) (int, net.Addr, error) {
	for {
		c.mu.Lock()
		rd, chg := c.rd, c.rdChg
		c.mu.Unlock()
		var tmo <-chan time.Time
		var tm *time.Timer
		if !rd.IsZero() {
			d := time.Until(rd)
			if d <= 0 {
				return 0, nil, os.ErrDeadlineExceeded
			}
			tm = time.NewTimer(d)
			tmo = tm.C
		}
		select {
		case k := <-c.ch:
			if tm != nil {
				tm.Stop()
			}
			n := copy(p, k.data)
			return n, k.from, nil
		case <-c.closed:
			if tm != nil {
				tm.Stop()
			}
			return 0, nil, net.ErrClosed
		case <-tmo:
			return 0, nil, os.ErrDeadlineExceeded
		case <-chg:
			if tm != nil {
				tm.Stop()
			}
		}
	}
}

func (c *PConn) WriteTo(p []byte, addr net.Addr) (int, error) {
	select {
	case <-c.closed:
		return 0, net.ErrClosed
	default:
	}
	s := c.sw
	s.mu.Lock()
	dst := s.bind[addr.String()]
	s.Sent++
	if dst == nil {
		s.Dropped++
	}
	s.mu.Unlock()
	if dst == nil {
		return len(p), nil
	}
	k := pkt{data: append([]byte(nil), p...), from: c.laddr}
	select {
	case dst.ch <- k:
		dst.mu.Lock()
		dst.rx++
		dst.mu.Unlock()
	case <-dst.closed:
	default:
		s.mu.Lock()
		s.Dropped++
		s.mu.Unlock()
	}
	return len(p), nil
}

func (c *PConn) Close() error {
	c.once.Do(func() { close(c.closed) })
	return nil
}
func (c *PConn) LocalAddr() net.Addr { return c.laddr }
func (c *PConn) SetDeadline(t time.Time) error {
	return c.SetReadDeadline(t)
}
func (c *PConn) SetReadDeadline(t time.Time) error {
	c.mu.Lock()
	c.rd = t
	close(c.rdChg)
	c.rdChg = make(chan struct{})
	c.mu.Unlock()
	return nil
}
func (c *PConn) SetWriteDeadline(t time.Time) error { return nil }

var _ net.PacketConn = (*PConn)(nil)

// keep context imported for node.go
var _ = context.Background
