package c03

import (
	"context"
	"crypto/tls"
	"fmt"
	"sort"
	"strings"
	"sync/atomic"
	"time"

	"github.com/aperturerobotics/bifrost/link"
	"github.com/aperturerobotics/bifrost/peer"
	transport_quic "github.com/aperturerobotics/bifrost/transport/common/quic"
	"github.com/quic-go/quic-go"

	"verifh/enum"
	"verifh/hist"
	"verifh/props/c03/forge"
	"verifh/props/c03/qnet"
)

// ---- seam B: real QUIC/TLS handshakes between real pconn transports ----
//
// Nodes: L (address aL), X (address aX), and the impostor Y which has its own
// key but sends from, and can be made reachable at, X's address aX. F is a
// forger: a bare quic-go endpoint (no bifrost code) presenting crafted
// certificate chains, also operating from aX.

var (
	bEstablished  atomic.Int64 // links reported through HandleLinkEstablished and judged
	bRefusedDials atomic.Int64 // dials that returned an error
	bMismatch     atomic.Int64 // dials with an expected peer different from the peer that answered
	bForgedTried  atomic.Int64
	bForgedCtl    atomic.Int64 // control: honest crafted certificate accepted end to end
)

type dialResult struct {
	err    error
	remote peer.ID
	got    bool
}

type sysB struct {
	forged  bool // scenario with the forger events
	ticks   bool
	fine    bool // state key also contains the last two events (thorough tier)
	hist    []string
	ctx     context.Context
	cancel  context.CancelFunc
	sw      *qnet.Switch
	keys    []*enum.Key // L X Y F
	L, X, Y *qnet.Node
	fconn   *qnet.PConn
	names   map[peer.ID]string
	seen    map[*qnet.Node]int // recorder events already judged
	viols   []string
	broken  string
	log     []string
	bad     bool
}

func newSysB(forged, ticks, fine bool) *sysB {
	s := &sysB{forged: forged, ticks: ticks, fine: fine, sw: qnet.NewSwitch(), keys: enum.Keys(4), names: map[peer.ID]string{}, seen: map[*qnet.Node]int{}}
	s.ctx, s.cancel = context.WithCancel(context.Background())
	for i, n := range []string{"L", "X", "Y", "F"} {
		s.names[s.keys[i].ID] = n
	}
	var err error
	if s.L, err = qnet.NewNode(s.ctx, s.sw, "L", s.keys[0], "aL"); err != nil {
		s.broken = err.Error()
		return s
	}
	if s.X, err = qnet.NewNode(s.ctx, s.sw, "X", s.keys[1], "aX"); err != nil {
		s.broken = err.Error()
		return s
	}
	if s.Y, err = qnet.NewNode(s.ctx, s.sw, "Y", s.keys[2], "aX"); err != nil {
		s.broken = err.Error()
		return s
	}
	s.sw.Bind("aL", s.L.Conn)
	return s
}

func (s *sysB) nodes() []*qnet.Node { return []*qnet.Node{s.L, s.X, s.Y} }

func (s *sysB) name(p peer.ID) string {
	if p == "" {
		return "any"
	}
	if n, ok := s.names[p]; ok {
		return n
	}
	return "?" + p.String()
}

var forgedKinds = []string{"honest", "claims-X-signed-by-F", "binding-over-other-cert-key", "two-certificates", "not-self-signed", "no-binding"}

func (s *sysB) Enabled() []string {
	if s.broken != "" || s.bad {
		return nil
	}
	var ev []string
	if !s.forged {
		ev = []string{"X>L:L", "Y>L:L", "X>L:Y", "Y>L:any"}
		for _, srv := range []string{"X", "Y"} {
			for _, exp := range []string{"any", "X", "Y"} {
				ev = append(ev, "L>"+srv+":"+exp)
			}
		}
	} else {
		for _, k := range forgedKinds {
			ev = append(ev, "F>L/"+k)
		}
		for _, k := range forgedKinds {
			for _, exp := range []string{"any", "X"} {
				ev = append(ev, "L>F/"+k+":"+exp)
			}
		}
		ev = append(ev, "X>L:L")
	}
	ev = append(ev, "drop")
	if s.ticks {
		ev = append(ev, "tick")
	}
	return ev
}

func (s *sysB) nodeByName(n string) *qnet.Node {
	switch n {
	case "L":
		return s.L
	case "X":
		return s.X
	case "Y":
		return s.Y
	}
	return nil
}

func (s *sysB) idByName(n string) peer.ID {
	switch n {
	case "L":
		return s.keys[0].ID
	case "X":
		return s.keys[1].ID
	case "Y":
		return s.keys[2].ID
	case "F":
		return s.keys[3].ID
	}
	return ""
}

// dial runs DialPeer on node from and waits for its outcome (virtual time; the
// liveness cap of 60 virtual seconds is far above QUIC's 5 s handshake timeout).
func (s *sysB) dial(from *qnet.Node, exp peer.ID, addr string) (dialResult, bool) {
	ch := make(chan dialResult, 1)
	dctx, cancel := context.WithTimeout(s.ctx, 60*time.Second)
	defer cancel()
	go func() {
		l, _, err := from.Tpt.DialPeer(dctx, exp, addr)
		r := dialResult{err: err}
		if l != nil {
			r.got, r.remote = true, l.GetRemotePeer()
		}
		ch <- r
	}()
	select {
	case r := <-ch:
		return r, true
	case <-time.After(90 * time.Second):
		return dialResult{}, false
	}
}

// forgedCert builds the crafted TLS certificate of the forger.
func (s *sysB) forgedCert(kind string) tls.Certificate {
	iF := &forge.Ident{Name: "F", Priv: s.keys[3].Std}
	iX := &forge.Ident{Name: "X", Priv: s.keys[1].Std}
	ck, other := forge.NewECDSAKey("fk"), forge.NewECDSAKey("fo")
	now := time.Now()
	cs := forge.CertSpec{Key: ck, NotBefore: now.Add(-time.Hour), NotAfter: now.Add(1000 * time.Hour)}
	val := forge.Binding(iF, ck)
	switch kind {
	case "claims-X-signed-by-F":
		sig := edSign(iF, append([]byte(forge.Prefix), ck.PKIX()...))
		val = forge.MarshalSK(forge.PubProto(iX.Pub()), sig)
	case "binding-over-other-cert-key":
		val = forge.Binding(iF, other)
	case "not-self-signed":
		cs.Issuer, cs.IssuerName = other, true
	}
	if kind != "no-binding" {
		cs.Exts = []forge.Ext{{OID: forge.BindingOID, Value: val}}
	}
	der, err := forge.Build(cs)
	if err != nil {
		s.broken = "forge: " + err.Error()
	}
	chain := [][]byte{der}
	if kind == "two-certificates" {
		o, err := forge.Build(forge.CertSpec{Key: other, Exts: []forge.Ext{{OID: forge.BindingOID, Value: forge.Binding(iF, other)}}, NotBefore: now.Add(-time.Hour), NotAfter: now.Add(1000 * time.Hour)})
		if err != nil {
			s.broken = "forge: " + err.Error()
		}
		chain = append(chain, o)
	}
	return tls.Certificate{Certificate: chain, PrivateKey: ck.Signer}
}

func forgerTLS(cert tls.Certificate) *tls.Config {
	return &tls.Config{
		MinVersion:         tls.VersionTLS13,
		InsecureSkipVerify: true, // the forger accepts anybody
		ClientAuth:         tls.RequireAnyClientCert,
		Certificates:       []tls.Certificate{cert},
		NextProtos:         []string{transport_quic.Alpn},
	}
}

func (s *sysB) note(format string, a ...any) { s.viols = append(s.viols, fmt.Sprintf(format, a...)) }

// Apply performs one event and judges it.
func (s *sysB) Apply(ev string) {
	if s.broken != "" {
		return
	}
	s.hist = append(s.hist, ev)
	switch {
	case ev == "drop":
		for _, n := range s.nodes() {
			for _, l := range n.Rec.Live() {
				_ = l.Close()
			}
		}
		s.log = append(s.log, "drop")
		return
	case ev == "tick":
		time.Sleep(30 * time.Second)
		s.log = append(s.log, "tick")
		return
	case strings.HasPrefix(ev, "F>L/"):
		s.applyForgedClient(strings.TrimPrefix(ev, "F>L/"))
		return
	case strings.HasPrefix(ev, "L>F/"):
		kind, exp, _ := strings.Cut(strings.TrimPrefix(ev, "L>F/"), ":")
		s.applyForgedServer(kind, exp)
		return
	}
	// <from>><to>:<expected>
	ft, expN, _ := strings.Cut(ev, ":")
	fromN, toN, _ := strings.Cut(ft, ">")
	from, to := s.nodeByName(fromN), s.nodeByName(toN)
	exp := s.idByName(expN)
	addr := "aL"
	if toN != "L" {
		addr = "aX"
		s.sw.Bind("aX", to.Conn) // who answers at X's address
	} else {
		s.sw.Bind("aX", from.Conn) // replies to aX reach the dialer
	}
	s.mark()
	r, ok := s.dial(from, exp, addr)
	if !ok {
		s.broken = "liveness: DialPeer did not return within 90 virtual seconds (" + ev + ")"
		return
	}
	s.settle()
	mismatch := exp != "" && exp != to.Key.ID
	if mismatch {
		bMismatch.Add(1)
	}
	if r.err != nil {
		bRefusedDials.Add(1)
	}
	s.log = append(s.log, fmt.Sprintf("%s => err=%v link=%v", ev, r.err != nil, r.got))
	// every link reported during this event names the identity at the other end
	s.judgeNew(from, to.Key.ID, ev)
	s.judgeNew(to, from.Key.ID, ev)
	for _, n := range s.nodes() {
		if n != from && n != to {
			s.judgeNone(n, ev)
		}
	}
	if r.got && r.remote != to.Key.ID {
		s.note("link-names-wrong-peer/dial-result :: %s: DialPeer returned a link naming %s, but the handshake was run by %s", ev, s.name(r.remote), toN)
	}
	if mismatch {
		// the caller required a specific peer and a different one answered: refused, no link
		if n := s.newEst(from); len(n) > 0 {
			s.note("mismatching-expected-peer-yields-link/pconn-dial :: %s: node %s dialed %s requiring peer %s, %s answered, and a link (remote %s) was reported established instead of the handshake being refused", ev, fromN, addr, expN, toN, s.name(n[0].Remote))
		}
	}
	s.commit()
}

// mark / newEst / commit: recorder events that arrived since mark.
func (s *sysB) mark() {
	for _, n := range s.nodes() {
		s.seen[n] = len(n.Rec.Events())
	}
}
func (s *sysB) commit() { s.mark() }
func (s *sysB) newEst(n *qnet.Node) []qnet.LinkEvent {
	var out []qnet.LinkEvent
	for _, e := range n.Rec.Events()[s.seen[n]:] {
		if e.Est {
			out = append(out, e)
		}
	}
	return out
}

func (s *sysB) judgeNew(n *qnet.Node, truth peer.ID, ev string) {
	for _, e := range s.newEst(n) {
		bEstablished.Add(1)
		if e.Remote != truth || e.Link.GetRemotePeer() != truth {
			s.note("link-names-wrong-peer/handle-link-established :: %s: node %s was handed a link naming %s, but the handshake was run with the key of %s", ev, n.Name, s.name(e.Remote), s.name(truth))
		}
		if e.Link.GetLocalPeer() != n.Key.ID {
			s.note("link-names-wrong-local-peer :: %s: node %s was handed a link whose local peer is %s", ev, n.Name, s.name(e.Link.GetLocalPeer()))
		}
	}
}

func (s *sysB) judgeNone(n *qnet.Node, ev string) {
	if e := s.newEst(n); len(e) > 0 {
		s.note("link-at-uninvolved-node :: %s: node %s, which took no part, was handed a link naming %s", ev, n.Name, s.name(e[0].Remote))
	}
}

// settle lets the passive side finish (bubble: quiescence; the engine waits again afterwards).
func (s *sysB) settle() { settleFn() }

func (s *sysB) applyForgedClient(kind string) {
	bForgedTried.Add(1)
	cert := s.forgedCert(kind)
	if s.broken != "" {
		return
	}
	fc := s.sw.NewConn("aX")
	defer fc.Close()
	s.fconn = fc
	s.sw.Bind("aX", fc)
	s.mark()
	dctx, cancel := context.WithTimeout(s.ctx, 60*time.Second)
	defer cancel()
	tr := &quic.Transport{Conn: fc}
	defer tr.Close()
	conn, err := tr.Dial(dctx, qnet.Addr("aL"), forgerTLS(cert), &quic.Config{MaxIdleTimeout: 10 * time.Second})
	s.settle()
	s.judgeForged("F>L/"+kind, kind, s.L, err == nil)
	if conn != nil {
		_ = conn.CloseWithError(0, "")
	}
	s.settle()
	s.commit()
	s.log = append(s.log, fmt.Sprintf("F>L/%s => client-err=%v", kind, err != nil))
}

func (s *sysB) applyForgedServer(kind, expN string) {
	bForgedTried.Add(1)
	cert := s.forgedCert(kind)
	if s.broken != "" {
		return
	}
	fc := s.sw.NewConn("aX")
	defer fc.Close()
	s.fconn = fc
	s.sw.Bind("aX", fc)
	s.mark()
	tr := &quic.Transport{Conn: fc}
	defer tr.Close()
	ln, err := tr.Listen(forgerTLS(cert), &quic.Config{MaxIdleTimeout: 10 * time.Second})
	if err != nil {
		s.broken = "forger listen: " + err.Error()
		return
	}
	actx, acancel := context.WithCancel(s.ctx)
	accepted := make(chan *quic.Conn, 1)
	go func() {
		c, _ := ln.Accept(actx)
		accepted <- c
	}()
	r, ok := s.dial(s.L, s.idByName(expN), "aX")
	if !ok {
		s.broken = "liveness: DialPeer did not return within 90 virtual seconds (L>F/" + kind + ")"
	}
	s.settle()
	ev := "L>F/" + kind + ":" + expN
	s.judgeForged(ev, kind, s.L, r.err == nil)
	if expN == "X" && kind == "honest" {
		// authentic certificate of F, but the caller required X
		bMismatch.Add(1)
		if n := s.newEst(s.L); len(n) > 0 {
			s.note("mismatching-expected-peer-yields-link/pconn-dial :: %s: L dialed aX requiring peer X, F answered with its own authentic certificate, and a link (remote %s) was reported established", ev, s.name(n[0].Remote))
		}
	}
	acancel()
	if c := <-accepted; c != nil {
		_ = c.CloseWithError(0, "")
	}
	_ = ln.Close()
	s.settle()
	s.commit()
	s.log = append(s.log, fmt.Sprintf("%s => err=%v link=%v", ev, r.err != nil, r.got))
}

// judgeForged: a link may be reported only for the honest control certificate, naming F.
func (s *sysB) judgeForged(ev, kind string, at *qnet.Node, handshakeOK bool) {
	est := s.newEst(at)
	if kind == "honest" {
		for _, e := range est {
			bEstablished.Add(1)
			bForgedCtl.Add(1)
			if e.Remote != s.keys[3].ID {
				s.note("link-names-wrong-peer/handle-link-established :: %s: L was handed a link naming %s, but the certificate binds the key of F", ev, s.name(e.Remote))
			}
		}
		return
	}
	for _, e := range est {
		bEstablished.Add(1)
		s.note("accepts-forged-chain/%s :: %s: a bare QUIC endpoint presented a chain that is not a single self-signed certificate with a valid key binding (%s) and L was handed a link naming %s", kind, ev, kind, s.name(e.Remote))
	}
	for _, n := range []*qnet.Node{s.X, s.Y} {
		s.judgeNone(n, ev)
	}
}

func (s *sysB) liveOf(n *qnet.Node) string {
	var out []string
	for _, l := range n.Rec.Live() {
		out = append(out, s.name(l.GetRemotePeer()))
	}
	sort.Strings(out)
	return strings.Join(out, ",")
}

func (s *sysB) Canon() string {
	if s.broken != "" {
		return "BROKEN " + s.broken
	}
	b := s.sw.Bound("aX")
	bn := "-"
	switch b {
	case s.X.Conn:
		bn = "X"
	case s.Y.Conn:
		bn = "Y"
	case s.fconn:
		bn = "F"
	}
	c := fmt.Sprintf("aX->%s L[%s] X[%s] Y[%s]", bn, s.liveOf(s.L), s.liveOf(s.X), s.liveOf(s.Y))
	if s.fine {
		h := s.hist
		if len(h) > 2 {
			h = h[len(h)-2:]
		}
		c += " last=" + strings.Join(h, ";")
	}
	return c
}

func (s *sysB) Check() []string {
	if s.broken != "" && strings.HasPrefix(s.broken, "liveness") {
		livenessCaps.Add(1)
	}
	v := s.viols
	s.viols = nil
	if len(v) > 0 {
		s.bad = true
	}
	return v
}

func (s *sysB) Close() {
	s.cancel()
	for _, n := range s.nodes() {
		if n != nil {
			n.Close()
		}
	}
	if s.fconn != nil {
		_ = s.fconn.Close()
	}
}

var livenessCaps atomic.Int64

// settleFn waits for quiescence inside the bubble.
var settleFn = func() {}

var _ hist.Sys = (*sysB)(nil)
var _ link.Link = (*transport_quic.Link)(nil)
