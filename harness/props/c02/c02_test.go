package c02

import (
	"bytes"
	"crypto/ed25519"
	"fmt"
	"strings"
	"testing"

	"github.com/aperturerobotics/bifrost/crypto"
	"github.com/aperturerobotics/bifrost/hash"
	"github.com/aperturerobotics/bifrost/peer"

	"verifh/enum"
	"verifh/evid"
	"verifh/ref"
)

// The oracle for the sign/verify product is the property statement itself:
// a signature verifies iff verifier key, context, hash type and data are all
// the ones it was created with. The reference sign body (ref.VerifySig) is
// only consulted for signatures the harness did not obtain from NewSignature.

type signed struct {
	ki, ci, hi, di int
	incl           bool
	sig            *peer.Signature
}

func TestC02(t *testing.T) {
	run := evid.Start("C02", "exploration")
	acc := enum.NewAcc(run, "full product (signer,verifier key) x (sign,verify context) x (sign,verify hash type) x (sign,verify data) x pub-key-embedded, plus deviation-1 menus on the signature object (hash-type values, every bit flip / truncation / extension of the signature bytes, every byte substitution / truncation / extension of the embedded marshalled key, key-type and key-length variants); a case is non-trivial unless it is an honest signature verified with its own four components; distinct by (group, description)")
	keys := enum.Keys(3)
	// contexts: empty, ordinary, a near miss, one containing the sign-body
	// separator, and strings that would be read as printf verbs / escapes if a
	// context were ever used as a format or pattern
	ctxs := []string{"", "ctx-a", "ctx-a ", "x - SIGN - 1", "tok%v", "tok%d", "q%.0[2]s v1", "100%", "a\\0b", "ctx\x00z"}
	// long contexts (a context may include caller-chosen text such as a channel
	// id): lengths around 128 and 256 bytes, and two that differ only after a
	// common prefix of 280 bytes - a sign body assembled in a fixed-size buffer
	// would drop the digest, the hash type or the tail of the context
	longP := strings.Repeat("p", 280)
	ctxs = append(ctxs, strings.Repeat("c", 110), strings.Repeat("c", 120), strings.Repeat("d", 240), strings.Repeat("d", 250), longP+"-a", longP+"-b")
	hts := []hash.HashType{hash.HashType_HashType_SHA256, hash.HashType_HashType_SHA1, hash.HashType_HashType_BLAKE3}
	datas := [][]byte{{}, {0x42}, bytes.Repeat([]byte("bifrost!"), 40)}
	stdPub := func(i int) ed25519.PublicKey { return keys[i].Std.Public().(ed25519.PublicKey) }

	// verify runs the real VerifyWithPublic under recover. accepted == ok && err == nil
	// (that is how SignedMsg.Verify, the only caller, reads the pair).
	verify := func(group, key string, s *peer.Signature, ctx string, pk crypto.PubKey, data []byte) (accepted, panicked bool) {
		var ok bool
		var err error
		if p := enum.Try(func() { ok, err = s.VerifyWithPublic(ctx, pk, data) }); p != nil {
			run.Violation("panic/verify/"+group, fmt.Sprintf("VerifyWithPublic panicked on %s: %v", key, p), key)
			return false, true
		}
		return ok && err == nil, false
	}
	validate := func(group, key string, s *peer.Signature) (accepted, panicked bool) {
		var err error
		if p := enum.Try(func() { err = s.Validate() }); p != nil {
			run.Violation("panic/validate/"+group, fmt.Sprintf("Signature.Validate panicked on %s: %v", key, p), key)
			return false, true
		}
		return err == nil, false
	}
	cls := func(b bool) string {
		if b {
			return "accept"
		}
		return "reject"
	}

	// ---- honest signatures -------------------------------------------------
	var sigs []*signed
	for ki := range keys {
		for ci := range ctxs {
			for hi := range hts {
				for di := range datas {
					for _, incl := range []bool{false, true} {
						var s *peer.Signature
						var err error
						desc := fmt.Sprintf("k%d/c%d/h%d/d%d/incl=%v", ki, ci, hts[hi], di, incl)
						if p := enum.Try(func() { s, err = peer.NewSignature(ctxs[ci], keys[ki].Priv, hts[hi], datas[di], incl) }); p != nil {
							run.Violation("panic/sign", fmt.Sprintf("NewSignature panicked on %s: %v", desc, p), desc)
							continue
						}
						if err != nil || s == nil {
							run.Violation("sign-fails", fmt.Sprintf("NewSignature failed for supported inputs %s: %v", desc, err), desc)
							continue
						}
						sigs = append(sigs, &signed{ki, ci, hi, di, incl, s})
						// interoperability with the documented signing format, both ways: a
						// signature made here must verify for an independent verifier, and a
						// signature made by an independent signer over the same key, context,
						// hash type and data must verify here (signatures travel between
						// processes; nothing may depend on what this process signed before)
						if !ref.VerifySig(stdPub(ki), ctxs[ci], int32(hts[hi]), datas[di], s.GetSigData()) {
							run.Violation("signature-not-over-documented-body", "NewSignature("+desc+") does not verify for an independent verifier of ctx || \" - SIGN - \" || itoa(hash type) || \" - SIGN - \" || H(data)", desc)
						}
						if body, okb := ref.SignBody(ctxs[ci], int32(hts[hi]), datas[di]); okb {
							rs := &peer.Signature{HashType: hts[hi], SigData: ed25519.Sign(keys[ki].Std, body)}
							a, pn := verify("reference-signed", desc, rs, ctxs[ci], keys[ki].Pub, datas[di])
							if !pn {
								acc.Case("reference-signed", desc, true, cls(a))
								if !a {
									run.Violation("rejects-authentic/reference-signed", "a signature made by an independent signer over the same key, context, hash type and data is rejected: "+desc, desc)
								}
							}
						}
						// honest object passes Validate
						okv, pv := validate("honest", desc, s)
						if !pv {
							acc.Case("honest-validate", desc, false, cls(okv))
							if !okv {
								run.Violation("validate-rejects-honest", "Signature.Validate rejected an object produced by NewSignature: "+desc, desc)
							}
						}
						// pre-hashed entry point given the true digest must produce an equally valid signature
						dg, _ := ref.Digest(int32(hts[hi]), datas[di])
						var s2 *peer.Signature
						if p := enum.Try(func() { s2, err = peer.NewSignatureWithHashedData(ctxs[ci], keys[ki].Priv, hts[hi], dg, incl) }); p != nil {
							run.Violation("panic/sign-hashed", fmt.Sprintf("NewSignatureWithHashedData panicked on %s: %v", desc, p), desc)
						} else if err != nil || s2 == nil {
							run.Violation("sign-fails", fmt.Sprintf("NewSignatureWithHashedData failed for %s: %v", desc, err), desc)
						} else {
							a, pn := verify("prehashed", desc, s2, ctxs[ci], keys[ki].Pub, datas[di])
							if !pn {
								acc.Case("prehashed", desc, true, cls(a))
								if !a {
									run.Violation("rejects-authentic/prehashed", "signature made by NewSignatureWithHashedData over H(data) does not verify over data with the same key, context and hash type: "+desc, desc)
								}
							}
						}
					}
				}
			}
		}
	}
	if len(sigs) == 0 {
		acc.Finish()
		run.Finish(t)
		return
	}
	acc.Sample(map[string]any{"group": "product", "signer": keys[0].ID.String(), "ctx": ctxs[0], "hash_type": int(hts[0]), "data_len": 0, "sig_len": len(sigs[0].sig.GetSigData())})

	// ---- full sign x verify product ---------------------------------------
	dims := []int{len(keys), len(ctxs), len(hts), len(datas)}
	enum.Par(len(sigs), 16, func(i int) {
		s := sigs[i]
		enum.Product(dims, func(v []int) {
			kv, cv, hv, dv := v[0], v[1], v[2], v[3]
			x := s.sig.CloneVT()
			x.HashType = hts[hv]
			want := kv == s.ki && cv == s.ci && hv == s.hi && dv == s.di
			desc := fmt.Sprintf("sign(k%d,c%d,h%d,d%d,incl=%v)/verify(k%d,c%d,h%d,d%d)", s.ki, s.ci, hts[s.hi], s.di, s.incl, kv, cv, hts[hv], dv)
			got, pn := verify("product", desc, x, ctxs[cv], keys[kv].Pub, datas[dv])
			if pn {
				acc.Case("product", desc, !want, "panic")
				return
			}
			acc.Case("product", desc, !want, cls(got))
			if got == want {
				return
			}
			var diff string
			switch {
			case want:
				run.Violation("rejects-authentic", "VerifyWithPublic rejected a signature under the key, context, hash type and data it was made with: "+desc, desc)
				return
			case kv != s.ki:
				diff = "key"
			case cv != s.ci:
				diff = "context"
			case hv != s.hi:
				diff = "hash-type"
			default:
				diff = "data"
			}
			run.Violation("verifies-with-other-"+diff, "VerifyWithPublic accepted a signature although the "+diff+" differs from the one it was created with: "+desc, desc)
		})
	})

	// ---- hash type values on the verify path ------------------------------
	badHT := []int32{0, 4, 99, -1, 1<<31 - 1}
	for _, s := range sigs {
		base := fmt.Sprintf("k%d/c%d/h%d/d%d/incl=%v", s.ki, s.ci, hts[s.hi], s.di, s.incl)
		for _, h := range badHT {
			x := s.sig.CloneVT()
			x.HashType = hash.HashType(h)
			desc := fmt.Sprintf("%s/ht=%d", base, h)
			got, pn := verify("hash-type", desc, x, ctxs[s.ci], keys[s.ki].Pub, datas[s.di])
			if pn {
				continue
			}
			acc.Case("verify-hash-type", desc, true, cls(got))
			if got {
				run.Violation("verifies-with-unknown-hash-type", fmt.Sprintf("VerifyWithPublic accepted a signature object with unsupported hash type %d: %s", h, desc), desc)
			}
			gv, pv := validate("hash-type", desc, x)
			if pv {
				continue
			}
			if h == 0 {
				// value 0 (UNKNOWN) at Validate: recorded, not demanded (the verify path rejects it)
				acc.Case("validate-hash-type-0", desc, true, cls(gv)+"(recorded)")
				continue
			}
			acc.Case("validate-hash-type", desc, true, cls(gv))
			if gv {
				run.Violation("validate-accepts-unknown-hash-type", fmt.Sprintf("Signature.Validate accepted an object with out-of-range hash type %d: %s", h, desc), desc)
			}
		}
		// empty signature bytes (nil and zero-length)
		for n, e := range [][]byte{nil, {}} {
			x := s.sig.CloneVT()
			x.SigData = e
			desc := fmt.Sprintf("%s/empty-sig%d", base, n)
			got, pn := verify("empty-sig", desc, x, ctxs[s.ci], keys[s.ki].Pub, datas[s.di])
			if !pn {
				acc.Case("verify-empty-sig", desc, true, cls(got))
				if got {
					run.Violation("verifies-with-empty-signature", "VerifyWithPublic accepted a signature object with empty signature bytes: "+desc, desc)
				}
			}
			gv, pv := validate("empty-sig", desc, x)
			if !pv {
				acc.Case("validate-empty-sig", desc, true, cls(gv))
				if gv {
					run.Violation("validate-accepts-empty-signature", "Signature.Validate accepted an object with empty signature bytes: "+desc, desc)
				}
			}
		}
	}

	// ---- arbitrary signature byte strings (deviation 1 around honest) -----
	sigMut := func(s *signed, group string, mu enum.Mut) {
		base := fmt.Sprintf("k%d/c%d/h%d/d%d/incl=%v", s.ki, s.ci, hts[s.hi], s.di, s.incl)
		x := s.sig.CloneVT()
		x.SigData = mu.Data
		desc := base + "/" + mu.Desc
		got, pn := verify(group, desc, x, ctxs[s.ci], keys[s.ki].Pub, datas[s.di])
		if pn {
			return
		}
		acc.Case(group, desc, true, cls(got))
		// independent verdict on foreign bytes: the reference verifier
		want := ref.VerifySig(stdPub(s.ki), ctxs[s.ci], int32(hts[s.hi]), datas[s.di], mu.Data)
		if got && !want {
			run.Violation("verifies-altered-signature/"+group, "VerifyWithPublic accepted altered signature bytes: "+desc, desc)
		}
		if !got && want {
			run.Violation("rejects-authentic/"+group, "VerifyWithPublic rejected signature bytes that verify under the reference: "+desc, desc)
		}
	}
	var heavy []*signed
	for _, s := range sigs {
		if !run.Quick() || !s.incl {
			heavy = append(heavy, s)
		}
	}
	enum.Par(len(heavy), 16, func(i int) {
		s := heavy[i]
		enum.BitFlips(s.sig.SigData, func(mu enum.Mut) { sigMut(s, "sig-bitflip", mu) })
		enum.Truncations(s.sig.SigData, func(mu enum.Mut) { sigMut(s, "sig-trunc", mu) })
		var ev []byte
		if run.Quick() {
			ev = []byte{0x00, 0x01, 0x7f, 0x80, 0xff}
		}
		enum.Extensions(s.sig.SigData, ev, func(mu enum.Mut) { sigMut(s, "sig-ext", mu) })
	})
	run.Cov["signatures_mutated"] = len(heavy)

	// ---- embedded pub_key of the signature object -------------------------
	// Validate must reject exactly the embedded keys a hand-written protobuf
	// + length reference parser rejects (given valid hash type and non-empty
	// signature).
	pkCase := func(base, group string, s *peer.Signature, mu enum.Mut) {
		x := s.CloneVT()
		x.PubKey = mu.Data
		desc := base + "/" + mu.Desc
		got, pn := validate(group, desc, x)
		if pn {
			acc.Case(group, desc, true, "panic")
			return
		}
		if len(mu.Data) == 0 {
			// empty field means "no key embedded": must be accepted
			acc.Case(group, desc, true, cls(got)+"(no-key)")
			if !got {
				run.Violation("validate-rejects-wellformed/"+group, "Signature.Validate rejected an object without embedded key: "+desc, desc)
			}
			return
		}
		rk, rerr := ref.PubKeyFromProto(mu.Data)
		if rerr == ref.ErrUndecided {
			acc.Case(group, desc, true, cls(got)+"(reference-undecided)")
			return
		}
		want := rerr == nil
		acc.Case(group, desc, true, cls(got))
		if got && !want {
			run.Violation("validate-accepts-unparsable-key/"+group, fmt.Sprintf("Signature.Validate accepted an embedded pub_key the reference parser rejects (%v): %s", rerr, desc), desc)
		}
		if !got && want {
			run.Violation("validate-rejects-wellformed/"+group, "Signature.Validate rejected a well-formed embedded Ed25519 pub_key: "+desc, desc)
		}
		if got && want {
			var pk crypto.PubKey
			var err error
			if p := enum.Try(func() { pk, err = x.ParsePubKey() }); p != nil {
				run.Violation("panic/parse-pubkey/"+group, fmt.Sprintf("ParsePubKey panicked: %v", p), desc)
				return
			}
			if err != nil || pk == nil {
				run.Violation("parse-pubkey-inconsistent/"+group, "Validate accepted but ParsePubKey returned no key: "+desc, desc)
				return
			}
			raw, _ := pk.Raw()
			if !bytes.Equal(raw, rk) {
				run.Violation("parse-pubkey-wrong-key/"+group, "ParsePubKey returned a key different from the embedded bytes: "+desc, desc)
			}
		}
	}
	nk := len(keys)
	for ki := 0; ki < nk; ki++ {
		s := sigs[0].sig
		for _, c := range sigs {
			if c.ki == ki && c.incl {
				s = c.sig
				break
			}
		}
		base := fmt.Sprintf("k%d", ki)
		valid := append([]byte{0x08, 0x01, 0x12, 0x20}, stdPub(ki)...)
		// the key NewSignature embedded must be accepted and be the signer's
		pkCase(base, "pubkey-honest", s, enum.Mut{Desc: "as-created", Data: s.GetPubKey()})
		pkCase(base, "pubkey-honest", s, enum.Mut{Desc: "reference-encoding", Data: valid})
		enum.ByteSubst(valid, nil, func(mu enum.Mut) { pkCase(base, "pubkey-subst", s, mu) })
		enum.Truncations(valid, func(mu enum.Mut) { pkCase(base, "pubkey-trunc", s, mu) })
		enum.Extensions(valid, nil, func(mu enum.Mut) { pkCase(base, "pubkey-ext", s, mu) })
		for _, kt := range []byte{0, 2, 3, 4, 0x7f} {
			pkCase(base, "pubkey-type", s, enum.Mut{Desc: fmt.Sprintf("key-type=%d", kt), Data: append([]byte{0x08, kt, 0x12, 0x20}, stdPub(ki)...)})
		}
		pkCase(base, "pubkey-type", s, enum.Mut{Desc: "key-type-absent", Data: append([]byte{0x12, 0x20}, stdPub(ki)...)})
		for _, n := range []int{0, 1, 31, 33, 64} {
			d := bytes.Repeat([]byte{0x5a}, n)
			copy(d, stdPub(ki))
			pkCase(base, "pubkey-len", s, enum.Mut{Desc: fmt.Sprintf("data-len=%d", n), Data: append([]byte{0x08, 0x01, 0x12, byte(n)}, d...)})
		}
		pkCase(base, "pubkey-len", s, enum.Mut{Desc: "data-absent", Data: []byte{0x08, 0x01}})
		// field order swapped, unknown trailing field: still a well-formed key message
		pkCase(base, "pubkey-form", s, enum.Mut{Desc: "fields-swapped", Data: append(append([]byte{0x12, 0x20}, stdPub(ki)...), 0x08, 0x01)})
		pkCase(base, "pubkey-form", s, enum.Mut{Desc: "unknown-field-3", Data: append(append([]byte{}, valid...), 0x18, 0x05)})
	}

	// ---- embedded key and verification ------------------------------------
	// A signature carrying someone else's key must still be judged against the
	// key the verifier supplies (recorded as part of the product above through
	// incl=true); here the embedded key is replaced by the verifier's own key.
	for _, s := range sigs {
		if !s.incl || s.ci != 1 || s.di != 1 {
			continue
		}
		for kv := range keys {
			if kv == s.ki {
				continue
			}
			x := s.sig.CloneVT()
			x.PubKey = append([]byte{0x08, 0x01, 0x12, 0x20}, stdPub(kv)...)
			desc := fmt.Sprintf("sign(k%d,h%d)/embedded=k%d/verify(k%d)", s.ki, hts[s.hi], kv, kv)
			got, pn := verify("embedded-swap", desc, x, ctxs[s.ci], keys[kv].Pub, datas[s.di])
			if pn {
				continue
			}
			acc.Case("embedded-swap", desc, true, cls(got))
			if got {
				run.Violation("verifies-with-other-key", "VerifyWithPublic accepted a signature under a key that did not create it: "+desc, desc)
			}
		}
	}

	// ---- recorded only: pre-hashed entry point with a digest of the wrong length
	// (the property speaks about signatures over data; NewSignatureWithHashedData
	// trusts its caller to pass H(data)). A crafted 31-byte "digest" makes a
	// signature under ("a", SHA256) that verifies under ("a - SIGN - 1", SHA1).
	{
		data := datas[1]
		d2, _ := ref.Digest(2, data)
		crafted := append([]byte("2 - SIGN - "), d2...)
		var s *peer.Signature
		var err error
		p := enum.Try(func() {
			s, err = peer.NewSignatureWithHashedData("a", keys[0].Priv, hash.HashType_HashType_SHA256, crafted, false)
		})
		out := "sign-refused"
		if p != nil {
			out = "panic"
			run.Violation("panic/sign-hashed", fmt.Sprintf("NewSignatureWithHashedData panicked on a %d-byte digest: %v", len(crafted), p), "crafted-digest")
		} else if err == nil && s != nil {
			x := s.CloneVT()
			x.HashType = hash.HashType_HashType_SHA1
			got, _ := verify("prehashed-wrong-length", "crafted", x, "a - SIGN - 1", keys[0].Pub, data)
			out = "verifies-under-other-context=" + fmt.Sprint(got)
		}
		acc.Case("prehashed-wrong-length(recorded)", "crafted-31-byte-digest", true, out)
		run.Cov["prehashed_wrong_length_digest"] = out
	}

	acc.Sample(map[string]any{"group": "product", "example": "sign(k0,c1,h1,d1)/verify(k0,c2,h1,d1): context differs by one trailing space, must be rejected"})
	acc.Sample(map[string]any{"group": "pubkey-subst", "example": "k0/subst[3]=21: embedded key length byte 0x21 with 32 bytes following, must fail Validate"})
	acc.Finish()
	run.Cov["honest_signatures"] = len(sigs)
	run.Cov["alphabet"] = map[string]any{"keys": len(keys), "contexts": ctxs, "hash_types": []int{1, 2, 3}, "data_lens": []int{0, 1, 320}, "bad_hash_types": badHT}
	run.Assumptions = append(run.Assumptions,
		"crypto/ed25519 and the hand-written protobuf key parser in harness/ref are correct",
		"Signature.Validate accepting hash type 0 is recorded, not judged (VerifyWithPublic rejects it)",
		"signature byte strings outside the deviation-1 ball around honest signatures, and keys/contexts/data outside the fixture alphabet, are not covered")
	run.Finish(t)
}
