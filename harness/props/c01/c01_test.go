package c01

import (
	"bytes"
	"crypto/ed25519"
	"fmt"
	"strings"
	"sync/atomic"
	"testing"

	"github.com/aperturerobotics/bifrost/hash"
	"github.com/aperturerobotics/bifrost/peer"
	"github.com/mr-tron/base58/base58"

	"verifh/enum"
	"verifh/evid"
	"verifh/ref"
)

// refAccept is the independent verifier: accept iff the body is non-empty,
// the claimed sender decodes to an Ed25519 key, the hash type is supported,
// the signature object is well formed and the signature verifies over
// ctx ‖ " - SIGN - " ‖ itoa(ht) ‖ " - SIGN - " ‖ H(data).
func refAccept(m *peer.SignedMsg, ctx string) (ok bool, key ed25519.PublicKey, id []byte, undecided bool) {
	if len(m.GetData()) == 0 || len(m.GetFromPeerId()) == 0 {
		return false, nil, nil, false
	}
	sig := m.GetSignature()
	ht := int32(sig.GetHashType())
	if ht < 1 || ht > 3 || len(sig.GetSigData()) == 0 {
		return false, nil, nil, false
	}
	if pk := sig.GetPubKey(); len(pk) != 0 {
		if _, err := ref.PubKeyFromProto(pk); err != nil {
			return false, nil, nil, err == ref.ErrUndecided
		}
	}
	key, id, err := ref.PubKeyFromB58ID(m.GetFromPeerId())
	if err != nil {
		return false, nil, nil, err == ref.ErrUndecided
	}
	return ref.VerifySig(key, ctx, ht, m.GetData(), sig.GetSigData()), key, id, false
}

type tcase struct {
	group, desc string
	msg         *peer.SignedMsg
	ctx         string
	honest      bool
}

func TestC01(t *testing.T) {
	run := evid.Start("C01", "exploration")
	acc := enum.NewAcc(run, "deviation-bounded mutation (0,1,2 field deviations; every bit flip / byte substitution / truncation at field and wire level) of honest signed messages over 3 keys x 3 bodies x 10 contexts (5 of them 110..282 bytes long) x 3 hash types; a case is non-trivial if it is not one of the unmodified honest messages verified under its own context; distinct by (group, description)")
	keys := enum.Keys(3)
	bodies := [][]byte{{0x42}, bytes.Repeat([]byte{0xa5}, 32), bytes.Repeat([]byte("bifrost!"), 40)}
	ctxs := []string{"", "ctx-a", "ctx-a ", "ctx-b", "x - SIGN - 1"}
	// long contexts (lengths around 128 / 256 bytes; two that differ only after
	// a common prefix of 280 bytes): see C02
	longP := strings.Repeat("p", 280)
	ctxs = append(ctxs, strings.Repeat("c", 110), strings.Repeat("c", 120), strings.Repeat("d", 250), longP+"-a", longP+"-b")
	hts := []hash.HashType{hash.HashType_HashType_SHA256, hash.HashType_HashType_SHA1, hash.HashType_HashType_BLAKE3}

	check := func(c tcase) {
		var gotKey interface{ Raw() ([]byte, error) }
		var gotID peer.ID
		var err error
		p := enum.Try(func() {
			k, id, e := c.msg.ExtractAndVerify(c.ctx)
			gotID, err = id, e
			if k != nil {
				gotKey = k
			}
		})
		key := c.group + "/" + c.desc
		if p != nil {
			acc.Case(c.group, key, !c.honest, "panic")
			run.Violation("panic/"+c.group, fmt.Sprintf("ExtractAndVerify panicked on %s: %v", key, p), key)
			return
		}
		want, rkey, rid, undecided := refAccept(c.msg, c.ctx)
		got := err == nil
		out := "reject"
		if got {
			out = "accept"
		}
		acc.Case(c.group, key, !c.honest, out)
		if undecided {
			return
		}
		switch {
		case got && !want:
			run.Violation("accepts-unauthentic/"+c.group, fmt.Sprintf("ExtractAndVerify(%q) returned nil error for %s although the signature does not verify for the claimed sender / context / body", c.ctx, key), key)
		case !got && want:
			run.Violation("rejects-authentic/"+c.group, fmt.Sprintf("ExtractAndVerify(%q) rejected an authentic message %s: %v", c.ctx, key, err), key)
		case got && want:
			raw, _ := gotKey.Raw()
			if !bytes.Equal(raw, rkey) || !bytes.Equal([]byte(gotID), rid) {
				run.Violation("wrong-identity/"+c.group, fmt.Sprintf("accepted %s but returned key/ID differ from the claimed sender", key), key)
			}
		}
	}

	clone := func(m *peer.SignedMsg) *peer.SignedMsg { return m.CloneVT() }
	var nHonestA atomic.Int64
	type combo struct {
		ki, bi, ci int
		ht         hash.HashType
	}
	var combos []combo
	for ki := range keys {
		for bi := range bodies {
			for ci := range ctxs {
				for _, ht := range hts {
					combos = append(combos, combo{ki, bi, ci, ht})
				}
			}
		}
	}
	enum.Par(len(combos), 16, func(n int) {
		{
			{
				{
					ki, bi, ci, ht := combos[n].ki, combos[n].bi, combos[n].ci, combos[n].ht
					k, body, ctx := keys[ki], bodies[bi], ctxs[ci]
					{
						m, err := peer.NewSignedMsg(ctx, k.Priv, ht, body)
						if err != nil {
							evid.Fatal("NewSignedMsg: %v", err)
						}
						base := fmt.Sprintf("k%d/b%d/c%d/h%d", ki, bi, ci, ht)
						check(tcase{"honest", base, m, ctx, true})
						if nHonestA.Add(1) == 1 {
							acc.Sample(map[string]any{"group": "honest", "from": m.GetFromPeerId(), "ctx": ctx, "hash_type": int(ht), "body_len": len(body)})
						}
						// verifier context deviations
						for cj, c2 := range ctxs {
							if cj != ci {
								check(tcase{"ctx", fmt.Sprintf("%s/verify-ctx%d", base, cj), m, c2, false})
							}
						}
						// sender replaced by another key's ID
						for kj, k2 := range keys {
							if kj != ki {
								x := clone(m)
								x.FromPeerId = k2.ID.String()
								check(tcase{"sender", fmt.Sprintf("%s/sender=k%d", base, kj), x, ctx, false})
								// third key signs, claims k
								y, _ := peer.NewSignedMsg(ctx, k2.Priv, ht, body)
								y.FromPeerId = k.ID.String()
								check(tcase{"foreign-sig", fmt.Sprintf("%s/signed-by=k%d", base, kj), y, ctx, false})
							}
						}
						// same key, other body / hash type signature transplanted
						for bj, b2 := range bodies {
							if bj != bi {
								y, _ := peer.NewSignedMsg(ctx, k.Priv, ht, b2)
								x := clone(m)
								x.Signature = y.Signature
								check(tcase{"sig-other-body", fmt.Sprintf("%s/sig-of-b%d", base, bj), x, ctx, false})
							}
						}
						for _, h2 := range []int32{0, 1, 2, 3, 4, -1, 1<<31 - 1} {
							if h2 != int32(ht) {
								x := clone(m)
								x.Signature.HashType = hash.HashType(h2)
								check(tcase{"hash-type", fmt.Sprintf("%s/ht=%d", base, h2), x, ctx, false})
							}
						}
						// emptied fields
						for _, f := range []string{"data", "from", "sig", "sigdata"} {
							x := clone(m)
							switch f {
							case "data":
								x.Data = nil
							case "from":
								x.FromPeerId = ""
							case "sig":
								x.Signature = nil
							case "sigdata":
								x.Signature.SigData = nil
							}
							check(tcase{"empty", base + "/empty-" + f, x, ctx, false})
						}
						// the expensive menus only on a sub-grid in quick tier
						heavy := !run.Quick() || (bi <= 1 && (ci <= 1 || ci == 4)) || (ki == 0 && bi == 2 && ci == 0 && ht == hash.HashType_HashType_BLAKE3)
						if !heavy {
							return
						}
						enum.BitFlips(m.Signature.SigData, func(mu enum.Mut) {
							x := clone(m)
							x.Signature.SigData = mu.Data
							check(tcase{"sig-bitflip", base + "/" + mu.Desc, x, ctx, false})
						})
						enum.BitFlips(body, func(mu enum.Mut) {
							x := clone(m)
							x.Data = mu.Data
							check(tcase{"body-bitflip", base + "/" + mu.Desc, x, ctx, false})
						})
						enum.Truncations(m.Signature.SigData, func(mu enum.Mut) {
							x := clone(m)
							x.Signature.SigData = mu.Data
							check(tcase{"sig-trunc", base + "/" + mu.Desc, x, ctx, false})
						})
						enum.Extensions(m.Signature.SigData, []byte{0, 1, 0xff}, func(mu enum.Mut) {
							x := clone(m)
							x.Signature.SigData = mu.Data
							check(tcase{"sig-ext", base + "/" + mu.Desc, x, ctx, false})
						})
						idb, _ := base58.Decode(m.FromPeerId)
						vals := []byte{0x00, 0x01, 0x08, 0x12, 0x20, 0x24, 0x7f, 0x80, 0xff}
						if !run.Quick() {
							vals = nil
						}
						enum.ByteSubst(idb, vals, func(mu enum.Mut) {
							x := clone(m)
							x.FromPeerId = base58.Encode(mu.Data)
							check(tcase{"sender-byte", base + "/" + mu.Desc, x, ctx, false})
						})
						enum.ByteSubst([]byte(m.FromPeerId), []byte("0OIl1zZ "), func(mu enum.Mut) {
							x := clone(m)
							x.FromPeerId = string(mu.Data)
							check(tcase{"sender-text", base + "/" + mu.Desc, x, ctx, false})
						})
						// embedded pub_key field of the signature object
						for kj, k2 := range keys {
							pkb := append([]byte{0x08, 0x01, 0x12, 0x20}, k2.Std.Public().(ed25519.PublicKey)...)
							x := clone(m)
							x.Signature.PubKey = pkb
							check(tcase{"sig-pubkey", fmt.Sprintf("%s/pubkey=k%d", base, kj), x, ctx, false})
							enum.Truncations(pkb, func(mu enum.Mut) {
								if len(mu.Data) == 0 {
									return
								}
								z := clone(m)
								z.Signature.PubKey = mu.Data
								check(tcase{"sig-pubkey", fmt.Sprintf("%s/pubkey=k%d-%s", base, kj, mu.Desc), z, ctx, false})
							})
						}
						// deviation 2: pairs from the field menu
						type fm struct {
							name string
							f    func(x *peer.SignedMsg)
						}
						k2 := keys[(ki+1)%len(keys)]
						other, _ := peer.NewSignedMsg(ctx, k2.Priv, ht, body)
						menu := []fm{
							{"sender=k'", func(x *peer.SignedMsg) { x.FromPeerId = k2.ID.String() }},
							{"sig=k'", func(x *peer.SignedMsg) { x.Signature = other.Signature.CloneVT() }},
							{"body^1", func(x *peer.SignedMsg) { x.Data = append([]byte{}, x.Data...); x.Data[0] ^= 1 }},
							{"ht+1", func(x *peer.SignedMsg) { x.Signature.HashType = x.Signature.HashType%3 + 1 }},
							{"sig^1", func(x *peer.SignedMsg) {
								x.Signature.SigData = append([]byte{}, x.Signature.SigData...)
								x.Signature.SigData[0] ^= 1
							}},
						}
						for i := range menu {
							for j := range menu {
								if i == j {
									continue
								}
								x := clone(m)
								menu[i].f(x)
								menu[j].f(x)
								// sender=k' followed by sig=k' is an honest message from k'
								check(tcase{"pair", fmt.Sprintf("%s/%s+%s", base, menu[i].name, menu[j].name), x, ctx, false})
							}
						}
						// wire level
						wire, _ := m.MarshalVT()
						wcheck := func(mu enum.Mut) {
							x := &peer.SignedMsg{}
							var uerr error
							if p := enum.Try(func() { uerr = x.UnmarshalVT(mu.Data) }); p != nil {
								run.Violation("panic/wire-unmarshal", fmt.Sprintf("UnmarshalVT panicked: %v", p), fmt.Sprintf("%s/%s", base, mu.Desc))
								return
							}
							if uerr != nil {
								acc.Case("wire", base+"/"+mu.Desc, true, "undecodable")
								return
							}
							check(tcase{"wire", base + "/" + mu.Desc, x, ctx, false})
						}
						wvals := []byte{0x00, 0x01, 0x0a, 0x12, 0x7f, 0x80, 0xff}
						if !run.Quick() {
							wvals = nil
						}
						if bi != 2 || !run.Quick() {
							enum.ByteSubst(wire, wvals, wcheck)
							enum.Truncations(wire, wcheck)
							enum.Extensions(wire, wvals, wcheck)
						}
					}
				}
			}
		}
	})
	nHonest := int(nHonestA.Load())
	acc.Sample(map[string]any{"group": "sig-bitflip", "example": "k0/b0/c0/h3/flip[0.0]: signature byte 0 bit 0 flipped, all else honest"})
	acc.Finish()
	run.Cov["honest_messages"] = nHonest
	run.Assumptions = append(run.Assumptions, "reference verifier (ref.VerifySig, hand-written multihash/protobuf parse, crypto/ed25519) is correct", "inputs outside the enumerated deviation ball are not covered")
	run.Finish(t)
}
