package c14

import (
	"bytes"
	"crypto/ed25519"
	"encoding/hex"
	"fmt"
	"math/big"
	"sort"
	"testing"

	"filippo.io/edwards25519"
	"github.com/aperturerobotics/bifrost/util/extra25519"
	"golang.org/x/crypto/curve25519"

	"verifh/enum"
	"verifh/evid"
)

// ---------------------------------------------------------------------------
// Reference 1: the curve in math/big (affine twisted Edwards, a = -1).
// Decoding is the permissive one used across the ecosystem: the top bit is the
// sign of x, the remaining 255 bits are y reduced mod p (so y >= p is a
// non-canonical encoding of y-p), and x = 0 is accepted with either sign bit.
// ---------------------------------------------------------------------------

var (
	one  = big.NewInt(1)
	fp   = new(big.Int).Sub(new(big.Int).Lsh(one, 255), big.NewInt(19))
	edD  = fmul(fneg(big.NewInt(121665)), finv(big.NewInt(121666)))
	ordL = func() *big.Int {
		l, _ := new(big.Int).SetString("27742317777372353535851937790883648493", 10)
		return l.Add(l, new(big.Int).Lsh(one, 252))
	}()
)

func fmod(a *big.Int) *big.Int    { return a.Mod(a, fp) }
func fadd(a, b *big.Int) *big.Int { return fmod(new(big.Int).Add(a, b)) }
func fsub(a, b *big.Int) *big.Int { return fmod(new(big.Int).Sub(a, b)) }
func fmul(a, b *big.Int) *big.Int { return fmod(new(big.Int).Mul(a, b)) }
func fneg(a *big.Int) *big.Int    { return fmod(new(big.Int).Neg(a)) }
func finv(a *big.Int) *big.Int    { return new(big.Int).ModInverse(a, fp) }

type decoded struct {
	ok           bool // the 255-bit y (mod p) is the y of a curve point
	nonCanonical bool // y >= p
	x, y         *big.Int
}

func refDecode(s []byte) decoded {
	le := make([]byte, 32)
	for i := range le {
		le[i] = s[31-i]
	}
	sign := le[0] >> 7
	le[0] &= 0x7f
	y := new(big.Int).SetBytes(le)
	d := decoded{nonCanonical: y.Cmp(fp) >= 0}
	y = fmod(y)
	yy := fmul(y, y)
	u := fsub(yy, one)
	v := fadd(fmul(edD, yy), one) // never 0: -1/d is not a square
	xx := fmul(u, finv(v))
	var x *big.Int
	if xx.Sign() == 0 {
		x = new(big.Int)
	} else if x = new(big.Int).ModSqrt(xx, fp); x == nil {
		return d
	}
	if x.Bit(0) != uint(sign) && x.Sign() != 0 {
		x = fneg(x)
	}
	d.ok, d.x, d.y = true, x, y
	return d
}

// refAdd is the complete affine addition law on -x^2 + y^2 = 1 + d x^2 y^2.
func refAdd(x1, y1, x2, y2 *big.Int) (*big.Int, *big.Int) {
	t := fmul(edD, fmul(fmul(x1, x2), fmul(y1, y2)))
	x3 := fmul(fadd(fmul(x1, y2), fmul(x2, y1)), finv(fadd(one, t)))
	y3 := fmul(fadd(fmul(y1, y2), fmul(x1, x2)), finv(fsub(one, t)))
	return x3, y3
}

// refSmallOrder: [8]P is the identity (0, 1).
func refSmallOrder(d decoded) bool {
	x, y := d.x, d.y
	for i := 0; i < 3; i++ {
		x, y = refAdd(x, y, x, y)
	}
	return x.Sign() == 0 && y.Cmp(one) == 0
}

// ---------------------------------------------------------------------------
// Reference 2: the torsion subgroup computed with filippo.io/edwards25519:
// [L]P for decodable P lands in E[8]; a T with [4]T != 0 generates it.
// ---------------------------------------------------------------------------

func mulBig(k *big.Int, p *edwards25519.Point) *edwards25519.Point {
	r := edwards25519.NewIdentityPoint()
	for i := k.BitLen() - 1; i >= 0; i-- {
		r = new(edwards25519.Point).Add(r, r)
		if k.Bit(i) == 1 {
			r = new(edwards25519.Point).Add(r, p)
		}
	}
	return r
}

func torsionEncodings() [][]byte {
	id := edwards25519.NewIdentityPoint()
	var gen *edwards25519.Point
	for y := 2; y < 256 && gen == nil; y++ {
		enc := make([]byte, 32)
		enc[0] = byte(y)
		p, err := new(edwards25519.Point).SetBytes(enc)
		if err != nil {
			continue
		}
		t := mulBig(ordL, p)
		if mulBig(big.NewInt(4), t).Equal(id) != 1 {
			gen = t
		}
	}
	if gen == nil {
		evid.Fatal("C14: no order-8 generator found")
	}
	if mulBig(big.NewInt(8), gen).Equal(id) != 1 {
		evid.Fatal("C14: [8]T is not the identity")
	}
	var out [][]byte
	for i := 0; i < 8; i++ {
		out = append(out, mulBig(big.NewInt(int64(i)), gen).Bytes())
	}
	return out
}

// baseSet returns every 32-byte string that encodes a small-order point when
// the sign bit is ignored: the 8 canonical encodings, their y+p forms where
// that still fits in 255 bits, each with the sign bit both ways.
func baseSet() [][]byte {
	set := map[string][]byte{}
	for _, enc := range torsionEncodings() {
		forms := [][]byte{enc}
		le := make([]byte, 32)
		for i := range le {
			le[i] = enc[31-i]
		}
		le[0] &= 0x7f
		y := new(big.Int).SetBytes(le)
		if yp := new(big.Int).Add(y, fp); yp.BitLen() <= 255 {
			b := yp.FillBytes(make([]byte, 32))
			nc := make([]byte, 32)
			for i := range nc {
				nc[i] = b[31-i]
			}
			forms = append(forms, nc)
		}
		for _, f := range forms {
			for _, sign := range []byte{0, 0x80} {
				c := append([]byte{}, f...)
				c[31] = c[31]&0x7f | sign
				set[string(c)] = c
			}
		}
	}
	var out [][]byte
	for _, v := range set {
		out = append(out, v)
	}
	sort.Slice(out, func(i, j int) bool { return bytes.Compare(out[i], out[j]) < 0 })
	return out
}

func TestC14(t *testing.T) {
	run := evid.Start("C14", "exploration")
	acc := enum.NewAcc(run, "32-byte strings: the independently derived encodings of the 8 small-order points (canonical and y+p, both sign bits); every string at Hamming distance 1 and 2 from each of them (quick: from the 7 sign-bit-0 forms; thorough: from all 14 forms, plus distance 3 from 4 sign-bit-0 forms, one per point order); all 65 536 strings that are 00 except first and last byte, and all 65 536 that are ff except first and last byte; honest fixture public keys; plus all ordered pairs of fixture key pairs for the shared secret. Non-trivial = every case except the honest keys and the self-pairs; distinct by the 32-byte string (or the key pair)")

	base := baseSet()
	inBase := map[string]bool{}
	for _, b := range base {
		inBase[string(b)] = true
	}
	run.Cov["small_order_encodings"] = len(base)
	if len(base) != 14 {
		evid.Fatal("C14: derived %d small-order encodings, expected 14 (8 points: 7 distinct y strings incl. p and p+1, two sign bits)", len(base))
	}

	// classify runs both real functions on s and compares with the references.
	classify := func(group string, s []byte, nontrivial bool) {
		caseKey := hex.EncodeToString(s)
		var low, ok bool
		var mont []byte
		if p := enum.Try(func() { low = extra25519.IsEdLowOrder(append([]byte{}, s...)) }); p != nil {
			acc.Case(group, caseKey, nontrivial, "panic")
			run.Violation("panic/IsEdLowOrder", fmt.Sprintf("IsEdLowOrder panicked on %s: %v", caseKey, p), caseKey)
			return
		}
		if p := enum.Try(func() { mont, ok = extra25519.PublicKeyToCurve25519(append([]byte{}, s...)) }); p != nil {
			acc.Case(group, caseKey, nontrivial, "panic")
			run.Violation("panic/PublicKeyToCurve25519", fmt.Sprintf("PublicKeyToCurve25519 panicked on %s: %v", caseKey, p), caseKey)
			return
		}
		d := refDecode(s)
		refLow := d.ok && refSmallOrder(d)
		if refLow != inBase[caseKeyRaw(s)] {
			evid.Fatal("C14: the two references disagree on %s: big-int says small-order=%v, torsion list says %v", caseKey, refLow, inBase[caseKeyRaw(s)])
		}
		cls := "point"
		switch {
		case refLow:
			cls = "small-order"
		case !d.ok:
			cls = "not-a-point"
		case d.nonCanonical:
			cls = "non-canonical-point"
		}
		res := "converted"
		if !ok {
			res = "refused"
		}
		acc.Case(group, caseKey, nontrivial, cls+" -> "+res)
		rp := map[string]any{"bytes": caseKey, "reference_class": cls, "IsEdLowOrder": low, "converted": ok}
		if low != refLow {
			if refLow {
				run.Violation("low-order-missed", fmt.Sprintf("IsEdLowOrder(%s) = false but the string encodes a small-order point (ignoring the sign bit)", caseKey), rp)
			} else {
				run.Violation("low-order-overmatch", fmt.Sprintf("IsEdLowOrder(%s) = true but the string is not an encoding of a small-order point (%s)", caseKey, cls), rp)
			}
		}
		switch cls {
		case "small-order", "not-a-point":
			if ok {
				run.Violation("converts-"+cls, fmt.Sprintf("PublicKeyToCurve25519(%s) converted a string classified %q instead of refusing it", caseKey, cls), rp)
			}
		case "point":
			if !ok {
				run.Violation("refuses-valid-point", fmt.Sprintf("PublicKeyToCurve25519(%s) refused a canonical encoding of a curve point that is not of small order", caseKey), rp)
			} else if len(mont) != 32 {
				run.Violation("bad-length", fmt.Sprintf("PublicKeyToCurve25519(%s) returned %d bytes", caseKey, len(mont)), rp)
			}
			// "non-canonical-point" (y >= p, not small order): whether that is a
			// "curve point" depends on the decoding convention; not judged.
		}
	}

	// --- the derived encodings themselves ---
	for _, b := range base {
		classify("small-order-encodings", b, true)
		acc.Sample(map[string]any{"group": "small-order-encodings", "bytes": hex.EncodeToString(b)})
	}

	// --- Hamming distance 1 and 2 ---
	var centres [][]byte
	for _, b := range base {
		if !run.Quick() || b[31]&0x80 == 0 {
			centres = append(centres, b)
		}
	}
	run.Cov["hamming_centres"] = len(centres)
	for _, c := range centres {
		enum.Par(256, 16, func(i int) {
			s := append([]byte{}, c...)
			s[i/8] ^= 1 << uint(i%8)
			classify("hamming-1", s, true)
			for j := i + 1; j < 256; j++ {
				s2 := append([]byte{}, s...)
				s2[j/8] ^= 1 << uint(j%8)
				classify("hamming-2", s2, true)
			}
		})
		if run.Expired() {
			acc.Capped()
			break
		}
	}
	// thorough only: Hamming distance 3 from four of the sign-bit-0 forms
	h3centres := 0
	if !run.Quick() {
		// one centre of each order: 00.. (order 4), 01.. (order 1), 26e8.. (order 8), ecff..7f (order 2)
		for _, c := range base {
			if c[31]&0x80 != 0 || !(c[0] == 0x00 || c[0] == 0x01 || c[0] == 0x26 || c[0] == 0xec) {
				continue
			}
			h3centres++
			enum.Par(256, 16, func(i int) {
				for j := i + 1; j < 256; j++ {
					if run.Expired() {
						acc.Capped()
						return
					}
					for k := j + 1; k < 256; k++ {
						s := append([]byte{}, c...)
						s[i/8] ^= 1 << uint(i%8)
						s[j/8] ^= 1 << uint(j%8)
						s[k/8] ^= 1 << uint(k%8)
						classify("hamming-3", s, true)
					}
				}
			})
		}
	}
	run.Cov["hamming3_centres"] = h3centres
	{
		s := append([]byte{}, base[0]...)
		s[0] ^= 1
		s[31] ^= 0x40
		acc.Sample(map[string]any{"group": "hamming-2", "bytes": hex.EncodeToString(s), "centre": hex.EncodeToString(base[0])})
	}

	// --- two free bytes (first, last) over a constant body ---
	for _, fill := range []byte{0x00, 0xff} {
		g := fmt.Sprintf("first-last-bytes-over-%02x", fill)
		enum.Par(256, 16, func(a int) {
			for b := 0; b < 256; b++ {
				s := bytes.Repeat([]byte{fill}, 32)
				s[0], s[31] = byte(a), byte(b)
				classify(g, s, true)
			}
		})
	}
	acc.Sample(map[string]any{"group": "first-last-bytes-over-ff", "bytes": "ef" + hex.EncodeToString(bytes.Repeat([]byte{0xff}, 30)) + "7f", "note": "y = p+2, a non-canonical encoding"})

	// --- honest keys ---
	nk := 64
	if !run.Quick() {
		nk = 256
	}
	keys := enum.Keys(nk)
	for _, k := range keys {
		classify("honest-keys", []byte(k.Std.Public().(ed25519.PublicKey)), false)
	}

	// --- shared-secret symmetry ---
	nd := 8
	if !run.Quick() {
		nd = 24
	}
	type conv struct{ priv, pub []byte }
	cv := make([]conv, nd)
	for i := 0; i < nd; i++ {
		k := keys[i]
		pub, ok := extra25519.PublicKeyToCurve25519(k.Std.Public().(ed25519.PublicKey))
		if !ok {
			continue // already reported by classify above
		}
		cv[i] = conv{extra25519.PrivateKeyToCurve25519(k.Std)[:32], pub}
	}
	for a := 0; a < nd; a++ {
		for b := 0; b < nd; b++ {
			if cv[a].pub == nil || cv[b].pub == nil {
				continue
			}
			caseKey := fmt.Sprintf("k%d->k%d", a, b)
			var sab, sba []byte
			var e1, e2 error
			if p := enum.Try(func() {
				sab, e1 = curve25519.X25519(cv[a].priv, cv[b].pub)
				sba, e2 = curve25519.X25519(cv[b].priv, cv[a].pub)
			}); p != nil || e1 != nil || e2 != nil {
				acc.Case("shared-secret", caseKey, a != b, "x25519-failed")
				run.Violation("shared-secret-fails", fmt.Sprintf("X25519 over converted keys failed for %s: panic=%v err=%v/%v", caseKey, p, e1, e2), caseKey)
				continue
			}
			if bytes.Equal(sab, sba) {
				acc.Case("shared-secret", caseKey, a != b, "equal")
			} else {
				acc.Case("shared-secret", caseKey, a != b, "different")
				run.Violation("shared-secret-asymmetric", fmt.Sprintf("X25519(conv(priv %d), conv(pub %d)) = %x.. but X25519(conv(priv %d), conv(pub %d)) = %x..", a, b, sab[:8], b, a, sba[:8]), caseKey)
			}
		}
	}
	acc.Sample(map[string]any{"group": "shared-secret", "case": "k0->k1", "pub_a": hex.EncodeToString(keys[0].Std.Public().(ed25519.PublicKey)), "pub_b": hex.EncodeToString(keys[1].Std.Public().(ed25519.PublicKey))})

	acc.Finish()
	run.Cov["alphabet"] = "14 derived small-order encodings; single and double bit flips; two free bytes over 00.. and ff.. bodies; fixture keys"
	run.Cov["bound"] = "Hamming distance <= 2 (thorough: <= 3) around the small-order encodings plus two 2^16 structured families; NOT all 2^256 strings"
	run.Assumptions = append(run.Assumptions,
		"the property's 'all 32-byte strings (proved symbolically)' clause is only decided on the enumerated neighbourhood; nothing is claimed outside it",
		"reference: math/big affine Edwards arithmetic with permissive decoding (y reduced mod p, x = 0 with either sign), cross-checked on every case against the torsion subgroup computed with filippo.io/edwards25519 as [L]P",
		"strings with y >= p that are not small-order (non-canonical encodings) are classified but the refusal clause is not judged on them, since 'is a curve point' depends on the decoding convention",
		"only 32-byte inputs are in scope (shorter inputs make IsEdLowOrder index out of range; no caller in the repo passes them)",
		"X25519 from golang.org/x/crypto/curve25519 is trusted")
	run.Finish(t)
}

func caseKeyRaw(s []byte) string { return string(s) }
