package c16

import (
	"bytes"
	"crypto/sha256"
	"encoding/binary"
	"fmt"
	"hash/fnv"
	"sort"
	"sync"
	"sync/atomic"
	"testing"
	"time"

	"github.com/aperturerobotics/bifrost/crypto"
	"github.com/aperturerobotics/bifrost/envelope"

	"verifh/enum"
	"verifh/evid"
	"verifh/ref"
)

// detReader is a deterministic byte stream (SHA-256 in counter mode). It only
// supplies the sealing randomness, which no oracle ever compares.
type detReader struct {
	seed [32]byte
	ctr  uint64
	buf  []byte
}

func newDetReader(s string) *detReader { return &detReader{seed: sha256.Sum256([]byte(s))} }

func (r *detReader) Read(p []byte) (int, error) {
	for i := range p {
		if len(r.buf) == 0 {
			var c [8]byte
			binary.LittleEndian.PutUint64(c[:], r.ctr)
			h := sha256.Sum256(append(r.seed[:], c[:]...))
			r.buf = h[:]
			r.ctr++
		}
		p[i] = r.buf[0]
		r.buf = r.buf[1:]
	}
	return len(p), nil
}

var (
	payloadMenu = [][]byte{{0x42}, bytes.Repeat([]byte{0xa5}, 32), bytes.Repeat([]byte("bifrost!"), 25)}
	ctxMenu     = []string{"", "ctx-a", "myapp/session v1", "5:ctx-a 1"}
)

func pbConfig(c ref.EnvConfig) *envelope.EnvelopeConfig {
	pc := &envelope.EnvelopeConfig{Threshold: c.Threshold, TotalShares: c.Total}
	for _, g := range c.Grants {
		pc.GrantConfigs = append(pc.GrantConfigs, &envelope.EnvelopeGrantConfig{
			ShareCount:     g.ShareCount,
			KeypairIndexes: append([]uint32(nil), g.Idx...),
		})
	}
	return pc
}

func eqU32(a, b []uint32) bool {
	if len(a) != len(b) {
		return false
	}
	for i := range a {
		if a[i] != b[i] {
			return false
		}
	}
	return true
}

func TestC16(t *testing.T) {
	run := evid.Start("C16", "exploration")
	t0 := time.Now()
	limit := 55 * time.Second
	if !run.Quick() {
		limit = 14 * time.Minute
	}
	expired := func() bool { return run.Expired() || time.Since(t0) > limit }

	acc := enum.NewAcc(run, "every sealing configuration in the bound (blocks listed under 'alphabet': recipient keys x grant lists x per-grant share count x key index list {every subset of the recipients, plus the duplicate list 0,0} x threshold 0-3 x total-share override {0,1,2,3,5} x recipient lists with distinct keys and with a key named more than once) is sealed by the real BuildEnvelope; every accepted one is unsealed with every subset of the recipients' private keys, with and without one unrelated key, and compared with a combinatorial share-distribution model; a case is one configuration or one (configuration, offered key set); all are distinct by construction; an unseal case is non-trivial when at least one key is offered; payload and context come from a fixed menu selected by a hash of the configuration")

	keys := enum.Keys(4) // k1..k3 recipients, k4 unrelated
	unrelated := keys[3]
	spaces := ref.EnvSpaces(run.Quick())
	layouts := ref.EnvLayoutsOf(spaces)
	shareCounts := []uint32{0, 1, 2}
	thresholds, totals := ref.EnvThresholds, ref.EnvTotals
	// a small family with an out-of-range key index (must be refused, never panic)
	nInRange := len(layouts)
	for nk := 1; nk <= 2; nk++ {
		for _, sc := range shareCounts {
			layouts = append(layouts,
				ref.EnvConfig{NKeys: nk, Grants: []ref.EnvGrant{{ShareCount: sc, Idx: []uint32{uint32(nk)}}}},
				ref.EnvConfig{NKeys: nk, Grants: []ref.EnvGrant{{ShareCount: sc, Idx: []uint32{0}}, {ShareCount: sc, Idx: []uint32{0, uint32(nk)}}}},
				ref.EnvConfig{NKeys: nk, Grants: []ref.EnvGrant{{ShareCount: sc, Idx: []uint32{1<<32 - 1}}}},
			)
		}
	}

	// violations are collected and reported after the parallel phase, each class
	// with its smallest (shortest, then lexicographically first) counterexample
	type vrec struct {
		what, replay string
		count        int
	}
	var vmu sync.Mutex
	viols := map[string]*vrec{}
	violate := func(key, what, replay string) {
		vmu.Lock()
		v := viols[key]
		if v == nil {
			v = &vrec{what: what, replay: replay}
			viols[key] = v
		} else if len(replay) < len(v.replay) || (len(replay) == len(v.replay) && replay < v.replay) {
			v.what, v.replay = what, replay
		}
		v.count++
		vmu.Unlock()
	}

	// aliases: which fixture key each recipient position holds (identity, and
	// recipient lists naming the same key more than once)
	aliases := func(n int) [][]int {
		switch n {
		case 2:
			return [][]int{{0, 1}, {0, 0}}
		case 3:
			return [][]int{{0, 1, 2}, {0, 1, 0}, {0, 0, 0}}
		}
		id := make([]int, n)
		for i := range id {
			id[i] = i
		}
		return [][]int{id}
	}
	one := func(c ref.EnvConfig, alias []int) {
		ck := c.Key()
		repeated := false
		for i, a := range alias {
			if a != i {
				repeated = true
			}
		}
		if repeated {
			ck += fmt.Sprintf("/recipient-keys=%v", alias)
		}
		h := fnv.New32a()
		h.Write([]byte(ck))
		hv := h.Sum32()
		payload := payloadMenu[hv%uint32(len(payloadMenu))]
		ctx := ctxMenu[(hv/7)%uint32(len(ctxMenu))]
		pubs := make([]crypto.PubKey, c.NKeys)
		for i := range pubs {
			if i < len(alias) {
				pubs[i] = keys[alias[i]].Pub
			} else {
				pubs[i] = keys[i].Pub
			}
		}
		var env *envelope.Envelope
		var berr error
		if p := enum.Try(func() { env, berr = envelope.BuildEnvelope(newDetReader(ck), ctx, payload, pubs, pbConfig(c)) }); p != nil {
			acc.Case("seal", ck, true, "panic")
			violate("panic/seal", fmt.Sprintf("BuildEnvelope panicked on configuration %s: %v", ck, p), ck)
			return
		}
		if !c.InRange() {
			if berr == nil {
				acc.Case("seal-out-of-range", ck, true, "accepted")
				violate("accepts-out-of-range-key-index", fmt.Sprintf("BuildEnvelope accepted %s although a key index does not name a recipient", ck), ck)
			} else {
				acc.Case("seal-out-of-range", ck, true, "rejected: "+berr.Error())
			}
			return
		}
		if berr != nil {
			acc.Case("seal", ck, true, "rejected: "+berr.Error())
			return
		}
		if c.Openable() {
			acc.Case("seal", ck, true, "accepted, openable by all recipients (model)")
		} else {
			acc.Case("seal", ck, true, "accepted, not openable by any key set (model)")
		}
		need := c.Threshold + 1
		for mask := uint(0); mask < 1<<uint(c.NKeys+1); mask++ {
			// mask selects fixture keys (identities); a position is reachable when
			// the key it holds is offered
			var privs []crypto.PrivKey
			skip := false
			var posMask uint
			for i := 0; i < c.NKeys; i++ {
				if mask&(1<<uint(i)) != 0 {
					held := false
					for _, a := range alias {
						if a == i {
							held = true
						}
					}
					if !held {
						skip = true // this key holds no recipient position under the alias
					}
					privs = append(privs, keys[i].Priv)
				}
			}
			if skip {
				continue
			}
			for pos, a := range alias {
				if mask&(1<<uint(a)) != 0 {
					posMask |= 1 << uint(pos)
				}
			}
			if mask&(1<<uint(c.NKeys)) != 0 {
				privs = append(privs, unrelated.Priv)
			}
			uk := fmt.Sprintf("%s/keys=%b", ck, mask)
			wantGrants, wantShares := c.Reach(posMask & c.AllKeys())
			wantOpen := wantShares >= int(need)
			var got []byte
			var res *envelope.EnvelopeUnlockResult
			var uerr error
			if p := enum.Try(func() { got, res, uerr = envelope.UnlockEnvelope(ctx, env, privs) }); p != nil {
				acc.Case("unseal", uk, mask != 0, "panic")
				violate("panic/unseal", fmt.Sprintf("UnlockEnvelope panicked on %s: %v", uk, p), uk)
				continue
			}
			if uerr != nil {
				acc.Case("unseal", uk, mask != 0, "error")
				violate("unseal-error", fmt.Sprintf("UnlockEnvelope returned error %q for an untouched sealed envelope %s (model: %d of %d shares reachable)", uerr, uk, wantShares, need), uk)
				continue
			}
			opened := res.GetSuccess()
			oc := fmt.Sprintf("not opened (have<need)")
			if opened {
				oc = "opened"
			}
			acc.Case("unseal", uk, mask != 0, oc)
			switch {
			case opened && !wantOpen:
				violate("opens-without-enough-shares", fmt.Sprintf("%s: unsealed although the offered keys reach only %d distinct shares and %d are needed", uk, wantShares, need), uk)
			case !opened && wantOpen:
				violate("fails-with-enough-shares", fmt.Sprintf("%s: not unsealed although the offered keys reach %d distinct shares and %d are needed (reported available=%d)", uk, wantShares, need, res.GetSharesAvailable()), uk)
			}
			if opened && !bytes.Equal(got, payload) {
				violate("wrong-payload", fmt.Sprintf("%s: unsealing returned %d bytes that differ from the sealed payload", uk, len(got)), uk)
			}
			if !opened && len(got) != 0 {
				violate("payload-without-success", fmt.Sprintf("%s: %d payload bytes returned although success=false", uk, len(got)), uk)
			}
			if int(res.GetSharesAvailable()) != wantShares {
				violate("report/shares-available", fmt.Sprintf("%s: shares_available=%d, the offered keys reach %d", uk, res.GetSharesAvailable(), wantShares), uk)
			}
			if res.GetSharesNeeded() != need {
				violate("report/shares-needed", fmt.Sprintf("%s: shares_needed=%d, want threshold+1=%d", uk, res.GetSharesNeeded(), need), uk)
			}
			if !eqU32(res.GetUnlockedGrantIndexes(), wantGrants) {
				violate("report/unlocked-grants", fmt.Sprintf("%s: unlocked_grant_indexes=%v, the offered keys can decrypt grants %v", uk, res.GetUnlockedGrantIndexes(), wantGrants), uk)
			}
		}
	}

	var done atomic.Int64
	enum.Par(len(layouts), 16, func(i int) {
		for _, th := range thresholds {
			for _, tot := range totals {
				if expired() {
					acc.Capped()
					return
				}
				c := layouts[i]
				c.Threshold, c.Total = th, tot
				als := aliases(c.NKeys)
				if !c.InRange() || (run.Quick() && tot != 0) {
					// quick tier: repeated recipient keys only without a total-share override
					als = als[:1]
				}
				for _, al := range als {
					one(c, al)
					done.Add(1)
				}
			}
		}
	})

	var vkeys []string
	for k := range viols {
		vkeys = append(vkeys, k)
	}
	sort.Strings(vkeys)
	for _, k := range vkeys {
		for i := 0; i < viols[k].count; i++ {
			run.Violation(k, viols[k].what, viols[k].replay)
		}
		acc.Sample(map[string]any{"violation": k, "smallest_counterexample": viols[k].replay, "cases": viols[k].count})
	}

	ex := ref.EnvConfig{NKeys: 2, Threshold: 1, Total: 0, Grants: []ref.EnvGrant{{ShareCount: 1, Idx: []uint32{0}}, {ShareCount: 2, Idx: []uint32{0, 1}}}}
	g, n := ex.Reach(2)
	acc.Sample(map[string]any{"config": ex.Key(), "meaning": "2 recipients, threshold 1 (2 shares needed), no override, grant0 = 1 share for key0, grant1 = 2 shares for key0 or key1", "offered_keys": "k2 only", "model_grants": g, "model_shares": n, "model_opens": true})
	acc.Sample(map[string]any{"first": layouts[0].Key(), "last_in_range": layouts[nInRange-1].Key(), "last": layouts[len(layouts)-1].Key()})
	acc.Finish()
	planned := 0
	for _, l := range layouts {
		n := len(aliases(l.NKeys))
		if !l.InRange() {
			n = 1
		}
		if run.Quick() {
			planned += (n + len(totals) - 1) * len(thresholds)
		} else {
			planned += n * len(thresholds) * len(totals)
		}
	}
	run.Cov["configurations_planned"] = planned
	run.Cov["configurations_done"] = done.Load()
	var blocks []string
	for _, sp := range spaces {
		blocks = append(blocks, sp.String())
	}
	run.Cov["alphabet"] = map[string]any{"blocks": blocks, "threshold": thresholds, "total_shares": totals, "key_index_lists": "every subset of the recipients (ascending) and the list 0,0", "offered": "every subset of recipients x {with, without} one unrelated key", "recipient_keys": "distinct; [A,A]; [A,B,A]; [A,A,A]", "extra": "18 configurations with an out-of-range key index"}
	run.Assumptions = append(run.Assumptions,
		"the share-distribution model in harness/ref/envelope_model.go (sequential hand-out, distinct share ids, grant reachable iff a listed key is offered) is what doc/ENVELOPE.md and envelope.proto describe",
		"BuildEnvelope is given a deterministic stream, but circl's Ristretto255 group ignores the reader and draws the secret from crypto/rand: share values differ from run to run and are never compared; payload/context come from a fixed menu; configurations outside the bound are not covered")
	run.Finish(t)
}
