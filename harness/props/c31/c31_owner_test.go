package c31

import (
	"context"
	"fmt"
	"io"
	"testing"
	"testing/synctest"

	link_solicit "github.com/aperturerobotics/bifrost/link/solicit"
	"github.com/aperturerobotics/bifrost/peer"
	"github.com/sirupsen/logrus"

	"verifh/enum"
	"verifh/evid"
)

// ownerCase: node A holds k local solicitations that all match the stream
// opened for value v (same protocol and context, different peer / transport
// constraints); node B holds one. After the exchange settled, every
// SolicitMountedStream value A's directives received is accepted, in the given
// order. A stream may be obtained by at most one accept.
type ownerCase struct {
	constraints [][2]int // per A-directive: peer constraint {0 none,1 remote}, transport {0 none,1 own}
	order       []int    // permutation of value indexes
	lowerIsA    bool
	linksFirst  bool
}

func runOwner(t *testing.T, le *logrus.Entry, lo, hi peer.ID, oc ownerCase) (obtained map[string]int, nvals int, perDir []int) {
	obtained = map[string]int{}
	synctest.Test(t, func(t *testing.T) {
		ctx, cancel := context.WithCancel(context.Background())
		idA, idB := lo, hi
		if !oc.lowerIsA {
			idA, idB = hi, lo
		}
		w := newWorld(ctx, le, idA, idB)
		v := pc{p: "proto/x", ctx: []byte("c")}
		for _, c := range oc.constraints {
			s := &sol{v: v}
			if c[0] == 1 {
				s.peer = idB
			}
			if c[1] == 1 {
				s.transport = w.a.tpt
			}
			w.a.sols = append(w.a.sols, s)
		}
		w.b.sols = []*sol{{v: v}}
		if oc.linksFirst {
			w.addLinks()
			synctest.Wait()
			w.addSols()
		} else {
			w.addSols()
			synctest.Wait()
			w.addLinks()
		}
		synctest.Wait()
		var vals []link_solicit.SolicitMountedStream
		for _, s := range w.a.sols {
			n := 0
			for _, val := range s.h.Values() {
				if sms, ok := val.(link_solicit.SolicitMountedStream); ok {
					vals = append(vals, sms)
					n++
				}
			}
			perDir = append(perDir, n)
		}
		nvals = len(vals)
		for _, i := range oc.order {
			if i >= len(vals) {
				continue
			}
			ms, already, err := vals[i].AcceptMountedStream()
			if err == nil && !already && ms != nil {
				obtained[fmt.Sprintf("%p", ms.GetStream())]++
			}
		}
		cancel()
		synctest.Wait()
		w.closeStreams()
		synctest.Wait()
	})
	return
}

// exploreOwners enumerates every constraint combination for k = 1..maxK local
// solicitations, both orientations, both establishment orders and every accept
// order.
func exploreOwners(t *testing.T, run *evid.Run, maxK int) {
	le := logrus.New()
	le.SetOutput(io.Discard)
	keys := enum.Keys(2)
	lo, hi := keys[0].ID, keys[1].ID
	if lo > hi {
		lo, hi = hi, lo
	}
	cases, multi, maxVals := 0, 0, 0
	outcomes := map[string]int{}
	var sample any
	for k := 1; k <= maxK; k++ {
		dims := make([]int, k)
		for i := range dims {
			dims[i] = 4
		}
		enum.Product(dims, func(idx []int) {
			cons := make([][2]int, k)
			for i, x := range idx {
				cons[i] = [2]int{x & 1, x >> 1}
			}
			for _, lowerIsA := range []bool{true, false} {
				for _, linksFirst := range []bool{true, false} {
					// first run discovers how many values exist
					_, nv, _ := runOwner(t, logrus.NewEntry(le), lo, hi, ownerCase{constraints: cons, lowerIsA: lowerIsA, linksFirst: linksFirst})
					if nv > maxVals {
						maxVals = nv
					}
					if nv == 0 {
						cases++
						outcomes["no-values"]++
						continue
					}
					enum.Permutations(nv, func(p []int) {
						oc := ownerCase{constraints: cons, order: append([]int{}, p...), lowerIsA: lowerIsA, linksFirst: linksFirst}
						got, nv2, perDir := runOwner(t, logrus.NewEntry(le), lo, hi, oc)
						cases++
						if nv2 > 1 {
							multi++
						}
						if sample == nil && nv2 > 1 {
							sample = map[string]any{"a_directive_constraints(peer,transport)": cons, "values_per_directive": perDir, "accept_order": p}
						}
						worst := 0
						for _, n := range got {
							if n > worst {
								worst = n
							}
						}
						outcomes[fmt.Sprintf("values=%d max-owners-of-one-stream=%d", nv2, worst)]++
						if worst > 1 {
							run.Violation("stream-obtained-by-two-matching-solicitations",
								fmt.Sprintf("%d local solicitations (constraints %v) match the same incoming stream; accepting their values in order %v hands the same stream to %d callers", k, cons, p, worst),
								map[string]any{"constraints": cons, "order": p, "lowerIsA": lowerIsA, "linksFirst": linksFirst})
						}
					})
				}
			}
		})
	}
	run.Cov["owner_enumeration"] = map[string]any{"cases": cases, "cases_with_several_values": multi, "max_values": maxVals, "outcomes": outcomes, "sample": sample,
		"space": fmt.Sprintf("k=1..%d local solicitations x {no,remote} peer constraint x {no,own} transport constraint x 2 orientations x 2 establishment orders x all accept orders, on the real solicit controllers", maxK)}
	if multi == 0 {
		evid.Fatal("vacuous owner enumeration: no case produced more than one value")
	}
}
