package c31

// Two-node solicitation world (real link/solicit/controller on both ends,
// fake link with in-memory streams); adapted from the C30 harness.

import (
	"bytes"
	"context"
	"errors"
	"fmt"
	"io"
	"strconv"
	"sync"

	"github.com/aperturerobotics/bifrost/link"
	link_solicit "github.com/aperturerobotics/bifrost/link/solicit"
	link_solicit_controller "github.com/aperturerobotics/bifrost/link/solicit/controller"
	"github.com/aperturerobotics/bifrost/peer"
	"github.com/aperturerobotics/bifrost/protocol"
	"github.com/sirupsen/logrus"

	"verifh/evid"
	"verifh/fakes"
	"verifh/props/c30/dfake"
)

var _ = bytes.Equal
var _ = fmt.Sprint
var _ = io.EOF

// pc is a (protocol ID, context) value of a solicitation.
type pc struct {
	p   protocol.ID
	ctx []byte
}

func (x pc) String() string {
	c := "nil"
	if x.ctx != nil {
		c = strconv.Quote(string(x.ctx))
	}
	return "(" + strconv.Quote(string(x.p)) + "," + c + ")"
}

// same is the reference: identical protocol ID and identical context bytes.
// half is one direction of an in-memory byte pipe with an unbounded buffer.
type half struct {
	mu     sync.Mutex
	cond   *sync.Cond
	data   []byte
	closed bool
}

func newHalf() *half { h := &half{}; h.cond = sync.NewCond(&h.mu); return h }

func (h *half) read(b []byte) (int, error) {
	h.mu.Lock()
	defer h.mu.Unlock()
	for len(h.data) == 0 && !h.closed {
		h.cond.Wait()
	}
	if len(h.data) == 0 {
		return 0, io.EOF
	}
	n := copy(b, h.data)
	h.data = h.data[n:]
	return n, nil
}

func (h *half) write(b []byte) (int, error) {
	h.mu.Lock()
	defer h.mu.Unlock()
	if h.closed {
		return 0, io.ErrClosedPipe
	}
	h.data = append(h.data, b...)
	h.cond.Broadcast()
	return len(b), nil
}

func (h *half) close() { h.mu.Lock(); h.closed = true; h.cond.Broadcast(); h.mu.Unlock() }

// newPipe returns the two ends of a bidirectional stream.
func newPipe(name string) (*fakes.Stream, *fakes.Stream) {
	ab, ba := newHalf(), newHalf()
	closeBoth := func() { ab.close(); ba.close() }
	a := &fakes.Stream{Name: name + "/a", ReadFn: ba.read, WriteFn: ab.write, OnClose: closeBoth}
	b := &fakes.Stream{Name: name + "/b", ReadFn: ab.read, WriteFn: ba.write, OnClose: closeBoth}
	return a, b
}

// sol is one SolicitProtocol directive placed on a node.
type sol struct {
	v         pc
	peer      peer.ID
	transport uint64
	h         *dfake.Handler
	cancel    context.CancelFunc
}

type node struct {
	name string
	id   peer.ID
	tpt  uint64
	ctrl *link_solicit_controller.Controller
	lnk  *fakes.MountedLink
	sols []*sol
}

type world struct {
	ctx     context.Context
	a, b    *node
	mu      sync.Mutex
	streams []*fakes.Stream
	opened  []string
}

// open models the link layer: the opener gets one end; the other end is
// announced to the remote node with a HandleMountedStream directive and handed
// to the handler its controller resolves, or refused if there is none.
func (w *world) open(from, to *node, pid protocol.ID) (link.MountedStream, error) {
	x, y := newPipe(string(pid))
	w.mu.Lock()
	w.streams = append(w.streams, x, y)
	w.opened = append(w.opened, from.name+">"+string(pid))
	w.mu.Unlock()
	local := &fakes.MountedStream{Strm: x, Proto: pid, Peer: to.id, Link: from.lnk}
	remote := &fakes.MountedStream{Strm: y, Proto: pid, Peer: from.id, Link: to.lnk}
	di := dfake.NewInstance(w.ctx, link.NewHandleMountedStream(pid, to.id, from.id))
	rs, err := to.ctrl.HandleDirective(w.ctx, di)
	if err != nil || len(rs) == 0 {
		x.Close()
		return nil, errors.New("fake link: no handler for " + string(pid))
	}
	rec := dfake.NewHandler()
	for _, r := range rs {
		if err := r.Resolve(w.ctx, rec); err != nil {
			x.Close()
			return nil, err
		}
	}
	vals := rec.Values()
	if len(vals) == 0 {
		x.Close()
		return nil, errors.New("fake link: resolver emitted no handler")
	}
	msh, ok := vals[0].(link.MountedStreamHandler)
	if !ok {
		evid.Fatal("unexpected handler value type %T", vals[0])
	}
	if err := msh.HandleMountedStream(w.ctx, remote); err != nil {
		x.Close()
		return nil, err
	}
	return local, nil
}

func newWorld(ctx context.Context, le *logrus.Entry, idA, idB peer.ID) *world {
	w := &world{ctx: ctx}
	mk := func(name string, id peer.ID, tpt uint64) *node {
		c, err := link_solicit_controller.NewController(le, &link_solicit_controller.Config{})
		if err != nil {
			evid.Fatal("NewController: %v", err)
		}
		if err := c.Execute(ctx); err != nil {
			evid.Fatal("Execute: %v", err)
		}
		return &node{name: name, id: id, tpt: tpt, ctrl: c}
	}
	w.a, w.b = mk("A", idA, 100), mk("B", idB, 200)
	w.a.lnk = &fakes.MountedLink{UUID: 11, TptUUID: w.a.tpt, RemoteTptUUID: w.b.tpt, Local: idA, Remote: idB,
		OpenFn: func(_ context.Context, pid protocol.ID) (link.MountedStream, error) { return w.open(w.a, w.b, pid) }}
	w.b.lnk = &fakes.MountedLink{UUID: 22, TptUUID: w.b.tpt, RemoteTptUUID: w.a.tpt, Local: idB, Remote: idA,
		OpenFn: func(_ context.Context, pid protocol.ID) (link.MountedStream, error) { return w.open(w.b, w.a, pid) }}
	return w
}

// addLinks tells both controllers about the link the way the bus would: an
// EstablishLinkWithPeer directive whose value is the mounted link.
func (w *world) addLinks() {
	for _, n := range []*node{w.a, w.b} {
		di := dfake.NewInstance(w.ctx, link.NewEstablishLinkWithPeer(n.lnk.Local, n.lnk.Remote))
		if _, err := n.ctrl.HandleDirective(w.ctx, di); err != nil {
			evid.Fatal("HandleDirective(EstablishLinkWithPeer): %v", err)
		}
		if di.Refs() == 0 {
			evid.Fatal("solicit controller did not watch EstablishLinkWithPeer")
		}
		di.Emit(1, n.lnk)
	}
}

// addSols places the nodes' SolicitProtocol directives.
func (w *world) addSols() {
	for _, n := range []*node{w.a, w.b} {
		for _, s := range n.sols {
			s.h = dfake.NewHandler()
			dir := link_solicit.NewSolicitProtocol(s.v.p, s.v.ctx, s.peer, s.transport)
			sctx, cancel := context.WithCancel(w.ctx)
			s.cancel = cancel
			di := dfake.NewInstance(sctx, dir)
			rs, err := n.ctrl.HandleDirective(sctx, di)
			if err != nil || len(rs) == 0 {
				evid.Fatal("HandleDirective(SolicitProtocol): %v, %d resolvers", err, len(rs))
			}
			for _, r := range rs {
				go func() { _ = r.Resolve(sctx, s.h) }()
			}
		}
	}
}

func (w *world) closeStreams() {
	w.mu.Lock()
	defer w.mu.Unlock()
	for _, s := range w.streams {
		s.Close()
	}
}
