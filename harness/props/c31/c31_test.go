package c31

import (
	"errors"
	"fmt"
	"strings"
	"testing"

	link_solicit "github.com/aperturerobotics/bifrost/link/solicit"

	"verifh/evid"
	"verifh/fakes"
	"verifh/mc"
	"verifh/vsync"
)

type closer interface{ Close() bool }

// scenario: ops is a list of threads, each a list of "A" (accept) / "C" (close).
func scenario(name string, threads [][]string, bound int, run *evid.Run) *vsync.Config {
	return scenarioEx(name, threads, bound, run, false)
}

// scenarioEx: closeFails makes the underlying stream's Close report an error
// (the stream is gone all the same: reset by the peer, failed final flush).
func scenarioEx(name string, threads [][]string, bound int, run *evid.Run, closeFails bool) *vsync.Config {
	return &vsync.Config{
		Name:     name,
		Bound:    bound,
		Deadline: run.Deadline(),
		Body: func() {
			strm := &fakes.Stream{Name: "s"}
			if closeFails {
				strm.CloseErr = errors.New("stream reset by peer")
			}
			ms := &fakes.MountedStream{Strm: strm, Proto: "p"}
			sms := link_solicit.NewSolicitMountedStream(ms)
			var wg vsync.WaitGroup
			for ti, ops := range threads {
				wg.Add(1)
				vsync.GoNamed(fmt.Sprintf("t%d", ti), func() {
					defer wg.Done()
					for oi, o := range ops {
						id := fmt.Sprintf("%d.%d", ti, oi)
						vsync.Yield("call")
						vsync.Logf("call %s %s", id, o)
						switch o {
						case "A":
							got, already, err := sms.AcceptMountedStream()
							r := "err"
							switch {
							case err == nil && !already && got != nil:
								r = "stream"
							case err == nil && already:
								r = "already"
							case err == nil:
								r = "nil"
							}
							vsync.Logf("ret %s A %s closed=%d", id, r, strm.Closed.Load())
						case "C":
							ok := sms.(closer).Close()
							vsync.Logf("ret %s C %v closed=%d", id, ok, strm.Closed.Load())
						}
					}
				})
			}
			wg.Wait()
			vsync.Logf("final closed=%d", strm.Closed.Load())
		},
		Check: checkHistory,
	}
}

type opRec struct {
	id, kind, ret string
	call, ret_    int
}

// checkHistory: (1) at most one accept obtains the stream; (2) a stream that
// was handed out is never closed by the solicitation (no Close()==true /
// underlying close together with an accept that obtained the stream);
// (3) an accept that starts after a successful Close returned never obtains
// the stream; (4) the history is linearizable w.r.t. the sequential spec.
func checkHistory(x *vsync.Exec) string {
	var ops []*opRec
	byID := map[string]*opRec{}
	finalClosed := ""
	for i, l := range x.Log {
		f := strings.Fields(l)
		switch f[0] {
		case "call":
			o := &opRec{id: f[1], kind: f[2], call: i, ret_: -1}
			ops = append(ops, o)
			byID[o.id] = o
		case "ret":
			o := byID[f[1]]
			o.ret, o.ret_ = f[3], i
		case "final":
			finalClosed = strings.TrimPrefix(f[1], "closed=")
		}
	}
	if x.Deadlock {
		return "deadlock"
	}
	nStream, nCloseTrue := 0, 0
	for _, o := range ops {
		if o.kind == "A" && o.ret == "stream" {
			nStream++
		}
		if o.kind == "C" && o.ret == "true" {
			nCloseTrue++
		}
	}
	if nStream > 1 {
		return "two accepts obtained the same stream"
	}
	if nStream == 1 && (nCloseTrue > 0 || finalClosed != "0") {
		return "an accept obtained the stream and the solicitation closed it"
	}
	for _, c := range ops {
		if c.kind != "C" || c.ret != "true" {
			continue
		}
		for _, a := range ops {
			if a.kind == "A" && a.ret == "stream" && a.call > c.ret_ {
				return "accept after close returned the stream"
			}
		}
	}
	if !linearizable(ops) {
		return "history not linearizable against the sequential accept/close specification"
	}
	return ""
}

// linearizable brute-forces all orders consistent with real-time precedence.
func linearizable(ops []*opRec) bool {
	n := len(ops)
	used := make([]bool, n)
	var rec func(done int, accepted, closed bool) bool
	rec = func(done int, accepted, closed bool) bool {
		if done == n {
			return true
		}
		for i, o := range ops {
			if used[i] {
				continue
			}
			// o may go next only if no unused op returned before o was called
			ok := true
			for j, p := range ops {
				if !used[j] && j != i && p.ret_ >= 0 && p.ret_ < o.call {
					ok = false
					break
				}
			}
			if !ok {
				continue
			}
			var want string
			na, nc := accepted, closed
			if o.kind == "A" {
				switch {
				case closed:
					want = "err"
				case accepted:
					want = "already"
				default:
					want, na = "stream", true
				}
			} else {
				if accepted {
					want = "false"
				} else {
					want, nc = "true", true
				}
			}
			if want != o.ret {
				continue
			}
			used[i] = true
			if rec(done+1, na, nc) {
				used[i] = false
				return true
			}
			used[i] = false
		}
		return false
	}
	return rec(0, false, false)
}

func TestC31(t *testing.T) {
	run := evid.Start("C31", "model_checking")
	agg := mc.NewAgg(run)
	bound := 3
	scen := [][][]string{
		{{"A"}, {"C"}},
		{{"A"}, {"A"}},
		{{"A"}, {"A"}, {"C"}},
		{{"A", "C"}, {"C", "A"}},
	}
	{
		scen = append(scen, [][]string{{"A"}, {"C"}, {"C"}, {"A"}}, [][]string{{"A", "A"}, {"C", "A"}, {"A", "C"}})
	}
	if !run.Quick() {
		// thorough: effectively unbounded preemptions (the scenarios are short) and larger scenarios
		bound = 12
		scen = append(scen, [][]string{{"A", "C", "A"}, {"C", "A", "C"}, {"A"}, {"C"}}, [][]string{{"A"}, {"A"}, {"C"}, {"C"}, {"A"}})
	}
	for _, sc := range scen {
		var parts []string
		for _, th := range sc {
			parts = append(parts, strings.Join(th, ""))
		}
		name := "accept-close/" + strings.Join(parts, "|")
		res := vsync.Explore(t, scenario(name, sc, bound, run))
		agg.Add(res, func(v *vsync.Violation) string { return "accept-close-race" })
		res = vsync.Explore(t, scenarioEx(name+"/stream-close-reports-an-error", sc, bound, run, true))
		agg.Add(res, func(v *vsync.Violation) string { return "accept-close-race/stream-close-reports-an-error" })
	}
	agg.Finish(true)
	maxK := 3
	exploreOwners(t, run, maxK)
	run.Cov["preemption_bound"] = bound
	run.Assumptions = append(run.Assumptions, "scheduling points at every lock/channel/go operation of link/solicit; data-race freedom between them is what the separate free-running race pass (racepass.sh, race-pass.json) looks at")
	run.Finish(t)
}
