package c34

import (
	"context"
	"fmt"
	"io"
	"strings"
	"testing"

	"github.com/aperturerobotics/bifrost/link"
	link_solicit_controller "github.com/aperturerobotics/bifrost/link/solicit/controller"
	"github.com/aperturerobotics/bifrost/peer"
	"github.com/aperturerobotics/bifrost/protocol"
	pubsub_controller "github.com/aperturerobotics/bifrost/pubsub/controller"
	floodsub_controller "github.com/aperturerobotics/bifrost/pubsub/floodsub/controller"
	stream_api_accept "github.com/aperturerobotics/bifrost/stream/api/accept"
	stream_echo "github.com/aperturerobotics/bifrost/stream/echo"
	stream_forwarding "github.com/aperturerobotics/bifrost/stream/forwarding"
	stream_relay "github.com/aperturerobotics/bifrost/stream/relay"
	stream_srpc_server "github.com/aperturerobotics/bifrost/stream/srpc/server"
	stream_srpc_server_lookup "github.com/aperturerobotics/bifrost/stream/srpc/server/lookup"
	"github.com/aperturerobotics/controllerbus/controller"
	"github.com/aperturerobotics/controllerbus/directive"
	cdc "github.com/aperturerobotics/controllerbus/directive/controller"
	"github.com/blang/semver/v4"
	"github.com/sirupsen/logrus"

	"verifh/enum"
	"verifh/evid"
	"verifh/props/c30/dfake"
)

// in is an incoming stream as announced to the handlers.
type in struct {
	pid           protocol.ID
	local, remote peer.ID
}

// handlerCase is one constructed controller together with the predicate that
// its configuration documents ("serves this stream").
type handlerCase struct {
	handler string
	conf    string // canonical text of the configuration
	h       directive.Handler
	serves  func(s in) bool
}

func contains[T comparable](l []T, x T) bool {
	for _, y := range l {
		if x == y {
			return true
		}
	}
	return false
}

func TestC34(t *testing.T) {
	run := evid.Start("C34", "exploration")
	acc := enum.NewAcc(run, "per handler: every configuration over the protocol universe x peer universe (all subsets for list-valued fields) that the handler's own Validate and constructor accept, x every incoming (protocol, local peer, remote peer); plus every ordered pair of stream lookups compared for equivalence (a fold confirmed on a real directive controller is judged against every configuration that takes the first and does not serve the second); a case is non-trivial if the stream is not one the configuration serves (the non-matching side of the filters); distinct by (handler, configuration, stream)")

	log := logrus.New()
	log.SetOutput(io.Discard)
	le := logrus.NewEntry(log)
	ctx := context.Background()

	ks := enum.Keys(3)
	A, B, C := ks[0].ID, ks[1].ID, ks[2].ID
	pn := func(p peer.ID) string {
		switch p {
		case "":
			return "-"
		case A:
			return "A"
		case B:
			return "B"
		case C:
			return "C"
		}
		return "?"
	}
	b58 := func(p peer.ID) string {
		if p == "" {
			return ""
		}
		return p.String()
	}
	// protocol universe of the plan + the two built-in IDs (echo default,
	// solicit control stream) so that defaults are exercised on both sides.
	protos := []protocol.ID{"p", "q", "p/x", "solicit:", "solicit:00", "x-solicit:00", "bifrost/echo", "bifrost/solicit", "bifrost/floodsub", ""}
	confPeers := []peer.ID{"", A, B}
	inPeers := []peer.ID{A, B, C, ""}
	var ins []in
	for _, p := range protos {
		for _, l := range inPeers {
			for _, r := range inPeers {
				ins = append(ins, in{p, l, r})
			}
		}
	}

	var cases []handlerCase
	rejected := map[string]int{}
	reject := func(handler, stage string) { rejected[handler+": "+stage]++ }

	// ---- echo: protocol_id (default bifrost/echo when empty), peer_id "can be empty" ----
	for _, p := range protos {
		for _, pe := range confPeers {
			conf := &stream_echo.Config{ProtocolId: string(p), PeerId: b58(pe)}
			if conf.Validate() != nil {
				reject("echo", "validate")
				continue
			}
			c, err := stream_echo.NewController(le, nil, conf)
			if err != nil {
				reject("echo", "construct")
				continue
			}
			want := p
			if want == "" {
				want = stream_echo.DefaultProtocolID
			}
			cases = append(cases, handlerCase{"echo", fmt.Sprintf("protocol=%q peer=%s", p, pn(pe)), c, func(s in) bool {
				return s.pid == want && (pe == "" || s.local == pe)
			}})
		}
	}
	// ---- forwarding: protocol_id "cannot be empty", peer_id "can be empty to accept any" ----
	for _, p := range protos {
		for _, pe := range confPeers {
			conf := &stream_forwarding.Config{ProtocolId: string(p), PeerId: b58(pe), TargetMultiaddr: "/ip4/127.0.0.1/tcp/4000"}
			if conf.Validate() != nil {
				reject("forwarding", "validate")
				continue
			}
			c, err := stream_forwarding.NewController(le, nil, conf)
			if err != nil {
				reject("forwarding", "construct")
				continue
			}
			cases = append(cases, handlerCase{"forwarding", fmt.Sprintf("protocol=%q peer=%s", p, pn(pe)), c, func(s in) bool {
				return s.pid == p && (pe == "" || s.local == pe)
			}})
		}
	}
	// ---- relay: protocol_id "cannot be empty", peer_id "can be empty to accept any" ----
	for _, p := range protos {
		for _, pe := range confPeers {
			for _, tp := range []protocol.ID{"", "t"} {
				conf := &stream_relay.Config{ProtocolId: string(p), PeerId: b58(pe), TargetPeerId: C.String(), TargetProtocolId: string(tp)}
				if conf.Validate() != nil {
					reject("relay", "validate")
					continue
				}
				c, err := stream_relay.NewController(le, nil, conf)
				if err != nil {
					reject("relay", "construct")
					continue
				}
				cases = append(cases, handlerCase{"relay", fmt.Sprintf("protocol=%q peer=%s target-protocol=%q", p, pn(pe), tp), c, func(s in) bool {
					return s.pid == p && (pe == "" || s.local == pe)
				}})
			}
		}
	}
	// ---- api/accept: protocol_id, local_peer_id "can be empty", remote_peer_ids "can be empty" ----
	for _, p := range protos {
		for _, lp := range confPeers {
			enum.Subsets(len(confPeers), func(mask uint) {
				var rl []peer.ID
				var rs, rn []string
				for i, x := range confPeers {
					if mask&(1<<uint(i)) != 0 {
						rl = append(rl, x)
						rs = append(rs, b58(x))
						rn = append(rn, pn(x))
					}
				}
				conf := &stream_api_accept.Config{ProtocolId: string(p), LocalPeerId: b58(lp), RemotePeerIds: rs}
				if conf.Validate() != nil {
					reject("accept", "validate")
					return
				}
				c, err := stream_api_accept.NewController(le, conf, nil)
				if err != nil {
					reject("accept", "construct")
					return
				}
				cases = append(cases, handlerCase{"accept", fmt.Sprintf("protocol=%q local=%s remotes=[%s]", p, pn(lp), strings.Join(rn, ",")), c, func(s in) bool {
					return s.pid == p && (lp == "" || s.local == lp) && (len(rl) == 0 || contains(rl, s.remote))
				}})
			})
		}
	}
	// ---- srpc server: protocol_ids ("if empty, no incoming streams"), peer_ids ("if empty, allows any") ----
	maxProtoSet := 2
	if !run.Quick() {
		maxProtoSet = len(protos)
	}
	enum.Subsets(len(protos), func(pmask uint) {
		var pl []protocol.ID
		var psn []string
		for i, x := range protos {
			if pmask&(1<<uint(i)) != 0 {
				pl = append(pl, x)
				psn = append(psn, string(x))
			}
		}
		if len(pl) > maxProtoSet {
			return
		}
		enum.Subsets(len(confPeers), func(mask uint) {
			var ll []peer.ID
			var ls, ln []string
			for i, x := range confPeers {
				if mask&(1<<uint(i)) != 0 {
					ll = append(ll, x)
					ls = append(ls, b58(x))
					ln = append(ln, pn(x))
				}
			}
			conf := &stream_srpc_server.Config{ProtocolIds: psn, PeerIds: ls}
			if conf.Validate() != nil {
				reject("srpc-server", "validate")
				return
			}
			info := controller.NewInfo("verif/srpc", semver.MustParse("0.0.1"), "srpc")
			c, err := conf.BuildServer(nil, le, info, nil)
			if err != nil {
				reject("srpc-server", "construct")
				return
			}
			cases = append(cases, handlerCase{"srpc-server", fmt.Sprintf("protocols=%q peers=[%s]", psn, strings.Join(ln, ",")), c, func(s in) bool {
				return contains(pl, s.pid) && (len(ll) == 0 || contains(ll, s.local))
			}})
			// the same RPC server built through its other constructor (the lookup
			// controller: NewServerWithMux) with the same filters
			lconf := &stream_srpc_server_lookup.Config{ProtocolIds: psn, PeerIds: ls}
			if lconf.Validate() != nil {
				reject("srpc-server-lookup", "validate")
				return
			}
			lc, err := stream_srpc_server_lookup.NewController(nil, le, lconf)
			if err != nil {
				reject("srpc-server-lookup", "construct")
				return
			}
			cases = append(cases, handlerCase{"srpc-server-lookup", fmt.Sprintf("protocols=%q peers=[%s]", psn, strings.Join(ln, ",")), lc, func(s in) bool {
				return contains(pl, s.pid) && (len(ll) == 0 || contains(ll, s.local))
			}})
		})
	})
	// ---- pubsub controller: the protocol ID it was built with; its peer ID is
	// "the peer ID to use", not a documented stream filter ----
	for _, p := range protos {
		for _, pe := range confPeers {
			info := controller.NewInfo("verif/pubsub", semver.MustParse("0.0.1"), "pubsub")
			c := pubsub_controller.NewController(le, nil, info, pe, p, nil)
			cases = append(cases, handlerCase{"pubsub", fmt.Sprintf("protocol=%q peer=%s", p, pn(pe)), c, func(s in) bool { return s.pid == p }})
		}
	}
	{
		fconf := &floodsub_controller.Config{}
		if err := fconf.Validate(); err != nil {
			evid.Fatal("floodsub config: %v", err)
		}
		fc, err := floodsub_controller.NewFactory(nil).Construct(ctx, fconf, controller.ConstructOpts{Logger: le})
		if err != nil {
			evid.Fatal("floodsub construct: %v", err)
		}
		cases = append(cases, handlerCase{"pubsub", "floodsub-factory{}", fc, func(s in) bool { return s.pid == "bifrost/floodsub" }})
	}
	// ---- solicit controller: the control protocol or the solicit:{hash} prefix ----
	for _, mh := range []uint32{0, 1} {
		conf := &link_solicit_controller.Config{MaxHashes: mh}
		if conf.Validate() != nil {
			reject("solicit", "validate")
			continue
		}
		c, err := link_solicit_controller.NewController(le, conf)
		if err != nil {
			reject("solicit", "construct")
			continue
		}
		cases = append(cases, handlerCase{"solicit", fmt.Sprintf("max_hashes=%d", mh), c, func(s in) bool {
			return s.pid == "bifrost/solicit" || strings.HasPrefix(string(s.pid), "solicit:")
		}})
	}

	tookCase := map[[2]int]bool{}
	insIndex := map[in]int{}
	for i, s := range ins {
		insIndex[s] = i
	}
	taken := map[string]int{}
	declined := map[string]int{} // served by the configuration but not taken: recorded only
	nconf := map[string]int{}
	for ci := range cases {
		hc := &cases[ci]
		nconf[hc.handler]++
		for _, s := range ins {
			di := dfake.NewInstance(ctx, link.NewHandleMountedStream(s.pid, s.local, s.remote))
			var rs []directive.Resolver
			var err error
			key := fmt.Sprintf("%s{%s} <- stream(protocol=%q local=%s remote=%s)", hc.handler, hc.conf, s.pid, pn(s.local), pn(s.remote))
			if p := enum.Try(func() { rs, err = hc.h.HandleDirective(ctx, di) }); p != nil {
				acc.Case(hc.handler, key, true, "panic")
				run.Violation("panic/"+hc.handler, fmt.Sprintf("HandleDirective panicked: %s: %v", key, p), key)
				continue
			}
			takes := err == nil && len(rs) != 0
			serves := hc.serves(s)
			out := "leaves"
			switch {
			case err != nil:
				out = "error"
			case takes:
				out = "takes"
				taken[hc.handler]++
				tookCase[[2]int{ci, insIndex[s]}] = true
			}
			acc.Case(hc.handler, key, !serves, out)
			if takes && !serves {
				// name the single filter that excludes the stream: the field
				// which, replaced by some other universe value, makes it served.
				why := "several-fields"
			classify:
				for {
					for _, p := range protos {
						if hc.serves(in{p, s.local, s.remote}) {
							why = "protocol"
							break classify
						}
					}
					for _, l := range inPeers {
						if hc.serves(in{s.pid, l, s.remote}) {
							why = "local-peer"
							break classify
						}
					}
					for _, r := range inPeers {
						if hc.serves(in{s.pid, s.local, r}) {
							why = "remote-peer"
							break classify
						}
					}
					break
				}
				run.Violation("takes-unconfigured/"+hc.handler+"/"+why, fmt.Sprintf("%s returned %d resolver(s) for a stream its configuration does not serve (offending filter: %s)", key, len(rs), why), map[string]any{"handler": hc.handler, "config": hc.conf, "protocol": string(s.pid), "local": pn(s.local), "remote": pn(s.remote)})
			}
			if !takes && serves {
				declined[hc.handler]++
			}
		}
	}
	// ---- shared lookups: the bus folds equivalent HandleMountedStream lookups into
	// one directive instance, whose resolvers (and resolved handler) are shared. Two
	// lookups for different streams must therefore never be equivalent when some
	// handler takes the first stream but does not serve the second: the second
	// stream would be handed that handler. Every ordered pair of streams of the
	// universe is compared; every pair reported equivalent is confirmed on a real
	// controllerbus directive controller (same instance returned).
	takers := map[in][]int{}
	for ci := range cases {
		for _, s := range ins {
			if tookCase[[2]int{ci, insIndex[s]}] {
				takers[s] = append(takers[s], ci)
			}
		}
	}
	dc := cdc.NewController(ctx, le)
	pairsCompared, pairsFolded := 0, 0
	for _, s1 := range ins {
		d1 := link.NewHandleMountedStream(s1.pid, s1.local, s1.remote)
		for _, s2 := range ins {
			if s1 == s2 {
				continue
			}
			pairsCompared++
			d2 := link.NewHandleMountedStream(s2.pid, s2.local, s2.remote)
			eq, ok := d1.(directive.DirectiveWithEquiv)
			if !ok || !eq.IsEquivalent(d2) {
				continue
			}
			// confirm through the bus
			i1, r1, err1 := dc.AddDirective(d1, nil)
			i2, r2, err2 := dc.AddDirective(d2, nil)
			folded := err1 == nil && err2 == nil && i1 == i2
			if r1 != nil {
				r1.Release()
			}
			if r2 != nil {
				r2.Release()
			}
			if !folded {
				continue
			}
			pairsFolded++
			for _, ci := range takers[s1] {
				hc := &cases[ci]
				if hc.serves(s2) {
					continue
				}
				why := "several-fields"
				switch {
				case s1.local == s2.local && s1.remote == s2.remote:
					why = "protocol"
				case s1.pid == s2.pid && s1.remote == s2.remote:
					why = "local-peer"
				case s1.pid == s2.pid && s1.local == s2.local:
					why = "remote-peer"
				}
				key := fmt.Sprintf("%s{%s}: lookup for stream(protocol=%q local=%s remote=%s) is folded into the running lookup for stream(protocol=%q local=%s remote=%s)", hc.handler, hc.conf, s2.pid, pn(s2.local), pn(s2.remote), s1.pid, pn(s1.local), pn(s1.remote))
				acc.Case(hc.handler+"/shared-lookup", key, true, "folded")
				run.Violation("takes-unconfigured-through-shared-lookup/"+hc.handler+"/"+why, key+": the handler resolved for the first stream is handed the second one, which its configuration does not serve (offending filter: "+why+")", map[string]any{"handler": hc.handler, "config": hc.conf, "first": fmt.Sprint(s1), "second": fmt.Sprint(s2)})
				break
			}
		}
	}
	run.Cov["shared_lookup_pairs_compared"] = pairsCompared
	run.Cov["shared_lookup_pairs_folded_by_the_bus"] = pairsFolded
	// vacuity guard: every handler must have taken at least one stream, else the
	// "only if" direction was never exercised for it.
	for _, h := range []string{"echo", "forwarding", "relay", "accept", "srpc-server", "pubsub", "solicit"} {
		if taken[h] == 0 {
			evid.Fatal("handler %s never took any stream over %d configurations: enumeration is vacuous for it", h, nconf[h])
		}
	}
	acc.Sample(map[string]any{"case": "echo{protocol=\"\" peer=A} <- stream(protocol=\"bifrost/echo\" local=A remote=C)", "expect": "may take (default protocol, local peer served)"})
	acc.Sample(map[string]any{"case": "accept{protocol=\"p\" local=- remotes=[A,B]} <- stream(protocol=\"p\" local=A remote=C)", "expect": "must leave (remote peer not in list)"})
	acc.Sample(map[string]any{"case": "solicit{max_hashes=0} <- stream(protocol=\"solicit:00\" local=A remote=B)", "expect": "may take (solicit: prefix)"})
	acc.Finish()
	run.Cov["configurations_per_handler"] = nconf
	run.Cov["streams_per_configuration"] = len(ins)
	run.Cov["taken_per_handler"] = taken
	run.Cov["rejected_configurations"] = rejected
	run.Cov["unjudged_declined_although_served"] = declined
	run.Cov["alphabet"] = map[string]any{"protocols": protos, "config_peers": []string{"-", "A", "B"}, "stream_peers": []string{"-", "A", "B", "C"}}
	run.Assumptions = append(run.Assumptions,
		"per-handler predicates are written from the config documentation: echo = protocol_id (bifrost/echo when empty) and optional peer_id; forwarding/relay = protocol_id and optional peer_id; api/accept = protocol_id, optional local_peer_id, optional remote_peer_ids list; srpc server = protocol_ids list (empty serves nothing) and optional peer_ids list; pubsub = its protocol ID; solicit = bifrost/solicit or the solicit: prefix",
		"only the statement's direction is judged (resolvers returned => stream served by the configuration); a handler declining a stream it serves is recorded in coverage.unjudged_declined_although_served",
		"configurations rejected by Validate or by the constructor are not exercised (coverage.rejected_configurations); the transport_id field of api/accept is not observable on a HandleMountedStream directive and is not enumerated",
	)
	run.Finish(t)
}
