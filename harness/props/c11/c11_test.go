package c11

import (
	"bytes"
	"crypto/ecdsa"
	"crypto/ed25519"
	"crypto/elliptic"
	"encoding/pem"
	"fmt"
	"sort"
	"strings"
	"testing"

	stdcrypto "crypto"

	"github.com/aperturerobotics/bifrost/crypto"
	"github.com/aperturerobotics/bifrost/keypem"
	"github.com/aperturerobotics/bifrost/peer"
	"github.com/aperturerobotics/bifrost/util/confparse"

	"verifh/enum"
	"verifh/evid"
	"verifh/ref"
)

// What is demanded (the property statement, nothing more):
//   - decode(encode(k)) is k for every supported encoding and every chain of
//     two encodings: Equals both ways, same raw bytes, same public key, same
//     peer ID, and the decoded private key still signs for the original public key;
//   - every key parser, on every enumerated input, does not panic and returns
//     exactly one of (key, nil) / (nil, error); a returned key must be usable;
//   - a 96-byte private key whose redundant public half disagrees is rejected.
// "(nil, nil)" on *empty* input is the documented "nothing specified" answer of
// these APIs and is recorded, not judged. Whether a parser accepts a given
// mutated input is compared with a reference reader and recorded in the
// outcome classes only.

const (
	privType = "LIBP2P PRIVATE KEY"
	pubType  = "LIBP2P PUBLIC KEY"
)

type fixture struct {
	*enum.Key
	idx    int
	pubRaw []byte
}

// result of one parser call, normalised
type result struct {
	priv crypto.PrivKey
	pub  crypto.PubKey
	err  error
}

type parser struct {
	name   string
	family string // which reference reader applies: pbpriv pbpub rawpriv rawpub pempriv pempub strpriv strpub
	f      func(in []byte) result
}

func nilIface(k crypto.Key) bool { return k == nil }

// clobber overwrites a buffer a key was decoded from (the caller re-uses or
// wipes it afterwards): a decoded key must own its bytes.
func clobber(b []byte) {
	for i := range b {
		b[i] = 0xAA
	}
}

func TestC11(t *testing.T) {
	run := evid.Start("C11", "exploration")
	acc := enum.NewAcc(run, "4 fixture keys x every encoding and every ordered pair of encodings (round trips); reference-built 64/96-byte, PEM and base58 encodings; every single-byte change of the redundant halves of the 96-byte form; every byte substitution / truncation / one-byte extension of each valid protobuf, PEM and base58 encoding and a menu of PEM/text variants, each offered to all 11 parsers; all byte strings of length <=3 over a boundary alphabet; a case is non-trivial unless it is the plain round trip of a fixture key through one encoding; distinct by (group, description)")
	var fix []*fixture
	for i, k := range enum.Keys(4) {
		fix = append(fix, &fixture{Key: k, idx: i, pubRaw: []byte(k.Std.Public().(ed25519.PublicKey))})
	}
	msg := []byte("c11 probe message")

	// ---- checks on a decoded key ------------------------------------------
	checkPriv := func(group, desc string, k *fixture, got crypto.PrivKey, err error) bool {
		rp := map[string]any{"case": desc, "key": k.Name}
		if err != nil || got == nil {
			run.Violation("roundtrip-fails/"+group, fmt.Sprintf("%s: decoding a valid encoding of %s failed: key=%v err=%v", desc, k.Name, got != nil, err), rp)
			return false
		}
		ok := true
		p := enum.Try(func() {
			raw, e := got.Raw()
			if e != nil || !bytes.Equal(raw, k.Std) {
				ok = false
				run.Violation("roundtrip-changes-key/"+group, desc+": decoded private key bytes differ from the original", rp)
			}
			if !got.Equals(k.Priv) || !k.Priv.Equals(got) {
				ok = false
				run.Violation("roundtrip-changes-key/"+group, desc+": decoded private key does not Equal the original", rp)
			}
			pr, e := got.GetPublic().Raw()
			if e != nil || !bytes.Equal(pr, k.pubRaw) || !got.GetPublic().Equals(k.Pub) {
				ok = false
				run.Violation("roundtrip-changes-public-key/"+group, desc+": decoded private key yields a different public key", rp)
			}
			id, e := peer.IDFromPrivateKey(got)
			if e != nil || id != k.ID {
				ok = false
				run.Violation("roundtrip-changes-peer-id/"+group, desc+": decoded private key yields a different peer ID", rp)
			}
			sig, e := got.Sign(msg)
			if e != nil || !ed25519.Verify(k.pubRaw, msg, sig) {
				ok = false
				run.Violation("roundtrip-breaks-signing/"+group, desc+": signature of the decoded key does not verify under the original public key", rp)
			}
		})
		if p != nil {
			run.Violation("panic/use-decoded-key/"+group, fmt.Sprintf("%s: using the decoded key panicked: %v", desc, p), rp)
			return false
		}
		return ok
	}
	checkPub := func(group, desc string, k *fixture, got crypto.PubKey, err error) bool {
		rp := map[string]any{"case": desc, "key": k.Name}
		if err != nil || got == nil {
			run.Violation("roundtrip-fails/"+group, fmt.Sprintf("%s: decoding a valid encoding of %s failed: key=%v err=%v", desc, k.Name, got != nil, err), rp)
			return false
		}
		ok := true
		p := enum.Try(func() {
			raw, e := got.Raw()
			if e != nil || !bytes.Equal(raw, k.pubRaw) || !got.Equals(k.Pub) || !k.Pub.Equals(got) {
				ok = false
				run.Violation("roundtrip-changes-key/"+group, desc+": decoded public key differs from the original", rp)
			}
			id, e := peer.IDFromPublicKey(got)
			if e != nil || id != k.ID {
				ok = false
				run.Violation("roundtrip-changes-peer-id/"+group, desc+": decoded public key yields a different peer ID", rp)
			}
		})
		if p != nil {
			run.Violation("panic/use-decoded-key/"+group, fmt.Sprintf("%s: using the decoded key panicked: %v", desc, p), rp)
			return false
		}
		return ok
	}

	// ---- codecs (real encoders / decoders) --------------------------------
	type privCodec struct {
		name string
		rt   func(k crypto.PrivKey) (crypto.PrivKey, error) // encode then decode
	}
	e2 := func(err error, what string) error {
		if err != nil {
			return fmt.Errorf("%s: %w", what, err)
		}
		return nil
	}
	privCodecs := []privCodec{
		{"protobuf", func(k crypto.PrivKey) (crypto.PrivKey, error) {
			b, err := crypto.MarshalPrivateKey(k)
			if err != nil {
				return nil, e2(err, "encode")
			}
			k2, err := crypto.UnmarshalPrivateKey(b)
			clobber(b)
			return k2, err
		}},
		{"config-base64", func(k crypto.PrivKey) (crypto.PrivKey, error) {
			b, err := crypto.MarshalPrivateKey(k)
			if err != nil {
				return nil, e2(err, "encode")
			}
			d, err := crypto.ConfigDecodeKey(crypto.ConfigEncodeKey(b))
			if err != nil {
				return nil, err
			}
			k2, err := crypto.UnmarshalPrivateKey(d)
			clobber(d)
			return k2, err
		}},
		{"keypem", func(k crypto.PrivKey) (crypto.PrivKey, error) {
			b, err := keypem.MarshalPrivKeyPem(k)
			if err != nil {
				return nil, e2(err, "encode")
			}
			k2, err := keypem.ParsePrivKeyPem(b)
			clobber(b)
			return k2, err
		}},
		{"keypem-any", func(k crypto.PrivKey) (crypto.PrivKey, error) {
			b, err := keypem.MarshalPrivKeyPem(k)
			if err != nil {
				return nil, e2(err, "encode")
			}
			p, _, err := keypem.ParseKeyPem(b)
			return p, err
		}},
		{"confparse-pem", func(k crypto.PrivKey) (crypto.PrivKey, error) {
			b, err := confparse.MarshalPrivateKeyPEM(k)
			if err != nil {
				return nil, e2(err, "encode")
			}
			return confparse.ParsePrivateKeyPEM(b)
		}},
		{"confparse-pem-string", func(k crypto.PrivKey) (crypto.PrivKey, error) {
			b, err := confparse.MarshalPrivateKeyPEM(k)
			if err != nil {
				return nil, e2(err, "encode")
			}
			return confparse.ParsePrivateKey(string(b))
		}},
		{"confparse-base58", func(k crypto.PrivKey) (crypto.PrivKey, error) {
			s, err := confparse.MarshalPrivateKey(k)
			if err != nil {
				return nil, e2(err, "encode")
			}
			return confparse.ParsePrivateKey(s)
		}},
		{"std-key-pointer", func(k crypto.PrivKey) (crypto.PrivKey, error) {
			s, err := crypto.PrivKeyToStdKey(k)
			if err != nil {
				return nil, e2(err, "encode")
			}
			p, _, err := crypto.KeyPairFromStdKey(s)
			return p, err
		}},
		{"std-key-value", func(k crypto.PrivKey) (crypto.PrivKey, error) {
			s, err := crypto.PrivKeyToStdKey(k)
			if err != nil {
				return nil, e2(err, "encode")
			}
			sp, ok := s.(*ed25519.PrivateKey)
			if !ok {
				return nil, fmt.Errorf("PrivKeyToStdKey returned %T", s)
			}
			p, _, err := crypto.KeyPairFromStdKey(*sp)
			return p, err
		}},
		{"raw", func(k crypto.PrivKey) (crypto.PrivKey, error) {
			b, err := k.Raw()
			if err != nil {
				return nil, e2(err, "encode")
			}
			return crypto.UnmarshalEd25519PrivateKey(b)
		}},
	}
	type pubCodec struct {
		name string
		rt   func(k crypto.PubKey) (crypto.PubKey, error)
	}
	pubCodecs := []pubCodec{
		{"protobuf", func(k crypto.PubKey) (crypto.PubKey, error) {
			b, err := crypto.MarshalPublicKey(k)
			if err != nil {
				return nil, e2(err, "encode")
			}
			k2, err := crypto.UnmarshalPublicKey(b)
			clobber(b) // the caller re-uses / wipes its buffer: the decoded key must not change
			return k2, err
		}},
		{"proto-message", func(k crypto.PubKey) (crypto.PubKey, error) {
			m, err := crypto.PublicKeyToProto(k)
			if err != nil {
				return nil, e2(err, "encode")
			}
			return crypto.PublicKeyFromProto(m)
		}},
		{"keypem", func(k crypto.PubKey) (crypto.PubKey, error) {
			b, err := keypem.MarshalPubKeyPem(k)
			if err != nil {
				return nil, e2(err, "encode")
			}
			k2, err := keypem.ParsePubKeyPem(b)
			clobber(b)
			return k2, err
		}},
		{"keypem-any", func(k crypto.PubKey) (crypto.PubKey, error) {
			b, err := keypem.MarshalPubKeyPem(k)
			if err != nil {
				return nil, e2(err, "encode")
			}
			pr, p, err := keypem.ParseKeyPem(b)
			if err == nil && pr != nil {
				return nil, fmt.Errorf("ParseKeyPem returned a private key for a public key PEM")
			}
			return p, err
		}},
		{"confparse-pem", func(k crypto.PubKey) (crypto.PubKey, error) {
			b, err := confparse.MarshalPublicKeyPEM(k)
			if err != nil {
				return nil, e2(err, "encode")
			}
			k2, err := confparse.ParsePublicKeyPEM(b)
			clobber(b)
			return k2, err
		}},
		{"confparse-pem-string", func(k crypto.PubKey) (crypto.PubKey, error) {
			b, err := confparse.MarshalPublicKeyPEM(k)
			if err != nil {
				return nil, e2(err, "encode")
			}
			return confparse.ParsePublicKey(string(b))
		}},
		{"confparse-base58", func(k crypto.PubKey) (crypto.PubKey, error) {
			s, err := confparse.MarshalPublicKey(k)
			if err != nil {
				return nil, e2(err, "encode")
			}
			return confparse.ParsePublicKey(s)
		}},
		{"std-key", func(k crypto.PubKey) (crypto.PubKey, error) {
			s, err := crypto.PubKeyToStdKey(k)
			if err != nil {
				return nil, e2(err, "encode")
			}
			sp, ok := s.(ed25519.PublicKey)
			if !ok {
				return nil, fmt.Errorf("PubKeyToStdKey returned %T", s)
			}
			return crypto.UnmarshalEd25519PublicKey(sp)
		}},
		{"raw", func(k crypto.PubKey) (crypto.PubKey, error) {
			b, err := k.Raw()
			if err != nil {
				return nil, e2(err, "encode")
			}
			return crypto.UnmarshalEd25519PublicKey(b)
		}},
	}

	// ---- round trips and chains -------------------------------------------
	okStr := func(b bool) string {
		if b {
			return "same-key"
		}
		return "violation"
	}
	for _, k := range fix {
		for _, a := range privCodecs {
			var x crypto.PrivKey
			var err error
			desc := fmt.Sprintf("%s/priv/%s", k.Name, a.name)
			if p := enum.Try(func() { x, err = a.rt(k.Priv) }); p != nil {
				acc.Case("roundtrip", desc, false, "panic")
				run.Violation("panic/roundtrip", fmt.Sprintf("%s panicked: %v", desc, p), desc)
				continue
			}
			ok := checkPriv("private", desc, k, x, err)
			acc.Case("roundtrip", desc, false, okStr(ok))
			if !ok {
				continue
			}
			for _, b := range privCodecs {
				var y crypto.PrivKey
				d2 := desc + "->" + b.name
				if p := enum.Try(func() { y, err = b.rt(x) }); p != nil {
					acc.Case("chain", d2, true, "panic")
					run.Violation("panic/roundtrip", fmt.Sprintf("%s panicked: %v", d2, p), d2)
					continue
				}
				acc.Case("chain", d2, true, okStr(checkPriv("private", d2, k, y, err)))
			}
		}
		for _, a := range pubCodecs {
			var x crypto.PubKey
			var err error
			desc := fmt.Sprintf("%s/pub/%s", k.Name, a.name)
			if p := enum.Try(func() { x, err = a.rt(k.Pub) }); p != nil {
				acc.Case("roundtrip", desc, false, "panic")
				run.Violation("panic/roundtrip", fmt.Sprintf("%s panicked: %v", desc, p), desc)
				continue
			}
			ok := checkPub("public", desc, k, x, err)
			acc.Case("roundtrip", desc, false, okStr(ok))
			if !ok {
				continue
			}
			for _, b := range pubCodecs {
				var y crypto.PubKey
				d2 := desc + "->" + b.name
				if p := enum.Try(func() { y, err = b.rt(x) }); p != nil {
					acc.Case("chain", d2, true, "panic")
					run.Violation("panic/roundtrip", fmt.Sprintf("%s panicked: %v", d2, p), d2)
					continue
				}
				acc.Case("chain", d2, true, okStr(checkPub("public", d2, k, y, err)))
			}
		}
		// the public key obtained from a private-key PEM / a peer built from config strings
		cross := []struct {
			name string
			f    func() (crypto.PubKey, error)
		}{
			{"ParsePubKeyPem(private-pem)", func() (crypto.PubKey, error) {
				b, err := keypem.MarshalPrivKeyPem(k.Priv)
				if err != nil {
					return nil, err
				}
				return keypem.ParsePubKeyPem(b)
			}},
			{"ParseKeyPem(private-pem).pub", func() (crypto.PubKey, error) {
				b, err := keypem.MarshalPrivKeyPem(k.Priv)
				if err != nil {
					return nil, err
				}
				_, p, err := keypem.ParseKeyPem(b)
				return p, err
			}},
			{"ParsePublicKeyPEM(private-pem)", func() (crypto.PubKey, error) {
				b, err := keypem.MarshalPrivKeyPem(k.Priv)
				if err != nil {
					return nil, err
				}
				return confparse.ParsePublicKeyPEM(b)
			}},
			{"ParsePeer(priv-b58).pub", func() (crypto.PubKey, error) {
				s, err := confparse.MarshalPrivateKey(k.Priv)
				if err != nil {
					return nil, err
				}
				p, err := confparse.ParsePeer(s, "", "")
				if err != nil {
					return nil, err
				}
				if p.GetPeerID() != k.ID {
					return nil, fmt.Errorf("ParsePeer peer id %s != %s", p.GetPeerID(), k.ID)
				}
				return p.GetPubKey(), nil
			}},
			{"ParsePeer(pub-b58).pub", func() (crypto.PubKey, error) {
				s, err := confparse.MarshalPublicKey(k.Pub)
				if err != nil {
					return nil, err
				}
				p, err := confparse.ParsePeer("", s, "")
				if err != nil {
					return nil, err
				}
				if p.GetPeerID() != k.ID {
					return nil, fmt.Errorf("ParsePeer peer id %s != %s", p.GetPeerID(), k.ID)
				}
				return p.GetPubKey(), nil
			}},
			{"KeyPairFromStdKey.pub", func() (crypto.PubKey, error) {
				_, p, err := crypto.KeyPairFromStdKey(k.Std)
				return p, err
			}},
		}
		for _, c := range cross {
			var x crypto.PubKey
			var err error
			desc := k.Name + "/" + c.name
			if p := enum.Try(func() { x, err = c.f() }); p != nil {
				acc.Case("cross", desc, true, "panic")
				run.Violation("panic/roundtrip", fmt.Sprintf("%s panicked: %v", desc, p), desc)
				continue
			}
			acc.Case("cross", desc, true, okStr(checkPub("public-from-private", desc, k, x, err)))
		}
	}
	acc.Sample(map[string]any{"group": "chain", "example": "k1/priv/keypem->confparse-base58: MarshalPrivKeyPem, ParsePrivKeyPem, confparse.MarshalPrivateKey, confparse.ParsePrivateKey; result must equal k1 (bytes, public key, peer ID, signs for k1)"})

	// ---- reference-built encodings ----------------------------------------
	pbPriv64 := func(k *fixture) []byte { return append([]byte{0x08, 0x01, 0x12, 0x40}, k.Std...) }
	pbPriv96 := func(k *fixture) []byte {
		return append(append([]byte{0x08, 0x01, 0x12, 0x60}, k.Std...), k.pubRaw...)
	}
	pbPub := func(k *fixture) []byte { return append([]byte{0x08, 0x01, 0x12, 0x20}, k.pubRaw...) }
	mkPem := func(typ string, b []byte) []byte { return pem.EncodeToMemory(&pem.Block{Type: typ, Bytes: b}) }
	encMatches := 0
	for _, k := range fix {
		if b, err := crypto.MarshalPrivateKey(k.Priv); err == nil && bytes.Equal(b, pbPriv64(k)) {
			encMatches++
		}
		if b, err := crypto.MarshalPublicKey(k.Pub); err == nil && bytes.Equal(b, pbPub(k)) {
			encMatches++
		}
		for _, form := range []struct {
			name string
			pb   []byte
		}{{"64", pbPriv64(k)}, {"96", pbPriv96(k)}} {
			ins := []struct {
				name string
				f    func() (crypto.PrivKey, error)
			}{
				{"UnmarshalPrivateKey", func() (crypto.PrivKey, error) { return crypto.UnmarshalPrivateKey(form.pb) }},
				{"UnmarshalEd25519PrivateKey", func() (crypto.PrivKey, error) { return crypto.UnmarshalEd25519PrivateKey(form.pb[4:]) }},
				{"ParsePrivKeyPem", func() (crypto.PrivKey, error) { return keypem.ParsePrivKeyPem(mkPem(privType, form.pb)) }},
				{"ParsePrivateKeyPEM", func() (crypto.PrivKey, error) { return confparse.ParsePrivateKeyPEM(mkPem(privType, form.pb)) }},
				{"ParsePrivateKey(pem)", func() (crypto.PrivKey, error) { return confparse.ParsePrivateKey(string(mkPem(privType, form.pb))) }},
				{"ParsePrivateKey(b58)", func() (crypto.PrivKey, error) { return confparse.ParsePrivateKey(ref.Base58Enc(form.pb)) }},
			}
			for _, in := range ins {
				var x crypto.PrivKey
				var err error
				desc := fmt.Sprintf("%s/ref-%s-byte/%s", k.Name, form.name, in.name)
				if p := enum.Try(func() { x, err = in.f() }); p != nil {
					acc.Case("reference-encoding", desc, true, "panic")
					run.Violation("panic/roundtrip", fmt.Sprintf("%s panicked: %v", desc, p), desc)
					continue
				}
				acc.Case("reference-encoding", desc, true, okStr(checkPriv("reference-encoding", desc, k, x, err)))
			}
		}
		pins := []struct {
			name string
			f    func() (crypto.PubKey, error)
		}{
			{"UnmarshalPublicKey", func() (crypto.PubKey, error) { return crypto.UnmarshalPublicKey(pbPub(k)) }},
			{"ParsePubKeyPem", func() (crypto.PubKey, error) { return keypem.ParsePubKeyPem(mkPem(pubType, pbPub(k))) }},
			{"ParsePublicKeyPEM", func() (crypto.PubKey, error) { return confparse.ParsePublicKeyPEM(mkPem(pubType, pbPub(k))) }},
			{"ParsePublicKey(pem)", func() (crypto.PubKey, error) { return confparse.ParsePublicKey(string(mkPem(pubType, pbPub(k)))) }},
			{"ParsePublicKey(b58)", func() (crypto.PubKey, error) { return confparse.ParsePublicKey(ref.Base58Enc(pbPub(k))) }},
			{"ParsePubKeyPem(96-byte-private)", func() (crypto.PubKey, error) { return keypem.ParsePubKeyPem(mkPem(privType, pbPriv96(k))) }},
		}
		for _, in := range pins {
			var x crypto.PubKey
			var err error
			desc := fmt.Sprintf("%s/ref/%s", k.Name, in.name)
			if p := enum.Try(func() { x, err = in.f() }); p != nil {
				acc.Case("reference-encoding", desc, true, "panic")
				run.Violation("panic/roundtrip", fmt.Sprintf("%s panicked: %v", desc, p), desc)
				continue
			}
			acc.Case("reference-encoding", desc, true, okStr(checkPub("reference-encoding", desc, k, x, err)))
		}
	}
	run.Cov["marshalled_equal_reference_encoding"] = fmt.Sprintf("%d of %d", encMatches, 2*len(fix))

	// ---- 96-byte form: redundant public half ------------------------------
	var subVals []byte
	if run.Quick() {
		subVals = []byte{0x00, 0x01, 0x7f, 0x80, 0xff}
	}
	for _, k := range fix {
		raw96 := append(append([]byte{}, k.Std...), k.pubRaw...)
		try96 := func(group, desc string, raw []byte, mustReject bool) {
			for _, via := range []string{"raw", "protobuf"} {
				var x crypto.PrivKey
				var err error
				d := fmt.Sprintf("%s/%s/%s", k.Name, via, desc)
				p := enum.Try(func() {
					if via == "raw" {
						x, err = crypto.UnmarshalEd25519PrivateKey(raw)
					} else {
						x, err = crypto.UnmarshalPrivateKey(append([]byte{0x08, 0x01, 0x12, byte(len(raw))}, raw...))
					}
				})
				switch {
				case p != nil:
					acc.Case(group, d, true, "panic")
					run.Violation("panic/private-key-96", fmt.Sprintf("%s panicked: %v", d, p), d)
				case err == nil && x != nil:
					acc.Case(group, d, true, "key")
					if mustReject {
						run.Violation("accepts-mismatched-redundant-public-key", "a 96-byte private key whose trailing public key differs from bytes 32..63 was accepted: "+d, map[string]any{"case": d, "raw": fmt.Sprintf("%x", raw)})
					}
				case err != nil && x == nil:
					acc.Case(group, d, true, "error")
				default:
					acc.Case(group, d, true, "neither-or-both")
					run.Violation("not-key-xor-error/private-key-96", fmt.Sprintf("%s returned key=%v err=%v", d, x != nil, err), d)
				}
			}
		}
		for i := 32; i < 96; i++ {
			half := "embedded-public"
			if i >= 64 {
				half = "redundant-public"
			}
			enum.ByteSubst(raw96[i:i+1], subVals, func(mu enum.Mut) {
				r := append([]byte{}, raw96...)
				r[i] = mu.Data[0]
				try96("mismatch-96", fmt.Sprintf("%s[%d]=%02x", half, i, r[i]), r, true)
			})
		}
		for i := 32; i < 64; i++ {
			r := append([]byte{}, raw96...)
			r[i] ^= 0x01
			r[i+32] ^= 0x01
			try96("consistent-change-96(recorded)", fmt.Sprintf("both-halves[%d]^01", i), r, false)
		}
		for i := 0; i < 32; i++ {
			r := append([]byte{}, raw96...)
			r[i] ^= 0x01
			try96("seed-change-96(recorded)", fmt.Sprintf("seed[%d]^01", i), r, false)
		}
	}
	acc.Sample(map[string]any{"group": "mismatch-96", "example": "k1/raw/redundant-public[64]=00: 64-byte key followed by its public key with the first byte replaced, must be rejected"})

	// ---- totality: every parser on every enumerated input -----------------
	parsers := []parser{
		{"crypto.UnmarshalPrivateKey", "pbpriv", func(in []byte) result { k, e := crypto.UnmarshalPrivateKey(in); return result{priv: k, err: e} }},
		{"crypto.UnmarshalPublicKey", "pbpub", func(in []byte) result { k, e := crypto.UnmarshalPublicKey(in); return result{pub: k, err: e} }},
		{"crypto.UnmarshalEd25519PrivateKey", "rawpriv", func(in []byte) result {
			k, e := crypto.UnmarshalEd25519PrivateKey(in)
			return result{priv: k, err: e}
		}},
		{"crypto.UnmarshalEd25519PublicKey", "rawpub", func(in []byte) result {
			k, e := crypto.UnmarshalEd25519PublicKey(in)
			return result{pub: k, err: e}
		}},
		{"keypem.ParsePrivKeyPem", "pempriv", func(in []byte) result { k, e := keypem.ParsePrivKeyPem(in); return result{priv: k, err: e} }},
		{"keypem.ParsePubKeyPem", "pempub", func(in []byte) result { k, e := keypem.ParsePubKeyPem(in); return result{pub: k, err: e} }},
		{"keypem.ParseKeyPem", "pempub", func(in []byte) result { a, b, e := keypem.ParseKeyPem(in); return result{priv: a, pub: b, err: e} }},
		{"confparse.ParsePrivateKeyPEM", "pempriv", func(in []byte) result { k, e := confparse.ParsePrivateKeyPEM(in); return result{priv: k, err: e} }},
		{"confparse.ParsePublicKeyPEM", "pempub", func(in []byte) result { k, e := confparse.ParsePublicKeyPEM(in); return result{pub: k, err: e} }},
		{"confparse.ParsePrivateKey", "strpriv", func(in []byte) result { k, e := confparse.ParsePrivateKey(string(in)); return result{priv: k, err: e} }},
		{"confparse.ParsePublicKey", "strpub", func(in []byte) result { k, e := confparse.ParsePublicKey(string(in)); return result{pub: k, err: e} }},
	}
	// reference reading of an input for a parser family: "key" / "err" / "?" (undecided)
	refRead := func(family string, in []byte) string {
		pb := func(priv bool, b []byte) string {
			var err error
			if priv {
				_, err = ref.PrivKeyFromProto(b)
			} else {
				_, err = ref.PubKeyFromProto(b)
			}
			switch {
			case err == ref.ErrUndecided:
				return "?"
			case err != nil:
				return "err"
			}
			return "key"
		}
		pemRead := func(priv bool, b []byte) string {
			blk, _ := pem.Decode(b)
			if blk == nil {
				return "err"
			}
			switch {
			case blk.Type == privType:
				return pb(true, blk.Bytes)
			case blk.Type == pubType && !priv:
				return pb(false, blk.Bytes)
			}
			return "err"
		}
		switch family {
		case "pbpriv":
			return pb(true, in)
		case "pbpub":
			return pb(false, in)
		case "rawpriv":
			if _, err := ref.PrivKeyFromRaw(in); err != nil {
				return "err"
			}
			return "key"
		case "rawpub":
			if len(in) != 32 {
				return "err"
			}
			return "key"
		case "pempriv":
			return pemRead(true, in)
		case "pempub":
			return pemRead(false, in)
		case "strpriv", "strpub":
			s := strings.TrimSpace(string(in))
			if s == "" {
				return "err"
			}
			if strings.HasPrefix(s, "-----BEGIN") {
				return pemRead(family == "strpriv", []byte(s))
			}
			b, err := ref.Base58Dec(s)
			if err != nil {
				return "err"
			}
			return pb(family == "strpriv", b)
		}
		return "?"
	}
	isEmpty := func(p parser, in []byte) bool {
		if strings.HasPrefix(p.family, "str") {
			return strings.TrimSpace(string(in)) == ""
		}
		return len(in) == 0
	}
	offer := func(group, desc string, in []byte) {
		for _, p := range parsers {
			var r result
			key := desc + "@" + p.name
			rp := map[string]any{"case": desc, "parser": p.name, "input_hex": fmt.Sprintf("%x", in), "input": string(in)}
			if pn := enum.Try(func() { r = p.f(in) }); pn != nil {
				acc.Case(group, key, true, p.name+": panic")
				run.Violation("panic/"+p.name, fmt.Sprintf("%s panicked on %s: %v", p.name, desc, pn), rp)
				continue
			}
			hasKey := !nilIface(r.priv) || !nilIface(r.pub)
			want := refRead(p.family, in)
			switch {
			case hasKey && r.err != nil:
				acc.Case(group, key, true, p.name+": key-and-error")
				run.Violation("key-and-error/"+p.name, fmt.Sprintf("%s returned both a key and an error (%v) on %s", p.name, r.err, desc), rp)
			case !hasKey && r.err == nil:
				if isEmpty(p, in) {
					acc.Case(group, key, true, p.name+": nil-nil-on-empty-input(recorded)")
					continue
				}
				acc.Case(group, key, true, p.name+": nil-nil")
				run.Violation("nil-nil/"+p.name, fmt.Sprintf("%s returned neither a key nor an error on non-empty input %s (%d bytes)", p.name, desc, len(in)), rp)
			case hasKey:
				// a returned key must be a usable key
				var uerr error
				pn := enum.Try(func() {
					if !nilIface(r.priv) {
						if _, e := r.priv.Raw(); e != nil {
							uerr = e
						}
						_ = r.priv.Type()
						if !r.priv.Equals(r.priv) {
							uerr = fmt.Errorf("key does not equal itself")
						}
						pk := r.priv.GetPublic()
						if nilIface(pk) {
							uerr = fmt.Errorf("GetPublic returned nil")
						} else if _, e := peer.IDFromPrivateKey(r.priv); e != nil {
							uerr = e
						}
						if sig, e := r.priv.Sign(msg); e != nil {
							uerr = e
						} else if !nilIface(pk) {
							if _, e := pk.Verify(msg, sig); e != nil {
								uerr = e
							}
						}
					}
					if !nilIface(r.pub) {
						if _, e := r.pub.Raw(); e != nil {
							uerr = e
						}
						if !r.pub.Equals(r.pub) {
							uerr = fmt.Errorf("key does not equal itself")
						}
						if _, e := peer.IDFromPublicKey(r.pub); e != nil {
							uerr = e
						}
						if _, e := crypto.MarshalPublicKey(r.pub); e != nil {
							uerr = e
						}
						// verifying must work (the verdict itself is not judged here)
						if _, e := r.pub.Verify(msg, make([]byte, ed25519.SignatureSize)); e != nil {
							uerr = e
						}
					}
				})
				if pn != nil || uerr != nil {
					acc.Case(group, key, true, p.name+": unusable-key")
					run.Violation("unusable-key/"+p.name, fmt.Sprintf("%s returned a key for %s that cannot be used: panic=%v err=%v", p.name, desc, pn, uerr), rp)
					continue
				}
				acc.Case(group, key, true, p.name+": key (reference: "+want+")")
			default:
				acc.Case(group, key, true, p.name+": error (reference: "+want+")")
			}
		}
	}

	type input struct {
		group, desc string
		data        []byte
	}
	var inputs []input
	add := func(group, desc string, b []byte) { inputs = append(inputs, input{group, desc, b}) }
	mutAll := func(group, base string, valid []byte, substVals, extVals []byte) {
		add(group, base+"/valid", valid)
		enum.ByteSubst(valid, substVals, func(mu enum.Mut) { add(group, base+"/"+mu.Desc, mu.Data) })
		enum.Truncations(valid, func(mu enum.Mut) { add(group, base+"/"+mu.Desc, mu.Data) })
		enum.Extensions(valid, extVals, func(mu enum.Mut) { add(group, base+"/"+mu.Desc, mu.Data) })
	}
	textChars := []byte("123456789ABCDEFGHJKLMNPQRSTUVWXYZabcdefghijkmnopqrstuvwxyz0OIl +/-_=.\n\t\x00\x7f\x80\xff")
	nHeavy := 1
	if !run.Quick() {
		nHeavy = len(fix)
	}
	for _, k := range fix[:nHeavy] {
		privPB, _ := crypto.MarshalPrivateKey(k.Priv)
		pubPB, _ := crypto.MarshalPublicKey(k.Pub)
		privPEM, _ := keypem.MarshalPrivKeyPem(k.Priv)
		pubPEM, _ := keypem.MarshalPubKeyPem(k.Pub)
		privB58, _ := confparse.MarshalPrivateKey(k.Priv)
		pubB58, _ := confparse.MarshalPublicKey(k.Pub)
		if len(privPB) == 0 || len(pubPB) == 0 || len(privPEM) == 0 || len(pubPEM) == 0 || privB58 == "" || pubB58 == "" {
			evid.Fatal("cannot produce the valid encodings of %s to mutate", k.Name)
		}
		n := k.Name
		mutAll("pb-private", n+"/pb-private", privPB, nil, nil)
		mutAll("pb-private-96", n+"/pb-private-96", pbPriv96(k), nil, nil)
		mutAll("pb-public", n+"/pb-public", pubPB, nil, nil)
		mutAll("pem-private", n+"/pem-private", privPEM, nil, nil)
		mutAll("pem-public", n+"/pem-public", pubPEM, nil, nil)
		mutAll("b58-private", n+"/b58-private", []byte(privB58), textChars, textChars)
		mutAll("b58-public", n+"/b58-public", []byte(pubB58), textChars, textChars)
		mutAll("raw-private", n+"/raw-private-64", k.Std, []byte{0x00, 0xff}, []byte{0x00})
		mutAll("raw-public", n+"/raw-public", k.pubRaw, []byte{0x00, 0xff}, []byte{0x00})

		// PEM / text variants
		cat := func(parts ...[]byte) []byte { return bytes.Join(parts, nil) }
		b64priv := []byte(crypto.ConfigEncodeKey(privPB))
		vs := []struct {
			d string
			b []byte
		}{
			{"private-bytes-typed-public", mkPem(pubType, privPB)},
			{"public-bytes-typed-private", mkPem(privType, pubPB)},
			{"type-PRIVATE-KEY", mkPem("PRIVATE KEY", privPB)},
			{"type-ED25519-PRIVATE-KEY", mkPem("ED25519 PRIVATE KEY", privPB)},
			{"type-lowercase", mkPem(strings.ToLower(privType), privPB)},
			{"type-empty", mkPem("", privPB)},
			{"type-trailing-space", []byte(strings.Replace(string(privPEM), privType+"-----\n", privType+" -----\n", 1))},
			{"empty-private-block", mkPem(privType, nil)},
			{"empty-public-block", mkPem(pubType, nil)},
			{"private-with-header", pem.EncodeToMemory(&pem.Block{Type: privType, Headers: map[string]string{"Proc-Type": "4,ENCRYPTED"}, Bytes: privPB})},
			{"leading-garbage-line", cat([]byte("garbage\n"), privPEM)},
			{"leading-garbage-no-newline", cat([]byte("garbage"), privPEM)},
			{"trailing-garbage", cat(privPEM, []byte("garbage"))},
			{"leading-whitespace", cat([]byte(" \n\t"), privPEM)},
			{"trailing-whitespace", cat(privPEM, []byte(" \n\t"))},
			{"crlf", []byte(strings.ReplaceAll(string(privPEM), "\n", "\r\n"))},
			{"no-final-newline", bytes.TrimRight(privPEM, "\n")},
			{"private-then-public", cat(privPEM, pubPEM)},
			{"public-then-private", cat(pubPEM, privPEM)},
			{"begin-line-only", []byte("-----BEGIN " + privType + "-----\n")},
			{"begin-marker-only", []byte("-----BEGIN")},
			{"begin-end-mismatch", []byte(strings.Replace(string(privPEM), "END "+privType, "END "+pubType, 1))},
			{"public-leading-whitespace", cat([]byte("\n  "), pubPEM)},
			{"public-crlf", []byte(strings.ReplaceAll(string(pubPEM), "\n", "\r\n"))},
			{"b58-private-padded", []byte("  " + privB58 + "\n")},
			{"b58-public-padded", []byte("\t" + pubB58 + " ")},
			{"b58-private-doubled", []byte(privB58 + privB58)},
			{"b58-inner-space", []byte(privB58[:10] + " " + privB58[10:])},
			{"base64-of-private", b64priv},
			{"hex-of-private", []byte(fmt.Sprintf("%x", privPB))},
			{"hex-of-public", []byte(fmt.Sprintf("%x", pubPB))},
			{"peer-id-text", []byte(k.ID.String())},
			{"b58-of-raw-private", []byte(ref.Base58Enc(k.Std))},
			{"b58-of-raw-public", []byte(ref.Base58Enc(k.pubRaw))},
			{"b58-of-96-byte-private", []byte(ref.Base58Enc(pbPriv96(k)))},
		}
		for _, v := range vs {
			add("variants", n+"/"+v.d, v.b)
		}
		// protobuf-level variants
		for _, kt := range []byte{0, 2, 3, 4, 0x7f} {
			add("variants", fmt.Sprintf("%s/pb-private-key-type-%d", n, kt), append([]byte{0x08, kt, 0x12, 0x40}, k.Std...))
			add("variants", fmt.Sprintf("%s/pb-public-key-type-%d", n, kt), append([]byte{0x08, kt, 0x12, 0x20}, k.pubRaw...))
		}
		for _, l := range []int{0, 1, 31, 32, 33, 63, 65, 95, 97, 127} {
			d := make([]byte, l)
			copy(d, append(append([]byte{}, k.Std...), k.pubRaw...))
			add("variants", fmt.Sprintf("%s/pb-private-data-len-%d", n, l), append([]byte{0x08, 0x01, 0x12, byte(l)}, d...))
			add("variants", fmt.Sprintf("%s/pb-public-data-len-%d", n, l), append([]byte{0x08, 0x01, 0x12, byte(l)}, d...))
		}
		add("variants", n+"/pb-private-no-type", append([]byte{0x12, 0x40}, k.Std...))
		add("variants", n+"/pb-private-fields-swapped", append(append([]byte{0x12, 0x40}, k.Std...), 0x08, 0x01))
		add("variants", n+"/pb-private-unknown-field", append(append([]byte{}, privPB...), 0x18, 0x05))
	}
	alpha := []byte{0x00, 0x01, 0x08, 0x12, 0x20, 0x40, 0x7f, 0x80, 0xff}
	enum.Strings(alpha, 3, func(s []byte) { add("short", fmt.Sprintf("%x", s), append([]byte{}, s...)) })
	for _, s := range []string{" ", "\n", " \n\t ", "x", "0OIl", "hello world", "-", "-----", "-----BEGIN-----", "-----END " + privType + "-----\n"} {
		add("short-text", fmt.Sprintf("%q", s), []byte(s))
	}
	for l := 0; l <= 100; l++ {
		add("zeros", fmt.Sprintf("len-%d", l), make([]byte, l))
	}
	run.Cov["inputs"] = len(inputs)
	// the short inputs go first and serially, so that the counterexample kept
	// for a violation class is the smallest one and the same on every run
	var heavyIn, lightIn []input
	for _, in := range inputs {
		switch in.group {
		case "short", "short-text", "zeros", "variants":
			lightIn = append(lightIn, in)
		default:
			heavyIn = append(heavyIn, in)
		}
	}
	sort.SliceStable(lightIn, func(i, j int) bool { return len(lightIn[i].data) < len(lightIn[j].data) })
	for _, in := range lightIn {
		offer(in.group, in.desc, in.data)
	}
	enum.Par(len(heavyIn), 16, func(i int) {
		if run.Expired() {
			acc.Capped()
			return
		}
		offer(heavyIn[i].group, heavyIn[i].desc, heavyIn[i].data)
	})
	acc.Sample(map[string]any{"group": "short", "example": "input 00 (one byte) offered to keypem.ParsePrivKeyPem: not a PEM block"})
	acc.Sample(map[string]any{"group": "pem-private", "example": "k1/pem-private/trunc[100]: a private key PEM cut after 100 bytes, offered to all 11 parsers"})

	// ---- PublicKeyFromProto on message values -----------------------------
	for _, kt := range []int32{0, 1, 2, 3, -1, 1<<31 - 1} {
		for _, l := range []int{-1, 0, 31, 32, 33, 64} {
			var m *crypto.PublicKey
			desc := fmt.Sprintf("key-type=%d/data-len=%d", kt, l)
			if l >= 0 {
				m = &crypto.PublicKey{KeyType: crypto.KeyType(kt), Data: make([]byte, l)}
			} else if kt != 0 {
				continue
			} else {
				desc = "nil-message"
			}
			var k crypto.PubKey
			var err error
			if pn := enum.Try(func() { k, err = crypto.PublicKeyFromProto(m) }); pn != nil {
				acc.Case("proto-message", desc, true, "panic")
				run.Violation("panic/crypto.PublicKeyFromProto", fmt.Sprintf("PublicKeyFromProto panicked on %s: %v", desc, pn), desc)
				continue
			}
			switch {
			case k != nil && err == nil:
				acc.Case("proto-message", desc, true, "key")
				if kt != 1 || l != 32 {
					run.Violation("accepts-non-ed25519-message", "PublicKeyFromProto returned a key for "+desc, desc)
				}
			case k == nil && err != nil:
				acc.Case("proto-message", desc, true, "error")
			default:
				acc.Case("proto-message", desc, true, "neither-or-both")
				run.Violation("not-key-xor-error/crypto.PublicKeyFromProto", fmt.Sprintf("PublicKeyFromProto(%s) returned key=%v err=%v", desc, k != nil, err), desc)
			}
		}
	}

	// ---- std-key conversion on non-keys -----------------------------------
	ec := &ecdsa.PrivateKey{PublicKey: ecdsa.PublicKey{Curve: elliptic.P256()}}
	for _, c := range []struct {
		name string
		v    stdcrypto.PrivateKey
	}{{"nil", nil}, {"ecdsa", ec}, {"string", "not a key"}, {"byte-slice", []byte{1, 2, 3}}} {
		var a crypto.PrivKey
		var b crypto.PubKey
		var err error
		if pn := enum.Try(func() { a, b, err = crypto.KeyPairFromStdKey(c.v) }); pn != nil {
			acc.Case("std-non-key", c.name, true, "panic")
			run.Violation("panic/crypto.KeyPairFromStdKey", fmt.Sprintf("KeyPairFromStdKey(%s) panicked: %v", c.name, pn), c.name)
			continue
		}
		if (a != nil || b != nil) == (err != nil) || (a == nil) != (b == nil) {
			acc.Case("std-non-key", c.name, true, "neither-or-both")
			run.Violation("not-key-xor-error/crypto.KeyPairFromStdKey", fmt.Sprintf("KeyPairFromStdKey(%s) returned priv=%v pub=%v err=%v", c.name, a != nil, b != nil, err), c.name)
			continue
		}
		acc.Case("std-non-key", c.name, true, map[bool]string{true: "error", false: "key"}[err != nil])
	}
	for _, c := range []string{"PrivKeyToStdKey(nil)", "PubKeyToStdKey(nil)"} {
		var v any
		var err error
		if pn := enum.Try(func() {
			if c[1] == 'r' {
				v, err = crypto.PrivKeyToStdKey(nil)
			} else {
				v, err = crypto.PubKeyToStdKey(nil)
			}
		}); pn != nil {
			acc.Case("std-non-key", c, true, "panic")
			run.Violation("panic/crypto.ToStdKey", fmt.Sprintf("%s panicked: %v", c, pn), c)
			continue
		}
		if (v != nil) == (err != nil) {
			run.Violation("not-key-xor-error/crypto.ToStdKey", fmt.Sprintf("%s returned value=%v err=%v", c, v != nil, err), c)
		}
		acc.Case("std-non-key", c, true, map[bool]string{true: "error", false: "key"}[err != nil])
	}
	// recorded only: ed25519.PrivateKey values of a wrong length are malformed Go
	// values rather than encodings; the standard library panics on them as well.
	for _, l := range []int{0, 31, 32, 63, 65} {
		out := "error"
		pn := enum.Try(func() {
			a, _, err := crypto.KeyPairFromStdKey(ed25519.PrivateKey(make([]byte, l)))
			if err == nil && a != nil {
				out = "key"
			}
		})
		if pn != nil {
			out = "panic"
		}
		acc.Case("std-wrong-length(recorded)", fmt.Sprintf("len-%d", l), true, out)
	}

	acc.Finish()
	run.Cov["alphabet"] = map[string]any{"short_string_bytes": fmt.Sprintf("%x", alpha), "text_chars": len(textChars), "parsers": len(parsers), "private_codecs": len(privCodecs), "public_codecs": len(pubCodecs)}
	run.Assumptions = append(run.Assumptions,
		"crypto/ed25519, encoding/pem and the reference readers in harness/ref are correct",
		"(nil, nil) on empty input (after TrimSpace for the confparse string parsers) is the documented 'nothing specified' answer and is recorded, not judged; on non-empty input it is a violation of 'either returns a key or an error'",
		"which mutated inputs a parser accepts is compared with the reference reader only in the recorded outcome classes; the property demands totality, not a particular accept set",
		"a 64-byte private key whose public half does not belong to its seed is accepted by design (no derivation on load) and recorded only",
		"inputs outside the deviation-1 ball around the valid encodings, the variant menu and the short strings are not covered")
	run.Finish(t)
}
