// Package dfake holds the boring controllerbus fakes shared by the C30 and C34
// harnesses: a directive.Instance that only carries a directive and records
// the references added to it, and a directive.ResolverHandler that records the
// values a resolver emits. Neither runs any bus logic.
package dfake

import (
	"context"
	"sync"

	"github.com/aperturerobotics/controllerbus/directive"
)

// Instance is a directive.Instance carrying Dir.
type Instance struct {
	Ctx context.Context
	Dir directive.Directive

	mu   sync.Mutex
	refs []directive.ReferenceHandler
	disp []func()
}

// NewInstance builds a fake instance for dir.
func NewInstance(ctx context.Context, dir directive.Directive) *Instance {
	return &Instance{Ctx: ctx, Dir: dir}
}

func (i *Instance) GetContext() context.Context        { return i.Ctx }
func (i *Instance) GetDirective() directive.Directive  { return i.Dir }
func (i *Instance) GetDirectiveIdent() string          { return i.Dir.GetName() }
func (i *Instance) GetResolverErrors() []error         { return nil }
func (i *Instance) CloseIfUnreferenced(incl bool) bool { return false }
func (i *Instance) Close()                             {}

type ref struct{}

func (ref) Release() {}

// AddReference records the handler; the harness feeds it values with Emit.
func (i *Instance) AddReference(cb directive.ReferenceHandler, weak bool) directive.Reference {
	i.mu.Lock()
	i.refs = append(i.refs, cb)
	i.mu.Unlock()
	return ref{}
}

func (i *Instance) AddDisposeCallback(cb func()) func() {
	i.mu.Lock()
	i.disp = append(i.disp, cb)
	i.mu.Unlock()
	return func() {}
}

func (i *Instance) AddIdleCallback(cb directive.IdleCallback) func()   { return func() {} }
func (i *Instance) AddStateCallback(cb directive.StateCallback) func() { return func() {} }

// Refs returns the number of reference handlers attached so far.
func (i *Instance) Refs() int { i.mu.Lock(); defer i.mu.Unlock(); return len(i.refs) }

// Emit delivers a value to every reference handler (as the bus would when a
// resolver adds a value to the directive).
func (i *Instance) Emit(id uint32, v directive.Value) {
	i.mu.Lock()
	refs := append([]directive.ReferenceHandler{}, i.refs...)
	i.mu.Unlock()
	av := directive.NewAttachedValue(id, v)
	for _, r := range refs {
		r.HandleValueAdded(i, av)
	}
}

var _ directive.Instance = (*Instance)(nil)

// Handler is a directive.ResolverHandler that records emitted values.
type Handler struct {
	mu   sync.Mutex
	next uint32
	vals map[uint32]directive.Value
	Idle bool
}

// NewHandler builds a recording resolver handler.
func NewHandler() *Handler { return &Handler{vals: map[uint32]directive.Value{}} }

func (h *Handler) AddValue(v directive.Value) (uint32, bool) {
	h.mu.Lock()
	defer h.mu.Unlock()
	h.next++
	h.vals[h.next] = v
	return h.next, true
}

func (h *Handler) RemoveValue(id uint32) (directive.Value, bool) {
	h.mu.Lock()
	defer h.mu.Unlock()
	v, ok := h.vals[id]
	delete(h.vals, id)
	return v, ok
}

func (h *Handler) CountValues(all bool) int { h.mu.Lock(); defer h.mu.Unlock(); return len(h.vals) }

func (h *Handler) ClearValues() []uint32 {
	h.mu.Lock()
	defer h.mu.Unlock()
	var ids []uint32
	for id := range h.vals {
		ids = append(ids, id)
	}
	h.vals = map[uint32]directive.Value{}
	return ids
}

func (h *Handler) MarkIdle(idle bool) { h.mu.Lock(); h.Idle = idle; h.mu.Unlock() }

func (h *Handler) AddValueRemovedCallback(id uint32, cb func()) func() { return func() {} }
func (h *Handler) AddResolverRemovedCallback(cb func()) func()         { return func() {} }
func (h *Handler) AddResolver(res directive.Resolver, cb func()) func() {
	return func() {}
}

// Values returns the recorded values in emission order.
func (h *Handler) Values() []directive.Value {
	h.mu.Lock()
	defer h.mu.Unlock()
	var out []directive.Value
	for id := uint32(1); id <= h.next; id++ {
		if v, ok := h.vals[id]; ok {
			out = append(out, v)
		}
	}
	return out
}

var _ directive.ResolverHandler = (*Handler)(nil)
