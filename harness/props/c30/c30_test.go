package c30

import (
	"bytes"
	"context"
	"errors"
	"fmt"
	"io"
	"strconv"
	"strings"
	"sync"
	"testing"
	"testing/synctest"

	"github.com/aperturerobotics/bifrost/link"
	link_solicit "github.com/aperturerobotics/bifrost/link/solicit"
	link_solicit_controller "github.com/aperturerobotics/bifrost/link/solicit/controller"
	"github.com/aperturerobotics/bifrost/peer"
	"github.com/aperturerobotics/bifrost/protocol"
	"github.com/aperturerobotics/controllerbus/directive"
	cdc "github.com/aperturerobotics/controllerbus/directive/controller"
	"github.com/sirupsen/logrus"

	"verifh/enum"
	"verifh/evid"
	"verifh/fakes"
	"verifh/props/c30/dfake"
)

// pc is a (protocol ID, context) value of a solicitation.
type pc struct {
	p   protocol.ID
	ctx []byte
}

func (x pc) String() string {
	c := "nil"
	if x.ctx != nil {
		c = strconv.Quote(string(x.ctx))
	}
	return "(" + strconv.Quote(string(x.p)) + "," + c + ")"
}

// same is the reference: identical protocol ID and identical context bytes.
func same(a, b pc) bool { return a.p == b.p && bytes.Equal(a.ctx, b.ctx) }

// classify names how two different values relate (stable violation key part).
func classify(a, b pc) string {
	if string(a.p)+string(a.ctx) == string(b.p)+string(b.ctx) {
		return "same-concatenation"
	}
	return "different-bytes"
}

// the 12 values: every split of "abc", every split of "ab", both splits of
// "a\x00b" around the NUL, a trailing-NUL variant, and nil vs empty context.
var values = []pc{
	{"ab", []byte("c")},
	{"a", []byte("bc")},
	{"abc", []byte{}},
	{"", []byte("abc")},
	{"a", []byte("b")},
	{"ab", nil},
	{"", []byte("ab")},
	{"a", []byte("b\x00")},
	{"a\x00", []byte("b")},
	{"a", []byte("\x00b")},
	{"a", []byte{}},
	{"a", nil},
}

// long protocol IDs: the boundary between protocol ID and context moves by
// 127, 128, 255, 256 and 512 bytes while the concatenation stays the same
// (length prefixes that wrap or truncate would make these collide).
func init() {
	for _, n := range []int{127, 128, 255, 256, 512} {
		x := strings.Repeat("0123456789abcdef", n/16+1)[:n]
		values = append(values, pc{protocol.ID("dex" + x), []byte("bucket")}, pc{"dex", []byte(x + "bucket")})
	}
}

// ---------------------------------------------------------------------------
// two-node harness: two real solicitation controllers joined by a fake link
// ---------------------------------------------------------------------------

// half is one direction of an in-memory byte pipe with an unbounded buffer.
type half struct {
	mu     sync.Mutex
	cond   *sync.Cond
	data   []byte
	closed bool
}

func newHalf() *half { h := &half{}; h.cond = sync.NewCond(&h.mu); return h }

func (h *half) read(b []byte) (int, error) {
	h.mu.Lock()
	defer h.mu.Unlock()
	for len(h.data) == 0 && !h.closed {
		h.cond.Wait()
	}
	if len(h.data) == 0 {
		return 0, io.EOF
	}
	n := copy(b, h.data)
	h.data = h.data[n:]
	return n, nil
}

func (h *half) write(b []byte) (int, error) {
	h.mu.Lock()
	defer h.mu.Unlock()
	if h.closed {
		return 0, io.ErrClosedPipe
	}
	h.data = append(h.data, b...)
	h.cond.Broadcast()
	return len(b), nil
}

func (h *half) close() { h.mu.Lock(); h.closed = true; h.cond.Broadcast(); h.mu.Unlock() }

// newPipe returns the two ends of a bidirectional stream.
func newPipe(name string) (*fakes.Stream, *fakes.Stream) {
	ab, ba := newHalf(), newHalf()
	closeBoth := func() { ab.close(); ba.close() }
	a := &fakes.Stream{Name: name + "/a", ReadFn: ba.read, WriteFn: ab.write, OnClose: closeBoth}
	b := &fakes.Stream{Name: name + "/b", ReadFn: ab.read, WriteFn: ba.write, OnClose: closeBoth}
	return a, b
}

// sol is one SolicitProtocol directive placed on a node.
type sol struct {
	v         pc
	peer      peer.ID
	transport uint64
	h         *dfake.Handler
	cancel    context.CancelFunc
}

type node struct {
	name string
	id   peer.ID
	tpt  uint64
	ctrl *link_solicit_controller.Controller
	lnk  *fakes.MountedLink
	sols []*sol
}

type world struct {
	ctx     context.Context
	a, b    *node
	mu      sync.Mutex
	streams []*fakes.Stream
	opened  []string
}

// open models the link layer: the opener gets one end; the other end is
// announced to the remote node with a HandleMountedStream directive and handed
// to the handler its controller resolves, or refused if there is none.
func (w *world) open(from, to *node, pid protocol.ID) (link.MountedStream, error) {
	x, y := newPipe(string(pid))
	w.mu.Lock()
	w.streams = append(w.streams, x, y)
	w.opened = append(w.opened, from.name+">"+string(pid))
	w.mu.Unlock()
	local := &fakes.MountedStream{Strm: x, Proto: pid, Peer: to.id, Link: from.lnk}
	remote := &fakes.MountedStream{Strm: y, Proto: pid, Peer: from.id, Link: to.lnk}
	di := dfake.NewInstance(w.ctx, link.NewHandleMountedStream(pid, to.id, from.id))
	rs, err := to.ctrl.HandleDirective(w.ctx, di)
	if err != nil || len(rs) == 0 {
		x.Close()
		return nil, errors.New("fake link: no handler for " + string(pid))
	}
	rec := dfake.NewHandler()
	for _, r := range rs {
		if err := r.Resolve(w.ctx, rec); err != nil {
			x.Close()
			return nil, err
		}
	}
	vals := rec.Values()
	if len(vals) == 0 {
		x.Close()
		return nil, errors.New("fake link: resolver emitted no handler")
	}
	msh, ok := vals[0].(link.MountedStreamHandler)
	if !ok {
		evid.Fatal("unexpected handler value type %T", vals[0])
	}
	if err := msh.HandleMountedStream(w.ctx, remote); err != nil {
		x.Close()
		return nil, err
	}
	return local, nil
}

func newWorld(ctx context.Context, le *logrus.Entry, idA, idB peer.ID) *world {
	w := &world{ctx: ctx}
	mk := func(name string, id peer.ID, tpt uint64) *node {
		c, err := link_solicit_controller.NewController(le, &link_solicit_controller.Config{})
		if err != nil {
			evid.Fatal("NewController: %v", err)
		}
		if err := c.Execute(ctx); err != nil {
			evid.Fatal("Execute: %v", err)
		}
		return &node{name: name, id: id, tpt: tpt, ctrl: c}
	}
	w.a, w.b = mk("A", idA, 100), mk("B", idB, 200)
	w.a.lnk = &fakes.MountedLink{UUID: 11, TptUUID: w.a.tpt, RemoteTptUUID: w.b.tpt, Local: idA, Remote: idB,
		OpenFn: func(_ context.Context, pid protocol.ID) (link.MountedStream, error) { return w.open(w.a, w.b, pid) }}
	w.b.lnk = &fakes.MountedLink{UUID: 22, TptUUID: w.b.tpt, RemoteTptUUID: w.a.tpt, Local: idB, Remote: idA,
		OpenFn: func(_ context.Context, pid protocol.ID) (link.MountedStream, error) { return w.open(w.b, w.a, pid) }}
	return w
}

// addLinks tells both controllers about the link the way the bus would: an
// EstablishLinkWithPeer directive whose value is the mounted link.
func (w *world) addLinks() {
	for _, n := range []*node{w.a, w.b} {
		di := dfake.NewInstance(w.ctx, link.NewEstablishLinkWithPeer(n.lnk.Local, n.lnk.Remote))
		if _, err := n.ctrl.HandleDirective(w.ctx, di); err != nil {
			evid.Fatal("HandleDirective(EstablishLinkWithPeer): %v", err)
		}
		if di.Refs() == 0 {
			evid.Fatal("solicit controller did not watch EstablishLinkWithPeer")
		}
		di.Emit(1, n.lnk)
	}
}

// addSols places the nodes' SolicitProtocol directives.
func (w *world) addSols() {
	for _, n := range []*node{w.a, w.b} {
		for _, s := range n.sols {
			s.h = dfake.NewHandler()
			dir := link_solicit.NewSolicitProtocol(s.v.p, s.v.ctx, s.peer, s.transport)
			sctx, cancel := context.WithCancel(w.ctx)
			s.cancel = cancel
			di := dfake.NewInstance(sctx, dir)
			rs, err := n.ctrl.HandleDirective(sctx, di)
			if err != nil || len(rs) == 0 {
				evid.Fatal("HandleDirective(SolicitProtocol): %v, %d resolvers", err, len(rs))
			}
			for _, r := range rs {
				go func() { _ = r.Resolve(sctx, s.h) }()
			}
		}
	}
}

func (w *world) closeStreams() {
	w.mu.Lock()
	defer w.mu.Unlock()
	for _, s := range w.streams {
		s.Close()
	}
}

// scenario is one two-node case.
type scenario struct {
	lowerIsA   bool
	linksFirst bool
	a, b       []sol
}

// runScenario executes the case inside a synctest bubble (quiescence = every
// goroutine of both controllers durably blocked) and returns, per directive,
// how many SolicitMountedStream values it received.
func runScenario(t *testing.T, le *logrus.Entry, lo, hi peer.ID, sc scenario) (ra, rb []int, opened []string) {
	synctest.Test(t, func(t *testing.T) {
		ctx, cancel := context.WithCancel(context.Background())
		idA, idB := lo, hi
		if !sc.lowerIsA {
			idA, idB = hi, lo
		}
		w := newWorld(ctx, le, idA, idB)
		for i := range sc.a {
			s := sc.a[i]
			w.a.sols = append(w.a.sols, &s)
		}
		for i := range sc.b {
			s := sc.b[i]
			w.b.sols = append(w.b.sols, &s)
		}
		if sc.linksFirst {
			w.addLinks()
			synctest.Wait()
			w.addSols()
		} else {
			w.addSols()
			synctest.Wait()
			w.addLinks()
		}
		synctest.Wait()
		for _, s := range w.a.sols {
			ra = append(ra, len(s.h.Values()))
		}
		for _, s := range w.b.sols {
			rb = append(rb, len(s.h.Values()))
		}
		w.mu.Lock()
		opened = append(opened, w.opened...)
		w.mu.Unlock()
		cancel()
		synctest.Wait()
		w.closeStreams()
		synctest.Wait()
	})
	return
}

// observeResolicit records (never judges) what happens when both sides release
// a matched solicitation and solicit the identical value again on the same
// link. Histories of adding/removing directives are outside the property's
// quantifier (inputs), so this is reported as an observation only.
func observeResolicit(t *testing.T, le *logrus.Entry, lo, hi peer.ID, v pc) (round1, round2 [2]int) {
	synctest.Test(t, func(t *testing.T) {
		ctx, cancel := context.WithCancel(context.Background())
		w := newWorld(ctx, le, lo, hi)
		w.addLinks()
		w.a.sols, w.b.sols = []*sol{{v: v}}, []*sol{{v: v}}
		w.addSols()
		synctest.Wait()
		round1 = [2]int{len(w.a.sols[0].h.Values()), len(w.b.sols[0].h.Values())}
		w.a.sols[0].cancel()
		w.b.sols[0].cancel()
		synctest.Wait()
		w.a.sols, w.b.sols = []*sol{{v: v}}, []*sol{{v: v}}
		w.addSols()
		synctest.Wait()
		round2 = [2]int{len(w.a.sols[0].h.Values()), len(w.b.sols[0].h.Values())}
		cancel()
		synctest.Wait()
		w.closeStreams()
		synctest.Wait()
	})
	return
}

func TestC30(t *testing.T) {
	run := evid.Start("C30", "exploration")
	acc := enum.NewAcc(run, "hash level: every ordered pair of the 12 (protocol, context) values under each of 3 session ids; list level: ComputeProtocolHashes+FindMatchingHashes on every ordered pair of singleton entry lists; two-node level: two real solicitation controllers joined by a fake link, one SolicitProtocol directive per side (plus two two-directives-on-one-side groups), over (value pair) x (peer constraint in {none, remote, third, self}) x (transport constraint in {0, own transport, other transport}) per side x which side has the lower peer ID x whether links or directives come first; directive level: every ordered pair of SolicitProtocol directives over the values plus separator-split values x 2 peer constraints x 2 transport constraints compared with IsEquivalent, folds confirmed on a real directive controller; non-trivial = the two solicitations are not identical-and-unconstrained; distinct by (group, all parameters)")

	log := logrus.New()
	log.SetOutput(io.Discard)
	le := logrus.NewEntry(log)
	ks := enum.Keys(3)
	// order the two link peers so that "lower" is well defined
	lo, hi, third := ks[0].ID, ks[1].ID, ks[2].ID
	if lo > hi {
		lo, hi = hi, lo
	}

	// ---------- hash level ----------
	sessions := [][]byte{
		link_solicit.ComputeSessionID(lo, hi),
		link_solicit.ComputeSessionID(lo, third),
		link_solicit.ComputeSessionID(hi, third),
	}
	for si, sid := range sessions {
		for i, x := range values {
			for j, y := range values {
				key := fmt.Sprintf("s%d/%s|%s", si, x, y)
				var hx, hy []byte
				if p := enum.Try(func() {
					hx = link_solicit.ComputeProtocolHash(sid, x.p, x.ctx)
					hy = link_solicit.ComputeProtocolHash(sid, y.p, y.ctx)
				}); p != nil {
					acc.Case("hash", key, i != j, "panic")
					run.Violation("panic/hash", fmt.Sprintf("ComputeProtocolHash panicked on %s: %v", key, p), key)
					continue
				}
				eq := bytes.Equal(hx, hy)
				out := "hash-differs"
				if eq {
					out = "hash-equal"
				}
				acc.Case("hash", key, i != j, out)
				rep := map[string]any{"session": si, "a": x.String(), "b": y.String()}
				if eq && !same(x, y) {
					run.Violation("hash-collision/"+classify(x, y), fmt.Sprintf("ComputeProtocolHash gives the same hash %x for %s and %s, which differ in protocol ID / context", hx, x, y), rep)
				}
				if !eq && same(x, y) {
					run.Violation("hash-differs-for-identical", fmt.Sprintf("ComputeProtocolHash differs for identical %s and %s", x, y), rep)
				}
				// list level: what each side would advertise and intersect
				var m [][]byte
				if p := enum.Try(func() {
					l := link_solicit.ComputeProtocolHashes(sid, []link_solicit.SolicitEntry{{ProtocolID: x.p, Context: x.ctx}})
					r := link_solicit.ComputeProtocolHashes(sid, []link_solicit.SolicitEntry{{ProtocolID: y.p, Context: y.ctx}})
					m = link_solicit.FindMatchingHashes(l, r)
				}); p != nil {
					run.Violation("panic/hash-lists", fmt.Sprintf("hash list functions panicked on %s: %v", key, p), key)
					continue
				}
				out = "lists-disjoint"
				if len(m) != 0 {
					out = "lists-intersect"
				}
				acc.Case("hash-lists", key, i != j, out)
				if len(m) != 0 && !same(x, y) {
					run.Violation("list-match/"+classify(x, y), fmt.Sprintf("advertised hash lists of %s and %s intersect", x, y), rep)
				}
				if len(m) == 0 && same(x, y) {
					run.Violation("list-no-match-for-identical", fmt.Sprintf("advertised hash lists of identical %s and %s do not intersect", x, y), rep)
				}
			}
		}
	}
	acc.Sample(map[string]any{"group": "hash", "a": values[0].String(), "b": values[1].String(), "expect": "different hashes (same concatenation, different split)"})
	acc.Sample(map[string]any{"group": "hash", "a": values[10].String(), "b": values[11].String(), "expect": "equal hashes (nil and empty context are the same bytes)"})

	// ---------- two-node level ----------
	// directives need a non-empty protocol ID (SolicitProtocol.Validate)
	var dvals []pc
	for _, v := range values {
		if v.p != "" {
			dvals = append(dvals, v)
		}
	}
	type cons struct {
		peer      string // "", "remote", "third", "self"
		transport string // "0", "own", "other"
	}
	allCons := []cons{}
	for _, p := range []string{"", "remote", "third", "self"} {
		for _, tr := range []string{"0", "own", "other"} {
			allCons = append(allCons, cons{p, tr})
		}
	}
	admits := func(c cons) bool {
		return (c.peer == "" || c.peer == "remote") && (c.transport == "0" || c.transport == "own")
	}

	nBubbles := 0
	// exec runs one scenario given per-side (value, constraint) lists and judges it.
	type side struct {
		v pc
		c cons
	}
	exec := func(group string, lowerIsA, linksFirst bool, as, bs []side) {
		if run.Expired() {
			acc.Capped()
			return
		}
		idA, idB := lo, hi
		if !lowerIsA {
			idA, idB = hi, lo
		}
		mk := func(s side, self, remote peer.ID, own, other uint64) sol {
			o := sol{v: s.v}
			switch s.c.peer {
			case "remote":
				o.peer = remote
			case "third":
				o.peer = third
			case "self":
				o.peer = self
			}
			switch s.c.transport {
			case "own":
				o.transport = own
			case "other":
				o.transport = other
			}
			return o
		}
		sc := scenario{lowerIsA: lowerIsA, linksFirst: linksFirst}
		desc := fmt.Sprintf("lowerIsA=%v linksFirst=%v", lowerIsA, linksFirst)
		for _, s := range as {
			sc.a = append(sc.a, mk(s, idA, idB, 100, 200))
			desc += fmt.Sprintf(" A:%s[peer=%s,tpt=%s]", s.v, s.c.peer, s.c.transport)
		}
		for _, s := range bs {
			sc.b = append(sc.b, mk(s, idB, idA, 200, 100))
			desc += fmt.Sprintf(" B:%s[peer=%s,tpt=%s]", s.v, s.c.peer, s.c.transport)
		}
		ra, rb, opened := runScenario(t, le, lo, hi, sc)
		nBubbles++
		// reference: a directive is matched iff its own constraints admit the
		// link and the other side holds an admitted directive with the identical
		// protocol ID and context.
		expect := func(me side, others []side) bool {
			if !admits(me.c) {
				return false
			}
			for _, o := range others {
				if admits(o.c) && same(me.v, o.v) {
					return true
				}
			}
			return false
		}
		trivial := len(as) == 1 && len(bs) == 1 && same(as[0].v, bs[0].v) && as[0].c == (cons{"", "0"}) && bs[0].c == (cons{"", "0"})
		outs := ""
		judge := func(name string, me side, others []side, got int, sibs []side, sibGot []int) {
			want := expect(me, others)
			if want && got == 0 {
				// One stream exists per matched value and link; if a sibling
				// directive with the identical value on the same node obtained
				// it, this solicitation's value was matched (who owns the single
				// stream among identical local directives is C31's subject).
				for i, sb := range sibs {
					if sibGot[i] > 0 && same(sb.v, me.v) && admits(sb.c) {
						outs += name + "=stream-went-to-sibling "
						return
					}
				}
			}
			if got > 0 {
				outs += name + "=matched "
			} else {
				outs += name + "=unmatched "
			}
			rep := map[string]any{"group": group, "scenario": desc, "streams_opened": opened}
			switch {
			case got > 0 && !want:
				k := "matched-unexpectedly/"
				// find why: is there an identical admitted counterpart but own constraint fails?
				switch {
				case !admits(me.c) && (me.c.peer == "third" || me.c.peer == "self"):
					k += "peer-constraint"
				case !admits(me.c):
					k += "transport-constraint"
				default:
					k += "different-value"
					for _, o := range others {
						if same(me.v, o.v) && !admits(o.c) {
							k = "matched-unexpectedly/remote-constraint"
						}
					}
					if k == "matched-unexpectedly/different-value" {
						cl := "different-bytes"
						for _, o := range others {
							if classify(me.v, o.v) == "same-concatenation" {
								cl = "same-concatenation"
							}
						}
						k += "/" + cl
					}
				}
				run.Violation(k, fmt.Sprintf("directive %s on %s received a solicited stream although no admitted directive with the identical protocol ID and context exists on the other side: %s", me.v, name, desc), rep)
			case got == 0 && want:
				run.Violation("not-matched-although-identical", fmt.Sprintf("directive %s on %s received no stream although the other side solicits the identical protocol ID and context and all constraints admit the link: %s", me.v, name, desc), rep)
			}
		}
		for i, s := range as {
			judge(fmt.Sprintf("A%d", i), s, bs, ra[i], as, ra)
		}
		for i, s := range bs {
			judge(fmt.Sprintf("B%d", i), s, as, rb[i], bs, rb)
		}
		acc.Case(group, desc, !trivial, outs)
	}

	none := cons{"", "0"}
	// (1) every value pair, unconstrained, both orientations, both orders
	for _, lowerIsA := range []bool{true, false} {
		for _, linksFirst := range []bool{false, true} {
			for _, x := range dvals {
				for _, y := range dvals {
					exec("two-node/values", lowerIsA, linksFirst, []side{{x, none}}, []side{{y, none}})
				}
			}
		}
	}
	// (2) every constraint combination on both sides; quick: on an identical
	// pair, a same-concatenation pair and an unrelated pair; thorough: on every
	// value pair.
	pairs := [][2]pc{{dvals[0], dvals[0]}, {dvals[0], dvals[1]}, {dvals[0], dvals[3]}}
	orders := []bool{false}
	if !run.Quick() {
		pairs = nil
		for _, x := range dvals {
			for _, y := range dvals {
				pairs = append(pairs, [2]pc{x, y})
			}
		}
		orders = []bool{false, true}
	}
	for _, lowerIsA := range []bool{true, false} {
		for _, linksFirst := range orders {
			for _, pr := range pairs {
				for _, ca := range allCons {
					for _, cb := range allCons {
						if ca == none && cb == none {
							continue // already in (1)
						}
						exec("two-node/constraints", lowerIsA, linksFirst, []side{{pr[0], ca}}, []side{{pr[1], cb}})
					}
				}
			}
		}
	}
	// (3) two different directives on one side, one on the other: the stream
	// must go to the identical one only.
	sub := []pc{dvals[0], dvals[1], dvals[3], dvals[4]}
	for _, lowerIsA := range []bool{true, false} {
		for _, x1 := range sub {
			for _, x2 := range sub {
				if same(x1, x2) {
					continue
				}
				for _, y := range sub {
					exec("two-node/two-local", lowerIsA, false, []side{{x1, none}, {x2, none}}, []side{{y, none}})
				}
			}
		}
	}
	// (4) the same value twice on one side, once unconstrained and once with a
	// constraint: the link is matched through the first; the second may receive
	// the stream only if its own constraints admit the link.
	for _, lowerIsA := range []bool{true, false} {
		for _, linksFirst := range []bool{false, true} {
			for _, c := range allCons {
				if c == none {
					continue
				}
				exec("two-node/two-local-constraints", lowerIsA, linksFirst, []side{{dvals[0], none}, {dvals[0], c}}, []side{{dvals[0], none}})
			}
		}
	}
	// ---------- directive level: lookups the bus would share ----------
	// The bus folds equivalent SolicitProtocol directives of one node into one
	// instance: the second caller then receives every stream matched for the
	// first. Two solicitations that differ in protocol ID or context must
	// therefore never be equivalent - that would match the second one with a
	// remote solicitation naming other fields. Every ordered pair over the
	// values (plus separator-split values) x peer constraint x transport
	// constraint is compared; a pair reported equivalent is confirmed on a real
	// controllerbus directive controller (same instance returned).
	dirVals := append([]pc{}, values...)
	for _, sep := range []string{"/", ":", "|", ",", " ", "-"} {
		dirVals = append(dirVals,
			pc{protocol.ID("dex" + sep + "v1"), []byte("bucket")}, pc{"dex", []byte("v1" + sep + "bucket")},
			pc{protocol.ID("dex" + sep), []byte("v1")}, pc{"dex", []byte(sep + "v1")})
	}
	dc := cdc.NewController(context.Background(), le)
	dirPairs, dirFolded := 0, 0
	for _, x := range dirVals {
		for _, y := range dirVals {
			if x.p == "" || y.p == "" {
				continue
			}
			for _, pe := range []peer.ID{"", lo} {
				for _, tp := range []uint64{0, 7} {
					dirPairs++
					d1 := link_solicit.NewSolicitProtocol(x.p, x.ctx, pe, tp)
					d2 := link_solicit.NewSolicitProtocol(y.p, y.ctx, pe, tp)
					key := fmt.Sprintf("%s|%s/peer=%v/tpt=%d", x, y, pe != "", tp)
					eq, ok := d1.(directive.DirectiveWithEquiv)
					if !ok || !eq.IsEquivalent(d2) {
						acc.Case("directive", key, !same(x, y), "distinct")
						continue
					}
					i1, r1, err1 := dc.AddDirective(d1, nil)
					i2, r2, err2 := dc.AddDirective(d2, nil)
					folded := err1 == nil && err2 == nil && i1 == i2
					if r1 != nil {
						r1.Release()
					}
					if r2 != nil {
						r2.Release()
					}
					if !folded {
						acc.Case("directive", key, !same(x, y), "equivalent-not-folded")
						continue
					}
					acc.Case("directive", key, !same(x, y), "folded")
					if !same(x, y) {
						dirFolded++
						run.Violation("matched-although-different/shared-directive/"+classify(x, y), fmt.Sprintf("SolicitProtocol%s is folded by the bus into the running SolicitProtocol%s of the same node: it receives the streams matched for the other (protocol, context) pair and its own pair is never advertised", y, x), map[string]any{"a": x.String(), "b": y.String()})
					}
				}
			}
		}
	}
	run.Cov["directive_pairs_compared"] = dirPairs
	acc.Sample(map[string]any{"group": "two-node/values", "A": dvals[0].String(), "B": dvals[1].String(), "expect": "neither directive receives a stream"})
	acc.Sample(map[string]any{"group": "two-node/constraints", "A": dvals[0].String() + "[peer=remote,tpt=own]", "B": dvals[0].String() + "[peer=,tpt=other]", "expect": "no match: B's transport constraint excludes the link"})
	acc.Finish()
	r1, r2 := observeResolicit(t, le, lo, hi, dvals[0])
	run.Cov["unjudged_resolicit_same_link"] = map[string]any{"first_round_streams_A_B": r1, "after_release_and_resolicit_streams_A_B": r2}
	run.Cov["two_node_executions"] = nBubbles
	run.Cov["alphabet"] = map[string]any{"values": fmt.Sprint(values), "peer_constraints": []string{"none", "remote", "third", "self"}, "transport_constraints": []string{"0", "own", "other(=remote's transport id)"}}
	run.Assumptions = append(run.Assumptions,
		"the fake link hands an opened stream to the handler that the remote controller resolves for the HandleMountedStream directive (first value), as the link layer does; streams are unbounded in-memory pipes",
		"quiescence is testing/synctest's: every goroutine of both controllers durably blocked; no wall-clock time is involved",
		"nil and empty context are the same context bytes; directives carry a non-empty protocol ID (their Validate); the empty protocol ID is exercised at hash level only",
	)
	run.Finish(t)
}
