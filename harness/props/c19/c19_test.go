package c19

import (
	"context"
	"fmt"
	"strings"
	"testing"
	"time"

	"github.com/aperturerobotics/bifrost/hash"
	"github.com/aperturerobotics/bifrost/peer"
	signaling "github.com/aperturerobotics/bifrost/signaling/rpc"

	"verifh/enum"
	"verifh/evid"
	"verifh/mc"
	"verifh/sigfake"
	"verifh/sigh"
	"verifh/vsync"
)

// The client under test is A; its session partner is B. The relay (and the
// network) is the adversary: after announcing the session open it delivers a
// scripted sequence of messages. Alphabet:
//
//	H honest message from B        T body altered after signing
//	S signature bit flipped        F signed by C, claims B
//	C honestly signed by C (sender C) on B's session
//	X signed by B under another signing context
//	Y hash type field changed      E empty signed message
//	P signed by C, claims B, C's public key attached to the signature object
//	R the signature object and sender of the most recent honest message of the
//	  script (an honest message the relay saw, if there is none) over OTHER data
const alphabet = "HTSFCXYEPR"

// sigCtx is the signing context of signaling session messages (copied from
// signaling/rpc/signaling.go: the forger knows it).
const sigCtx = "bifrost/signaling/rpc session msg 2024-06-05T02:45:07.208906Z"

func craft(s *sigh.S2, kind byte, i int, lastHonest *signaling.SessionMsg) (*signaling.SessionMsg, string) {
	id := fmt.Sprintf("%c%d", kind, i)
	seq := uint64(i + 1)
	switch kind {
	case 'R':
		src := lastHonest
		if src == nil {
			src = s.PartnerMsg("Hx", 77, "B", "B", false, false)
		}
		m := src.CloneVT()
		m.Seqno = seq
		m.SignedMsg.Data = []byte(id)
		return m, id
	case 'H':
		return s.PartnerMsg(id, seq, "B", "B", false, false), id
	case 'T':
		return s.PartnerMsg(id, seq, "B", "B", true, false), id
	case 'S':
		m := s.PartnerMsg(id, seq, "B", "B", false, false)
		m.SignedMsg.Signature.SigData[3] ^= 0x10
		return m, id
	case 'F':
		return s.PartnerMsg(id, seq, "C", "B", false, false), id
	case 'C':
		return s.PartnerMsg(id, seq, "C", "C", false, false), id
	case 'X':
		sm, err := peer.NewSignedMsg("bifrost/pubsub some other context", s.Keys["B"].Priv, hash.HashType_HashType_BLAKE3, []byte(id))
		if err != nil {
			panic(err)
		}
		return &signaling.SessionMsg{SignedMsg: sm, Seqno: seq}, id
	case 'Y':
		m := s.PartnerMsg(id, seq, "B", "B", false, false)
		m.SignedMsg.Signature.HashType = hash.HashType_HashType_SHA256
		return m, id
	case 'E':
		return &signaling.SessionMsg{SignedMsg: &peer.SignedMsg{}, Seqno: seq}, id
	case 'P':
		sig, err := peer.NewSignature(sigCtx, s.Keys["C"].Priv, hash.HashType_HashType_BLAKE3, []byte(id), true)
		if err != nil {
			panic(err)
		}
		return &signaling.SessionMsg{SignedMsg: &peer.SignedMsg{FromPeerId: s.IDs["B"], Data: []byte(id), Signature: sig}, Seqno: seq}, id
	}
	panic("kind")
}

func body(script string) func() {
	return func() {
		s := sigh.NewS2(0, 0)
		next := 0
		var lastHonest *signaling.SessionMsg
		// adversarial relay: on every Init announce Opened and continue the script
		s.Relay.Script = func(r *sigh.RefRelay, req *signaling.SessionRequest) []*signaling.SessionResponse {
			var out []*signaling.SessionResponse
			deliver := func() {
				if next < len(script) {
					m, _ := craft(s, script[next], next, lastHonest)
					if script[next] == 'H' {
						lastHonest = m.CloneVT()
					}
					next++
					out = append(out, &signaling.SessionResponse{Body: &signaling.SessionResponse_RecvMsg{RecvMsg: m}})
				}
			}
			switch req.GetBody().(type) {
			case *signaling.SessionRequest_Init:
				r.Epoch += 2
				out = append(out, &signaling.SessionResponse{Body: &signaling.SessionResponse_Opened{Opened: r.Epoch}})
				deliver()
			case *signaling.SessionRequest_AckMsg:
				deliver()
			}
			return out
		}
		var wg vsync.WaitGroup
		rctx, rcancel := context.WithCancel(s.Ctx)
		wg.Add(1)
		vsync.GoNamed("recvA", func() {
			defer wg.Done()
			for {
				m, err := s.Ref.Recv(rctx)
				if err != nil {
					return
				}
				from := m.GetSignedMsg().GetFromPeerId()
				vsync.LogOrdered("app-recv from=%s data=%s", s.Names[from], string(m.GetSignedMsg().GetData()))
				// wait until the tracker has acked (cleared) it before receiving again
				vsync.Quiesce()
			}
		})
		vsync.Quiesce()
		time.Sleep(10 * time.Second) // back-off after rejected deliveries
		vsync.Quiesce()
		time.Sleep(10 * time.Second)
		vsync.Quiesce()
		rcancel()
		s.Shutdown()
		wg.Wait()
	}
}

// check: every message handed to the application is one of the honest ones of
// the script, unmodified, attributed to B, in script order, at most once.
func check(script string) func(x *vsync.Exec) string {
	return func(x *vsync.Exec) string {
		if x.HorizonHit {
			return ""
		}
		honest := map[string]bool{}
		for i := 0; i < len(script); i++ {
			if script[i] == 'H' {
				honest[fmt.Sprintf("H%d", i)] = true
			}
		}
		seen := map[string]bool{}
		for _, l := range x.Log {
			if !strings.HasPrefix(l, "app-recv ") {
				continue
			}
			var from, data string
			fmt.Sscanf(l, "app-recv from=%s data=%s", &from, &data)
			data = strings.TrimPrefix(data, "data=")
			switch {
			case !honest[data]:
				return fmt.Sprintf("V19:accepted-unauthentic-message kind=%c", data[0])
			case from != "B":
				return "V19:accepted-message-attributed-to-wrong-peer"
			case seen[data]:
				return "V19:message-handed-over-twice"
			}
			seen[data] = true
		}
		return ""
	}
}

func TestC19(t *testing.T) {
	run := evid.Start("C19", "model_checking")
	agg := mc.NewAgg(run)
	depth, bound := 2, 1
	if !run.Quick() {
		depth, bound = 3, 1
	}
	var scripts []string
	enum.Sequences(len(alphabet), depth, func(seq []int) {
		if len(seq) == 0 {
			return
		}
		b := make([]byte, len(seq))
		for i, k := range seq {
			b[i] = alphabet[k]
		}
		scripts = append(scripts, string(b))
	})
	mc.RunScenarios(t, agg, len(scripts), func(i int) *vsync.Config {
		sc := scripts[i]
		return &vsync.Config{Name: "malicious-relay/" + sc, Bound: bound, Delay: true, Deadline: run.Deadline(), MaxStep: 20000, Horizon: 5 * time.Minute,
			Body: body(sc), Check: check(sc)}
	}, func(v *vsync.Violation) string { return strings.Fields(v.What)[0] })
	agg.Finish(true)
	run.Cov["scripts"] = len(scripts)
	run.Cov["script_depth"] = depth
	run.Cov["delay_bound"] = bound
	run.Assumptions = append(run.Assumptions,
		"adversary = relay/network delivering the listed message variants on the client's session with B; cross-destination replay of an honest B->C message is outside the property's stated adversary (the signature does not bind the destination)",
		"real client over instrumented in-memory streams; constant back-off; virtual time")
	run.Finish(t)
}

var _ = sigfake.Ident
