package c26

import (
	"bytes"
	"encoding/hex"
	"encoding/json"
	"fmt"
	"os"
	"os/exec"
	"path/filepath"
	"strings"

	"github.com/aperturerobotics/bifrost/transport/webrtc"

	"verifh/enum"
	"verifh/evid"
)

// Process histories. A signaling peer is a process: what it did before
// (nothing, decoded a signal, encoded a signal) must not decide whether the
// next authentic payload decodes, nor whether what it encodes can be decoded
// elsewhere. Every sequence over {E = encode a signal for another peer, D =
// decode an authentic payload made by another process} of length 0..2 is the
// prefix of a FRESH process (a re-executed test binary); after it the process
// must decode one more authentic payload made elsewhere, and a payload it
// encodes must decode in yet another fresh process.

type procOp struct {
	Op      string `json:"op"` // "enc" or "dec"
	Sig     int    `json:"sig,omitempty"`
	Key     int    `json:"key"`
	Payload string `json:"payload,omitempty"`
}

type procRes struct {
	OK    bool   `json:"ok"`
	Bytes string `json:"bytes"` // enc: payload; dec: the decoded signal, marshalled
	Err   string `json:"err,omitempty"`
}

func procSignals() []*webrtc.WebRtcSignal {
	return []*webrtc.WebRtcSignal{
		{Body: &webrtc.WebRtcSignal_RequestOffer{RequestOffer: 7}},
		{Body: &webrtc.WebRtcSignal_Sdp{Sdp: &webrtc.WebRtcSdp{TxSeqno: 3, SdpType: "offer", Sdp: sdpOffer}}},
		{Body: &webrtc.WebRtcSignal_Ice{Ice: &webrtc.WebRtcIce{Candidate: iceCand}}},
		{Body: &webrtc.WebRtcSignal_Sdp{Sdp: &webrtc.WebRtcSdp{TxSeqno: 4, SdpType: "answer", Sdp: sdpAnswer}}},
	}
}

// procChild runs a script in this (fresh) process and exits.
func procChild() {
	var ops []procOp
	if err := json.Unmarshal([]byte(os.Getenv("C26_PROC_SCRIPT")), &ops); err != nil {
		fmt.Println("c26 child: bad script:", err)
		os.Exit(3)
	}
	keys := enum.Keys(3)
	sigs := procSignals()
	var out []procRes
	for _, o := range ops {
		var r procRes
		switch o.Op {
		case "enc":
			var payload []byte
			var err error
			p := enum.Try(func() { payload, err = webrtc.EncodeWebRtcSignal(sigs[o.Sig].CloneVT(), keys[o.Key].Pub) })
			switch {
			case p != nil:
				r.Err = fmt.Sprintf("panic: %v", p)
			case err != nil:
				r.Err = err.Error()
			default:
				r.OK, r.Bytes = true, hex.EncodeToString(payload)
			}
		case "dec":
			payload, _ := hex.DecodeString(o.Payload)
			var got *webrtc.WebRtcSignal
			var err error
			p := enum.Try(func() { got, err = webrtc.DecodeWebRtcSignal(payload, keys[o.Key].Priv) })
			switch {
			case p != nil:
				r.Err = fmt.Sprintf("panic: %v", p)
			case err != nil:
				r.Err = err.Error()
			default:
				b, _ := got.MarshalVT()
				r.OK, r.Bytes = true, hex.EncodeToString(b)
			}
		}
		out = append(out, r)
	}
	b, _ := json.Marshal(out)
	if err := os.WriteFile(os.Getenv("C26_PROC_OUT"), b, 0o644); err != nil {
		fmt.Println("c26 child:", err)
		os.Exit(3)
	}
	os.Exit(0)
}

func runProc(dir string, n *int, ops []procOp) []procRes {
	*n++
	outf := filepath.Join(dir, fmt.Sprintf("p%d.json", *n))
	sb, _ := json.Marshal(ops)
	cmd := exec.Command(os.Args[0], "-test.run", "^TestC26$", "-test.count", "1", "-test.timeout", "5m")
	cmd.Env = append(os.Environ(), "C26_PROC_SCRIPT="+string(sb), "C26_PROC_OUT="+outf)
	ob, err := cmd.CombinedOutput()
	b, rerr := os.ReadFile(outf)
	var res []procRes
	if err != nil || rerr != nil || json.Unmarshal(b, &res) != nil || len(res) != len(ops) {
		s := string(ob)
		if len(s) > 2000 {
			s = s[len(s)-2000:]
		}
		evid.Fatal("process-history child failed: %v %v: %s", err, rerr, s)
	}
	return res
}

func runProcessHistories(run *evid.Run, acc *enum.Acc) {
	dir, err := os.MkdirTemp(filepath.Join(evid.Root, ".work"), "c26-")
	if err != nil {
		evid.Fatal("work dir: %v", err)
	}
	defer os.RemoveAll(dir)
	sigs := procSignals()
	want := make([]string, len(sigs))
	for i, s := range sigs {
		b, _ := s.MarshalVT()
		want[i] = hex.EncodeToString(b)
	}
	nproc := 0
	// the producer: a fresh process that only encodes (for key 0)
	prod := runProc(dir, &nproc, []procOp{{Op: "enc", Sig: 0, Key: 0}, {Op: "enc", Sig: 1, Key: 0}, {Op: "enc", Sig: 2, Key: 0}})
	for i, r := range prod {
		if !r.OK {
			run.Violation("roundtrip-fails/encode", fmt.Sprintf("EncodeWebRtcSignal failed in a fresh process (signal %d): %s", i, r.Err), "process-history/producer")
			return
		}
	}
	var hists [][]string
	for _, a := range []string{"", "E", "D"} {
		for _, b := range []string{"", "E", "D"} {
			if a == "" && b != "" {
				continue
			}
			h := []string{}
			for _, x := range []string{a, b} {
				if x != "" {
					h = append(h, x)
				}
			}
			hists = append(hists, h)
		}
	}
	for _, h := range hists {
		name := "[" + strings.Join(h, " ") + "]"
		var ops []procOp
		nd := 0
		for _, x := range h {
			if x == "E" {
				ops = append(ops, procOp{Op: "enc", Sig: 3, Key: 1})
			} else {
				ops = append(ops, procOp{Op: "dec", Key: 0, Payload: prod[nd].Bytes})
				nd++
			}
		}
		probeDec, probeEnc := len(ops), len(ops)+1
		ops = append(ops, procOp{Op: "dec", Key: 0, Payload: prod[2].Bytes}, procOp{Op: "enc", Sig: 1, Key: 0})
		res := runProc(dir, &nproc, ops)
		key := "process-history/" + name
		rp := map[string]any{"history_of_the_fresh_process": h, "then": "decode an authentic payload made by another process; encode a signal that another fresh process decodes"}
		bad := false
		nd = 0
		for i, x := range h {
			if x == "D" {
				if !res[i].OK || res[i].Bytes != want[nd] {
					bad = true
					acc.Case("process-history", key+"/history-decode", true, "fails")
					run.Violation("roundtrip-fails/process-history", fmt.Sprintf("a fresh process with history %s: decoding authentic payload #%d (made by another process for this key) failed or gave another signal: ok=%v err=%s", name, i+1, res[i].OK, res[i].Err), rp)
					break
				}
				nd++
			}
		}
		if bad {
			continue
		}
		if !res[probeDec].OK || res[probeDec].Bytes != want[2] {
			acc.Case("process-history", key+"/decode-after", true, "fails")
			run.Violation("roundtrip-fails/process-history", fmt.Sprintf("after history %s a process no longer decodes an authentic payload made by another process for its key: ok=%v err=%s", name, res[probeDec].OK, res[probeDec].Err), rp)
			continue
		}
		if !res[probeEnc].OK {
			acc.Case("process-history", key+"/encode-after", true, "fails")
			run.Violation("roundtrip-fails/process-history", fmt.Sprintf("after history %s EncodeWebRtcSignal fails: %s", name, res[probeEnc].Err), rp)
			continue
		}
		z := runProc(dir, &nproc, []procOp{{Op: "dec", Key: 0, Payload: res[probeEnc].Bytes}})
		if !z[0].OK || z[0].Bytes != want[1] {
			acc.Case("process-history", key+"/decoded-elsewhere", true, "fails")
			run.Violation("roundtrip-fails/process-history", fmt.Sprintf("a payload encoded by a process with history %s does not decode (to the original signal) in a fresh process holding the recipient's key: ok=%v err=%s", name, z[0].OK, z[0].Err), rp)
			continue
		}
		if bytes.Equal([]byte(res[probeEnc].Bytes), []byte(prod[1].Bytes)) {
			// fresh randomness per message is C12's matter; recorded only
			run.Cov["process_history_identical_ciphertexts"] = true
		}
		acc.Case("process-history", key, true, "ok")
	}
	run.Cov["process_histories"] = len(hists)
	run.Cov["fresh_processes_executed"] = nproc
}
