package c26

import (
	"crypto/sha256"
	"encoding/hex"
	"fmt"
	"os"
	"strings"
	"testing"

	"github.com/aperturerobotics/bifrost/peer"
	"github.com/aperturerobotics/bifrost/transport/webrtc"

	"verifh/enum"
	"verifh/evid"
)

// Oracle (the property, as a model over how a payload was made and opened):
//
//	DecodeWebRtcSignal(payload, key) succeeds  <=>  payload is the unmodified
//	output of EncodeWebRtcSignal for that key's public key; the decoded signal
//	then has exactly the original content.
//	Opening the payload with peer.DecryptWithPrivKey under any context other
//	than the WebRTC one fails, even with the right key.
//	For two distinct ID strings exactly one of isOfferer(a,b), isOfferer(b,a).
//
// Signal content is compared field by field through the getters (not through
// the generated EqualVT / marshal code that the encode path itself uses).

func render(s *webrtc.WebRtcSignal) string {
	if s == nil {
		return "<nil>"
	}
	switch b := s.GetBody().(type) {
	case nil:
		return "empty"
	case *webrtc.WebRtcSignal_RequestOffer:
		return fmt.Sprintf("request_offer:%d", b.RequestOffer)
	case *webrtc.WebRtcSignal_Sdp:
		return fmt.Sprintf("sdp:seq=%d type=%q sdp=%q", b.Sdp.GetTxSeqno(), b.Sdp.GetSdpType(), b.Sdp.GetSdp())
	case *webrtc.WebRtcSignal_Ice:
		return fmt.Sprintf("ice:%q", b.Ice.GetCandidate())
	default:
		return fmt.Sprintf("unknown:%T", b)
	}
}

const sdpOffer = "v=0\r\no=- 4215775240449105457 2 IN IP4 127.0.0.1\r\ns=-\r\nt=0 0\r\na=group:BUNDLE 0\r\na=msid-semantic: WMS\r\nm=application 9 UDP/DTLS/SCTP webrtc-datachannel\r\nc=IN IP4 0.0.0.0\r\na=ice-ufrag:EsAw\r\na=ice-pwd:P2uYro0UCOQ4zxjKXaWCBui1\r\na=fingerprint:sha-256 0A:A3:7B:2C:7D:43:8F:1E:59:AA:07:52:7B:10:3F:92:6E:21:AC:1C:53:D5:B0:6C:1B:42:78:E8:7E:F3:BC:11\r\na=setup:actpass\r\na=mid:0\r\na=sctp-port:5000\r\na=max-message-size:262144\r\n"

var sdpAnswer = strings.Replace(strings.Replace(sdpOffer, "a=setup:actpass", "a=setup:active", 1), "EsAw", "Kq9t", 1)

const iceCand = `{"candidate":"candidate:842163049 1 udp 1677729535 203.0.113.7 46154 typ srflx raddr 10.0.0.5 rport 46154 generation 0 ufrag EsAw network-cost 999","sdpMid":"0","sdpMLineIndex":0,"usernameFragment":"EsAw"}`

func stream(label string, n int) []byte {
	var out []byte
	for i := 0; len(out) < n; i++ {
		h := sha256.Sum256([]byte(fmt.Sprintf("verif-c26/%s/%d", label, i)))
		out = append(out, h[:]...)
	}
	return out[:n]
}

func short(b []byte) string {
	if len(b) <= 48 {
		return hex.EncodeToString(b)
	}
	return fmt.Sprintf("%s..(%d bytes)", hex.EncodeToString(b[:48]), len(b))
}

func TestC26(t *testing.T) {
	if os.Getenv("C26_PROC_SCRIPT") != "" {
		procChild()
	}
	run := evid.Start("C26", "exploration")
	acc := enum.NewAcc(run, "7 signals (request-offer 0 and 7, SDP offer, SDP answer, ICE candidate, ICE with empty candidate, empty signal) x 3 keys encoded with EncodeWebRtcSignal and decoded with every key; every payload opened with DecryptWithPrivKey (right key) under each non-WebRTC context of the menu; every single-bit flip, truncation and 1-byte extension of the payloads (quick: key 0, thorough: all keys) decoded with the right key; raw byte strings of every length 0..64 over 8 fills decoded with every key; isOfferer on all ordered pairs of the ID menu; process histories: every history over {encode, decode} of length 0..2 as the first operations of a fresh re-executed process, then one decode of a payload made elsewhere and one encode decoded in another fresh process. Non-trivial = every case except decoding an unmodified payload with its own key and the (a,a) pairs; distinct by (group, description)")
	keys := enum.Keys(3)

	type sig struct {
		name string
		s    *webrtc.WebRtcSignal
	}
	sigs := []sig{
		{"request-offer-0", &webrtc.WebRtcSignal{Body: &webrtc.WebRtcSignal_RequestOffer{RequestOffer: 0}}},
		{"request-offer-7", &webrtc.WebRtcSignal{Body: &webrtc.WebRtcSignal_RequestOffer{RequestOffer: 7}}},
		{"sdp-offer", &webrtc.WebRtcSignal{Body: &webrtc.WebRtcSignal_Sdp{Sdp: &webrtc.WebRtcSdp{TxSeqno: 3, SdpType: "offer", Sdp: sdpOffer}}}},
		{"sdp-answer", &webrtc.WebRtcSignal{Body: &webrtc.WebRtcSignal_Sdp{Sdp: &webrtc.WebRtcSdp{TxSeqno: 3, SdpType: "answer", Sdp: sdpAnswer}}}},
		{"ice", &webrtc.WebRtcSignal{Body: &webrtc.WebRtcSignal_Ice{Ice: &webrtc.WebRtcIce{Candidate: iceCand}}}},
		{"ice-empty", &webrtc.WebRtcSignal{Body: &webrtc.WebRtcSignal_Ice{Ice: &webrtc.WebRtcIce{}}}},
		{"empty", &webrtc.WebRtcSignal{}},
	}
	// payload shapes: size classes x {repetitive (compresses extremely well), incompressible}
	nBase := len(sigs) // the deviation families below are applied to the basic signals only
	for _, n := range []int{64, 1 << 10, 24 << 10, 256 << 10} {
		rep := strings.Repeat("a=candidate:842163049 1 udp 1677729535 203.0.113.7 46154 typ srflx\r\n", n/64+1)[:n]
		var inc strings.Builder
		for i := 0; inc.Len() < n; i++ {
			h := sha256.Sum256([]byte(fmt.Sprintf("c26/incompressible/%d/%d", n, i)))
			inc.WriteString(hex.EncodeToString(h[:]))
		}
		sigs = append(sigs,
			sig{fmt.Sprintf("sdp-answer-repetitive-%dB", n), &webrtc.WebRtcSignal{Body: &webrtc.WebRtcSignal_Sdp{Sdp: &webrtc.WebRtcSdp{TxSeqno: 4, SdpType: "answer", Sdp: sdpAnswer + rep}}}},
			sig{fmt.Sprintf("ice-repetitive-%dB", n), &webrtc.WebRtcSignal{Body: &webrtc.WebRtcSignal_Ice{Ice: &webrtc.WebRtcIce{Candidate: iceCand + strings.Repeat(" ", n)}}}},
			sig{fmt.Sprintf("sdp-offer-incompressible-%dB", n), &webrtc.WebRtcSignal{Body: &webrtc.WebRtcSignal_Sdp{Sdp: &webrtc.WebRtcSdp{TxSeqno: 5, SdpType: "offer", Sdp: sdpOffer + inc.String()[:n]}}}},
		)
	}

	wctx := webrtc.SignalingCryptContext
	// every other encryption / signing context string used in the repository
	// (copied literally), the empty context and near misses of the WebRTC one
	otherCtxs := []string{
		"",
		"bifrost/signaling/rpc session msg 2024-06-05T02:45:07.208906Z",
		"bifrost/pubsub/pubmessage 2024-06-05T02:38:47.55258Z channel/",
		"envelope 2026-02-08T00:00:00Z envelope crypto ctx v1.grant_enc 0: 0: 0",
		"bifrost/peer/encrypt_test super-duper-secret",
		wctx + " ",
		" " + wctx,
		wctx[:len(wctx)-1],
		strings.ToUpper(wctx),
		wctx + wctx,
	}
	for _, c := range otherCtxs {
		if c == wctx {
			run.Violation("context-shared", fmt.Sprintf("the WebRTC signaling encryption context %q is also a non-WebRTC context of the repository", wctx), wctx)
		}
	}
	run.Cov["webrtc_context"] = wctx

	panics := 0
	// decode runs the real decoder; want != nil means the model says it must succeed with that content.
	decode := func(group, desc string, kj int, payload []byte, want *webrtc.WebRtcSignal) {
		var got *webrtc.WebRtcSignal
		var err error
		caseKey := fmt.Sprintf("%s/decode-k%d", desc, kj)
		p := enum.Try(func() { got, err = webrtc.DecodeWebRtcSignal(append([]byte{}, payload...), keys[kj].Priv) })
		rp := map[string]any{"case": caseKey, "key_fixture": kj, "payload_len": len(payload), "payload": short(payload)}
		switch {
		case p != nil:
			// Not "decoded", so not judged here: the panic clause belongs to C12
			// (DecryptWithPrivKey on arbitrary bytes). Counted and reported in coverage.
			acc.Case(group, caseKey, want == nil, "panic")
			panics++
			if want != nil {
				run.Violation("roundtrip-fails/"+group, fmt.Sprintf("decoding an unmodified payload with the recipient's key panicked (%s): %v", caseKey, p), rp)
			}
		case err != nil || got == nil:
			acc.Case(group, caseKey, want == nil, "error")
			if want != nil {
				run.Violation("roundtrip-fails/"+group, fmt.Sprintf("decoding an unmodified payload with the recipient's key failed (%s): %v", caseKey, err), rp)
			}
		default:
			acc.Case(group, caseKey, want == nil, "decoded")
			if want == nil {
				run.Violation("decodes/"+group, fmt.Sprintf("DecodeWebRtcSignal succeeded (%s -> %s) although the payload was not encoded for this key / was modified / is arbitrary", caseKey, clip(render(got))), rp)
			} else if render(got) != render(want) {
				run.Violation("roundtrip-differs/"+group, fmt.Sprintf("decoded signal differs from the original (%s): got %s want %s", caseKey, clip(render(got)), clip(render(want))), rp)
			}
		}
	}

	// ---- encode x decode grid, and foreign contexts ----
	type fixture struct {
		ki, si  int
		payload []byte
	}
	var fx []fixture
	for ki, k := range keys {
		for si, sg := range sigs {
			base := fmt.Sprintf("to-k%d/%s", ki, sg.name)
			var payload []byte
			var err error
			if p := enum.Try(func() { payload, err = webrtc.EncodeWebRtcSignal(sg.s.CloneVT(), k.Pub) }); p != nil || err != nil {
				acc.Case("encode", base, true, "fails")
				run.Violation("roundtrip-fails/encode", fmt.Sprintf("EncodeWebRtcSignal failed (%s): panic=%v err=%v", base, p, err), base)
				continue
			}
			fx = append(fx, fixture{ki, si, payload})
			if ki == 0 && (si == 1 || si == 4) {
				acc.Sample(map[string]any{"group": "grid", "case": base, "signal": clip(render(sg.s)), "payload_len": len(payload), "payload": short(payload)})
			}
			for kj := range keys {
				if kj == ki {
					decode("grid-own-key", base, kj, payload, sg.s)
				} else {
					decode("grid-other-key", base, kj, payload, nil)
				}
			}
			// the same payload bytes offered several times (a decoder must not
			// consume or damage its input): every other key first, then the
			// recipient twice, all on ONE buffer
			{
				buf := append([]byte{}, payload...)
				for kj := range keys {
					if kj != ki {
						_ = enum.Try(func() { _, _ = webrtc.DecodeWebRtcSignal(buf, keys[kj].Priv) })
					}
				}
				for rep := 1; rep <= 2; rep++ {
					var got *webrtc.WebRtcSignal
					var derr error
					caseKey := fmt.Sprintf("%s/same-buffer-after-other-keys/own-key-attempt-%d", base, rep)
					p := enum.Try(func() { got, derr = webrtc.DecodeWebRtcSignal(buf, k.Priv) })
					ok := p == nil && derr == nil && got != nil && got.EqualVT(sg.s)
					out := "decoded"
					if !ok {
						out = "failed"
					}
					acc.Case("same-buffer", caseKey, true, out)
					if !ok {
						run.Violation("roundtrip-fails/same-buffer", fmt.Sprintf("a payload encoded for this peer no longer decodes to the original signal with the recipient's key after earlier decode attempts on the same bytes (%s): panic=%v err=%v", caseKey, p, derr), caseKey)
					}
				}
			}
			for ci, c := range otherCtxs {
				if c == wctx {
					continue
				}
				caseKey := fmt.Sprintf("%s/ctx%d", base, ci)
				var out []byte
				var derr error
				p := enum.Try(func() { out, derr = peer.DecryptWithPrivKey(k.Priv, c, append([]byte{}, payload...)) })
				switch {
				case p != nil:
					acc.Case("foreign-context", caseKey, true, "panic")
					panics++
				case derr != nil:
					acc.Case("foreign-context", caseKey, true, "error")
				default:
					acc.Case("foreign-context", caseKey, true, "opened")
					run.Violation("opens-under-foreign-context", fmt.Sprintf("a WebRTC signaling payload (%s) was opened by DecryptWithPrivKey under the non-WebRTC context %q (%d bytes of plaintext)", base, c, len(out)), map[string]any{"case": caseKey, "context": c})
				}
			}
		}
	}
	acc.Sample(map[string]any{"group": "foreign-context", "contexts": otherCtxs})

	// ---- arbitrary payload bytes ----
	fills := []struct {
		name string
		f    func(i int) byte
	}{
		{"00", func(i int) byte { return 0x00 }},
		{"ff", func(i int) byte { return 0xff }},
		{"01", func(i int) byte { return 0x01 }},
		{"7f", func(i int) byte { return 0x7f }},
		{"80", func(i int) byte { return 0x80 }},
		{"a5", func(i int) byte { return 0xa5 }},
		{"count", func(i int) byte { return byte(i) }},
		{"sha", nil},
	}
	for n := 0; n <= 64; n++ {
		for _, fl := range fills {
			b := make([]byte, n)
			if fl.f == nil {
				copy(b, stream(fmt.Sprintf("raw%d", n), n))
			} else {
				for i := range b {
					b[i] = fl.f(i)
				}
			}
			for kj := range keys {
				decode("raw", fmt.Sprintf("raw/len%d/%s", n, fl.name), kj, b, nil)
			}
		}
	}
	acc.Sample(map[string]any{"group": "raw", "example": "raw/len52/sha decoded with k1: 52 fixed pseudo-random bytes"})

	// ---- deviation 1 of the payloads, decoded with the right key ----
	// (sequential: decode counts panics without a lock)
	for _, f := range fx {
		if run.Quick() && f.ki != 0 {
			continue
		}
		if f.si >= nBase {
			continue // payload-shape signals: grid only (bit flips of a 256 KiB payload would be 2M decodes)
		}
		base := fmt.Sprintf("to-k%d/%s/", f.ki, sigs[f.si].name)
		enum.BitFlips(f.payload, func(mu enum.Mut) { decode("bitflip", base+mu.Desc, f.ki, mu.Data, nil) })
		enum.Truncations(f.payload, func(mu enum.Mut) { decode("truncation", base+mu.Desc, f.ki, mu.Data, nil) })
		enum.Extensions(f.payload, nil, func(mu enum.Mut) { decode("extension", base+mu.Desc, f.ki, mu.Data, nil) })
		if run.Expired() {
			acc.Capped()
			break
		}
	}
	acc.Sample(map[string]any{"group": "bitflip", "example": "to-k0/ice/flip[40.3]: one bit of the AEAD body flipped"})

	// ---- offerer role ----
	ids := []string{"", " ", "a ", " a", "a\x00", "ab", "ba", "aB", "Ab", "ä", "Ä", "12D3KooW", "zzzzzzzzzzzzzzzzzzzzzzzzzzzzzzzzzzzzzzzzzzzzzzzzzzzz"}
	enum.Strings([]byte{'1', 'A', 'a'}, 3, func(b []byte) {
		if len(b) > 0 {
			ids = append(ids, string(b))
		}
	})
	nreal := 4
	if !run.Quick() {
		nreal = 24
	}
	for _, k := range enum.Keys(nreal) {
		id := k.ID.String()
		ids = append(ids, id)
	}
	{
		id := enum.Keys(1)[0].ID.String()
		last := id[len(id)-1]
		repl := byte('1')
		if last == '1' {
			repl = '2'
		}
		ids = append(ids, id[:len(id)-1], id+"1", id[:len(id)-1]+string(repl), strings.ToLower(id), strings.ToUpper(id))
	}
	seen := map[string]bool{}
	var uids []string
	for _, s := range ids {
		if !seen[s] {
			seen[s] = true
			uids = append(uids, s)
		}
	}
	run.Cov["id_strings"] = len(uids)
	for i, a := range uids {
		for j, b := range uids {
			caseKey := fmt.Sprintf("%q|%q", a, b)
			var ab, ba bool
			if p := enum.Try(func() { ab, ba = webrtc.VerifIsOfferer(a, b), webrtc.VerifIsOfferer(b, a) }); p != nil {
				acc.Case("offerer", caseKey, i != j, "panic")
				run.Violation("panic/isOfferer", fmt.Sprintf("isOfferer panicked on (%q, %q): %v", a, b, p), caseKey)
				continue
			}
			out := "none"
			switch {
			case ab && ba:
				out = "both"
			case ab:
				out = "first"
			case ba:
				out = "second"
			}
			acc.Case("offerer", caseKey, i != j, out)
			if i == j {
				continue // the property quantifies over distinct peers
			}
			if ab == ba {
				run.Violation("offerer-role-"+out, fmt.Sprintf("for the distinct IDs %q and %q the offerer role is taken by %s of them: isOfferer(a,b)=%v, isOfferer(b,a)=%v", a, b, out, ab, ba), map[string]any{"a": a, "b": b})
			}
		}
	}
	acc.Sample(map[string]any{"group": "offerer", "a": uids[len(uids)-6], "b": uids[len(uids)-5]})

	run.Cov["link_acceptance"] = linkAcceptance(run, acc)
	runProcessHistories(run, acc)
	acc.Finish()
	run.Cov["panics_not_judged"] = panics
	run.Cov["panics_note"] = "decoder panics on undecodable payloads are counted, not judged, by this property (its text is about what can be decoded); the no-panic clause on arbitrary ciphertext bytes is C12's"
	run.Cov["alphabet"] = "7 signals; 3 fixture keys; 10 non-WebRTC contexts; bit flips / truncations / 1-byte extensions; raw strings len 0..64 x 8 fills; ID menu incl. all non-empty strings over {1,A,a} up to length 3, real peer IDs and near misses"
	run.Cov["bound"] = "deviation <= 1 around valid payloads; raw strings up to 64 bytes; the stated ID menu"
	run.Assumptions = append(run.Assumptions,
		"the last clause (a WebRTC link is only accepted from the signalled peer) is decided at the session tracker: its executeLink runs over an in-memory message pipe in place of the detached data channel, the far end does a real QUIC/TLS handshake with its own identity; the pion stack (ICE, DTLS, SCTP) is outside any bounded exhaustive run",
		"the oracle is the case construction itself (who the payload was encoded for, whether it was modified); content equality is judged field by field through getters",
		"the menu of non-WebRTC contexts is a literal copy of the context strings found in the repository at the time of writing")
	run.Finish(t)
}

func clip(s string) string {
	if len(s) > 80 {
		return s[:80] + "..."
	}
	return s
}
