package c26

import (
	"context"
	"fmt"
	"io"
	"os"
	"sync"
	"time"

	p2ptls "github.com/aperturerobotics/bifrost/crypto/tls"
	"github.com/aperturerobotics/bifrost/link"
	"github.com/aperturerobotics/bifrost/peer"
	transport_quic "github.com/aperturerobotics/bifrost/transport/common/quic"
	"github.com/aperturerobotics/bifrost/transport/webrtc"
	"github.com/aperturerobotics/bifrost/util/rwc"
	"github.com/sirupsen/logrus"

	"verifh/enum"
	"verifh/evid"
)

// Link acceptance ("a WebRTC link is only accepted from the peer that was
// signaled"): the real transport's session tracker for a signaled peer runs its
// link (executeLink) over an in-memory message pipe standing in for the
// detached data channel - no pion stack involved. The far end performs the
// other half of the QUIC/TLS handshake with its own authentic bifrost identity,
// either as the signaled peer or as another peer. For every ordered pair
// (local, signaled) of the key fixtures - which fixes the local role - and
// every far-end identity, a link may be reported only if the far end IS the
// signaled peer, and then it must name that peer.

type dcEnd struct {
	rx, tx chan []byte
	closed chan struct{}
	once   *sync.Once
}

func newDC() (*dcEnd, *dcEnd) {
	ab, ba := make(chan []byte, 4096), make(chan []byte, 4096)
	closed, once := make(chan struct{}), &sync.Once{}
	return &dcEnd{rx: ba, tx: ab, closed: closed, once: once}, &dcEnd{rx: ab, tx: ba, closed: closed, once: once}
}
func (p *dcEnd) Read(b []byte) (int, error) {
	select {
	case pkt := <-p.rx:
		return copy(b, pkt), nil
	case <-p.closed:
		return 0, io.EOF
	}
}
func (p *dcEnd) Write(b []byte) (int, error) {
	pkt := append([]byte{}, b...)
	select {
	case p.tx <- pkt:
		return len(b), nil
	case <-p.closed:
		return 0, io.ErrClosedPipe
	}
}
func (p *dcEnd) ReadDataChannel(b []byte) (int, bool, error) {
	n, err := p.Read(b)
	return n, false, err
}
func (p *dcEnd) WriteDataChannel(b []byte, _ bool) (int, error) { return p.Write(b) }
func (p *dcEnd) Close() error                                   { p.once.Do(func() { close(p.closed) }); return nil }

type linkRec struct{ ch chan link.Link }

func (h *linkRec) HandleLinkEstablished(l link.Link) {
	select {
	case h.ch <- l:
	default:
	}
}
func (h *linkRec) HandleLinkLost(link.Link) {}

// linkAcceptance returns coverage counters.
func linkAcceptance(run *evid.Run, acc *enum.Acc) map[string]any {
	os.Setenv("QUIC_GO_DISABLE_RECEIVE_BUFFER_WARNING", "true")
	keys := enum.Keys(3)
	lg := logrus.New()
	lg.SetOutput(io.Discard)
	le := logrus.NewEntry(lg)
	accepted, refused, inconclusive := 0, 0, 0
	for li, local := range keys {
		for si, signaled := range keys {
			if li == si {
				continue
			}
			for fi, far := range keys {
				if fi == li {
					continue // the far end is another node
				}
				caseKey := fmt.Sprintf("local=k%d signaled=k%d far-end=k%d", li, si, fi)
				func() {
					ctx, cancel := context.WithCancel(context.Background())
					defer cancel()
					rec := &linkRec{ch: make(chan link.Link, 4)}
					w, err := webrtc.NewWebRTC(ctx, le, nil, &webrtc.Config{SignalingId: "c26"}, local.Priv, rec)
					if err != nil {
						evid.Fatal("c26 link: NewWebRTC: %v", err)
					}
					offerer, runLink := webrtc.VerifSessionLink(w, signaled.ID.String())
					if offerer != webrtc.VerifIsOfferer(local.ID.String(), signaled.ID.String()) {
						evid.Fatal("c26 link: tracker role differs from isOfferer")
					}
					localEnd, farEnd := newDC()
					linkDone := make(chan struct{})
					go func() { defer close(linkDone); _ = runLink(ctx, localEnd) }()
					identity, err := p2ptls.NewIdentity(far.Priv)
					if err != nil {
						evid.Fatal("c26 link: NewIdentity: %v", err)
					}
					localAddr, farAddr := peer.NewNetAddr(local.ID), peer.NewNetAddr(far.ID)
					pc := rwc.NewRwcPacketConn(farEnd, farAddr, localAddr)
					opts := &transport_quic.Opts{DisableDatagrams: true, DisableKeepAlive: true, DisablePathMtuDiscovery: true, MaxIdleTimeoutDur: "60s"}
					rejected := make(chan struct{})
					go func() {
						defer close(rejected)
						if offerer {
							sess, _, err := transport_quic.DialSession(ctx, le, opts, pc, identity, localAddr, local.ID)
							if err == nil {
								<-sess.Context().Done()
							}
						} else {
							sess, err := transport_quic.ListenSession(ctx, le, opts, pc, identity, local.ID)
							if err == nil {
								<-sess.Context().Done()
							}
						}
					}()
					// the outcome is decided by events; the timers only bound the wait where
					// a refusal has no observable event (local side dials and refuses: the
					// far listener never returns) - then "no link" after the grace period
					grace := 60 * time.Second
					if !offerer && fi != si {
						grace = 3 * time.Second
					}
					var got link.Link
					select {
					case got = <-rec.ch:
					case <-rejected:
						select {
						case got = <-rec.ch:
						case <-time.After(200 * time.Millisecond):
						}
					case <-linkDone:
						select {
						case got = <-rec.ch:
						default:
						}
					case <-time.After(grace):
						if offerer || fi == si {
							inconclusive++
							acc.Case("link-acceptance", caseKey, true, "inconclusive (neither accepted nor refused within 60 s)")
							acc.Capped()
							cancel()
							_ = localEnd.Close()
							return
						}
					}
					cancel()
					_ = localEnd.Close()
					select {
					case <-linkDone:
					case <-time.After(20 * time.Second):
					}
					role := "answerer"
					if offerer {
						role = "offerer"
					}
					switch {
					case got != nil && fi != si:
						acc.Case("link-acceptance", caseKey, true, "accepted link from another peer")
						run.Violation("link-accepted-from-other-peer/local-"+role, fmt.Sprintf("the session with signaled peer k%d (local k%d is the %s) reported an established link after peer k%d completed the handshake on its data channel (link remote peer: k%d?=%v)", si, li, role, fi, fi, got.GetRemotePeer() == far.ID), caseKey)
					case got != nil && got.GetRemotePeer() != signaled.ID:
						acc.Case("link-acceptance", caseKey, true, "link names wrong peer")
						run.Violation("link-names-wrong-peer/local-"+role, fmt.Sprintf("link with the signaled peer k%d names remote peer %s (%s)", si, got.GetRemotePeer(), caseKey), caseKey)
					case got == nil && fi == si:
						acc.Case("link-acceptance", caseKey, true, "signaled peer not accepted")
						run.Violation("signaled-peer-not-accepted/local-"+role, fmt.Sprintf("the signaled peer completed the handshake but no link was reported (%s)", caseKey), caseKey)
					case got != nil:
						accepted++
						acc.Case("link-acceptance", caseKey, true, "accepted (signaled peer, local "+role+")")
					default:
						refused++
						acc.Case("link-acceptance", caseKey, true, "refused (other peer, local "+role+")")
					}
				}()
			}
		}
	}
	return map[string]any{"cases": accepted + refused + inconclusive, "links_with_the_signaled_peer": accepted, "other_peers_refused": refused, "inconclusive": inconclusive}
}
