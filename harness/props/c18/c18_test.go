package c18

import (
	"bytes"
	"crypto/sha256"
	"encoding/binary"
	"errors"
	"fmt"
	"runtime/debug"
	"sort"
	"strings"
	"sync"
	"testing"
	"time"

	"github.com/aperturerobotics/bifrost/crypto"
	"github.com/aperturerobotics/bifrost/envelope"
	"github.com/aperturerobotics/bifrost/peer"
	"github.com/zeebo/blake3"

	"verifh/enum"
	"verifh/evid"
)

// detReader is a deterministic byte stream (SHA-256 in counter mode). It only
// supplies the sealing randomness, which no oracle ever compares.
type detReader struct {
	seed [32]byte
	ctr  uint64
	buf  []byte
}

func newDetReader(s string) *detReader { return &detReader{seed: sha256.Sum256([]byte(s))} }

func (r *detReader) Read(p []byte) (int, error) {
	for i := range p {
		if len(r.buf) == 0 {
			var c [8]byte
			binary.LittleEndian.PutUint64(c[:], r.ctr)
			h := sha256.Sum256(append(r.seed[:], c[:]...))
			r.buf = h[:]
			r.ctr++
		}
		p[i] = r.buf[0]
		r.buf = r.buf[1:]
	}
	return len(p), nil
}

type layout struct {
	name      string
	nkeys     int
	threshold uint32
	grants    []*envelope.EnvelopeGrantConfig
}

func g(sc uint32, idx ...uint32) *envelope.EnvelopeGrantConfig {
	return &envelope.EnvelopeGrantConfig{ShareCount: sc, KeypairIndexes: idx}
}

var layouts = []layout{
	{"A:1key/1grant/t0", 1, 0, []*envelope.EnvelopeGrantConfig{g(1, 0)}},
	{"B:2keys/2grants/t0", 2, 0, []*envelope.EnvelopeGrantConfig{g(1, 0), g(1, 1)}},
	{"C:2keys/2grants/t1", 2, 1, []*envelope.EnvelopeGrantConfig{g(1, 0), g(1, 1)}},
	{"D:2keys/1grant-2shares-both-keys/t1", 2, 1, []*envelope.EnvelopeGrantConfig{g(2, 0, 1)}},
	{"E:2keys/2grants-mixed/t1", 2, 1, []*envelope.EnvelopeGrantConfig{g(1, 0, 1), g(2, 1)}},
	{"F:1key/2grants/t1", 1, 1, []*envelope.EnvelopeGrantConfig{g(1, 0), g(1, 0)}},
}

var contexts = []string{"", "ctx-a", "ctx-a ", "ctx-b", "5:ctx-a 1", "ctx-a\x00", " ctx-a", "CTX-A", strings.Repeat("c", 70), strings.Repeat("c", 70) + "x"}

var payloads = [][]byte{{0x42}, []byte("secret payload"), bytes.Repeat([]byte{0xa5}, 40)}

// fixture is one sealed envelope and everything needed to attack it.
type fixture struct {
	name    string
	lay     layout
	ctx     string
	payload []byte
	env     *envelope.Envelope
	pubs    []crypto.PubKey
	privs   []crypto.PrivKey
	inner   []*envelope.EnvelopeGrantInner // decrypted grant contents
}

// mut is one deviation of an envelope (applied to a clone).
type mut struct {
	group, desc string
	f           func(e *envelope.Envelope)
}

func flipBit(b []byte, i int) []byte {
	c := append([]byte{}, b...)
	c[i/8] ^= 1 << uint(i%8)
	return c
}

// tryWhere runs f under recover; on a panic it returns the panic value and the
// innermost function of the repository under test on the stack.
func tryWhere(f func()) (p any, where string) {
	defer func() {
		if r := recover(); r != nil {
			p = r
			where = "unknown"
			const mod = "github.com/aperturerobotics/bifrost/"
			for _, ln := range strings.Split(string(debug.Stack()), "\n") {
				if strings.HasPrefix(ln, mod) {
					fn := strings.TrimPrefix(ln, mod)
					if i := strings.LastIndex(fn, "("); i > 0 {
						fn = fn[:i]
					}
					if i := strings.LastIndex(fn, "/"); i >= 0 {
						fn = fn[i+1:]
					}
					where = strings.NewReplacer("(", "", ")", "", "*", "", " ", "").Replace(fn)
					break
				}
			}
		}
	}()
	f()
	return nil, ""
}

func scalar(n byte) []byte { b := make([]byte, 32); b[0] = n; return b }

func TestC18(t *testing.T) {
	run := evid.Start("C18", "exploration")
	t0 := time.Now()
	limit := 55 * time.Second
	if !run.Quick() {
		limit = 14 * time.Minute
	}
	expired := func() bool { return run.Expired() || time.Since(t0) > limit }
	quick := run.Quick()

	acc := enum.NewAcc(run, "6 envelope layouts sealed by the real BuildEnvelope; (a) every layout sealed under each of 10 contexts and unsealed under each of the 10; (b) each sealed envelope put through a field-level deviation menu (threshold values, envelope id, context hash incl. every bit flip, payload ciphertext incl. every bit flip and truncation, grants dropped/duplicated/permuted/emptied, key index lists permuted/out of range/shortened, every grant ciphertext bit flip and truncation, transplanted ciphertexts, key entries dropped/duplicated/reordered/replaced and every PEM bit flip, grants re-encrypted by an attacker to a recipient's public key with forged share lists) and all ordered pairs of a representative sub-menu; (c) every byte substitution, truncation and one-byte extension of the marshalled envelope; (d) all short byte strings decoded as envelopes; every case is unsealed with all recipient private keys; distinct by (group, fixture, description); the untouched envelopes under their own context are the trivial fixtures")

	keys := enum.Keys(4)
	unrelated := keys[3]

	// violations are collected and reported after the parallel phase, each class
	// with its smallest (shortest, then lexicographically first) counterexample
	type vrec struct {
		what, replay string
		count        int
	}
	var vmu sync.Mutex
	viols := map[string]*vrec{}
	violate := func(key, what, replay string) {
		vmu.Lock()
		v := viols[key]
		if v == nil {
			v = &vrec{what: what, replay: replay}
			viols[key] = v
		} else if len(replay) < len(v.replay) || (len(replay) == len(v.replay) && replay < v.replay) {
			v.what, v.replay = what, replay
		}
		v.count++
		vmu.Unlock()
	}
	// panicClass turns a panic value into a stable, space-free class name.
	panicClass := func(p any) string {
		var b []byte
		dash := false
		for _, r := range fmt.Sprint(p) {
			switch {
			case r >= 'a' && r <= 'z' || r >= 'A' && r <= 'Z':
				b = append(b, byte(r))
				dash = false
			default:
				if !dash && len(b) > 0 {
					b = append(b, '-')
					dash = true
				}
			}
		}
		return string(bytes.TrimRight(b, "-"))
	}

	// ---- judge one unseal ----
	judge := func(group, key string, fx *fixture, ctx string, env *envelope.Envelope, privs []crypto.PrivKey, trivial bool) string {
		var got []byte
		var res *envelope.EnvelopeUnlockResult
		var err error
		if p, where := tryWhere(func() { got, res, err = envelope.UnlockEnvelope(ctx, env, privs) }); p != nil {
			acc.Case(group, key, !trivial, "PANIC")
			violate("panic/"+where+"/"+panicClass(p), fmt.Sprintf("UnlockEnvelope panicked (in %s) on %s: %s: %v", where, group, key, p), group+": "+key)
			return "panic"
		}
		var out string
		switch {
		case err != nil && errors.Is(err, envelope.ErrContextMismatch):
			out = "error: context mismatch"
		case err != nil && errors.Is(err, envelope.ErrDecryptionFailed):
			out = "error: decryption failed"
		case err != nil && errors.Is(err, envelope.ErrNoGrants):
			out = "error: no grants"
		case err != nil && errors.Is(err, envelope.ErrNoKeypairs):
			out = "error: no keypairs"
		case err != nil:
			out = "error: other"
		case !res.GetSuccess():
			out = "not enough shares"
		default:
			out = "opened"
		}
		if len(got) != 0 && (fx == nil || !bytes.Equal(got, fx.payload)) {
			acc.Case(group, key, !trivial, "DIFFERENT PAYLOAD")
			violate("different-payload/"+group, fmt.Sprintf("UnlockEnvelope returned %d payload bytes that are not the sealed payload for %s: %s (err=%v success=%v)", len(got), group, key, err, res.GetSuccess()), group+": "+key)
			return "different"
		}
		if out == "opened" && len(got) == 0 {
			acc.Case(group, key, !trivial, "SUCCESS WITHOUT PAYLOAD")
			violate("success-without-payload/"+group, fmt.Sprintf("UnlockEnvelope reported success but returned no payload for %s: %s", group, key), group+": "+key)
			return "different"
		}
		if out == "opened" {
			out = "opened, exactly the original payload"
		}
		acc.Case(group, key, !trivial, out)
		return out
	}

	seal := func(l layout, ctx string, payload []byte) *fixture {
		fx := &fixture{name: l.name, lay: l, ctx: ctx, payload: payload}
		for i := 0; i < l.nkeys; i++ {
			fx.pubs = append(fx.pubs, keys[i].Pub)
			fx.privs = append(fx.privs, keys[i].Priv)
		}
		var grants []*envelope.EnvelopeGrantConfig
		for _, gc := range l.grants {
			grants = append(grants, gc.CloneVT())
		}
		env, err := envelope.BuildEnvelope(newDetReader(l.name+"|"+ctx), ctx, payload, fx.pubs, &envelope.EnvelopeConfig{Threshold: l.threshold, GrantConfigs: grants})
		if err != nil {
			evid.Fatal("BuildEnvelope(%s, %q): %v", l.name, ctx, err)
		}
		fx.env = env
		return fx
	}

	// ---------- (a) contexts x contexts ----------
	for li, l := range layouts {
		for ci, c1 := range contexts {
			fx := seal(l, c1, payloads[(li+ci)%len(payloads)])
			for cj, c2 := range contexts {
				key := fmt.Sprintf("%s/sealed-ctx%d/unsealed-ctx%d", l.name, ci, cj)
				if ci == cj {
					out := judge("context", key, fx, c2, fx.env, fx.privs, true)
					if out != "opened, exactly the original payload" {
						evid.Fatal("fixture %s does not open under its own context: %s", key, out)
					}
					continue
				}
				out := judge("context", key, fx, c2, fx.env, fx.privs, false)
				if out != "error: context mismatch" && out != "panic" && out != "different" {
					violate("different-context-not-rejected-as-mismatch/"+strings.ReplaceAll(out, " ", "-"), fmt.Sprintf("%s: sealed under %q, unsealed under %q: result %q instead of ErrContextMismatch", key, c1, c2, out), key)
				}
			}
		}
	}

	// ---------- fixtures for tampering ----------
	var fixtures []*fixture
	for li, l := range layouts {
		fx := seal(l, contexts[1+li%4], payloads[li%len(payloads)])
		// decrypt every grant once (the harness owns the keys) so that forged grants can reuse real shares
		for gi, gr := range fx.env.GetGrants() {
			encCtx := envelope.VerifBuildGrantEncContext(fx.env.GetEnvelopeId(), fx.ctx, gi)
			dec, err := peer.DecryptWithPrivKey(fx.privs[gr.GetKeypairIndexes()[0]], encCtx, gr.GetCiphertexts()[0])
			if err != nil {
				evid.Fatal("cannot decrypt grant %d of fixture %s: %v", gi, l.name, err)
			}
			in := &envelope.EnvelopeGrantInner{}
			if err := in.UnmarshalVT(dec); err != nil {
				evid.Fatal("grant %d of fixture %s: %v", gi, l.name, err)
			}
			fx.inner = append(fx.inner, in)
		}
		fixtures = append(fixtures, fx)
	}
	// a second sealing of every layout (other randomness) as a source of foreign ciphertexts
	foreign := map[string]*fixture{}
	for li, l := range layouts {
		l2 := l
		l2.name = l.name + "#2"
		foreign[l.name] = seal(l2, contexts[1+li%4], payloads[(li+1)%len(payloads)])
	}

	forge := func(fx *fixture, gi int, kidx uint32, in *envelope.EnvelopeGrantInner, raw []byte) []byte {
		data := raw
		if in != nil {
			data, _ = in.MarshalVT()
		}
		ct, err := peer.EncryptToPubKey(fx.pubs[kidx], envelope.VerifBuildGrantEncContext(fx.env.GetEnvelopeId(), fx.ctx, gi), data)
		if err != nil {
			evid.Fatal("forge: %v", err)
		}
		return ct
	}

	// ---- the field-level menu ----
	menu := func(fx *fixture) (all []mut, rep []mut) {
		e := fx.env
		add := func(group, desc string, f func(e *envelope.Envelope)) { all = append(all, mut{group, desc, f}) }
		addRep := func(group, desc string, f func(e *envelope.Envelope)) {
			all = append(all, mut{group, desc, f})
			rep = append(rep, mut{group, desc, f})
		}
		th := e.GetThreshold()
		seenTh := map[uint32]bool{th: true}
		for _, v := range []uint32{th - 1, th + 1, 0, 2, 3, 1 << 31, 1<<32 - 1} {
			if seenTh[v] {
				continue
			}
			seenTh[v] = true
			v := v
			m := mut{"threshold", fmt.Sprintf("threshold=%d", v), func(e *envelope.Envelope) { e.Threshold = v }}
			all = append(all, m)
			if v == th+1 || v == 0 || v == 1<<32-1 {
				rep = append(rep, m)
			}
		}
		id := e.GetEnvelopeId()
		for _, v := range []struct{ d, s string }{{"empty", ""}, {"first-char", "z" + id[1:]}, {"appended", id + "0"}, {"cut", id[:len(id)-1]}, {"other-envelope", foreign[fx.name].env.GetEnvelopeId()}} {
			v := v
			m := mut{"envelope-id", "id=" + v.d, func(e *envelope.Envelope) { e.EnvelopeId = v.s }}
			all = append(all, m)
			if v.d == "first-char" {
				rep = append(rep, m)
			}
		}
		ch := e.GetContextHash()
		add("context-hash", "nil", func(e *envelope.Envelope) { e.ContextHash = nil })
		add("context-hash", "cut", func(e *envelope.Envelope) { e.ContextHash = ch[:31] })
		add("context-hash", "extended", func(e *envelope.Envelope) { e.ContextHash = append(append([]byte{}, ch...), 0) })
		for ci, c := range contexts {
			if c == fx.ctx {
				continue
			}
			h := blake3.Sum256([]byte(c))
			add("context-hash", fmt.Sprintf("hash-of-ctx%d", ci), func(e *envelope.Envelope) { e.ContextHash = h[:] })
		}
		for i := 0; i < len(ch)*8; i++ {
			i := i
			m := mut{"context-hash-bitflip", fmt.Sprintf("flip[%d]", i), func(e *envelope.Envelope) { e.ContextHash = flipBit(ch, i) }}
			all = append(all, m)
			if i == 0 {
				rep = append(rep, m)
			}
		}
		pc := e.GetCiphertext()
		add("payload-ciphertext", "nil", func(e *envelope.Envelope) { e.Ciphertext = nil })
		add("payload-ciphertext", "extended", func(e *envelope.Envelope) { e.Ciphertext = append(append([]byte{}, pc...), 0) })
		add("payload-ciphertext", "other-envelope", func(e *envelope.Envelope) { e.Ciphertext = foreign[fx.name].env.GetCiphertext() })
		for n := 0; n < len(pc); n++ {
			n := n
			add("payload-ciphertext-trunc", fmt.Sprintf("trunc[%d]", n), func(e *envelope.Envelope) { e.Ciphertext = pc[:n] })
		}
		for i := 0; i < len(pc)*8; i++ {
			i := i
			m := mut{"payload-ciphertext-bitflip", fmt.Sprintf("flip[%d]", i), func(e *envelope.Envelope) { e.Ciphertext = flipBit(pc, i) }}
			all = append(all, m)
			if i == 24*8 {
				rep = append(rep, m)
			}
		}
		// grants as a list
		ng := len(e.GetGrants())
		add("grants", "nil", func(e *envelope.Envelope) { e.Grants = nil })
		add("grants", "append-empty-grant", func(e *envelope.Envelope) { e.Grants = append(e.Grants, &envelope.EnvelopeGrant{}) })
		add("grants", "append-nil-grant", func(e *envelope.Envelope) { e.Grants = append(e.Grants, nil) })
		add("grants", "prepend-empty-grant", func(e *envelope.Envelope) {
			e.Grants = append([]*envelope.EnvelopeGrant{{}}, e.Grants...)
		})
		for gi := 0; gi < ng; gi++ {
			gi := gi
			drop := func(e *envelope.Envelope) {
				if gi < len(e.Grants) {
					e.Grants = append(append([]*envelope.EnvelopeGrant{}, e.Grants[:gi]...), e.Grants[gi+1:]...)
				}
			}
			if gi == 0 {
				addRep("grants", fmt.Sprintf("drop[%d]", gi), drop)
			} else {
				add("grants", fmt.Sprintf("drop[%d]", gi), drop)
			}
			add("grants", fmt.Sprintf("duplicate[%d]-appended", gi), func(e *envelope.Envelope) { e.Grants = append(e.Grants, e.Grants[gi].CloneVT()) })
			add("grants", fmt.Sprintf("duplicate[%d]-prepended", gi), func(e *envelope.Envelope) {
				e.Grants = append([]*envelope.EnvelopeGrant{e.Grants[gi].CloneVT()}, e.Grants...)
			})
			add("grants", fmt.Sprintf("replace[%d]-by-empty", gi), func(e *envelope.Envelope) { e.Grants[gi] = &envelope.EnvelopeGrant{} })
			add("grants", fmt.Sprintf("replace[%d]-by-nil", gi), func(e *envelope.Envelope) { e.Grants[gi] = nil })
			add("grants", fmt.Sprintf("replace[%d]-by-other-envelope's", gi), func(e *envelope.Envelope) { e.Grants[gi] = foreign[fx.name].env.GetGrants()[gi].CloneVT() })
		}
		first := true
		enum.Permutations(ng, func(p []int) {
			ident := true
			for i, v := range p {
				if i != v {
					ident = false
				}
			}
			if ident {
				return
			}
			pp := append([]int{}, p...)
			m := mut{"grants", fmt.Sprintf("permute%v", pp), func(e *envelope.Envelope) {
				if len(e.Grants) != len(pp) {
					return
				}
				old := append([]*envelope.EnvelopeGrant{}, e.Grants...)
				for i, v := range pp {
					e.Grants[i] = old[v]
				}
			}}
			all = append(all, m)
			if first {
				rep = append(rep, m)
				first = false
			}
		})
		// inside each grant
		for gi, gr := range e.GetGrants() {
			gi := gi
			idx := gr.GetKeypairIndexes()
			cts := gr.GetCiphertexts()
			gm := func(desc string, f func(x *envelope.EnvelopeGrant)) mut {
				return mut{"grant-fields", fmt.Sprintf("grant[%d]/%s", gi, desc), func(e *envelope.Envelope) {
					if gi < len(e.Grants) && e.Grants[gi] != nil {
						f(e.Grants[gi])
					}
				}}
			}
			all = append(all,
				gm("indexes=nil", func(x *envelope.EnvelopeGrant) { x.KeypairIndexes = nil }),
				gm("ciphertexts=nil", func(x *envelope.EnvelopeGrant) { x.Ciphertexts = nil }),
				gm("indexes-drop-last", func(x *envelope.EnvelopeGrant) { x.KeypairIndexes = idx[:len(idx)-1] }),
				gm("ciphertexts-drop-last", func(x *envelope.EnvelopeGrant) { x.Ciphertexts = cts[:len(cts)-1] }),
				gm("both-drop-last", func(x *envelope.EnvelopeGrant) {
					x.KeypairIndexes, x.Ciphertexts = idx[:len(idx)-1], cts[:len(cts)-1]
				}),
				gm("indexes-append-0", func(x *envelope.EnvelopeGrant) { x.KeypairIndexes = append(append([]uint32{}, idx...), 0) }),
				gm("entry-duplicated", func(x *envelope.EnvelopeGrant) {
					x.KeypairIndexes = append(append([]uint32{}, idx...), idx[0])
					x.Ciphertexts = append(append([][]byte{}, cts...), cts[0])
				}),
				gm("ciphertexts-append-empty", func(x *envelope.EnvelopeGrant) { x.Ciphertexts = append(append([][]byte{}, cts...), nil) }),
			)
			for k := range idx {
				k := k
				for _, v := range []uint32{uint32(fx.lay.nkeys), uint32(fx.lay.nkeys) + 1, 1 << 31, 1<<32 - 1, (idx[k] + 1) % uint32(fx.lay.nkeys)} {
					if v == idx[k] {
						continue
					}
					v := v
					m := gm(fmt.Sprintf("index[%d]=%d", k, v), func(x *envelope.EnvelopeGrant) {
						x.KeypairIndexes = append([]uint32{}, idx...)
						x.KeypairIndexes[k] = v
					})
					all = append(all, m)
					if gi == 0 && k == 0 && v == uint32(fx.lay.nkeys) {
						rep = append(rep, m)
					}
				}
			}
			if len(idx) > 1 {
				all = append(all,
					gm("indexes-reversed", func(x *envelope.EnvelopeGrant) {
						x.KeypairIndexes = []uint32{}
						for i := len(idx) - 1; i >= 0; i-- {
							x.KeypairIndexes = append(x.KeypairIndexes, idx[i])
						}
					}),
					gm("ciphertexts-reversed", func(x *envelope.EnvelopeGrant) {
						x.Ciphertexts = [][]byte{}
						for i := len(cts) - 1; i >= 0; i-- {
							x.Ciphertexts = append(x.Ciphertexts, cts[i])
						}
					}),
				)
			}
			for k, ct := range cts {
				k, ct := k, ct
				set := func(desc string, v []byte) mut {
					return gm(fmt.Sprintf("ciphertext[%d]=%s", k, desc), func(x *envelope.EnvelopeGrant) {
						x.Ciphertexts = append([][]byte{}, cts...)
						x.Ciphertexts[k] = v
					})
				}
				all = append(all, set("nil", nil), set("extended", append(append([]byte{}, ct...), 0)))
				// transplants: every other grant ciphertext of this envelope and of the other sealing
				for gj, og := range e.GetGrants() {
					for kj, oct := range og.GetCiphertexts() {
						if gj == gi && kj == k {
							continue
						}
						all = append(all, set(fmt.Sprintf("grant[%d].ciphertext[%d]", gj, kj), oct))
					}
				}
				for gj, og := range foreign[fx.name].env.GetGrants() {
					for kj, oct := range og.GetCiphertexts() {
						all = append(all, set(fmt.Sprintf("other-envelope.grant[%d].ciphertext[%d]", gj, kj), oct))
					}
				}
				for n := 0; n < len(ct); n++ {
					if quick && n > 40 && n < len(ct)-4 {
						continue
					}
					m := set(fmt.Sprintf("trunc[%d]", n), ct[:n])
					m.group = "grant-ciphertext-trunc"
					all = append(all, m)
					if gi == 0 && k == 0 && n == 35 {
						rep = append(rep, m)
					}
				}
				// lengths between the 34-byte minimum the decryptor checks and its 36-byte header,
				// with every value of the first byte (which re-keys the header decryption)
				for _, n := range []int{34, 35} {
					for v := 0; v < 256; v++ {
						if n > len(ct) || byte(v) == ct[0] {
							continue
						}
						c := append([]byte{}, ct[:n]...)
						c[0] = byte(v)
						m := set(fmt.Sprintf("trunc[%d]+subst[0]=%02x", n, v), c)
						m.group = "grant-ciphertext-trunc+subst"
						all = append(all, m)
					}
				}
				for i := 0; i < len(ct)*8; i++ {
					m := set(fmt.Sprintf("flip[%d]", i), flipBit(ct, i))
					m.group = "grant-ciphertext-bitflip"
					all = append(all, m)
					if gi == 0 && k == 0 && i == 40*8 {
						rep = append(rep, m)
					}
				}
				// forged grants: the attacker encrypts a share list of his choosing to the recipient's public key
				real := fx.inner[gi].GetShares()
				sh := func(id, val []byte) *envelope.EnvelopeShare { return &envelope.EnvelopeShare{Id: id, Value: val} }
				alias := func(b []byte) []byte { c := append([]byte{}, b...); c[31] |= 0x80; return c }
				flipv := func(b []byte) []byte { c := append([]byte{}, b...); c[0] ^= 1; return c }
				var others []*envelope.EnvelopeShare
				for gj, in := range fx.inner {
					if gj != gi {
						others = append(others, in.GetShares()...)
					}
				}
				cat := func(a []*envelope.EnvelopeShare, b ...*envelope.EnvelopeShare) []*envelope.EnvelopeShare {
					return append(append([]*envelope.EnvelopeShare{}, a...), b...)
				}
				forged := []struct {
					d  string
					in *envelope.EnvelopeGrantInner
					rw []byte
				}{
					{"same-shares(noop)", &envelope.EnvelopeGrantInner{Shares: real}, nil},
					{"no-shares", &envelope.EnvelopeGrantInner{}, nil},
					{"garbage-inner", nil, []byte{0xff, 0xff, 0xff}},
					{"value-bit-flipped", &envelope.EnvelopeGrantInner{Shares: cat(nil, sh(real[0].Id, flipv(real[0].Value)))}, nil},
					{"value-noncanonical-alias", &envelope.EnvelopeGrantInner{Shares: cat(real[1:], sh(real[0].Id, alias(real[0].Value)))}, nil},
					{"id-changed", &envelope.EnvelopeGrantInner{Shares: cat(nil, sh(scalar(9), real[0].Value))}, nil},
					{"id-zero", &envelope.EnvelopeGrantInner{Shares: cat(nil, sh(scalar(0), real[0].Value))}, nil},
					{"id-zero-appended", &envelope.EnvelopeGrantInner{Shares: cat(real, sh(scalar(0), real[0].Value))}, nil},
					{"id-short", &envelope.EnvelopeGrantInner{Shares: cat(nil, sh(real[0].Id[:31], real[0].Value))}, nil},
					{"value-long", &envelope.EnvelopeGrantInner{Shares: cat(nil, sh(real[0].Id, append(append([]byte{}, real[0].Value...), 0)))}, nil},
					{"empty-share", &envelope.EnvelopeGrantInner{Shares: cat(nil, sh(nil, nil))}, nil},
					{"nil-share-entry", &envelope.EnvelopeGrantInner{Shares: cat(real, sh(nil, nil))}, nil},
					{"share-duplicated", &envelope.EnvelopeGrantInner{Shares: cat(real, real[0])}, nil},
					{"share-duplicated-under-noncanonical-id", &envelope.EnvelopeGrantInner{Shares: cat(real, sh(alias(real[0].Id), real[0].Value))}, nil},
					{"only-noncanonical-id", &envelope.EnvelopeGrantInner{Shares: cat(real[1:], sh(alias(real[0].Id), real[0].Value))}, nil},
					{"fresh-fake-share-first", &envelope.EnvelopeGrantInner{Shares: append([]*envelope.EnvelopeShare{sh(scalar(9), scalar(1))}, real...)}, nil},
					{"fresh-fake-share-last", &envelope.EnvelopeGrantInner{Shares: cat(real, sh(scalar(9), scalar(1)))}, nil},
					{"plus-other-grants'-shares", &envelope.EnvelopeGrantInner{Shares: cat(real, others...)}, nil},
				}
				if len(others) > 0 {
					forged = append(forged, struct {
						d  string
						in *envelope.EnvelopeGrantInner
						rw []byte
					}{"other-grant's-share-under-noncanonical-id", &envelope.EnvelopeGrantInner{Shares: cat(real, sh(alias(others[0].Id), others[0].Value))}, nil})
				}
				for _, fg := range forged {
					m := set("forged:"+fg.d, forge(fx, gi, idx[k], fg.in, fg.rw))
					m.group = "forged-grant"
					all = append(all, m)
					if gi == 0 && k == 0 && (fg.d == "no-shares" || fg.d == "share-duplicated-under-noncanonical-id" || fg.d == "fresh-fake-share-first") {
						rep = append(rep, m)
					}
				}
			}
		}
		// key entries
		kps := e.GetKeypairs()
		add("keypairs", "nil", func(e *envelope.Envelope) { e.Keypairs = nil })
		add("keypairs", "append-nil", func(e *envelope.Envelope) { e.Keypairs = append(e.Keypairs, nil) })
		upem, _ := unrelatedPEM(unrelated)
		for ki := range kps {
			ki := ki
			km := func(desc string, f func(e *envelope.Envelope)) mut {
				return mut{"keypairs", fmt.Sprintf("keypair[%d]/%s", ki, desc), func(e *envelope.Envelope) {
					if ki < len(e.Keypairs) {
						f(e)
					}
				}}
			}
			dropm := km("drop", func(e *envelope.Envelope) {
				e.Keypairs = append(append([]*envelope.EnvelopeKeypair{}, e.Keypairs[:ki]...), e.Keypairs[ki+1:]...)
			})
			replm := km("pem=unrelated-key", func(e *envelope.Envelope) { e.Keypairs[ki] = &envelope.EnvelopeKeypair{PubKey: upem} })
			all = append(all, dropm, replm,
				km("duplicate-appended", func(e *envelope.Envelope) { e.Keypairs = append(e.Keypairs, e.Keypairs[ki].CloneVT()) }),
				km("duplicate-prepended", func(e *envelope.Envelope) {
					e.Keypairs = append([]*envelope.EnvelopeKeypair{e.Keypairs[ki].CloneVT()}, e.Keypairs...)
				}),
				km("nil-entry", func(e *envelope.Envelope) { e.Keypairs[ki] = nil }),
				km("pem=empty", func(e *envelope.Envelope) { e.Keypairs[ki] = &envelope.EnvelopeKeypair{} }),
				km("pem=other-recipient", func(e *envelope.Envelope) {
					e.Keypairs[ki] = &envelope.EnvelopeKeypair{PubKey: kps[(ki+1)%len(kps)].GetPubKey()}
				}),
				km("auth-method-set", func(e *envelope.Envelope) {
					e.Keypairs[ki].AuthMethodId = "x"
					e.Keypairs[ki].AuthMethodParams = []byte{1}
				}),
			)
			if ki == 0 {
				rep = append(rep, dropm, replm)
			}
			pemb := kps[ki].GetPubKey()
			for i := 0; i < len(pemb)*8; i++ {
				i := i
				m := km(fmt.Sprintf("pem-flip[%d]", i), func(e *envelope.Envelope) {
					e.Keypairs[ki] = &envelope.EnvelopeKeypair{PubKey: flipBit(pemb, i)}
				})
				m.group = "keypair-pem-bitflip"
				all = append(all, m)
			}
		}
		if len(kps) > 1 {
			addRep("keypairs", "reversed", func(e *envelope.Envelope) {
				for i, j := 0, len(e.Keypairs)-1; i < j; i, j = i+1, j-1 {
					e.Keypairs[i], e.Keypairs[j] = e.Keypairs[j], e.Keypairs[i]
				}
			})
		}
		add("benign", "contents-set", func(e *envelope.Envelope) { e.Contents = []byte("description") })
		return all, rep
	}

	// ---- run everything as parallel jobs ----
	var jobs []func()
	var jmu sync.Mutex
	addJob := func(f func()) { jmu.Lock(); jobs = append(jobs, f); jmu.Unlock() }

	var forgedNoopOpened, forgedNoop int
	var fmu sync.Mutex
	wvals := []byte{0x00, 0x01, 0x0a, 0x12, 0x2a, 0x32, 0x7f, 0x80, 0xff}
	if !quick {
		wvals = nil
	}
	for _, fx := range fixtures {
		fx := fx
		all, rep := menu(fx)
		const chunk = 64
		for lo := 0; lo < len(all); lo += chunk {
			part := all[lo:min(lo+chunk, len(all))]
			addJob(func() {
				for _, m := range part {
					x := fx.env.CloneVT()
					if p := enum.Try(func() { m.f(x) }); p != nil {
						evid.Fatal("mutation %s/%s panicked in the harness: %v", fx.name, m.desc, p)
					}
					out := judge(m.group, fx.name+"/"+m.desc, fx, fx.ctx, x, fx.privs, false)
					if m.group == "forged-grant" && bytes.Contains([]byte(m.desc), []byte("(noop)")) {
						fmu.Lock()
						forgedNoop++
						if out == "opened, exactly the original payload" {
							forgedNoopOpened++
						}
						fmu.Unlock()
					}
				}
			})
		}
		// also: hash replaced by another context's hash AND unsealed under that context
		for ci, c := range contexts {
			if c == fx.ctx {
				continue
			}
			ci, c := ci, c
			addJob(func() {
				x := fx.env.CloneVT()
				h := blake3.Sum256([]byte(c))
				x.ContextHash = h[:]
				judge("context-hash", fmt.Sprintf("%s/hash-of-ctx%d+unsealed-under-ctx%d", fx.name, ci, ci), fx, c, x, fx.privs, false)
			})
		}
		// fewer / other keys on the untouched envelope
		addJob(func() {
			judge("keys", fx.name+"/no-keys", fx, fx.ctx, fx.env, nil, false)
			judge("keys", fx.name+"/unrelated-key-only", fx, fx.ctx, fx.env, []crypto.PrivKey{unrelated.Priv}, false)
		})
		// deviation 2: ordered pairs of the representative menu
		addJob(func() {
			for i, a := range rep {
				for j, b := range rep {
					if i == j {
						continue
					}
					x := fx.env.CloneVT()
					if p := enum.Try(func() { a.f(x); b.f(x) }); p != nil {
						acc.Case("pairs", fx.name+"/"+a.desc+"+"+b.desc, true, "not applicable after the first deviation")
						continue
					}
					judge("pairs", fx.name+"/"+a.desc+"+"+b.desc, fx, fx.ctx, x, fx.privs, false)
				}
			}
		})
		// wire level
		wire, err := fx.env.MarshalVT()
		if err != nil {
			evid.Fatal("MarshalVT: %v", err)
		}
		wcheck := func(m enum.Mut) {
			key := fx.name + "/" + m.Desc
			x := &envelope.Envelope{}
			var uerr error
			if p := enum.Try(func() { uerr = x.UnmarshalVT(m.Data) }); p != nil {
				acc.Case("wire", key, true, "PANIC in UnmarshalVT")
				violate("panic/wire-unmarshal", fmt.Sprintf("Envelope.UnmarshalVT panicked on %s: %v", key, p), key)
				return
			}
			if uerr != nil {
				acc.Case("wire", key, true, "undecodable")
				return
			}
			judge("wire", key, fx, fx.ctx, x, fx.privs, false)
		}
		addJob(func() {
			wcheck(enum.Mut{Desc: "wire-roundtrip", Data: wire})
			enum.Truncations(wire, wcheck)
			enum.Extensions(wire, wvals, wcheck)
		})
		for pos := range wire {
			pos := pos
			addJob(func() {
				vals := wvals
				if vals == nil {
					vals = make([]byte, 256)
					for i := range vals {
						vals[i] = byte(i)
					}
				}
				for _, v := range vals {
					if v == wire[pos] {
						continue
					}
					c := append([]byte{}, wire...)
					c[pos] = v
					wcheck(enum.Mut{Desc: fmt.Sprintf("subst[%d]=%02x", pos, v), Data: c})
				}
			})
		}
	}
	// ---------- (d) arbitrary bytes as envelopes ----------
	arb := func(s []byte) {
		key := fmt.Sprintf("%x", s)
		x := &envelope.Envelope{}
		var uerr error
		if p := enum.Try(func() { uerr = x.UnmarshalVT(s) }); p != nil {
			acc.Case("arbitrary", key, true, "PANIC in UnmarshalVT")
			violate("panic/wire-unmarshal", fmt.Sprintf("Envelope.UnmarshalVT panicked on %s: %v", key, p), key)
			return
		}
		if uerr != nil {
			acc.Case("arbitrary", key, true, "undecodable")
			return
		}
		judge("arbitrary", key, nil, "ctx-a", x, []crypto.PrivKey{keys[0].Priv}, false)
	}
	alpha := []byte{0x00, 0x01, 0x02, 0x0a, 0x12, 0x18, 0x22, 0x2a, 0x32, 0x3a, 0x7f, 0x80, 0xff}
	full := make([]byte, 256)
	for i := range full {
		full[i] = byte(i)
	}
	aLen, fLen := 3, 1
	if !quick {
		aLen, fLen = 4, 2
	}
	addJob(func() { enum.Strings(alpha, aLen, func(s []byte) { arb(append([]byte{}, s...)) }) })
	addJob(func() { enum.Strings(full, fLen, func(s []byte) { arb(append([]byte{}, s...)) }) })
	addJob(func() {
		judge("arbitrary", "nil-envelope", nil, "ctx-a", nil, []crypto.PrivKey{keys[0].Priv}, false)
		judge("arbitrary", "empty-envelope", nil, "ctx-a", &envelope.Envelope{}, []crypto.PrivKey{keys[0].Priv}, false)
		judge("arbitrary", "nil-entries", nil, "", &envelope.Envelope{Grants: []*envelope.EnvelopeGrant{nil}, Keypairs: []*envelope.EnvelopeKeypair{nil}, ContextHash: func() []byte { h := blake3.Sum256(nil); return h[:] }()}, []crypto.PrivKey{keys[0].Priv}, false)
	})

	enum.Par(len(jobs), 16, func(i int) {
		if expired() {
			acc.Capped()
			return
		}
		jobs[i]()
	})

	var vkeys []string
	for k := range viols {
		vkeys = append(vkeys, k)
	}
	sort.Strings(vkeys)
	for _, k := range vkeys {
		for i := 0; i < viols[k].count; i++ {
			run.Violation(k, viols[k].what, viols[k].replay)
		}
		acc.Sample(map[string]any{"violation": k, "smallest_counterexample": viols[k].replay, "cases": viols[k].count})
	}
	if forgedNoop == 0 || forgedNoopOpened != forgedNoop {
		evid.Fatal("forged-grant machinery is vacuous: %d of %d re-encrypted unchanged grants opened", forgedNoopOpened, forgedNoop)
	}
	fx0 := fixtures[2]
	w0, _ := fx0.env.MarshalVT()
	acc.Sample(map[string]any{"fixture": fx0.name, "context": fx0.ctx, "payload_len": len(fx0.payload), "envelope_id": fx0.env.GetEnvelopeId(), "wire_len": len(w0), "grants": len(fx0.env.GetGrants()), "keypairs": len(fx0.env.GetKeypairs())})
	acc.Sample(map[string]any{"group": "forged-grant", "case": fx0.name + "/grant[0]/ciphertext[0]=forged:share-duplicated-under-noncanonical-id", "meaning": "grant 0's ciphertext replaced by a fresh encryption (to recipient 0's public key, under the grant's own encryption context) of the real share followed by the same share whose 32-byte id has bit 255 set"})
	acc.Sample(map[string]any{"group": "context", "case": layouts[0].name + "/sealed-ctx1/unsealed-ctx2", "sealed_under": contexts[1], "unsealed_under": contexts[2]})
	acc.Finish()
	run.Cov["fixtures"] = len(fixtures)
	run.Cov["jobs"] = len(jobs)
	run.Cov["alphabet"] = map[string]any{"layouts": func() []string {
		var s []string
		for _, l := range layouts {
			s = append(s, l.name)
		}
		return s
	}(), "contexts": contexts, "wire_substitution_values": fmt.Sprintf("%d values per position (0 = all 255 others)", len(wvals))}
	run.Assumptions = append(run.Assumptions,
		"a tampered envelope is always unsealed with all recipient private keys (the most the recipients can reach)",
		"forged grants use the package's own grant-encryption context function (export shim) and the public peer.EncryptToPubKey: the attacker knows the algorithm, the recipient public keys, the envelope id and the context string",
		"deviations beyond the stated menu (in particular re-encrypting BOTH a grant and the payload, i.e. building a new envelope) are outside the bound; envelopes carry no sender authentication by design",
		"BuildEnvelope is given a deterministic stream, but circl's Ristretto255 group ignores the reader and draws the secret and polynomial from crypto/rand, so envelope ids, share values and ciphertext bytes differ from run to run; no oracle compares them; payloads/contexts come from a fixed menu")
	run.Finish(t)
}

func unrelatedPEM(k *enum.Key) ([]byte, error) {
	// PEM of a key that is not a recipient, produced by sealing a throw-away envelope to it.
	env, err := envelope.BuildEnvelope(newDetReader("unrelated"), "x", []byte{1}, []crypto.PubKey{k.Pub}, &envelope.EnvelopeConfig{GrantConfigs: []*envelope.EnvelopeGrantConfig{g(1, 0)}})
	if err != nil {
		return nil, err
	}
	return env.GetKeypairs()[0].GetPubKey(), nil
}
