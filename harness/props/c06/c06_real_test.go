package c06

import (
	"context"
	"fmt"
	"os"
	"strings"
	"time"

	"github.com/aperturerobotics/bifrost/crypto"
	"github.com/aperturerobotics/bifrost/peer"
	peer_controller "github.com/aperturerobotics/bifrost/peer/controller"
	"github.com/aperturerobotics/bifrost/transport"
	transport_controller "github.com/aperturerobotics/bifrost/transport/controller"
	"github.com/aperturerobotics/controllerbus/bus/inmem"
	"github.com/aperturerobotics/controllerbus/controller"
	cdc "github.com/aperturerobotics/controllerbus/directive/controller"
	"github.com/blang/semver/v4"
	"github.com/sirupsen/logrus"

	"verifh/enum"
	"verifh/hist"
	"verifh/props/c03/qnet"
)

// Seam R: the REAL packet-conn / QUIC transport under the real controller.
// Node L (controller under test) listens at aL; X and Y are real transports
// whose packet conns both claim address aX, the harness decides which of them
// serves it. Either may connect to L, so that L receives a NEWER session from
// the SAME remote address while it still holds a link from that address - the
// statement's "replacement of a link by a newer one with the same ... address".
// After a tick of 120 virtual seconds (idle time-outs have fired at both ends
// of every dead session) L must not report more links for a peer than that
// peer's own transport still holds with L.

const realHorizon = 45 * time.Second

type sysR struct {
	ctx     context.Context
	cancel  context.CancelFunc
	sw      *qnet.Switch
	keys    []*enum.Key
	ctrl    *transport_controller.Controller
	lconn   *qnet.PConn
	X, Y    *qnet.Node
	binding string
	ndial   int
	lastEv  string
	broken  string
	bad     bool
}

func newSysR() *sysR {
	s := &sysR{sw: qnet.NewSwitch(), keys: enum.Keys(3), binding: "-"}
	s.ctx, s.cancel = context.WithCancel(context.Background())
	le := qnet.Quiet()
	b := inmem.NewBus(cdc.NewController(s.ctx, le))
	lp, err := peer.NewPeer(s.keys[0].Priv)
	if err != nil {
		s.broken = err.Error()
		return s
	}
	if _, err := b.AddController(s.ctx, peer_controller.NewController(le, lp), nil); err != nil {
		s.broken = err.Error()
		return s
	}
	s.lconn = s.sw.NewConn("aL")
	s.sw.Bind("aL", s.lconn)
	s.ctrl = transport_controller.NewController(le, b, controller.NewInfo("verif/c06/tpt", semver.MustParse("0.0.1"), "controller under test"), s.keys[0].ID, false,
		func(ctx context.Context, le *logrus.Entry, pkey crypto.PrivKey, handler transport.TransportHandler) (transport.Transport, error) {
			return qnet.NewTransport(ctx, le, pkey, s.lconn, handler, nil)
		})
	if _, err := b.AddController(s.ctx, s.ctrl, nil); err != nil {
		s.broken = err.Error()
		return s
	}
	if s.X, err = qnet.NewNode(s.ctx, s.sw, "X", s.keys[1], "aX"); err != nil {
		s.broken = err.Error()
		return s
	}
	if s.Y, err = qnet.NewNode(s.ctx, s.sw, "Y", s.keys[2], "aX"); err != nil {
		s.broken = err.Error()
		return s
	}
	return s
}

func (s *sysR) Enabled() []string {
	if s.broken != "" || s.bad {
		return nil
	}
	var ev []string
	for _, b := range []string{"X", "Y"} {
		if s.binding != b {
			ev = append(ev, "bind:"+b)
		}
	}
	if s.binding != "-" && s.ndial < 3 {
		ev = append(ev, "connect")
	}
	return append(ev, "drop", "tick")
}

func (s *sysR) Apply(ev string) {
	if s.broken != "" {
		return
	}
	s.lastEv = ev
	switch ev {
	case "bind:X":
		s.binding = "X"
		s.sw.Bind("aX", s.X.Conn)
	case "bind:Y":
		s.binding = "Y"
		s.sw.Bind("aX", s.Y.Conn)
	case "connect":
		n := s.X
		if s.binding == "Y" {
			n = s.Y
		}
		s.ndial++
		go func() {
			dctx, cancel := context.WithTimeout(s.ctx, 60*time.Second)
			defer cancel()
			_, _, _ = n.Tpt.DialPeer(dctx, s.keys[0].ID, "aL")
		}()
	case "drop":
		for _, n := range []*qnet.Node{s.X, s.Y} {
			for _, l := range n.Rec.Live() {
				_ = l.Close()
			}
		}
	case "tick":
		time.Sleep(realHorizon)
	}
}

func (s *sysR) counts() (lx, ly, nx, ny int) {
	return len(s.ctrl.GetPeerLinks(s.keys[1].ID)), len(s.ctrl.GetPeerLinks(s.keys[2].ID)), len(s.X.Rec.Live()), len(s.Y.Rec.Live())
}

func (s *sysR) Check() []string {
	if s.broken != "" || s.lastEv != "tick" {
		return nil
	}
	lx, ly, nx, ny := s.counts()
	var out []string
	for _, c := range []struct {
		name   string
		l, own int
	}{{"X", lx, nx}, {"Y", ly, ny}} {
		if c.l > c.own {
			out = append(out, fmt.Sprintf("reports-lost-link/real-transport :: after %v of virtual time the controller reports %d link(s) to peer %s, whose own transport holds %d link(s) with L: a link that was lost (closed by L's transport when a newer session arrived from the same address, or timed out) is still reported", realHorizon, c.l, c.name, c.own))
		}
	}
	if len(out) > 0 {
		s.bad = true
	}
	return out
}

func (s *sysR) Canon() string {
	if s.broken != "" {
		return "BROKEN " + s.broken
	}
	lx, ly, nx, ny := s.counts()
	return fmt.Sprintf("aX->%s L[X=%d Y=%d] nodes[X=%d Y=%d] dials=%d afterTick=%v", s.binding, lx, ly, nx, ny, s.ndial, s.lastEv == "tick")
}

func (s *sysR) Close() {
	if s.X != nil {
		s.X.Close()
	}
	if s.Y != nil {
		s.Y.Close()
	}
	s.cancel()
	if s.lconn != nil {
		_ = s.lconn.Close()
	}
}

func realSeamConfig(depth int, deadline time.Time) *hist.Config {
	os.Setenv("QUIC_GO_DISABLE_RECEIVE_BUFFER_WARNING", "true")
	return &hist.Config{Name: "real-quic-transport/newer-session-from-the-same-address", MaxDepth: depth, Deadline: deadline, New: func() hist.Sys {
		s := newSysR()
		if s.broken != "" {
			panic("seam R set-up failed: " + s.broken)
		}
		return s
	}}
}

var _ = strings.TrimSpace
