package tch

import (
	"strings"
	"testing"
	"testing/synctest"

	"verifh/hist"
)

// Confirm replays every violating history n more times on fresh systems and
// keeps a violation only if each replay reports the same key again. It
// returns the number of violations dropped as not reproducible (the caller
// then marks the run non-exhaustive instead of reporting them).
func Confirm(t *testing.T, mk func() hist.Sys, res *hist.Result, n int) int {
	var kept []hist.Violation
	dropped := 0
	for _, v := range res.Violations {
		if v.Key == "panic" {
			kept = append(kept, v)
			continue
		}
		ok := true
		for i := 0; i < n && ok; i++ {
			found := false
			synctest.Test(t, func(t *testing.T) {
				sys := mk()
				defer sys.Close()
				synctest.Wait()
				for _, ev := range v.History {
					sys.Apply(ev)
					synctest.Wait()
					for _, s := range sys.Check() {
						if k, _, _ := strings.Cut(s, " :: "); k == v.Key {
							found = true
						}
					}
				}
			})
			ok = found
		}
		if ok {
			kept = append(kept, v)
		} else {
			dropped++
		}
	}
	res.Violations = kept
	return dropped
}
