// Package tch is the shared E3 harness for C04 and C06: a real
// transport_controller.Controller executing on a real controllerbus, fed by a
// harness transport whose TransportHandler callbacks (HandleLinkEstablished /
// HandleLinkLost) are driven event by event with fake link.Link objects, and
// observed through EstablishLinkWithPeer directives, Controller.GetPeerLinks,
// a HandleMountedStream recorder and (via an overlay export shim) the
// controller's private link tables. The reference model is kept alongside.
package tch

import (
	"context"
	"errors"
	"fmt"
	"io"
	"sort"
	"strconv"
	"strings"
	"sync"
	"sync/atomic"
	"time"

	"github.com/aperturerobotics/bifrost/crypto"
	"github.com/aperturerobotics/bifrost/link"
	"github.com/aperturerobotics/bifrost/peer"
	peer_controller "github.com/aperturerobotics/bifrost/peer/controller"
	"github.com/aperturerobotics/bifrost/stream"
	"github.com/aperturerobotics/bifrost/transport"
	transport_controller "github.com/aperturerobotics/bifrost/transport/controller"
	"github.com/aperturerobotics/controllerbus/bus"
	"github.com/aperturerobotics/controllerbus/bus/inmem"
	"github.com/aperturerobotics/controllerbus/controller"
	"github.com/aperturerobotics/controllerbus/directive"
	cdc "github.com/aperturerobotics/controllerbus/directive/controller"
	"github.com/blang/semver/v4"
	"github.com/sirupsen/logrus"

	"verifh/enum"
	"verifh/vsync"
)

// Counters for vacuity accounting (whole process).
var (
	ValuesJudged     atomic.Int64 // lookup values received and judged
	StreamsDelivered atomic.Int64 // mounted streams dispatched to the recorder
	SelfDials        atomic.Int64 // self-remote links reported established
	Replacements     atomic.Int64 // same-UUID replacements applied
	LateLosses       atomic.Int64 // loss reports for links that were not live
)

// LinkSpec describes one fake link object of the universe.
type LinkSpec struct {
	Name   string
	UUID   uint64
	Remote string // "A", "B", "self"
	// Gated: the link's first GetLocalPeer call (made by the controller while
	// it applies the link's established event, under its lock) signals
	// InApply and blocks until Gate is closed (controlled-scheduler scenarios
	// only): further events can then be reported while an event is applied.
	Gated bool
}

// LookupSpec describes one EstablishLinkWithPeer observer.
type LookupSpec struct {
	Src string // "", "self", "other"
	Dst string // "A", "B", "self"
}

func (l LookupSpec) String() string { return "(" + l.Src + "->" + l.Dst + ")" }

// Config selects the universe and the event menu.
type Config struct {
	Links   []LinkSpec
	Lookups []LookupSpec
	// StaticLookups: all lookups are added before the first event and stay;
	// otherwise "look+:i" / "look-:i" events toggle them.
	StaticLookups bool
	// DupEstablish offers est:L again while L is live (duplicate report).
	DupEstablish bool
	// LoseNeverEstablished offers lose:L for links never reported established.
	LoseNeverEstablished bool
	// Streams offers strm:L (an incoming stream on a live link).
	Streams bool
	// Tick offers "tick" (advance virtual time by one minute).
	Tick bool
	// EarlyLookups: the (static) lookups are added to the bus before the
	// transport controller is, so their directives reach the controller while
	// its transport is not constructed yet.
	EarlyLookups bool
	// AnyPeer: the controller is built WITHOUT a configured peer id (it takes the
	// identity of the peer found on the bus, as a transport config without a
	// transport_peer_id does).
	AnyPeer bool
	// Contract: the fake link honours link.Link's documented contract "Close:
	// the link should call the HandleLinkLost callback exactly once".
	Contract bool
}

const (
	stNew  = iota // never reported established
	stLive        // established and not lost (reference model)
	stGone        // lost, replaced by a same-UUID link, or refused (self-dial)
)

// FakeLink is a link.Link with chosen attributes that records Close calls.
type FakeLink struct {
	Spec          LinkSpec
	local, remote peer.ID
	sys           *Sys

	mu       sync.Mutex
	closed   int
	closeCh  chan struct{}
	streams  chan *fakeStream
	lostSent bool

	Gate, InApply chan struct{}
	gatePassed    bool
}

func (l *FakeLink) GetUUID() uint64                { return l.Spec.UUID }
func (l *FakeLink) GetTransportUUID() uint64       { return 7 }
func (l *FakeLink) GetRemoteTransportUUID() uint64 { return 8 }
func (l *FakeLink) GetLocalPeer() peer.ID {
	if l.Gate != nil {
		l.mu.Lock()
		first := !l.gatePassed
		l.gatePassed = true
		l.mu.Unlock()
		if first {
			close(vsync.C(l.InApply))
			<-vsync.R(l.Gate)
		}
	}
	return l.local
}
func (l *FakeLink) GetRemotePeer() peer.ID         { return l.remote }
func (l *FakeLink) OpenStream(stream.OpenOpts) (stream.Stream, error) {
	return nil, errors.New("fake link: no outgoing streams")
}
func (l *FakeLink) AcceptStream() (stream.Stream, stream.OpenOpts, error) {
	select {
	case <-l.closeCh:
		return nil, stream.OpenOpts{}, io.EOF
	default:
	}
	select {
	case s := <-l.streams:
		return s, stream.OpenOpts{}, nil
	case <-l.closeCh:
		return nil, stream.OpenOpts{}, io.EOF
	}
}
func (l *FakeLink) Close() error {
	s := l.sys
	l.mu.Lock()
	l.closed++
	first := l.closed == 1
	report := first && s.cfg.Contract && !l.lostSent && !s.isClosing()
	if report {
		l.lostSent = true
	}
	l.mu.Unlock()
	if first {
		close(l.closeCh)
	}
	if first && !s.isClosing() {
		// Closing a link that is established and not lost is legitimate (idle
		// links are dropped) as long as the controller still lists it until the
		// transport reports the loss. A live link that is closed after having
		// been taken out of the tables was removed without a loss report.
		s.mu.Lock()
		live := s.state[l.Spec.Name] == stLive
		s.mu.Unlock()
		if live {
			bu, _, _ := transport_controller.VerifC06Tables(s.ctrl)
			s.mu.Lock()
			// Reading the tables takes the controller's lock: under the controlled
			// scheduler the transport thread may report this very link's loss in
			// between (the model is updated first, then the controller drops the
			// link - legitimately). Only a link that is STILL live in the model
			// when the tables were read was removed without a loss report.
			if s.state[l.Spec.Name] == stLive && bu[l.Spec.UUID] != link.Link(l) {
				s.droppedLive = append(s.droppedLive, l.Spec.Name)
			}
			if report {
				// the link now reports its own loss: from here on it is lost
				s.state[l.Spec.Name] = stGone
				s.goneWhy[l.Spec.Name] = "closed-by-controller-and-reported-lost"
			}
			s.mu.Unlock()
		}
	}
	if report {
		// as real transports do: report the loss from a separate goroutine
		s.mu.Lock()
		s.autoLost = append(s.autoLost, l.Spec.Name)
		s.mu.Unlock()
		h := s.handler
		go h.HandleLinkLost(l)
	}
	return nil
}
func (l *FakeLink) isClosed() bool {
	l.mu.Lock()
	defer l.mu.Unlock()
	return l.closed > 0
}

type fakeStream struct {
	data   []byte
	pos    int
	closed bool
}

func (s *fakeStream) Read(b []byte) (int, error) {
	if s.pos >= len(s.data) {
		return 0, io.EOF
	}
	n := copy(b, s.data[s.pos:])
	s.pos += n
	return n, nil
}
func (s *fakeStream) Write(b []byte) (int, error)      { return len(b), nil }
func (s *fakeStream) SetReadDeadline(time.Time) error  { return nil }
func (s *fakeStream) SetWriteDeadline(time.Time) error { return nil }
func (s *fakeStream) SetDeadline(time.Time) error      { return nil }
func (s *fakeStream) Close() error                     { s.closed = true; return nil }

type fakeTransport struct {
	id peer.ID
}

func (t *fakeTransport) Execute(ctx context.Context) error { <-ctx.Done(); return nil }
func (t *fakeTransport) GetUUID() uint64                   { return 7 }
func (t *fakeTransport) GetPeerID() peer.ID                { return t.id }
func (t *fakeTransport) Close() error                      { return nil }

// lookup observes one EstablishLinkWithPeer directive.
type lookup struct {
	spec     LookupSpec
	src, dst peer.ID
	sys      *Sys
	ref      directive.Reference
	mu       sync.Mutex
	cur      map[uint32]link.MountedLink
	disposed bool
}

func (o *lookup) HandleValueAdded(_ directive.Instance, v directive.AttachedValue) {
	ml, ok := v.GetValue().(link.MountedLink)
	o.mu.Lock()
	defer o.mu.Unlock()
	if !ok {
		o.sys.note("c04:lookup-yields-foreign-value :: lookup %s received a value of type %T", o.spec, v.GetValue())
		return
	}
	o.cur[v.GetValueID()] = ml
	o.sys.judgeValue(o, ml)
}
func (o *lookup) HandleValueRemoved(_ directive.Instance, v directive.AttachedValue) {
	o.mu.Lock()
	delete(o.cur, v.GetValueID())
	o.mu.Unlock()
}
func (o *lookup) HandleInstanceDisposed(directive.Instance) {
	o.mu.Lock()
	o.disposed = true
	o.mu.Unlock()
}

// recorder answers HandleMountedStream lookups and records the streams.
type recorder struct {
	mu    sync.Mutex
	calls []strmCall
}

type strmCall struct {
	pid                       string
	peer, lnkRemote, lnkLocal peer.ID
	uuid                      uint64
}

func (r *recorder) GetControllerInfo() *controller.Info {
	return controller.NewInfo("verif/tch/recorder", semver.MustParse("0.0.1"), "records mounted streams")
}
func (r *recorder) Execute(ctx context.Context) error { return nil }
func (r *recorder) Close() error                      { return nil }
func (r *recorder) HandleDirective(ctx context.Context, di directive.Instance) ([]directive.Resolver, error) {
	if _, ok := di.GetDirective().(link.HandleMountedStream); ok {
		return directive.R(directive.NewValueResolver([]link.MountedStreamHandler{r}), nil)
	}
	return nil, nil
}
func (r *recorder) HandleMountedStream(ctx context.Context, ms link.MountedStream) error {
	r.mu.Lock()
	StreamsDelivered.Add(1)
	r.calls = append(r.calls, strmCall{string(ms.GetProtocolID()), ms.GetPeerID(), ms.GetLink().GetRemotePeer(), ms.GetLink().GetLocalPeer(), ms.GetLink().GetLinkUUID()})
	r.mu.Unlock()
	return nil
}

// Sys is one fresh controller + bus + observers + reference model.
type Sys struct {
	cfg     *Config
	ctx     context.Context
	cancel  context.CancelFunc
	bus     bus.Bus
	ctrl    *transport_controller.Controller
	handler transport.TransportHandler
	rec     *recorder
	peers   map[string]peer.ID // "self","A","B","other"
	names   map[peer.ID]string
	links   []*FakeLink
	byName  map[string]*FakeLink
	lookups []*lookup
	closing bool // guarded by mu

	// reference model
	state   map[string]int  // link name -> stNew/stLive/stGone
	selfRef map[string]bool // refused as self-dial
	goneWhy map[string]string
	strmOn  map[string]string // protocol id of a delivered stream -> link name
	ticked  bool
	strmN   int

	mu          sync.Mutex
	notes       []string // violations noticed inside callbacks
	lastEv      string
	lastWasOn   string   // status of the link named by the last lose event, before it
	autoLost    []string // links that reported their own loss on Close during the last event (Contract)
	droppedLive []string // live links closed after removal from the tables, during the last event
	broken      string   // harness could not be set up
}

func (s *Sys) note(format string, a ...any) {
	s.mu.Lock()
	s.notes = append(s.notes, fmt.Sprintf(format, a...))
	s.mu.Unlock()
}

// New builds and starts the system. Must be called inside the bubble.
func New(cfg *Config) *Sys {
	s := &Sys{cfg: cfg, peers: map[string]peer.ID{}, names: map[peer.ID]string{}, byName: map[string]*FakeLink{}, state: map[string]int{}, selfRef: map[string]bool{}, goneWhy: map[string]string{}, strmOn: map[string]string{}}
	s.ctx, s.cancel = context.WithCancel(context.Background())
	keys := enum.Keys(4)
	for i, n := range []string{"self", "A", "B", "other"} {
		s.peers[n] = keys[i].ID
		s.names[keys[i].ID] = n
	}
	lg := logrus.New()
	lg.SetOutput(io.Discard)
	le := logrus.NewEntry(lg)
	b := inmem.NewBus(cdc.NewController(s.ctx, le))
	s.bus = b
	lp, err := peer.NewPeer(keys[0].Priv)
	if err != nil {
		s.broken = err.Error()
		return s
	}
	if _, err := b.AddController(s.ctx, peer_controller.NewController(le, lp), nil); err != nil {
		s.broken = err.Error()
		return s
	}
	s.rec = &recorder{}
	if _, err := b.AddController(s.ctx, s.rec, nil); err != nil {
		s.broken = err.Error()
		return s
	}
	cfgPeer := keys[0].ID
	if cfg.AnyPeer {
		cfgPeer = ""
	}
	s.ctrl = transport_controller.NewController(le, b, controller.NewInfo("verif/tch/tpt", semver.MustParse("0.0.1"), "controller under test"), cfgPeer, false,
		func(ctx context.Context, le *logrus.Entry, pkey crypto.PrivKey, handler transport.TransportHandler) (transport.Transport, error) {
			id, err := peer.IDFromPrivateKey(pkey)
			if err != nil {
				return nil, err
			}
			s.mu.Lock()
			s.handler = handler
			s.mu.Unlock()
			return &fakeTransport{id: id}, nil
		})
	if cfg.EarlyLookups {
		for _, lk := range cfg.Lookups {
			src := peer.ID("")
			if lk.Src != "" {
				src = s.peers[lk.Src]
			}
			s.lookups = append(s.lookups, &lookup{spec: lk, src: src, dst: s.peers[lk.Dst], sys: s})
		}
		for i := range s.lookups {
			s.addLookup(i)
		}
	}
	if _, err := b.AddController(s.ctx, s.ctrl, nil); err != nil {
		s.broken = err.Error()
		return s
	}
	for _, ls := range cfg.Links {
		l := &FakeLink{Spec: ls, local: s.peers["self"], remote: s.peers[ls.Remote], sys: s, closeCh: make(chan struct{}), streams: make(chan *fakeStream, 4)}
		if ls.Gated {
			l.Gate, l.InApply = make(chan struct{}), make(chan struct{})
		}
		s.links = append(s.links, l)
		s.byName[ls.Name] = l
		s.state[ls.Name] = stNew
	}
	if !cfg.EarlyLookups {
		for _, lk := range cfg.Lookups {
			src := peer.ID("")
			if lk.Src != "" {
				src = s.peers[lk.Src]
			}
			s.lookups = append(s.lookups, &lookup{spec: lk, src: src, dst: s.peers[lk.Dst], sys: s})
		}
	}
	return s
}

// Ready finishes start-up once the controller has been given time to execute
// (the caller waits for quiescence between New and Ready).
func (s *Sys) Ready() {
	if s.broken != "" {
		return
	}
	s.mu.Lock()
	h := s.handler
	s.mu.Unlock()
	if h == nil {
		s.broken = "transport constructor was not called"
		return
	}
	if s.cfg.StaticLookups && !s.cfg.EarlyLookups {
		for i := range s.lookups {
			s.addLookup(i)
		}
	}
}

func (s *Sys) addLookup(i int) {
	o := s.lookups[i]
	o.mu.Lock()
	o.cur = map[uint32]link.MountedLink{}
	o.disposed = false
	o.mu.Unlock()
	_, ref, err := s.bus.AddDirective(link.NewEstablishLinkWithPeer(o.src, o.dst), o)
	if err != nil {
		s.broken = "AddDirective: " + err.Error()
		return
	}
	o.ref = ref
}

// Broken reports a harness set-up failure (never a property violation).
func (s *Sys) Broken() string { return s.broken }

func header(id string) []byte {
	body := append([]byte{0x0a, byte(len(id))}, id...)
	return append([]byte{byte(len(body))}, body...)
}

// Enabled lists the events applicable next.
func (s *Sys) Enabled() []string {
	var ev []string
	for _, l := range s.links {
		st := s.state[l.Spec.Name]
		if st == stNew || (st == stLive && s.cfg.DupEstablish) {
			ev = append(ev, "est:"+l.Spec.Name)
		}
	}
	for _, l := range s.links {
		st := s.state[l.Spec.Name]
		if st != stNew || s.cfg.LoseNeverEstablished {
			ev = append(ev, "lose:"+l.Spec.Name)
		}
	}
	if !s.cfg.StaticLookups {
		for i, o := range s.lookups {
			if o.ref == nil {
				ev = append(ev, "look+:"+strconv.Itoa(i))
			} else {
				ev = append(ev, "look-:"+strconv.Itoa(i))
			}
		}
	}
	if s.cfg.Streams {
		for _, l := range s.links {
			if s.state[l.Spec.Name] == stLive {
				ev = append(ev, "strm:"+l.Spec.Name)
			}
		}
	}
	if s.cfg.Tick {
		ev = append(ev, "tick")
	}
	return ev
}

func (s *Sys) statusName(n string) string {
	switch {
	case s.state[n] == stNew:
		return "never-established"
	case s.state[n] == stLive:
		return "live"
	default:
		return s.goneWhy[n]
	}
}

// Apply performs one event: updates the reference model, then calls the real code.
func (s *Sys) Apply(ev string) {
	if s.broken != "" {
		return
	}
	s.mu.Lock()
	s.lastEv = ev
	s.lastWasOn = ""
	s.autoLost = nil
	s.droppedLive = nil
	s.mu.Unlock()
	kind, arg, _ := strings.Cut(ev, ":")
	switch kind {
	case "est":
		l := s.byName[arg]
		s.mu.Lock()
		if s.state[arg] == stNew {
			if l.Spec.Remote == "self" {
				s.state[arg] = stGone
				s.selfRef[arg] = true
				s.goneWhy[arg] = "refused-self-dial"
				SelfDials.Add(1)
			} else {
				for _, o := range s.links {
					if o != l && o.Spec.UUID == l.Spec.UUID && s.state[o.Spec.Name] == stLive {
						s.state[o.Spec.Name] = stGone // replaced by the newer link
						s.goneWhy[o.Spec.Name] = "replaced"
						Replacements.Add(1)
					}
				}
				s.state[arg] = stLive
			}
		}
		s.mu.Unlock()
		s.handler.HandleLinkEstablished(l)
	case "lose":
		l := s.byName[arg]
		s.mu.Lock()
		s.lastWasOn = s.statusName(arg)
		if s.lastWasOn == "lost" {
			s.lastWasOn = "already-lost"
		}
		if s.state[arg] == stLive {
			s.state[arg] = stGone
		} else {
			LateLosses.Add(1)
		}
		if s.state[arg] == stGone && !s.selfRef[arg] {
			s.goneWhy[arg] = "lost"
		}
		s.mu.Unlock()
		l.mu.Lock()
		l.lostSent = true
		l.mu.Unlock()
		s.handler.HandleLinkLost(l)
	case "look+":
		i, _ := strconv.Atoi(arg)
		s.addLookup(i)
	case "look-":
		i, _ := strconv.Atoi(arg)
		s.lookups[i].ref.Release()
		s.lookups[i].ref = nil
	case "strm":
		l := s.byName[arg]
		s.strmN++
		pid := "verif/p" + strconv.Itoa(s.strmN)
		s.strmOn[pid] = arg
		select {
		case l.streams <- &fakeStream{data: append(header(pid), 'x', 'y')}:
		default:
		}
	case "tick":
		s.ticked = true
		time.Sleep(time.Minute)
	}
}

func (s *Sys) linkName(l link.Link) string {
	if fl, ok := l.(*FakeLink); ok && fl != nil {
		return fl.Spec.Name
	}
	return fmt.Sprintf("?%T", l)
}

func (s *Sys) peerName(p peer.ID) string {
	if n, ok := s.names[p]; ok {
		return n
	}
	if p == "" {
		return "-"
	}
	return "?" + p.String()
}

// judgeValue is called for every value a lookup receives (C04 per-value
// oracle, C06 "never reported again").
func (s *Sys) judgeValue(o *lookup, ml link.MountedLink) {
	ValuesJudged.Add(1)
	under := transport_controller.VerifC06LinkOfMounted(ml)
	ln := "?"
	if under != nil {
		ln = s.linkName(under)
	}
	if ml.GetRemotePeer() != o.dst {
		s.note("c04:lookup-yields-link-to-other-peer :: lookup %s received link %s whose remote peer is %s", o.spec, ln, s.peerName(ml.GetRemotePeer()))
	}
	if ml.GetLocalPeer() != s.peers["self"] {
		s.note("c04:lookup-yields-link-with-foreign-local-peer :: lookup %s received link %s whose local peer is %s", o.spec, ln, s.peerName(ml.GetLocalPeer()))
	}
	if o.src != "" && o.src != ml.GetLocalPeer() {
		s.note("c04:lookup-ignores-source-constraint :: lookup %s (source %s) received link %s whose local peer is %s", o.spec, o.spec.Src, ln, s.peerName(ml.GetLocalPeer()))
	}
	if ml.GetRemotePeer() == s.peers["self"] {
		s.note("c04:self-link-yielded :: lookup %s received link %s whose remote peer is the local peer", o.spec, ln)
	}
	if fl, ok := under.(*FakeLink); ok && fl != nil {
		s.mu.Lock()
		st, sn := s.state[fl.Spec.Name], s.statusName(fl.Spec.Name)
		s.mu.Unlock()
		if st != stLive {
			s.note("c06:gone-link-yielded-by-lookup :: lookup %s received link %s which is %s", o.spec, fl.Spec.Name, sn)
		}
	}
}

func setStr(m map[string]int) string {
	var ks []string
	for k, n := range m {
		if n > 1 {
			k += "x" + strconv.Itoa(n)
		}
		ks = append(ks, k)
	}
	sort.Strings(ks)
	return "{" + strings.Join(ks, ",") + "}"
}

type snapshot struct {
	byUUID   map[uint64]string
	byPeer   map[string]map[string]int
	local    string
	peerLnks map[string]map[string]int // GetPeerLinks per peer name
	lookVals []map[string]int          // per lookup (nil if inactive)
	lookRaw  [][]link.MountedLink
	closed   map[string]bool
}

func (s *Sys) snap() *snapshot {
	sn := &snapshot{byUUID: map[uint64]string{}, byPeer: map[string]map[string]int{}, peerLnks: map[string]map[string]int{}, closed: map[string]bool{}}
	bu, bp, local := transport_controller.VerifC06Tables(s.ctrl)
	sn.local = s.peerName(local)
	for u, l := range bu {
		sn.byUUID[u] = s.linkName(l)
	}
	for p, ls := range bp {
		m := map[string]int{}
		for _, l := range ls {
			m[s.linkName(l)]++
		}
		sn.byPeer[s.peerName(p)] = m
	}
	for _, pn := range []string{"A", "B", "self", "other"} {
		m := map[string]int{}
		for _, l := range s.ctrl.GetPeerLinks(s.peers[pn]) {
			m[s.linkName(l)]++
		}
		sn.peerLnks[pn] = m
	}
	for _, o := range s.lookups {
		if o.ref == nil {
			sn.lookVals = append(sn.lookVals, nil)
			sn.lookRaw = append(sn.lookRaw, nil)
			continue
		}
		m := map[string]int{}
		var raw []link.MountedLink
		o.mu.Lock()
		for _, ml := range o.cur {
			raw = append(raw, ml)
			if u := transport_controller.VerifC06LinkOfMounted(ml); u != nil {
				m[s.linkName(u)]++
			} else {
				m[fmt.Sprintf("?%T", ml)]++
			}
		}
		o.mu.Unlock()
		sn.lookVals = append(sn.lookVals, m)
		sn.lookRaw = append(sn.lookRaw, raw)
	}
	for _, l := range s.links {
		sn.closed[l.Spec.Name] = l.isClosed()
	}
	return sn
}

// Canon dumps the property-relevant state.
func (s *Sys) Canon() string {
	if s.broken != "" {
		return "BROKEN " + s.broken
	}
	sn := s.snap()
	var b strings.Builder
	b.WriteString("model:")
	for _, l := range s.links {
		fmt.Fprintf(&b, " %s=%d", l.Spec.Name, s.state[l.Spec.Name])
		if sn.closed[l.Spec.Name] {
			b.WriteString("c")
		}
		l.mu.Lock()
		if l.lostSent {
			b.WriteString("r")
		}
		l.mu.Unlock()
	}
	var us []int
	for u := range sn.byUUID {
		us = append(us, int(u))
	}
	sort.Ints(us)
	b.WriteString(" | links:")
	for _, u := range us {
		fmt.Fprintf(&b, " %d=%s", u, sn.byUUID[uint64(u)])
	}
	b.WriteString(" | byPeer:")
	var ps []string
	for p := range sn.byPeer {
		ps = append(ps, p)
	}
	sort.Strings(ps)
	for _, p := range ps {
		fmt.Fprintf(&b, " %s=%s", p, setStr(sn.byPeer[p]))
	}
	b.WriteString(" | get:")
	for _, p := range []string{"A", "B", "self", "other"} {
		fmt.Fprintf(&b, " %s=%s", p, setStr(sn.peerLnks[p]))
	}
	b.WriteString(" | look:")
	for i, m := range sn.lookVals {
		if m == nil {
			fmt.Fprintf(&b, " %d=off", i)
		} else {
			fmt.Fprintf(&b, " %d=%s", i, setStr(m))
		}
	}
	// directive instances alive on the bus (hold-open state)
	dm := map[string]int{}
	for _, di := range s.bus.GetDirectives() {
		id := di.GetDirectiveIdent()
		for p, n := range s.names {
			id = strings.ReplaceAll(id, p.String(), n)
		}
		dm[id]++
	}
	fmt.Fprintf(&b, " | dirs: %s", setStr(dm))
	fmt.Fprintf(&b, " | strm=%d ticked=%v", len(s.recCalls()), s.ticked)
	return b.String()
}

func (s *Sys) recCalls() []strmCall {
	s.rec.mu.Lock()
	defer s.rec.mu.Unlock()
	return append([]strmCall{}, s.rec.calls...)
}

// Check evaluates both oracles; each violation is "c04:key :: text" or "c06:key :: text".
func (s *Sys) Check() []string {
	if s.broken != "" {
		return nil
	}
	var out []string
	add := func(format string, a ...any) { out = append(out, fmt.Sprintf(format, a...)) }
	s.mu.Lock()
	out = append(out, s.notes...)
	s.notes = nil
	lastEv, lastWas := s.lastEv, s.lastWasOn
	autoLost := append([]string{}, s.autoLost...)
	droppedLive := append([]string{}, s.droppedLive...)
	s.mu.Unlock()
	// sameUUIDLoss: did a loss report for another link object with the same
	// UUID as link n reach the controller during the last event?
	sameUUIDLoss := func(n string) string {
		k, arg, _ := strings.Cut(lastEv, ":")
		if k == "lose" && arg != n && s.byName[arg].Spec.UUID == s.byName[n].Spec.UUID {
			return fmt.Sprintf("the loss report for %s (a %s link with the same UUID %d)", arg, lastWas, s.byName[n].Spec.UUID)
		}
		for _, an := range autoLost {
			if an != n && s.byName[an].Spec.UUID == s.byName[n].Spec.UUID {
				return fmt.Sprintf("the loss report that link %s sent when the controller closed it (same UUID %d)", an, s.byName[n].Spec.UUID)
			}
		}
		return ""
	}
	sn := s.snap()

	// reference: live links per remote peer
	want := map[string]map[string]int{}
	for _, l := range s.links {
		if s.state[l.Spec.Name] == stLive {
			if want[l.Spec.Remote] == nil {
				want[l.Spec.Remote] = map[string]int{}
			}
			want[l.Spec.Remote][l.Spec.Name] = 1
		}
	}
	// classify a missing live link: was it removed by a loss report for another link object?
	obsClass := func(observer string) string {
		if strings.HasPrefix(observer, "lookup") {
			return "lookup"
		}
		return observer
	}
	cmp := func(observer, pn string, got map[string]int) {
		w := want[pn]
		for n := range w {
			if got[n] == 0 {
				if why := sameUUIDLoss(n); why != "" {
					add("c06:late-loss-removes-same-uuid-link :: %s removed link %s, which is established and not lost: %s for peer %s reports %s, expected %s (after %s)", why, n, observer, pn, setStr(got), setStr(w), lastEv)
				} else {
					add("c06:live-link-not-reported/%s :: %s for peer %s lacks link %s which was established and not lost (reports %s, expected %s) after %s", obsClass(observer), observer, pn, n, setStr(got), setStr(w), lastEv)
				}
			}
		}
		for n, c := range got {
			if w[n] == 0 {
				st := "unknown"
				if fl, ok := s.byName[n]; ok {
					st = s.statusName(n)
					if fl.Spec.Remote != pn {
						st += ", a link to peer " + fl.Spec.Remote
					}
				}
				k := "gone-link-still-reported/" + obsClass(observer)
				if obsClass(observer) == "lookup" {
					k = "gone-link-yielded-by-lookup"
				}
				add("c06:%s :: %s for peer %s reports link %s which is %s (reports %s, expected %s) after %s", k, observer, pn, n, st, setStr(got), setStr(w), lastEv)
			} else if c > 1 {
				add("c06:link-reported-twice/%s :: %s for peer %s reports link %s %d times", obsClass(observer), observer, pn, n, c)
			}
		}
	}
	for _, pn := range []string{"A", "B", "self", "other"} {
		cmp("GetPeerLinks", pn, sn.peerLnks[pn])
		cmp("linksByPeerID", pn, sn.byPeer[pn])
		tbl := map[string]int{}
		for _, n := range sn.byUUID {
			if fl, ok := s.byName[n]; ok && fl.Spec.Remote == pn {
				tbl[n]++
			}
		}
		cmp("links", pn, tbl)
	}
	for u, n := range sn.byUUID {
		if fl, ok := s.byName[n]; !ok || fl.Spec.UUID != u {
			add("c06:links-table-key-mismatch :: links[%d] holds %s", u, n)
		}
	}
	for i, o := range s.lookups {
		if o.ref == nil {
			continue
		}
		got := sn.lookVals[i]
		if o.spec.Src == "" || o.spec.Src == "self" {
			cmp("lookup"+o.spec.String(), o.spec.Dst, got)
		} else if len(got) != 0 {
			add("c04:lookup-ignores-source-constraint :: lookup %s with a source that is not the controller's peer holds %s", o.spec, setStr(got))
		}
		for _, ml := range sn.lookRaw[i] {
			if ml.GetRemotePeer() != o.dst {
				add("c04:lookup-yields-link-to-other-peer :: lookup %s holds a link whose remote peer is %s", o.spec, s.peerName(ml.GetRemotePeer()))
			}
			if ml.GetLocalPeer() != s.peers["self"] {
				add("c04:lookup-yields-link-with-foreign-local-peer :: lookup %s holds a link whose local peer is %s", o.spec, s.peerName(ml.GetLocalPeer()))
			}
		}
	}
	for _, l := range s.links {
		n := l.Spec.Name
		switch {
		case s.selfRef[n]:
			if !sn.closed[n] {
				add("c04:self-link-not-closed :: link %s to the local peer itself was reported established and is not closed", n)
			}
			for u, tn := range sn.byUUID {
				if tn == n {
					add("c04:self-link-stored :: link %s to the local peer itself is stored in links[%d]", n, u)
				}
			}
			if sn.peerLnks["self"][n] > 0 || sn.byPeer["self"][n] > 0 {
				add("c04:self-link-stored :: link %s to the local peer itself is reported by GetPeerLinks / linksByPeerID", n)
			}
		case s.state[n] == stGone && !sn.closed[n]:
			add("c06:gone-link-not-closed :: link %s was lost or replaced but Close was never called on it (after %s)", n, lastEv)
		}
	}
	for _, n := range droppedLive {
		if why := sameUUIDLoss(n); why != "" {
			add("c06:late-loss-removes-same-uuid-link :: %s made the controller drop and close link %s, which was established and not lost (after %s)", why, n, lastEv)
		} else {
			add("c06:live-link-dropped-without-loss-report :: link %s was established and not lost, yet the controller removed it from its tables and closed it (after %s)", n, lastEv)
		}
	}
	if sn.local != "self" {
		add("c06:controller-lost-identity :: controller local peer is %s", sn.local)
	}
	// streams: every recorded stream reports its link's remote peer
	for _, c := range s.recCalls() {
		exp := s.byName[s.strmOn[c.pid]]
		if exp == nil {
			add("c04:unexpected-stream :: a mounted stream with protocol %q was dispatched but never delivered by the harness", c.pid)
			continue
		}
		if c.peer != exp.remote || c.lnkRemote != exp.remote || c.lnkLocal != exp.local || c.uuid != exp.Spec.UUID {
			add("c04:stream-peer-differs-from-link-remote :: stream %s delivered on link %s (remote %s) reports peer %s on link uuid=%d %s->%s", c.pid, exp.Spec.Name, exp.Spec.Remote, s.peerName(c.peer), c.uuid, s.peerName(c.lnkLocal), s.peerName(c.lnkRemote))
		}
	}
	return out
}

// Streams returns, for vacuity accounting, the number of mounted streams dispatched.
func (s *Sys) Streams() int { return len(s.recCalls()) }

// Close shuts everything down so that the bubble can exit.
func (s *Sys) isClosing() bool {
	s.mu.Lock()
	defer s.mu.Unlock()
	return s.closing
}

func (s *Sys) Close() {
	s.mu.Lock()
	s.closing = true
	s.mu.Unlock()
	for _, o := range s.lookups {
		if o.ref != nil {
			o.ref.Release()
			o.ref = nil
		}
	}
	s.cancel()
	for _, l := range s.links {
		_ = l.Close()
	}
}
