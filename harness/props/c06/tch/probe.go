package tch

// Probe takes the controller's lock the way any other user of the controller
// does (GetPeerLinks for peer A); used by the concurrent-callback harness.
func (s *Sys) Probe() int {
	return len(s.ctrl.GetPeerLinks(s.peers["A"]))
}

// Link returns the fake link with the given name.
func (s *Sys) Link(name string) *FakeLink { return s.byName[name] }
