package c06

import (
	"runtime"
	"strings"
	"testing"
	"time"
	"testing/synctest"

	"verifh/evid"
	"verifh/hist"
	"verifh/mc"
	"verifh/props/c06/tch"
)

// sysW adapts tch.Sys to hist.Sys and keeps only the C06 oracle.
// A history is not extended beyond its first violation (only minimal
// counterexamples are reported, no knock-on effects).
type sysW struct {
	*tch.Sys
	bad *bool
}

func (w sysW) Check() []string {
	var out []string
	for _, v := range w.Sys.Check() {
		if k, ok := strings.CutPrefix(v, "c06:"); ok {
			out = append(out, k)
			*w.bad = true
		}
	}
	return out
}

func (w sysW) Enabled() []string {
	if *w.bad {
		return nil
	}
	return w.Sys.Enabled()
}

func mk(cfg *tch.Config) func() hist.Sys {
	return func() hist.Sys {
		s := tch.New(cfg)
		synctest.Wait() // controller executes, transport constructed
		s.Ready()
		if b := s.Broken(); b != "" {
			evid.Fatal("harness set-up failed: %s", b)
		}
		return sysW{s, new(bool)}
	}
}

func TestC06(t *testing.T) {
	run := evid.Start("C06", "model_checking")
	// one P: goroutines of a settling step run in one deterministic order
	runtime.GOMAXPROCS(1)
	agg := mc.NewAgg(run)
	// L1/L2: same UUID, same peer, distinct objects; L3: second link to A; L4: link to B;
	// L5: same UUID as L1/L2 but another peer; L6 (thorough): same UUID as L4.
	links := []tch.LinkSpec{{Name: "L1", UUID: 1, Remote: "A"}, {Name: "L2", UUID: 1, Remote: "A"}, {Name: "L3", UUID: 2, Remote: "A"}, {Name: "L4", UUID: 3, Remote: "B"}, {Name: "L5", UUID: 1, Remote: "B"}}
	if !run.Quick() {
		links = append(links, tch.LinkSpec{Name: "L6", UUID: 3, Remote: "B"})
	}
	lookups := []tch.LookupSpec{{Src: "", Dst: "A"}, {Src: "self", Dst: "B"}, {Src: "self", Dst: "A"}}
	type scen struct {
		name   string
		cfg    *tch.Config
		dq, dt int // depth quick / thorough
	}
	scens := []scen{
		// tables + GetPeerLinks only
		{"explicit-events/no-lookups", &tch.Config{Links: links, DupEstablish: true}, 7, 12},
		// plus three standing EstablishLinkWithPeer observers
		{"explicit-events/standing-lookups", &tch.Config{Links: links, Lookups: lookups, StaticLookups: true, DupEstablish: true}, 7, 12},
		// observers added / removed by events (initial value sets of late observers)
		{"explicit-events/toggled-lookups", &tch.Config{Links: links[:4], Lookups: lookups[:2]}, 6, 9},
		// the fake link honours link.Link's contract: Close => one HandleLinkLost report
		{"link-reports-loss-on-close/standing-lookups", &tch.Config{Links: links, Lookups: lookups[:2], StaticLookups: true, DupEstablish: true, Contract: true}, 7, 12},
		// loss reports also for links never reported established (loss overtakes establish)
		{"explicit-events/loss-before-establish", &tch.Config{Links: links, Lookups: lookups[:1], StaticLookups: true, LoseNeverEstablished: true}, 6, 10},
	}
	// seam R first (the real QUIC transport under the real controller), with at
	// most 6 minutes of the budget: the E3 scenarios below use whatever is left
	dR := 5
	if !run.Quick() {
		dR = 7
	}
	dlR := run.Deadline()
	if c := time.Now().Add(6 * time.Minute); c.Before(dlR) {
		dlR = c
	}
	resR := hist.BFS(t, realSeamConfig(dR, dlR))
	unconfirmed := 0
	for _, sc := range scens {
		d := sc.dq
		if !run.Quick() {
			d = sc.dt
		}
		res := hist.BFS(t, &hist.Config{Name: "controller/" + sc.name, MaxDepth: d, Deadline: run.Deadline(), New: mk(sc.cfg)})
		// every violating history is replayed 4 more times before it is reported
		if n := tch.Confirm(t, mk(sc.cfg), res, 4); n > 0 {
			res.Exhaustive = false
			unconfirmed += n
		}
		agg.AddHist(res)
	}
	exploreE2(t, run, agg)
	agg.AddHist(resR)
	agg.Finish(false)
	run.Cov["violations_dropped_as_not_reproducible"] = unconfirmed
	run.Assumptions = append(run.Assumptions,
		"E3: event orders are explored, not interleavings inside one event's settling (callbacks are delivered one at a time, each followed by quiescence); the concurrent-callback seam is E2; seam R runs the real QUIC transport (two peers sharing one address, either may connect to L) in a bubble with 120 s ticks",
		"states are de-duplicated on the dump of model, link tables, GetPeerLinks, lookup values, Close flags and live directive instances",
		"virtual time does not advance: hold-open expiry of idle links is not part of this search")
	run.Finish(t)
}
