package c06

import (
	"fmt"
	"strings"
	"testing"

	"verifh/evid"
	"verifh/mc"
	"verifh/props/c06/tch"
	"verifh/vsync"
)

// e2Scen: the transport reports link events from one goroutine (in order)
// while other goroutines use the controller (take its lock). The controller's
// callbacks use HoldLockMaybeAsync (TryLock, else a new goroutine), so the
// order in which reported events take effect is schedule-dependent.
type e2Scen struct {
	name   string
	events []string // reported sequentially by the transport thread
	probes int      // concurrent GetPeerLinks / lookup threads
}

func e2Body(sc e2Scen) func() {
	return func() {
		cfg := &tch.Config{
			Links:   []tch.LinkSpec{{Name: "L1", UUID: 1, Remote: "A"}, {Name: "L2", UUID: 1, Remote: "A"}, {Name: "L3", UUID: 2, Remote: "A"}},
			Lookups: []tch.LookupSpec{{Src: "", Dst: "A"}},
		}
		s := tch.New(cfg)
		vsync.Quiesce()
		s.Ready()
		if b := s.Broken(); b != "" {
			vsync.Logf("BROKEN %s", b)
			s.Close()
			return
		}
		var wg vsync.WaitGroup
		// probes are started first so that "a user of the controller holds its
		// lock while the transport reports" needs one deviation less
		for i := 0; i < sc.probes; i++ {
			wg.Add(1)
			vsync.GoNamed(fmt.Sprintf("probe%d", i), func() {
				defer wg.Done()
				s.Probe()
				s.Probe()
			})
		}
		wg.Add(1)
		vsync.GoNamed("transport", func() {
			defer wg.Done()
			for _, ev := range sc.events {
				vsync.Yield(ev)
				s.Apply(ev)
			}
		})
		wg.Wait()
		vsync.Quiesce()
		for _, v := range s.Check() {
			vsync.Logf("V06:%s", v)
		}
		vsync.Logf("state %s", s.Canon())
		s.Close()
		vsync.Quiesce()
	}
}

func exploreE2(t *testing.T, run *evid.Run, agg *mc.Agg) {
	scens := []e2Scen{
		{"est-lose", []string{"est:L1", "lose:L1"}, 1},
		{"est-replace-lose-old", []string{"est:L1", "est:L2", "lose:L1"}, 1},
		{"est-lose-est", []string{"est:L1", "lose:L1", "est:L3"}, 1},
	}
	bound := 2
	if !run.Quick() {
		bound = 3
		scens = append(scens, e2Scen{"est-lose-2probes", []string{"est:L1", "lose:L1"}, 2}, e2Scen{"est-est-lose-lose", []string{"est:L1", "est:L3", "lose:L1", "lose:L3"}, 1})
	}
	mc.RunScenarios(t, agg, len(scens), func(i int) *vsync.Config {
		sc := scens[i]
		return &vsync.Config{Name: "controller-e2/" + sc.name, Bound: bound, Delay: true, UnlockYield: true, DrainOnPrune: true, Deadline: run.Deadline(), MaxStep: 20000,
			Body: e2Body(sc),
			Check: func(x *vsync.Exec) string {
				if x.HorizonHit || x.Deadlock {
					return ""
				}
				var vs []string
				for _, l := range x.Log {
					if strings.HasPrefix(l, "V06:") {
						vs = append(vs, l)
					}
				}
				return strings.Join(vs, " ; ")
			}}
	}, func(v *vsync.Violation) string {
		seen := map[string]bool{}
		var ks []string
		for _, p := range strings.Split(v.What, " ; ") {
			k := strings.TrimPrefix(strings.SplitN(p, " :: ", 2)[0], "V06:")
			k = "concurrent/" + strings.TrimPrefix(strings.Fields(k)[0], "c06:")
			if !seen[k] {
				seen[k] = true
				ks = append(ks, k)
			}
		}
		return strings.Join(ks, " ; ")
	})
}
