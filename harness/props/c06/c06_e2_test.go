package c06

import (
	"fmt"
	"strings"
	"testing"

	"verifh/evid"
	"verifh/mc"
	"verifh/props/c06/tch"
	"verifh/vsync"
)

// e2Scen: the transport reports link events from one goroutine (in order)
// while other goroutines use the controller (take its lock). The controller's
// callbacks use HoldLockMaybeAsync (TryLock, else a new goroutine), so the
// order in which reported events take effect is schedule-dependent.
type e2Scen struct {
	name   string
	events []string // reported sequentially by the transport thread
	probes int      // concurrent GetPeerLinks / lookup threads
}

func e2Body(sc e2Scen) func() {
	return func() {
		cfg := &tch.Config{
			Links:   []tch.LinkSpec{{Name: "L1", UUID: 1, Remote: "A"}, {Name: "L2", UUID: 1, Remote: "A"}, {Name: "L3", UUID: 2, Remote: "A"}},
			Lookups: []tch.LookupSpec{{Src: "", Dst: "A"}},
		}
		s := tch.New(cfg)
		vsync.Quiesce()
		s.Ready()
		if b := s.Broken(); b != "" {
			vsync.Logf("BROKEN %s", b)
			s.Close()
			return
		}
		var wg vsync.WaitGroup
		// probes are started first so that "a user of the controller holds its
		// lock while the transport reports" needs one deviation less
		for i := 0; i < sc.probes; i++ {
			wg.Add(1)
			vsync.GoNamed(fmt.Sprintf("probe%d", i), func() {
				defer wg.Done()
				s.Probe()
				s.Probe()
			})
		}
		wg.Add(1)
		vsync.GoNamed("transport", func() {
			defer wg.Done()
			for _, ev := range sc.events {
				vsync.Yield(ev)
				s.Apply(ev)
			}
		})
		wg.Wait()
		vsync.Quiesce()
		for _, v := range s.Check() {
			vsync.Logf("V06:%s", v)
		}
		vsync.Logf("state %s", s.Canon())
		s.Close()
		vsync.Quiesce()
	}
}

// e2GatedBody: link events are reported WHILE an earlier event is being
// applied. The fake links L1 and L3 block inside the call the controller makes
// on them while applying their established event (under its lock); a second
// transport goroutine reports further events in those windows. The reports
// are totally ordered (the second goroutine waits for the first to be inside
// its callback), so the reference model is the sequential history
// est:L1, est:L3, lose:L1, est:L4, lose:L4, whose final link set is {L3}.
func e2GatedBody(probes int) func() {
	return func() {
		cfg := &tch.Config{
			Links:   []tch.LinkSpec{{Name: "L1", UUID: 1, Remote: "A", Gated: true}, {Name: "L3", UUID: 2, Remote: "A", Gated: true}, {Name: "L4", UUID: 3, Remote: "A"}},
			Lookups: []tch.LookupSpec{{Src: "", Dst: "A"}},
		}
		s := tch.New(cfg)
		vsync.Quiesce()
		s.Ready()
		if b := s.Broken(); b != "" {
			vsync.Logf("BROKEN %s", b)
			s.Close()
			return
		}
		var wg vsync.WaitGroup
		for i := 0; i < probes; i++ {
			wg.Add(1)
			vsync.GoNamed(fmt.Sprintf("probe%d", i), func() {
				defer wg.Done()
				s.Probe()
			})
		}
		l1, l3 := s.Link("L1"), s.Link("L3")
		wg.Add(2)
		vsync.GoNamed("transport1", func() {
			defer wg.Done()
			s.Apply("est:L1")
		})
		vsync.GoNamed("transport2", func() {
			defer wg.Done()
			<-vsync.R(l1.InApply)
			vsync.Logf("events reported while est:L1 is applied")
			s.Apply("est:L3")
			s.Apply("lose:L1")
			close(vsync.C(l1.Gate))
			<-vsync.R(l3.InApply)
			vsync.Logf("events reported while est:L3 is applied")
			s.Apply("est:L4")
			s.Apply("lose:L4")
			close(vsync.C(l3.Gate))
		})
		wg.Wait()
		vsync.Quiesce()
		for _, v := range s.Check() {
			vsync.Logf("V06:%s", v)
		}
		vsync.Logf("state %s", s.Canon())
		s.Close()
		vsync.Quiesce()
	}
}

func exploreE2(t *testing.T, run *evid.Run, agg *mc.Agg) {
	scens := []e2Scen{
		{"est-lose", []string{"est:L1", "lose:L1"}, 1},
		{"est-replace-lose-old", []string{"est:L1", "est:L2", "lose:L1"}, 1},
		{"est-lose-est", []string{"est:L1", "lose:L1", "est:L3"}, 1},
	}
	bound := 2
	if !run.Quick() {
		bound = 3
		scens = append(scens, e2Scen{"est-lose-2probes", []string{"est:L1", "lose:L1"}, 2}, e2Scen{"est-est-lose-lose", []string{"est:L1", "est:L3", "lose:L1", "lose:L3"}, 1})
	}
	scens = append(scens, e2Scen{name: "events-reported-while-an-event-is-applied", probes: -1})
	mc.RunScenarios(t, agg, len(scens), func(i int) *vsync.Config {
		sc := scens[i]
		body := e2Body(sc)
		if sc.probes < 0 {
			body = e2GatedBody(1)
		}
		return &vsync.Config{Name: "controller-e2/" + sc.name, Bound: bound, Delay: true, UnlockYield: true, DrainOnPrune: true, Deadline: run.Deadline(), MaxStep: 20000,
			Body: body,
			Observe: func(x *vsync.Exec) []string {
				var tags []string
				for _, l := range x.Log {
					if strings.HasPrefix(l, "events reported while") {
						tags = append(tags, l)
					}
				}
				return tags
			},
			Check: func(x *vsync.Exec) string {
				if x.HorizonHit || x.Deadlock {
					return ""
				}
				var vs []string
				for _, l := range x.Log {
					if strings.HasPrefix(l, "V06:") {
						vs = append(vs, l)
					}
				}
				return strings.Join(vs, " ; ")
			}}
	}, func(v *vsync.Violation) string {
		seen := map[string]bool{}
		var ks []string
		for _, p := range strings.Split(v.What, " ; ") {
			k := strings.TrimPrefix(strings.SplitN(p, " :: ", 2)[0], "V06:")
			k = "concurrent/" + strings.TrimPrefix(strings.Fields(k)[0], "c06:")
			if !seen[k] {
				seen[k] = true
				ks = append(ks, k)
			}
		}
		return strings.Join(ks, " ; ")
	})
}
