package c40

import (
	"strings"
	"bytes"
	"context"
	"crypto/sha256"
	"encoding/binary"
	"encoding/hex"
	"fmt"
	"io"
	"net"
	"runtime"
	"runtime/debug"
	"testing"
	"time"

	"github.com/aperturerobotics/bifrost/crypto"
	"github.com/aperturerobotics/bifrost/envelope"
	"github.com/aperturerobotics/bifrost/hash"
	link_solicit "github.com/aperturerobotics/bifrost/link/solicit"
	link_solicit_controller "github.com/aperturerobotics/bifrost/link/solicit/controller"
	"github.com/aperturerobotics/bifrost/peer"
	"github.com/aperturerobotics/bifrost/pubsub"
	"github.com/aperturerobotics/bifrost/pubsub/floodsub"
	"github.com/aperturerobotics/bifrost/pubsub/util/pubmessage"
	signaling_rpc "github.com/aperturerobotics/bifrost/signaling/rpc"
	stream_packet "github.com/aperturerobotics/bifrost/stream/packet"
	transport_controller "github.com/aperturerobotics/bifrost/transport/controller"
	"github.com/aperturerobotics/bifrost/transport/webrtc"
	"github.com/aperturerobotics/bifrost/util/rwc"
	protobuf_go_lite "github.com/aperturerobotics/protobuf-go-lite"
	"github.com/mr-tron/base58/base58"
	"github.com/sirupsen/logrus"

	"verifh/enum"
	"verifh/evid"
	"verifh/fakes"
	"verifh/ref"
)

// ---------------------------------------------------------------------------
// plumbing

// byteRWC serves a fixed byte string and then EOF; writes are discarded.
type byteRWC struct{ r *bytes.Reader }

func (b *byteRWC) Read(p []byte) (int, error)  { return b.r.Read(p) }
func (b *byteRWC) Write(p []byte) (int, error) { return len(p), nil }
func (b *byteRWC) Close() error                { return nil }

func newRWC(in []byte) *byteRWC { return &byteRWC{r: bytes.NewReader(in)} }

// detRand is a deterministic byte stream (SHA-256 in counter mode) used only
// to build fixtures, so that fixture bytes and hence case keys are stable.
type detRand struct {
	seed string
	n    uint64
	buf  []byte
}

func (d *detRand) Read(p []byte) (int, error) {
	for i := range p {
		if len(d.buf) == 0 {
			h := sha256.Sum256([]byte(fmt.Sprintf("%s/%d", d.seed, d.n)))
			d.n++
			d.buf = h[:]
		}
		p[i] = d.buf[0]
		d.buf = d.buf[1:]
	}
	return len(p), nil
}

// detBytes returns n bytes of the deterministic stream for seed.
func detBytes(seed string, n int) []byte {
	b := make([]byte, n)
	_, _ = (&detRand{seed: seed}).Read(b)
	return b
}

func le32(v uint32) []byte { b := make([]byte, 4); binary.LittleEndian.PutUint32(b, v); return b }
func uvarint(v uint64) []byte {
	b := make([]byte, binary.MaxVarintLen64)
	return b[:binary.PutUvarint(b, v)]
}
func frame(body []byte) []byte { return append(le32(uint32(len(body))), body...) }
func cat(bs ...[]byte) []byte  { return bytes.Join(bs, nil) }
func must[T any](v T, err error) T {
	if err != nil {
		evid.Fatal("fixture construction failed: %v", err)
	}
	return v
}

// result of one decode
type result struct {
	outcome string // short classification
	viol    string // non-empty: "<key-class>: text" contract violation (neither/both value and error)
}

type fixture struct {
	name string
	data []byte
	want string // outcome the unmodified fixture must produce (vacuity guard)
}

// lenPos is a length prefix inside a fixture.
type lenPos struct {
	off, size int
	le        bool // little-endian uint32 (else protobuf varint)
	what      string
	nested    bool // a length inside the message body (not the framing length)
}

type adapter struct {
	name     string
	anchor   string
	limit    int // configured size limit for a single message, 0 if the decoder has none
	heavy    bool
	fixtures []fixture
	frameLen func(f []byte) []lenPos // framing-level length prefixes
	pbStart  func(f []byte) []int    // offsets at which a protobuf message body starts (for nested length prefixes)
	decode   func(class string, in []byte) result
	extra    func(emit func(class, desc string, data []byte)) // adapter-specific field-menu cases
	first    func(emit func(class, desc string, data []byte)) // adapter-specific cases enumerated before the fixtures
}

// pbLenPositions lists the length varints of all length-delimited fields of
// the protobuf message b[start:end], recursing into fields that themselves
// parse as messages.
func pbLenPositions(b []byte, start, end, depth int, out *[]lenPos) {
	i := start
	for i < end {
		tag, n := binary.Uvarint(b[i:end])
		if n <= 0 {
			return
		}
		i += n
		switch tag & 7 {
		case 0:
			_, n := binary.Uvarint(b[i:end])
			if n <= 0 {
				return
			}
			i += n
		case 1:
			i += 8
		case 5:
			i += 4
		case 2:
			l, n := binary.Uvarint(b[i:end])
			if n <= 0 || uint64(end-i-n) < l {
				return
			}
			*out = append(*out, lenPos{off: i, size: n, nested: true, what: fmt.Sprintf("pb-field%d@%d", tag>>3, i)})
			if depth < 3 && l > 1 {
				if fs, err := ref.PBParse(b[i+n : i+n+int(l)]); err == nil && len(fs) > 0 {
					pbLenPositions(b, i+n, i+n+int(l), depth+1, out)
				}
			}
			i += n + int(l)
		default:
			return
		}
	}
}

var boundary = []byte{0x00, 0x01, 0x08, 0x0a, 0x12, 0x7f, 0x80, 0xff}
var quickVals = []byte{0x00, 0x01, 0x02, 0x08, 0x0a, 0x12, 0x1a, 0x20, 0x22, 0x40, 0x7f, 0x80, 0x81, 0xfe, 0xff}

// generate enumerates all inputs of one adapter.
func generate(a *adapter, quick bool, emit func(class, desc string, data []byte)) {
	vals := []byte(nil) // all 255 other values
	exts := []byte(nil)
	if quick {
		vals, exts = quickVals, quickVals
		if a.heavy {
			vals = boundary
		}
	}
	if a.first != nil {
		a.first(emit)
	}
	for fi, f := range a.fixtures {
		p := fmt.Sprintf("f%d:%s/", fi, f.name)
		emit("fixture", p+"valid", f.data)
		enum.ByteSubst(f.data, vals, func(m enum.Mut) { emit("subst", p+m.Desc, m.Data) })
		enum.Truncations(f.data, func(m enum.Mut) { emit("trunc", p+m.Desc, m.Data) })
		enum.Extensions(f.data, exts, func(m enum.Mut) { emit("ext", p+m.Desc, m.Data) })
		// deviation 2 on the first 8 bytes
		n := min(8, len(f.data))
		for i := 0; i < n; i++ {
			for j := i + 1; j < n; j++ {
				for _, vi := range boundary {
					for _, vj := range boundary {
						if vi == f.data[i] || vj == f.data[j] {
							continue
						}
						c := append([]byte{}, f.data...)
						c[i], c[j] = vi, vj
						emit("dev2", fmt.Sprintf("%ssubst[%d]=%02x,subst[%d]=%02x", p, i, vi, j, vj), c)
					}
				}
			}
		}
		// length-prefix attacks
		var lps []lenPos
		if a.frameLen != nil {
			lps = append(lps, a.frameLen(f.data)...)
		}
		if a.pbStart != nil {
			for _, s := range a.pbStart(f.data) {
				pbLenPositions(f.data, s, len(f.data), 0, &lps)
			}
		}
		for _, lp := range lps {
			// the configured limit applies to the framing length; lengths nested in the
			// body (and decoders without a limit) are attacked around a nominal 64 KiB
			lim := uint64(a.limit)
			if lim == 0 || lp.nested {
				lim = 65536
			}
			rest := f.data[lp.off+lp.size:]
			for _, v := range []uint64{0, 1, lim - 1, lim, lim + 1, 1<<31 - 1, 1 << 31, 1<<32 - 1} {
				var enc []byte
				if lp.le {
					enc = le32(uint32(v))
				} else {
					enc = uvarint(v)
				}
				head := cat(f.data[:lp.off], enc)
				bodies := map[string][]byte{"none": nil, "orig": rest}
				if len(rest) > 0 {
					bodies["short"] = rest[:min(3, len(rest))]
				} else {
					bodies["short"] = []byte{0x0a, 0x01, 0x00}
				}
				if v <= lim+1 && v > 0 {
					ex := make([]byte, v)
					src := rest
					if len(src) == 0 {
						src = []byte{0x0a, 0x00}
					}
					for k := range ex {
						ex[k] = src[k%len(src)]
					}
					bodies["exact"] = ex
				}
				for _, bn := range []string{"none", "short", "exact", "orig"} {
					body, ok := bodies[bn]
					if !ok {
						continue
					}
					emit("lenprefix", fmt.Sprintf("%s%s=%d+%s", p, lp.what, v, bn), cat(head, body))
				}
			}
		}
	}
	enum.Strings(boundary, 3, func(s []byte) { emit("short", hex.EncodeToString(s), append([]byte{}, s...)) })
	if a.extra != nil {
		a.extra(emit)
	}
}

func le32Frames(f []byte) []lenPos {
	var out []lenPos
	for i := 0; i+4 <= len(f); {
		l := int(binary.LittleEndian.Uint32(f[i:]))
		out = append(out, lenPos{off: i, size: 4, le: true, what: fmt.Sprintf("le32@%d", i)})
		i += 4 + l
	}
	return out
}

func le32Bodies(f []byte) []int {
	var out []int
	for i := 0; i+4 <= len(f); {
		l := int(binary.LittleEndian.Uint32(f[i:]))
		out = append(out, i+4)
		i += 4 + l
	}
	return out
}

// ---------------------------------------------------------------------------

func TestC40(t *testing.T) {
	run := evid.Start("C40", "exploration")
	quick := run.Quick()
	acc := enum.NewAcc(run, "per decoder: the valid encodings (fixtures), every single-byte substitution (all 255 values in thorough, 15 boundary values in quick; 8 for the decrypting decoders), every truncation, every one-byte extension, all pairs of boundary-value substitutions within the first 8 bytes, every length prefix (framing and nested protobuf) set to {0,1,limit-1,limit,limit+1,2^31-1,2^31,2^32-1} followed by {no, 3-byte, exact-length, original} body, all strings of length <= 3 over {00,01,08,0a,12,7f,80,ff}, and a per-decoder field menu; a case is non-trivial if it is not an unmodified fixture; distinct by (decoder, class, description)")
	keys := enum.Keys(3)
	logger := logrus.New()
	logger.SetOutput(io.Discard)
	logger.SetLevel(logrus.DebugLevel)
	le := logrus.NewEntry(logger)
	ctx := context.Background()

	both := func(what string) string { return "value-and-error: " + what + " returned both a value and an error" }
	neither := func(what string) string {
		return "neither-value-nor-error: " + what + " returned neither a value nor an error"
	}

	var adapters []*adapter

	// ---- 1. stream establish header ----
	{
		lim := int(transport_controller.VerifC40StreamEstablishMaxPacketSize())
		mk := func(pid string) []byte {
			return transport_controller.VerifC40MarshalStreamEstablishHeader(&transport_controller.StreamEstablish{ProtocolId: pid})
		}
		adapters = append(adapters, &adapter{
			name: "stream-establish-header", anchor: "transport/controller/establish-header.go", limit: lim,
			fixtures: []fixture{{"pid=a", mk("a"), "ok"}, {"pid=bifrost/floodsub", mk("bifrost/floodsub"), "ok"}, {"pid=200B", mk(string(bytes.Repeat([]byte("p"), 200))), "ok"}},
			frameLen: func(f []byte) []lenPos {
				_, n := binary.Uvarint(f)
				return []lenPos{{off: 0, size: n, what: "varint@0"}}
			},
			pbStart: func(f []byte) []int { _, n := binary.Uvarint(f); return []int{n} },
			decode: func(_ string, in []byte) result {
				msg, err := transport_controller.VerifC40ReadStreamEstablishHeader(bytes.NewReader(in))
				switch {
				case msg == nil && err == nil:
					return result{"neither", neither("readStreamEstablishHeader")}
				case msg != nil && err != nil:
					return result{"both", both("readStreamEstablishHeader")}
				case err != nil:
					return result{outcome: "err"}
				}
				return result{outcome: "ok"}
			},
		})
	}

	// ---- 2. PacketConn receive pump ----
	{
		const lim = 65536
		addr := &net.UDPAddr{IP: net.IPv4(127, 0, 0, 1), Port: 1}
		buf := make([]byte, lim+16)
		adapters = append(adapters, &adapter{
			name: "packet-conn-rx-pump", anchor: "util/rwc/packet-conn.go", limit: lim,
			fixtures: []fixture{{"1-packet", frame([]byte("hello packet")), "packets=1"}, {"2-packets", cat(frame([]byte{1, 2, 3}), frame(bytes.Repeat([]byte{9}, 40))), "packets=2"}, {"1-byte", frame([]byte{0}), "packets=1"}},
			frameLen: le32Frames,
			decode: func(_ string, in []byte) result {
				pc := rwc.VerifC40NewPacketConnNoPump(ctx, newRWC(in), addr, addr, lim, 4)
				done := make(chan any, 1)
				go func() {
					defer func() { done <- recover() }()
					_ = pc.VerifC40RxPump()
				}()
				n := 0
				res := result{}
				for {
					k, _, err := pc.ReadFrom(buf)
					if err != nil {
						if k != 0 {
							res.viol = both("PacketConn.ReadFrom")
						}
						break
					}
					if k == 0 {
						res.viol = neither("PacketConn.ReadFrom (0 bytes, nil error)")
					}
					n++
				}
				if p := <-done; p != nil {
					panic(p) // re-raise the pump's panic on the measured goroutine
				}
				res.outcome = fmt.Sprintf("packets=%d", min(n, 3))
				return res
			},
		})
	}

	// ---- 3. packet Session.RecvMsg ----
	recvAll := func(in []byte, lim uint32, msg protobuf_go_lite.Message) int {
		s := stream_packet.NewSession(newRWC(in), lim)
		n := 0
		for {
			if err := s.RecvMsg(msg); err != nil {
				return n
			}
			n++
		}
	}
	var solicitFixtures []fixture
	var solicitCtl *link_solicit_controller.Controller
	var solicitLink *fakes.MountedLink
	var solicitDirs []link_solicit.SolicitProtocol
	{
		// local > remote, so the local side never opens streams on a match
		lo, hi := keys[0].ID, keys[1].ID
		if lo > hi {
			lo, hi = hi, lo
		}
		solicitLink = &fakes.MountedLink{UUID: 7, Local: hi, Remote: lo}
		sid := link_solicit.ComputeSessionID(hi, lo)
		ha := link_solicit.ComputeProtocolHash(sid, "proto/a", []byte("x"))
		hb := link_solicit.ComputeProtocolHash(sid, "proto/b", nil)
		hs := [][]byte{ha, hb}
		link_solicit.SortHashes(hs)
		ex := func(h ...[]byte) []byte {
			return frame(must((&link_solicit.SolicitationExchange{ProtocolHashes: h}).MarshalVT()))
		}
		solicitFixtures = []fixture{
			{"empty-exchange", ex(), "msgs=1"},
			{"one-matching-hash", ex(ha), "msgs=1"},
			{"two-matching-hashes", ex(hs...), "msgs=1"},
			{"foreign-hash+update", cat(ex(bytes.Repeat([]byte{0xab}, 32)), ex(ha)), "msgs=2"},
		}
		solicitCtl = must(link_solicit_controller.NewController(le, &link_solicit_controller.Config{}))
		solicitDirs = []link_solicit.SolicitProtocol{
			link_solicit.NewSolicitProtocol("proto/a", []byte("x"), "", 0),
			link_solicit.NewSolicitProtocol("proto/b", nil, "", 0),
		}
		adapters = append(adapters, &adapter{
			name: "packet-session-recvmsg", anchor: "stream/packet/packet.go", limit: link_solicit_controller.VerifC40MaxMessageSize,
			fixtures: solicitFixtures, frameLen: le32Frames, pbStart: le32Bodies,
			decode: func(_ string, in []byte) result {
				var msg link_solicit.SolicitationExchange
				n := recvAll(in, link_solicit_controller.VerifC40MaxMessageSize, &msg)
				return result{outcome: fmt.Sprintf("msgs=%d", min(n, 3))}
			},
		})
	}

	// ---- 4. floodsub read pump ----
	{
		ps := must(floodsub.NewFloodSub(ctx, le, nil, &floodsub.Config{}))
		must(ps.AddSubscription(ctx, keys[0].Priv, "chan-a"))
		pub := func(k *enum.Key, ch string, data string) *peer.SignedMsg {
			inner := must((&pubmessage.PubMessageInner{Data: []byte(data), Channel: ch}).MarshalVT())
			return must(peer.NewSignedMsg("bifrost/pubsub/pubmessage 2024-06-05T02:38:47.55258Z channel/"+ch, k.Priv, hash.HashType_HashType_SHA256, inner))
		}
		pk := func(p *floodsub.Packet) []byte { return frame(must(p.MarshalVT())) }
		subs := pk(&floodsub.Packet{Subscriptions: []*floodsub.SubscriptionOpts{{Subscribe: true, ChannelId: "chan-a"}, {Subscribe: true, ChannelId: "chan-b"}, {Subscribe: false, ChannelId: "chan-b"}}})
		one := pk(&floodsub.Packet{Publish: []*peer.SignedMsg{pub(keys[1], "chan-a", "hello")}})
		mixed := cat(subs, pk(&floodsub.Packet{Subscriptions: []*floodsub.SubscriptionOpts{{Subscribe: true, ChannelId: "c"}}, Publish: []*peer.SignedMsg{pub(keys[2], "chan-a", "x"), pub(keys[2], "chan-zz", "y")}}))
		adapters = append(adapters, &adapter{
			name: "floodsub-read-pump", anchor: "pubsub/floodsub/stream.go", limit: floodsub.VerifC40MaxMessageSize,
			fixtures: []fixture{{"subscriptions", subs, "subs=1 pubs=0"}, {"publish", one, "subs=0 pubs=1"}, {"subscriptions+publish", mixed, "subs=2 pubs=1"}},
			frameLen: le32Frames, pbStart: le32Bodies,
			decode: func(_ string, in []byte) result {
				s, p := floodsub.VerifC40ReadPump(ps.(pubsub.PubSub), newRWC(in), keys[1].ID)
				return result{outcome: fmt.Sprintf("subs=%d pubs=%d", min(s, 3), min(p, 3))}
			},
		})
	}

	// ---- 5. solicit control stream ----
	{
		want := []string{"remote=0 matched=0", "remote=1 matched=1", "remote=2 matched=2", "remote=1 matched=1"}
		var fx []fixture
		for i, f := range solicitFixtures {
			fx = append(fx, fixture{f.name, f.data, want[i]})
		}
		adapters = append(adapters, &adapter{
			name: "solicit-control-stream", anchor: "link/solicit/controller/controller.go", limit: link_solicit_controller.VerifC40MaxMessageSize,
			fixtures: fx, frameLen: le32Frames, pbStart: le32Bodies,
			decode: func(_ string, in []byte) result {
				// the reader of runControlStream runs on its own goroutine: decode the
				// stream synchronously first so that a decoding panic is caught here
				var msg link_solicit.SolicitationExchange
				recvAll(in, link_solicit_controller.VerifC40MaxMessageSize, &msg)
				remote, matched := link_solicit_controller.VerifC40RunControlStream(ctx, solicitCtl, solicitLink, solicitDirs, newRWC(in))
				return result{outcome: fmt.Sprintf("remote=%d matched=%d", min(len(remote), 3), min(matched, 3))}
			},
		})
	}

	// ---- 6/7. signaling session request / response ----
	{
		sm := must(signaling_rpc.NewSessionMsg(keys[0].Priv, hash.HashType_HashType_BLAKE3, []byte("signal body"), 3))
		req := func(r *signaling_rpc.SessionRequest) []byte { return must(r.MarshalVT()) }
		rsp := func(r *signaling_rpc.SessionResponse) []byte { return must(r.MarshalVT()) }
		dec := func(what string, m interface {
			UnmarshalVT([]byte) error
			Validate() error
		}, in []byte) result {
			if err := m.UnmarshalVT(in); err != nil {
				return result{outcome: "undecodable"}
			}
			if err := m.Validate(); err != nil {
				return result{outcome: "invalid"}
			}
			return result{outcome: "valid"}
		}
		adapters = append(adapters, &adapter{
			name: "signaling-session-request", anchor: "signaling/rpc/signaling.go",
			fixtures: []fixture{
				{"init", req(&signaling_rpc.SessionRequest{Body: &signaling_rpc.SessionRequest_Init{Init: &signaling_rpc.SessionInit{PeerId: keys[1].ID.String()}}}), "valid"},
				{"send-msg", req(&signaling_rpc.SessionRequest{SessionSeqno: 2, Body: &signaling_rpc.SessionRequest_SendMsg{SendMsg: sm}}), "valid"},
				{"ack-msg", req(&signaling_rpc.SessionRequest{SessionSeqno: 1, Body: &signaling_rpc.SessionRequest_AckMsg{AckMsg: 9}}), "valid"},
				{"clear-msg", req(&signaling_rpc.SessionRequest{SessionSeqno: 1, Body: &signaling_rpc.SessionRequest_ClearMsg{ClearMsg: 1 << 40}}), "valid"},
			},
			pbStart: func([]byte) []int { return []int{0} },
			decode: func(_ string, in []byte) result {
				return dec("SessionRequest", &signaling_rpc.SessionRequest{}, in)
			},
		})
		adapters = append(adapters, &adapter{
			name: "signaling-session-response", anchor: "signaling/rpc/signaling.go",
			fixtures: []fixture{
				{"opened", rsp(&signaling_rpc.SessionResponse{Body: &signaling_rpc.SessionResponse_Opened{Opened: 5}}), "valid"},
				{"closed", rsp(&signaling_rpc.SessionResponse{Body: &signaling_rpc.SessionResponse_Closed{Closed: true}}), "valid"},
				{"recv-msg", rsp(&signaling_rpc.SessionResponse{Body: &signaling_rpc.SessionResponse_RecvMsg{RecvMsg: sm}}), "valid"},
				{"ack-msg", rsp(&signaling_rpc.SessionResponse{Body: &signaling_rpc.SessionResponse_AckMsg{AckMsg: 3}}), "valid"},
				{"clear-msg", rsp(&signaling_rpc.SessionResponse{Body: &signaling_rpc.SessionResponse_ClearMsg{ClearMsg: 3}}), "valid"},
			},
			pbStart: func([]byte) []int { return []int{0} },
			decode: func(_ string, in []byte) result {
				return dec("SessionResponse", &signaling_rpc.SessionResponse{}, in)
			},
		})
	}

	// ---- 8. WebRTC signals ----
	{
		sdp := "v=0\r\no=- 4611731400430051336 2 IN IP4 127.0.0.1\r\ns=-\r\nt=0 0\r\na=group:BUNDLE 0\r\nm=application 9 UDP/DTLS/SCTP webrtc-datachannel\r\nc=IN IP4 0.0.0.0\r\na=mid:0\r\na=sctp-port:5000\r\n"
		plain := []fixture{
			{"request-offer", must((&webrtc.WebRtcSignal{Body: &webrtc.WebRtcSignal_RequestOffer{RequestOffer: 4}}).MarshalVT()), "valid"},
			{"sdp-offer", must((&webrtc.WebRtcSignal{Body: &webrtc.WebRtcSignal_Sdp{Sdp: &webrtc.WebRtcSdp{TxSeqno: 1, SdpType: "offer", Sdp: sdp}}}).MarshalVT()), "valid"},
			{"ice", must((&webrtc.WebRtcSignal{Body: &webrtc.WebRtcSignal_Ice{Ice: &webrtc.WebRtcIce{Candidate: `{"candidate":"candidate:1 1 udp 2130706431 192.168.1.7 5000 typ host","sdpMid":"0","sdpMLineIndex":0}`}}}).MarshalVT()), "valid"},
		}
		validate := func(sig *webrtc.WebRtcSignal) string {
			if err := sig.Validate(); err != nil {
				return "invalid"
			}
			return "valid"
		}
		full := func(pt []byte) result {
			ct, err := peer.EncryptToPubKey(keys[0].Pub, webrtc.SignalingCryptContext, pt)
			if err != nil {
				return result{outcome: "cannot-encrypt"}
			}
			sig, err := webrtc.DecodeWebRtcSignal(ct, keys[0].Priv)
			switch {
			case sig == nil && err == nil:
				return result{"neither", neither("DecodeWebRtcSignal")}
			case sig != nil && err != nil:
				return result{"both", both("DecodeWebRtcSignal")}
			case err != nil:
				return result{outcome: "undecodable"}
			}
			return result{outcome: validate(sig)}
		}
		adapters = append(adapters, &adapter{
			name: "webrtc-signal-plaintext", anchor: "transport/webrtc/signal.go", heavy: false,
			fixtures: plain, pbStart: func([]byte) []int { return []int{0} },
			decode: func(class string, in []byte) result {
				sig := &webrtc.WebRtcSignal{}
				r := result{outcome: "undecodable"}
				if err := sig.UnmarshalVT(in); err == nil {
					r.outcome = validate(sig)
				}
				// the same plaintext sealed by an attacker for the recipient and fed
				// through the real entry point (always in thorough; in quick for the
				// cheap classes only)
				if !quick || (class != "subst" && class != "dev2") {
					fr := full(in)
					if fr.viol != "" {
						return fr
					}
					if fr.outcome != r.outcome {
						return result{r.outcome, "decode-mismatch: DecodeWebRtcSignal on the sealed plaintext gives " + fr.outcome + " but UnmarshalVT+Validate gives " + r.outcome}
					}
				}
				return r
			},
		})
		var sealed []fixture
		for i, p := range plain {
			// peer.EncryptToPubKey draws its ephemeral key from crypto/rand: the
			// ciphertext differs between runs, positions and lengths do not.
			sealed = append(sealed, fixture{plain[i].name, must(peer.EncryptToPubKey(keys[0].Pub, webrtc.SignalingCryptContext, p.data)), "valid"})
		}
		adapters = append(adapters, &adapter{
			name: "webrtc-signal-ciphertext", anchor: "transport/webrtc/signal.go", heavy: true,
			fixtures: sealed,
			// a fixed family of pseudo-ciphertexts around the 4+32 byte header length
			// (the sealed fixtures differ between runs, these do not)
			first: func(emit func(class, desc string, data []byte)) {
				for _, n := range []int{4, 33, 34, 35, 36, 37, 52, 53} {
					for i := 0; i < 64; i++ {
						emit("header-length", fmt.Sprintf("n=%d/i=%d", n, i), detBytes(fmt.Sprintf("c40/short-ct/%d", i), n))
					}
				}
			},
			decode: func(_ string, in []byte) result {
				sig, err := webrtc.DecodeWebRtcSignal(in, keys[0].Priv)
				switch {
				case sig == nil && err == nil:
					return result{"neither", neither("DecodeWebRtcSignal")}
				case sig != nil && err != nil:
					return result{"both", both("DecodeWebRtcSignal")}
				case err != nil:
					return result{outcome: "undecodable"}
				}
				return result{outcome: validate(sig)}
			},
		})
	}

	// ---- 9. signed messages ----
	{
		const sctx = "c40 signed msg"
		mk := func(k *enum.Key, ht hash.HashType, body []byte) []byte {
			return must(must(peer.NewSignedMsg(sctx, k.Priv, ht, body)).MarshalVT())
		}
		adapters = append(adapters, &adapter{
			name: "signed-msg", anchor: "peer/signed-msg.go",
			fixtures: []fixture{{"sha256", mk(keys[0], hash.HashType_HashType_SHA256, []byte("body one")), "authentic"}, {"blake3", mk(keys[1], hash.HashType_HashType_BLAKE3, bytes.Repeat([]byte{7}, 70)), "authentic"}, {"sha1-1B", mk(keys[2], hash.HashType_HashType_SHA1, []byte{1}), "authentic"}},
			pbStart:  func([]byte) []int { return []int{0} },
			decode: func(_ string, in []byte) result {
				m, err := peer.UnmarshalSignedMsg(in)
				switch {
				case m == nil && err == nil:
					return result{"neither", neither("UnmarshalSignedMsg")}
				case m != nil && err != nil:
					return result{"both", both("UnmarshalSignedMsg")}
				case err != nil:
					return result{outcome: "undecodable"}
				}
				_ = m.ComputeMessageID()
				pk, id, verr := m.ExtractAndVerify(sctx)
				if verr == nil && (pk == nil || id == "") {
					return result{"neither", neither("SignedMsg.ExtractAndVerify (nil key or empty ID with nil error)")}
				}
				if verr != nil {
					return result{outcome: "rejected"}
				}
				return result{outcome: "authentic"}
			},
		})
	}

	// ---- 10. envelopes ----
	{
		const ectx = "c40 envelope"
		pubs := []crypto.PubKey{keys[0].Pub, keys[1].Pub}
		privs := []crypto.PrivKey{keys[0].Priv, keys[1].Priv}
		e1 := must(envelope.BuildEnvelope(&detRand{seed: "e1"}, ectx, []byte("payload one"), pubs, &envelope.EnvelopeConfig{Threshold: 1, GrantConfigs: []*envelope.EnvelopeGrantConfig{{ShareCount: 1, KeypairIndexes: []uint32{0}}, {ShareCount: 1, KeypairIndexes: []uint32{1}}}}))
		e2 := must(envelope.BuildEnvelope(&detRand{seed: "e2"}, ectx, []byte("p2"), pubs[:1], &envelope.EnvelopeConfig{Threshold: 0, GrantConfigs: []*envelope.EnvelopeGrantConfig{{ShareCount: 2, KeypairIndexes: []uint32{0}}}}))
		dec := func(env *envelope.Envelope) result {
			payload, res, err := envelope.UnlockEnvelope(ectx, env, privs)
			switch {
			case err != nil && (payload != nil || res != nil):
				return result{"both", both("UnlockEnvelope")}
			case err == nil && res == nil:
				return result{"neither", neither("UnlockEnvelope (nil result, nil error)")}
			case err != nil:
				return result{outcome: "rejected"}
			case payload != nil || res.GetSuccess():
				if !res.GetSuccess() || payload == nil {
					return result{"opened?", "value-and-error: UnlockEnvelope success flag and payload disagree"}
				}
				return result{outcome: "opened"}
			}
			return result{outcome: "locked"}
		}
		adapters = append(adapters, &adapter{
			name: "envelope", anchor: "envelope/unlock.go", heavy: true,
			fixtures: []fixture{{"2-of-2", must(e1.MarshalVT()), "opened"}, {"1-of-1x2shares", must(e2.MarshalVT()), "opened"}},
			pbStart:  func([]byte) []int { return []int{0} },
			decode: func(_ string, in []byte) result {
				env := &envelope.Envelope{}
				if err := env.UnmarshalVT(in); err != nil {
					return result{outcome: "undecodable"}
				}
				return dec(env)
			},
			extra: func(emit func(class, desc string, data []byte)) {
				for ei, e := range []*envelope.Envelope{e1, e2} {
					for _, th := range []uint32{0, 1, 2, 3, 255, 1<<31 - 1, 1 << 31, 1<<32 - 2, 1<<32 - 1} {
						x := e.CloneVT()
						x.Threshold = th
						emit("field", fmt.Sprintf("f%d/threshold=%d", ei, th), must(x.MarshalVT()))
					}
					for gi := range e.Grants {
						for _, idx := range []uint32{0, 1, 2, 1<<31 - 1, 1<<32 - 1} {
							x := e.CloneVT()
							x.Grants[gi].KeypairIndexes = []uint32{idx}
							emit("field", fmt.Sprintf("f%d/grant%d.keypair_indexes=[%d]", ei, gi, idx), must(x.MarshalVT()))
							x = e.CloneVT()
							x.Grants[gi].KeypairIndexes = append(x.Grants[gi].KeypairIndexes, idx)
							emit("field", fmt.Sprintf("f%d/grant%d.keypair_indexes+=%d", ei, gi, idx), must(x.MarshalVT()))
						}
						for _, n := range []int{0, 4, 33, 34, 35, 36, 37, 52} {
							x := e.CloneVT()
							if n <= len(x.Grants[gi].Ciphertexts[0]) {
								x.Grants[gi].Ciphertexts[0] = x.Grants[gi].Ciphertexts[0][:n]
								emit("field", fmt.Sprintf("f%d/grant%d.ciphertexts[0][:%d]", ei, gi, n), must(x.MarshalVT()))
							}
							for i := 0; i < 16; i++ {
								x = e.CloneVT()
								x.Grants[gi].Ciphertexts[0] = detBytes(fmt.Sprintf("c40/short-ct/%d", i), n)
								emit("field", fmt.Sprintf("f%d/grant%d.ciphertexts[0]=det(%d,%d)", ei, gi, n, i), must(x.MarshalVT()))
							}
						}
						x := e.CloneVT()
						x.Grants[gi].Ciphertexts = nil
						emit("field", fmt.Sprintf("f%d/grant%d.ciphertexts=nil", ei, gi), must(x.MarshalVT()))
					}
					for _, f := range []string{"grants", "keypairs", "ciphertext", "context_hash", "envelope_id", "dup-grant", "nil-grant", "nil-keypair"} {
						x := e.CloneVT()
						switch f {
						case "grants":
							x.Grants = nil
						case "keypairs":
							x.Keypairs = nil
						case "ciphertext":
							x.Ciphertext = nil
						case "context_hash":
							x.ContextHash = nil
						case "envelope_id":
							x.EnvelopeId = ""
						case "dup-grant":
							x.Grants = append(x.Grants, x.Grants[0].CloneVT())
						case "nil-grant":
							x.Grants = append(x.Grants, &envelope.EnvelopeGrant{})
						case "nil-keypair":
							x.Keypairs = append(x.Keypairs, &envelope.EnvelopeKeypair{})
						}
						emit("field", fmt.Sprintf("f%d/%s", ei, f), must(x.MarshalVT()))
					}
				}
				// grants forged by someone who knows the recipients' PUBLIC keys: each
				// grant decrypts for its recipient and carries a chosen list of shares
				// (drawn from: the two real shares, a real id with another value, the
				// zero id, a non-canonical encoding of a real id). Every assignment of
				// share lists of length <= 2 to two grants, and of length <= 1 to three
				// grants, for thresholds 1 and 2.
				var real []*envelope.EnvelopeShare
				for gi, gr := range e1.GetGrants() {
					d, err := peer.DecryptWithPrivKey(privs[gr.GetKeypairIndexes()[0]], envelope.VerifBuildGrantEncContext(e1.GetEnvelopeId(), ectx, gi), gr.GetCiphertexts()[0])
					if err != nil {
						evid.Fatal("c40: cannot open fixture grant: %v", err)
					}
					in := &envelope.EnvelopeGrantInner{}
					if err := in.UnmarshalVT(d); err != nil || len(in.GetShares()) != 1 {
						evid.Fatal("c40: fixture grant inner: %v", err)
					}
					real = append(real, in.GetShares()[0])
				}
				// non-canonical encoding of share 0's id: add the group order l to the
				// little-endian scalar if that fits in 32 bytes (decoders may reduce or reject)
				order := []byte{0xed, 0xd3, 0xf5, 0x5c, 0x1a, 0x63, 0x12, 0x58, 0xd6, 0x9c, 0xf7, 0xa2, 0xde, 0xf9, 0xde, 0x14, 0, 0, 0, 0, 0, 0, 0, 0, 0, 0, 0, 0, 0, 0, 0, 0x10}
				nc := make([]byte, 32)
				carry := 0
				for i := 0; i < 32; i++ {
					v := int(real[0].GetId()[i]) + int(order[i]) + carry
					nc[i], carry = byte(v), v>>8
				}
				alpha := []*envelope.EnvelopeShare{
					real[0], real[1],
					{Id: real[0].GetId(), Value: real[1].GetValue()},
					{Id: make([]byte, 32), Value: real[0].GetValue()},
					{Id: nc, Value: real[0].GetValue()},
				}
				names := []string{"s0", "s1", "s0id-s1val", "zeroid", "s0id-noncanonical"}
				var lists [][]int
				lists = append(lists, nil)
				for a := range alpha {
					lists = append(lists, []int{a})
				}
				n1 := len(lists)
				for a := range alpha {
					for b := range alpha {
						lists = append(lists, []int{a, b})
					}
				}
				forge := func(th uint32, assign [][]int) {
					x := e1.CloneVT()
					x.Threshold = th
					x.Grants = nil
					var desc []string
					for gi, l := range assign {
						in := &envelope.EnvelopeGrantInner{}
						var d []string
						for _, a := range l {
							in.Shares = append(in.Shares, alpha[a])
							d = append(d, names[a])
						}
						kp := uint32(gi % 2)
						ct, err := peer.EncryptToPubKey(pubs[kp], envelope.VerifBuildGrantEncContext(x.GetEnvelopeId(), ectx, gi), must(in.MarshalVT()))
						if err != nil {
							evid.Fatal("c40: forge: %v", err)
						}
						x.Grants = append(x.Grants, &envelope.EnvelopeGrant{KeypairIndexes: []uint32{kp}, Ciphertexts: [][]byte{ct}})
						desc = append(desc, "["+strings.Join(d, ",")+"]")
					}
					emit("forged-grants", fmt.Sprintf("t%d/%s", th, strings.Join(desc, "")), must(x.MarshalVT()))
				}
				for _, th := range []uint32{1, 2} {
					for _, a := range lists {
						for _, b := range lists {
							forge(th, [][]int{a, b})
						}
					}
					for _, a := range lists[:n1] {
						for _, b := range lists[:n1] {
							for _, c := range lists[:n1] {
								forge(th, [][]int{a, b, c})
							}
						}
					}
				}
			},
		})
	}

	// ---- 11. peer IDs ----
	{
		xor := func(what string, ok bool, err error) (result, bool) {
			switch {
			case !ok && err == nil:
				return result{"neither", neither(what)}, false
			case ok && err != nil:
				return result{"both", both(what)}, false
			}
			return result{}, true
		}
		idDecode := func(id peer.ID, err error, what string) result {
			if r, fine := xor(what, id != "", err); !fine {
				return r
			}
			if err != nil {
				return result{outcome: "rejected"}
			}
			if len(id) <= 256 { // base58 encoding is quadratic; not part of decoding
				_ = id.String()
				_ = id.ShortString()
			}
			pk, perr := id.ExtractPublicKey()
			if r, fine := xor("ID.ExtractPublicKey", pk != nil, perr); !fine {
				return r
			}
			if perr != nil {
				return result{outcome: "id-without-key"}
			}
			return result{outcome: "id-with-key"}
		}
		var bin, txt []fixture
		for i, k := range keys[:2] {
			bin = append(bin, fixture{fmt.Sprintf("k%d", i), []byte(k.ID), "id-with-key"})
			txt = append(txt, fixture{fmt.Sprintf("k%d", i), []byte(k.ID.String()), "id-with-key"})
		}
		shaID := append([]byte{0x12, 0x20}, bytes.Repeat([]byte{0x5a}, 32)...)
		bin = append(bin, fixture{"sha256-multihash", shaID, "id-without-key"})
		txt = append(txt, fixture{"sha256-multihash", []byte(base58.Encode(shaID)), "id-without-key"})
		adapters = append(adapters, &adapter{
			name: "peer-id-bytes", anchor: "peer/id.go", fixtures: bin,
			frameLen: func(f []byte) []lenPos { return []lenPos{{off: 1, size: 1, what: "mh-len@1"}} },
			pbStart:  func(f []byte) []int { return []int{2} },
			decode: func(_ string, in []byte) result {
				id, err := peer.IDFromBytes(in)
				return idDecode(id, err, "IDFromBytes")
			},
		})
		adapters = append(adapters, &adapter{
			name: "peer-id-base58", anchor: "peer/id.go", fixtures: txt,
			decode: func(_ string, in []byte) result {
				id, err := peer.IDB58Decode(string(in))
				return idDecode(id, err, "IDB58Decode")
			},
		})
	}

	// ---- 12. keys ----
	{
		pub := func(k *enum.Key) []byte { return must(crypto.MarshalPublicKey(k.Pub)) }
		priv := func(k *enum.Key) []byte { return must(crypto.MarshalPrivateKey(k.Priv)) }
		legacy := append(append([]byte{0x08, 0x01, 0x12, 0x60}, keys[0].Std...), keys[0].Std[32:]...)
		adapters = append(adapters, &adapter{
			name: "unmarshal-public-key", anchor: "crypto/crypto.go",
			fixtures: []fixture{{"k0", pub(keys[0]), "key"}, {"k1", pub(keys[1]), "key"}},
			pbStart:  func([]byte) []int { return []int{0} },
			decode: func(_ string, in []byte) result {
				k, err := crypto.UnmarshalPublicKey(in)
				switch {
				case k == nil && err == nil:
					return result{"neither", neither("UnmarshalPublicKey")}
				case k != nil && err != nil:
					return result{"both", both("UnmarshalPublicKey")}
				case err != nil:
					return result{outcome: "rejected"}
				}
				_, _ = k.Raw()
				_, _ = k.Verify([]byte("m"), bytes.Repeat([]byte{1}, 64))
				_, _ = peer.IDFromPublicKey(k)
				return result{outcome: "key"}
			},
		})
		adapters = append(adapters, &adapter{
			name: "unmarshal-private-key", anchor: "crypto/crypto.go",
			fixtures: []fixture{{"k0", priv(keys[0]), "key"}, {"k1-legacy-96B", legacy, "key"}},
			pbStart:  func([]byte) []int { return []int{0} },
			decode: func(_ string, in []byte) result {
				k, err := crypto.UnmarshalPrivateKey(in)
				switch {
				case k == nil && err == nil:
					return result{"neither", neither("UnmarshalPrivateKey")}
				case k != nil && err != nil:
					return result{"both", both("UnmarshalPrivateKey")}
				case err != nil:
					return result{outcome: "rejected"}
				}
				_, _ = k.Raw()
				sig, _ := k.Sign([]byte("m"))
				_, _ = k.GetPublic().Verify([]byte("m"), sig)
				return result{outcome: "key"}
			},
		})
	}

	// -----------------------------------------------------------------------
	// execution: one goroutine, one P, collector off, so that the TotalAlloc
	// delta around a call is the allocation of that call.
	prevProcs := runtime.GOMAXPROCS(1)
	prevGC := debug.SetGCPercent(-1)
	defer func() { runtime.GOMAXPROCS(prevProcs); debug.SetGCPercent(prevGC) }()
	const slack = 256 << 10
	const perByte = 256
	var ms runtime.MemStats
	type astat struct {
		cases    int
		maxAlloc uint64
		maxOver  int64 // max of (alloc - bound), negative when always inside
		maxDesc  string
	}
	stats := map[string]*astat{}
	perDecoder := map[string]any{}
	capped := false

	for _, a := range adapters {
		st := &astat{maxOver: -1 << 62}
		stats[a.name] = st
		t0 := time.Now()
		seenFixtureOK := 0
		generate(a, quick, func(class, desc string, data []byte) {
			if capped {
				return
			}
			if st.cases%4096 == 0 && run.Expired() {
				capped = true
				acc.Capped()
				return
			}
			var r result
			runtime.ReadMemStats(&ms)
			before := ms.TotalAlloc
			p := enum.Try(func() { r = a.decode(class, data) })
			runtime.ReadMemStats(&ms)
			alloc := ms.TotalAlloc - before
			if ms.HeapAlloc > 768<<20 || alloc > 8<<20 {
				runtime.GC()
			}
			st.cases++
			key := class + "/" + desc
			replay := func() map[string]any {
				m := map[string]any{"decoder": a.name, "anchor": a.anchor, "class": class, "case": desc, "input_len": len(data)}
				if len(data) <= 2048 {
					m["input_hex"] = hex.EncodeToString(data)
				} else {
					m["input_head_hex"] = hex.EncodeToString(data[:64])
				}
				return m
			}
			if p != nil {
				acc.Case(a.name, key, class != "fixture", "panic")
				run.Violation("panic/"+a.name, fmt.Sprintf("%s panicked on %s (%d bytes): %v", a.name, key, len(data), p), replay())
				if class == "fixture" {
					seenFixtureOK++ // it ran; the panic is the verdict
				}
				return
			}
			if r.viol != "" {
				k, text, _ := bytes.Cut([]byte(r.viol), []byte(": "))
				run.Violation(string(k)+"/"+a.name, fmt.Sprintf("%s on %s: %s", a.name, key, text), replay())
			}
			bound := uint64(a.limit) + perByte*uint64(len(data)) + slack
			if over := int64(alloc) - int64(bound); over > st.maxOver {
				st.maxOver = over
			}
			if alloc > st.maxAlloc {
				st.maxAlloc, st.maxDesc = alloc, key
			}
			if alloc > bound {
				run.Violation("alloc/"+a.name, fmt.Sprintf("%s allocated %d bytes while decoding %s (%d input bytes); configured limit %d, allowed limit + %d*len + %d = %d", a.name, alloc, key, len(data), a.limit, perByte, slack, bound), replay())
			}
			if class == "fixture" {
				// vacuity guard: the unmodified encodings must take the success path
				for _, f := range a.fixtures {
					if bytes.Equal(f.data, data) && f.want != r.outcome {
						evid.Fatal("fixture %s/%s decodes to %q, expected %q: the harness does not drive the decoder as intended", a.name, f.name, r.outcome, f.want)
					}
				}
				seenFixtureOK++
			}
			acc.Case(a.name, key, class != "fixture", class+":"+r.outcome)
		})
		if seenFixtureOK != len(a.fixtures) && !capped {
			evid.Fatal("adapter %s: %d of %d fixtures ran", a.name, seenFixtureOK, len(a.fixtures))
		}
		perDecoder[a.name] = map[string]any{"anchor": a.anchor, "cases": st.cases, "configured_limit": a.limit, "max_alloc_bytes": st.maxAlloc, "max_alloc_case": st.maxDesc, "fixtures": len(a.fixtures), "wall_s": time.Since(t0).Seconds()}
		runtime.GC()
	}
	acc.Sample(map[string]any{"decoder": "stream-establish-header", "class": "lenprefix", "case": "varint@0=2147483647+none", "input_hex": hex.EncodeToString(uvarint(1<<31 - 1))})
	acc.Sample(map[string]any{"decoder": "floodsub-read-pump", "class": "lenprefix", "case": "le32@0=2000000+short", "input_hex": hex.EncodeToString(cat(le32(2000000), []byte{0x0a, 0x01, 0x00}))})
	acc.Sample(map[string]any{"decoder": "peer-id-bytes", "class": "short", "case": "00ff", "input_hex": "00ff"})
	acc.Finish()
	run.Cov["decoders"] = perDecoder
	run.Cov["alloc_bound"] = fmt.Sprintf("configured limit + %d*len(input) + %d bytes, TotalAlloc delta with GOMAXPROCS=1 and GC off", perByte, slack)
	run.Cov["alphabet"] = "subst: all 255 values (thorough) / 15 boundary values (quick); short strings over 00 01 08 0a 12 7f 80 ff"
	run.Assumptions = append(run.Assumptions,
		"'all byte strings' is decided only inside the stated mutation ball around the fixtures and the short strings; coverage-guided fuzzing is not used",
		"allocation is the process-wide runtime.MemStats.TotalAlloc delta around one decode on a single P with the collector off; goroutine stacks and the harness's own recover closure are inside the slack",
		"decoders without a configured limit (signaling, WebRTC, signed message, envelope, peer ID, keys) are held to 256 bytes per input byte + 256 KiB",
		"floodsub processPacket is driven through streamHandler.readPump and the solicit control stream through runControlStream, both via export shims on a single goroutine of control; the RPC framing in front of signaling messages (starpc) is outside the anchored files and is not driven")
	run.Finish(t)
}
