package c39

import (
	"bytes"
	"crypto/ed25519"
	"encoding/pem"
	"fmt"
	"io"
	"os"
	"path/filepath"
	"strings"
	"sync"
	"testing"

	"github.com/aperturerobotics/bifrost/crypto"
	"github.com/aperturerobotics/bifrost/keypem/keyfile"
	"github.com/mr-tron/base58/base58"
	"github.com/sirupsen/logrus"

	"verifh/enum"
	"verifh/evid"
	"verifh/ref"
)

// ---- file states (the model's view of what is at the key path) ----

type kind int

const (
	kMissing       kind = iota // nothing at the path, parent directory exists
	kEmpty                     // regular file, 0 bytes
	kGarbage                   // regular file, bytes that contain no PEM block
	kWrongType                 // PEM block of another type ("RSA PRIVATE KEY")
	kPubPEM                    // PEM block "LIBP2P PUBLIC KEY" holding a valid public key
	kPrivBadBody               // PEM block "LIBP2P PRIVATE KEY" whose body is not a key
	kValid                     // PEM private key (identity tracked by the model)
	kValidTrailing             // PEM private key followed by garbage
	kJunkThenValid             // garbage line, then a PEM private key
	kDir                       // a directory at the path
	kDangling                  // symlink to a non-existent file in the same directory
	kLoop                      // symlink to itself (ELOOP)
	kNotDir                    // a path component is a regular file (ENOTDIR)
	kTooLong                   // file name of 300 bytes (ENAMETOOLONG)
	kParentMissing             // parent directory does not exist (file missing, cannot be written)
	kValidLegacy               // PEM private key in the older 96-byte encoding (key followed by a redundant copy of the public key)
	kLegacyBadPub              // the same, but the redundant public key differs from the key's own public half
	nKinds
)

var kindName = [...]string{"missing", "empty", "garbage", "pem-wrong-type", "pem-public-key", "pem-private-bad-body", "valid-key",
	"valid-key+trailing-garbage", "junk+valid-key", "directory", "dangling-symlink", "symlink-loop", "parent-is-file", "name-too-long", "parent-missing", "valid-key-legacy-96-byte-encoding", "legacy-96-byte-encoding-with-inconsistent-public-key"}

// expectation classes for a load
const (
	wantKeyNew  = iota // a fresh key must be returned, written, nil error
	wantKeySame        // the key on disk must be returned, nil error
	wantEither         // the key on disk with nil error, or an error
	wantErr            // an error must be reported
)

type ops int

const (
	opLoad ops = iota
	opTruncate
	opGarbage
	opDelete
	opMkdir
	opWriteK2
	nOps
)

var opName = [...]string{"load", "truncate", "overwrite-garbage", "delete", "replace-by-directory", "write-key-k2"}

// ---- harness-side encoders / reference parser (no bifrost code) ----

func refPrivPEM(k ed25519.PrivateKey) []byte {
	body := append([]byte{0x08, 0x01, 0x12, 0x40}, k...)
	return pem.EncodeToMemory(&pem.Block{Type: "LIBP2P PRIVATE KEY", Bytes: body})
}

func refPubPEM(k ed25519.PublicKey) []byte {
	body := append([]byte{0x08, 0x01, 0x12, 0x20}, k...)
	return pem.EncodeToMemory(&pem.Block{Type: "LIBP2P PUBLIC KEY", Bytes: body})
}

// refFileIdentity parses a key file independently and returns the peer ID
// (base58) of the Ed25519 private key stored in it.
func refFileIdentity(dat []byte) (string, error) {
	b, _ := pem.Decode(dat)
	if b == nil {
		return "", fmt.Errorf("no PEM block")
	}
	if b.Type != "LIBP2P PRIVATE KEY" {
		return "", fmt.Errorf("PEM type %q", b.Type)
	}
	fs, err := ref.PBParse(b.Bytes)
	if err != nil {
		return "", err
	}
	var kt uint64
	var data []byte
	for _, f := range fs {
		if f.Num == 1 && f.Wire == 0 {
			kt = f.Varint
		}
		if f.Num == 2 && f.Wire == 2 {
			data = f.Bytes
		}
	}
	if kt != 1 || (len(data) != 64 && len(data) != 96) {
		return "", fmt.Errorf("not an ed25519 private key (type %d, %d bytes)", kt, len(data))
	}
	priv := ed25519.NewKeyFromSeed(data[:32])
	if !bytes.Equal(priv[32:], data[32:64]) {
		return "", fmt.Errorf("public half does not match seed")
	}
	return base58.Encode(ref.EncodeID(priv.Public().(ed25519.PublicKey))), nil
}

// usable reports whether k signs and its public key verifies, and returns
// the base58 peer ID computed by the reference encoder.
func usable(k crypto.PrivKey) (string, error) {
	pub := k.GetPublic()
	if pub == nil {
		return "", fmt.Errorf("nil public key")
	}
	raw, err := pub.Raw()
	if err != nil || len(raw) != ed25519.PublicKeySize {
		return "", fmt.Errorf("public key raw: %d bytes, err %v", len(raw), err)
	}
	msg := []byte("c39 usability probe")
	sig, err := k.Sign(msg)
	if err != nil {
		return "", fmt.Errorf("sign: %v", err)
	}
	if !ed25519.Verify(ed25519.PublicKey(raw), msg, sig) {
		return "", fmt.Errorf("signature by returned key does not verify under its own public key")
	}
	return base58.Encode(ref.EncodeID(ed25519.PublicKey(raw))), nil
}

// nilClass groups the states in which a (nil, nil) result was seen by what
// the path looks like to the loader, so that one defect gets one key.
func nilClass(k kind) string {
	switch k {
	case kEmpty, kGarbage:
		return "file-without-pem-block"
	case kLoop, kNotDir, kTooLong:
		return "path-cannot-be-statted"
	}
	return kindName[k]
}

// ---- model ----

type model struct {
	kind kind
	id   string // identity on disk for the valid kinds ("" = none)
}

func (m model) want() int {
	switch m.kind {
	case kMissing, kDangling:
		return wantKeyNew
	case kValid:
		return wantKeySame
	case kValidTrailing, kJunkThenValid, kValidLegacy, kLegacyBadPub:
		return wantEither
	}
	return wantErr
}

// applicable: file operations are only defined where the path can be
// replaced by the harness; the three path-error states admit only loads.
func applicable(m model, o ops) bool {
	if o == opLoad {
		return true
	}
	switch m.kind {
	case kNotDir, kTooLong, kParentMissing:
		return false
	}
	return true
}

var garbage = []byte("this is not a key\n\x00\xff-----BEGIN nothing\n")

type world struct {
	dir, path string
	k1, k2    *enum.Key
	danglingT string // target of the dangling symlink, if that is the state
}

func (w *world) setup(k kind) error {
	w.path = filepath.Join(w.dir, "priv.pem")
	switch k {
	case kMissing:
		return nil
	case kEmpty:
		return os.WriteFile(w.path, nil, 0o600)
	case kGarbage:
		return os.WriteFile(w.path, garbage, 0o600)
	case kWrongType:
		return os.WriteFile(w.path, pem.EncodeToMemory(&pem.Block{Type: "RSA PRIVATE KEY", Bytes: append([]byte{0x08, 0x01, 0x12, 0x40}, w.k1.Std...)}), 0o600)
	case kPubPEM:
		return os.WriteFile(w.path, refPubPEM(w.k1.Std.Public().(ed25519.PublicKey)), 0o600)
	case kPrivBadBody:
		return os.WriteFile(w.path, pem.EncodeToMemory(&pem.Block{Type: "LIBP2P PRIVATE KEY", Bytes: []byte{0x08, 0x01, 0x12, 0x03, 1, 2, 3}}), 0o600)
	case kValid:
		return os.WriteFile(w.path, refPrivPEM(w.k1.Std), 0o600)
	case kValidTrailing:
		return os.WriteFile(w.path, append(refPrivPEM(w.k1.Std), garbage...), 0o600)
	case kJunkThenValid:
		return os.WriteFile(w.path, append([]byte("# my key\n"), refPrivPEM(w.k1.Std)...), 0o600)
	case kValidLegacy, kLegacyBadPub:
		data := append(append([]byte{}, w.k1.Std...), w.k1.Std[32:]...)
		if k == kLegacyBadPub {
			data[64+5] ^= 0x40
		}
		body := append([]byte{0x08, 0x01, 0x12, 0x60}, data...)
		return os.WriteFile(w.path, pem.EncodeToMemory(&pem.Block{Type: "LIBP2P PRIVATE KEY", Bytes: body}), 0o600)
	case kDir:
		return os.Mkdir(w.path, 0o700)
	case kDangling:
		w.danglingT = filepath.Join(w.dir, "target.pem")
		return os.Symlink("target.pem", w.path)
	case kLoop:
		return os.Symlink("priv.pem", w.path)
	case kNotDir:
		if err := os.WriteFile(filepath.Join(w.dir, "file"), []byte("x"), 0o600); err != nil {
			return err
		}
		w.path = filepath.Join(w.dir, "file", "priv.pem")
		return nil
	case kTooLong:
		w.path = filepath.Join(w.dir, strings.Repeat("n", 300))
		return nil
	case kParentMissing:
		w.path = filepath.Join(w.dir, "nodir", "priv.pem")
		return nil
	}
	return fmt.Errorf("unknown kind %d", k)
}

func initialModel(k kind, k1 string) model {
	switch k {
	case kValid, kValidTrailing, kJunkThenValid, kValidLegacy, kLegacyBadPub:
		return model{k, k1}
	}
	return model{kind: k}
}

// apply performs a harness-side file operation and returns the new model.
func (w *world) apply(m model, o ops, k2id string) (model, error) {
	if err := os.RemoveAll(w.path); err != nil {
		return m, err
	}
	switch o {
	case opTruncate:
		return model{kind: kEmpty}, os.WriteFile(w.path, nil, 0o600)
	case opGarbage:
		return model{kind: kGarbage}, os.WriteFile(w.path, garbage, 0o600)
	case opDelete:
		return model{kind: kMissing}, nil
	case opMkdir:
		return model{kind: kDir}, os.Mkdir(w.path, 0o700)
	case opWriteK2:
		return model{kind: kValid, id: k2id}, os.WriteFile(w.path, refPrivPEM(w.k2.Std), 0o600)
	}
	return m, fmt.Errorf("unknown op")
}

func TestC39(t *testing.T) {
	run := evid.Start("C39", "model_checking")
	depth := 3
	if !run.Quick() {
		depth = 5
	}
	acc := enum.NewAcc(run, fmt.Sprintf("breadth-first over (initial file state in %d kinds) x (operation sequences of length 1..%d over {load, truncate, overwrite-garbage, delete, replace-by-directory, write-key-k2}); every sequence is replayed on a fresh directory against the real keyfile.OpenOrWritePrivKey and stepped in lock-step with a file model; sequences with an operation that is undefined for the path-error states are pruned; a case is non-trivial if it contains at least one load; distinct by (initial state, sequence)", int(nKinds), depth))
	keys := enum.Keys(2)
	k1id := base58.Encode(ref.EncodeID(keys[0].Std.Public().(ed25519.PublicKey)))
	k2id := base58.Encode(ref.EncodeID(keys[1].Std.Public().(ed25519.PublicKey)))
	// self-test of the reference parser / encoder pair
	if id, err := refFileIdentity(refPrivPEM(keys[0].Std)); err != nil || id != k1id {
		evid.Fatal("reference PEM self-test failed: %v %q", err, id)
	}
	root := filepath.Join(evid.Root, ".work", "c39")
	_ = os.RemoveAll(root)
	if err := os.MkdirAll(root, 0o755); err != nil {
		evid.Fatal("mkdir %s: %v", root, err)
	}
	defer os.RemoveAll(root)
	logger := logrus.New()
	logger.SetOutput(io.Discard)
	logger.SetLevel(logrus.DebugLevel)

	type tcase struct {
		init kind
		seq  []ops
	}
	var statesSeen sync.Map // distinct model states (file kind, identity class) visited
	var transitions, loads int64
	var cntMu sync.Mutex

	runCase := func(n int, c tcase) {
		w := &world{dir: filepath.Join(root, fmt.Sprintf("case%d", n)), k1: keys[0], k2: keys[1]}
		if err := os.Mkdir(w.dir, 0o755); err != nil {
			evid.Fatal("mkdir: %v", err)
		}
		defer os.RemoveAll(w.dir)
		if err := w.setup(c.init); err != nil {
			evid.Fatal("setup %s: %v", kindName[c.init], err)
		}
		m := initialModel(c.init, k1id)
		names := make([]string, len(c.seq))
		for i, o := range c.seq {
			names[i] = opName[o]
		}
		caseKey := kindName[c.init] + ":" + strings.Join(names, ",")
		replay := map[string]any{"initial_state": kindName[c.init], "ops": names}
		hasLoad := false
		outcome := ""
		var nl, nt int64
		idClass := func(m model) string {
			switch m.id {
			case "":
				return "-"
			case k1id:
				return "k1"
			case k2id:
				return "k2"
			}
			return "generated"
		}
		defer func() { statesSeen.Store(kindName[m.kind]+"/"+idClass(m), true) }()
		for step, o := range c.seq {
			nt++
			statesSeen.Store(kindName[m.kind]+"/"+idClass(m), true)
			if o != opLoad {
				var err error
				m, err = w.apply(m, o, k2id)
				if err != nil {
					evid.Fatal("harness op %s in %s: %v", opName[o], caseKey, err)
				}
				continue
			}
			hasLoad = true
			nl++
			before := m
			var key crypto.PrivKey
			var err error
			le := logrus.NewEntry(logger)
			if step%2 == 1 {
				le = nil // the nil-logger path is part of the API
			}
			p := enum.Try(func() { key, err = keyfile.OpenOrWritePrivKey(le, w.path) })
			st := kindName[before.kind]
			at := fmt.Sprintf("load #%d (step %d) in file state %q", nl, step, st)
			if p != nil {
				outcome += "P"
				run.Violation("panic/"+st, fmt.Sprintf("OpenOrWritePrivKey panicked at %s: %v", at, p), replay)
				break
			}
			var gotID string
			var uerr error
			if key != nil {
				gotID, uerr = usable(key)
			}
			switch {
			case key == nil && err == nil:
				outcome += "0"
			case key == nil:
				outcome += "E"
			case err == nil:
				outcome += "K"
			default:
				outcome += "B" // both a key and an error
			}
			if key == nil && err == nil {
				run.Violation("nil-nil/"+nilClass(before.kind), fmt.Sprintf("OpenOrWritePrivKey returned (nil key, nil error) at %s: the caller is told nothing went wrong but has no key", at), replay)
				continue
			}
			if key != nil && err == nil && uerr != nil {
				run.Violation("unusable-key/"+st, fmt.Sprintf("returned key is not usable at %s: %v", at, uerr), replay)
				continue
			}
			switch before.want() {
			case wantErr:
				if err == nil {
					why := "the path holds no private key"
					if before.kind == kParentMissing {
						why = "the new key cannot have been written (the parent directory does not exist)"
					}
					run.Violation("no-error/"+st, fmt.Sprintf("nil error at %s (returned identity %s) although %s", at, gotID, why), replay)
				}
			case wantKeySame, wantEither:
				if err != nil {
					if before.want() == wantKeySame {
						run.Violation("error-on-valid/"+st, fmt.Sprintf("error at %s: %v", at, err), replay)
					}
				} else if gotID != before.id {
					run.Violation("wrong-identity/"+st, fmt.Sprintf("returned identity %s at %s but the file holds %s", gotID, at, before.id), replay)
				}
			case wantKeyNew:
				if err != nil {
					run.Violation("error-on-missing/"+st, fmt.Sprintf("error at %s: %v", at, err), replay)
					break
				}
				rp := w.path
				dat, rerr := os.ReadFile(rp)
				if rerr != nil {
					run.Violation("not-persisted/"+st, fmt.Sprintf("after %s the key file cannot be read: %v", at, rerr), replay)
					break
				}
				fid, perr := refFileIdentity(dat)
				if perr != nil || fid != gotID {
					run.Violation("not-persisted/"+st, fmt.Sprintf("after %s the file holds identity %q (%v) but %s was returned", at, fid, perr, gotID), replay)
					break
				}
				// the file now holds the generated key; a dangling symlink now resolves
				if before.kind == kMissing {
					m = model{kind: kValid, id: gotID}
				} else {
					m = model{kind: kDangling, id: gotID}
				}
			}
			// after a successful generate through the symlink the state behaves as a valid key
			if m.kind == kDangling && m.id != "" {
				m = model{kind: kValid, id: m.id}
			}
		}
		cntMu.Lock()
		transitions += nt
		loads += nl
		cntMu.Unlock()
		acc.Case(kindName[c.init], caseKey, hasLoad, outcome)
	}

	// breadth-first: all sequences of length d before any of length d+1
	n := 0
	completed := 0
	for d := 1; d <= depth; d++ {
		var cases []tcase
		for k := kind(0); k < nKinds; k++ {
			enum.Sequences(int(nOps), d, func(seq []int) {
				if len(seq) != d {
					return
				}
				// prune sequences with undefined operations (model-level, no real code involved)
				m := initialModel(k, k1id)
				s := make([]ops, d)
				for i, o := range seq {
					s[i] = ops(o)
					if !applicable(m, s[i]) {
						return
					}
					if s[i] != opLoad {
						m = model{kind: kEmpty} // any file op leaves an ordinary path
					}
				}
				cases = append(cases, tcase{k, s})
			})
		}
		if run.Expired() {
			acc.Capped()
			break
		}
		base := n
		enum.Par(len(cases), 16, func(i int) { runCase(base+i, cases[i]) })
		n += len(cases)
		completed = d
		if d == 1 {
			acc.Sample(map[string]any{"initial_state": "empty", "ops": []string{"load"}, "expected": "error"})
		}
	}
	acc.Sample(map[string]any{"initial_state": "missing", "ops": []string{"load", "load"}, "expected": "fresh key written; second load returns the same identity"})
	acc.Sample(map[string]any{"initial_state": "valid-key", "ops": []string{"load", "write-key-k2", "load"}, "expected": "k1 then k2"})
	acc.Finish()
	ns := 0
	statesSeen.Range(func(_, _ any) bool { ns++; return true })
	run.Cov["states"] = ns
	run.Cov["transitions"] = transitions
	run.Cov["traces_validated_against_impl"] = n
	run.Cov["loads_observed"] = loads
	run.Cov["depth_completed"] = completed
	run.Cov["state_kinds"] = kindName[:]
	run.Cov["operations"] = opName[:]
	run.Assumptions = append(run.Assumptions,
		"the process runs as root, so EACCES cannot be produced; ELOOP, ENOTDIR, ENAMETOOLONG and a missing parent directory stand in for unreadable paths",
		"a key file with leading or trailing junk around a valid PEM block may either load that key or be rejected; both are accepted",
		"a returned (key, error) pair counts as a reported error",
		"reference PEM/protobuf/peer-ID encoder in the harness (encoding/pem, crypto/ed25519, ref.PBParse, ref.EncodeID) is correct")
	run.Finish(t)
}
