package c10

import (
	"bytes"
	"crypto/ed25519"
	"fmt"
	"testing"

	"github.com/aperturerobotics/bifrost/crypto"
	"github.com/aperturerobotics/bifrost/peer"
	"github.com/aperturerobotics/bifrost/util/confparse"

	"verifh/enum"
	"verifh/evid"
	"verifh/ref"
)

type tkey struct {
	name string
	raw  []byte
	pub  crypto.PubKey
	id   peer.ID // as derived by the real IDFromPublicKey
}

// idFromOwnedBytes parses an ID out of a buffer the caller owns and then
// overwrites that buffer (a receive loop re-using its buffer): the returned ID
// is a value and must not change.
func idFromOwnedBytes(in []byte) (peer.ID, error) {
	buf := append([]byte{}, in...)
	id, err := peer.IDFromBytes(buf)
	for i := range buf {
		buf[i] = 0xAA
	}
	return id, err
}

func TestC10(t *testing.T) {
	run := evid.Start("C10", "exploration")
	acc := enum.NewAcc(run, "4 fixture keys + all 256 single-bit neighbours of one raw key: per-key round trips and all ordered key pairs; as binary IDs every byte substitution / truncation / 1-2 byte extension of a valid ID, all strings of length <=3 (thorough <=4) over a boundary alphabet, hand-built varint and length-field variants; as text every single-character substitution / truncation / extension of a valid base58 ID; a case is non-trivial unless it is the round trip of a fixture key; distinct by (group, description)")
	fix := enum.Keys(4)

	// ---- key table ---------------------------------------------------------
	var keys []*tkey
	for i, k := range fix {
		keys = append(keys, &tkey{name: fmt.Sprintf("k%d", i), raw: []byte(k.Std.Public().(ed25519.PublicKey)), pub: k.Pub})
	}
	enum.BitFlips(keys[0].raw, func(mu enum.Mut) {
		pk, err := crypto.UnmarshalEd25519PublicKey(mu.Data)
		if err != nil {
			evid.Fatal("cannot build neighbour key: %v", err)
		}
		keys = append(keys, &tkey{name: "k0^" + mu.Desc, raw: mu.Data, pub: pk})
	})

	// ---- per-key round trips ----------------------------------------------
	canonical := 0
	for i, k := range keys {
		nontrivial := i >= len(fix)
		var id peer.ID
		var err error
		if p := enum.Try(func() { id, err = peer.IDFromPublicKey(k.pub) }); p != nil {
			acc.Case("roundtrip", k.name, nontrivial, "panic")
			run.Violation("panic/id-from-key", fmt.Sprintf("IDFromPublicKey panicked for %s: %v", k.name, p), k.name)
			continue
		}
		if err != nil {
			acc.Case("roundtrip", k.name, nontrivial, "derive-error")
			run.Violation("id-derivation-fails", fmt.Sprintf("IDFromPublicKey(%s): %v", k.name, err), k.name)
			continue
		}
		k.id = id
		ok := true
		bad := func(key, what string) {
			ok = false
			run.Violation(key, what+" ("+k.name+")", map[string]any{"key": k.name, "raw": fmt.Sprintf("%x", k.raw), "id": fmt.Sprintf("%x", []byte(id))})
		}
		// the ID, read by the independent decoder, is an identity multihash of exactly this key
		cls, code, dg := ref.ClassifyMultihash([]byte(id))
		rk, rerr := ref.PubKeyFromProto(dg)
		if cls != ref.MHWellFormed || code != 0 || rerr != nil || !bytes.Equal(rk, k.raw) {
			bad("id-does-not-encode-key", "the ID of a key does not decode (reference multihash + protobuf reader) to that key")
		}
		if bytes.Equal([]byte(id), ref.EncodeID(k.raw)) {
			canonical++
		}
		// ID -> key
		var got crypto.PubKey
		if p := enum.Try(func() { got, err = id.ExtractPublicKey() }); p != nil {
			bad("panic/extract", fmt.Sprintf("ExtractPublicKey panicked: %v", p))
		} else if err != nil || got == nil {
			bad("extract-fails-on-derived-id", fmt.Sprintf("ExtractPublicKey failed on a derived ID: %v", err))
		} else {
			raw, _ := got.Raw()
			if !bytes.Equal(raw, k.raw) || !got.Equals(k.pub) || !k.pub.Equals(got) {
				bad("extract-wrong-key", "ExtractPublicKey of a derived ID returned a different key")
			}
		}
		// ID -> text -> ID
		s := id.String()
		if s2 := peer.IDB58Encode(id); s2 != s {
			bad("text-forms-differ", "ID.String and IDB58Encode disagree")
		}
		var back peer.ID
		if p := enum.Try(func() { back, err = peer.IDB58Decode(s) }); p != nil {
			bad("panic/b58decode", fmt.Sprintf("IDB58Decode panicked: %v", p))
		} else if err != nil || back != id {
			bad("text-roundtrip", fmt.Sprintf("IDB58Decode(id.String()) != id (err=%v)", err))
		}
		if p := enum.Try(func() { back, err = confparse.ParsePeerID(s) }); p != nil {
			bad("panic/parse-peer-id", fmt.Sprintf("ParsePeerID panicked: %v", p))
		} else if err != nil || back != id {
			bad("text-roundtrip", fmt.Sprintf("ParsePeerID(id.String()) != id (err=%v)", err))
		}
		if rb, e := ref.Base58Dec(s); e != nil || !bytes.Equal(rb, []byte(id)) {
			bad("text-not-base58-of-id", "the text form does not decode (reference base58) to the ID bytes")
		}
		// ID -> bytes -> ID
		if p := enum.Try(func() { back, err = idFromOwnedBytes([]byte(id)) }); p != nil {
			bad("panic/id-from-bytes", fmt.Sprintf("IDFromBytes panicked: %v", p))
		} else if err != nil || back != id {
			bad("bytes-roundtrip", fmt.Sprintf("IDFromBytes([]byte(id)) != id (err=%v)", err))
		}
		if i < len(fix) {
			pid, e := peer.IDFromPrivateKey(fix[i].Priv)
			if e != nil || pid != id {
				bad("private-key-id-differs", "IDFromPrivateKey differs from IDFromPublicKey of its public key")
			}
			if !id.MatchesPrivateKey(fix[i].Priv) {
				bad("does-not-match-own-key", "MatchesPrivateKey false for the key the ID was derived from")
			}
		}
		out := "ok"
		if !ok {
			out = "violation"
		}
		acc.Case("roundtrip", k.name, nontrivial, out)
	}
	run.Cov["ids_equal_reference_encoding"] = canonical
	run.Cov["keys"] = len(keys)
	acc.Sample(map[string]any{"group": "roundtrip", "key": fmt.Sprintf("%x", keys[0].raw), "id_hex": fmt.Sprintf("%x", []byte(keys[0].id)), "id_text": keys[0].id.String()})

	// ---- all ordered pairs -------------------------------------------------
	enum.Par(len(keys), 16, func(i int) {
		a := keys[i]
		if a.id == "" {
			return
		}
		for j, b := range keys {
			if b.id == "" {
				continue
			}
			desc := a.name + "|" + b.name
			same := i == j
			var m bool
			if p := enum.Try(func() { m = a.id.MatchesPublicKey(b.pub) }); p != nil {
				acc.Case("pairs", desc, !same, "panic")
				run.Violation("panic/matches", fmt.Sprintf("MatchesPublicKey panicked: %v", p), desc)
				continue
			}
			out := "distinct,no-match"
			if same {
				out = "same,match"
			}
			if (a.id == b.id) != same {
				out = "violation"
				run.Violation("id-collision", "two different public keys have the same peer ID: "+desc, desc)
			}
			if m && !same {
				out = "violation"
				run.Violation("matches-foreign-key", "MatchesPublicKey true for a key the ID was not derived from: "+desc, desc)
			}
			if !m && same {
				out = "violation"
				run.Violation("does-not-match-own-key", "MatchesPublicKey false for the key the ID was derived from: "+desc, desc)
			}
			acc.Case("pairs", desc, !same, out)
		}
	})

	// ---- arbitrary bytes offered as an ID ---------------------------------
	// reference verdicts
	type verdict struct {
		cls     ref.MHClass
		keyOK   bool // extractable per reference
		keyUnd  bool // reference undecided on the payload
		keyWhy  string
		key     []byte
		isIdent bool
	}
	judge := func(b []byte) verdict {
		v := verdict{}
		var code uint64
		var dg []byte
		v.cls, code, dg = ref.ClassifyMultihash(b)
		if v.cls == ref.MHMalformed {
			v.keyWhy = "malformed multihash"
			return v
		}
		v.isIdent = code == 0
		if !v.isIdent {
			v.keyWhy = "not the identity code"
			return v
		}
		k, err := ref.PubKeyFromProto(dg)
		switch {
		case err == ref.ErrUndecided:
			v.keyUnd = true
		case err != nil:
			v.keyWhy = err.Error()
		default:
			v.keyOK, v.key = true, k
		}
		return v
	}
	clsName := map[ref.MHClass]string{ref.MHMalformed: "malformed", ref.MHWellFormed: "wellformed", ref.MHLoose: "loose-varint"}

	// parse entry points that take bytes or text and return an ID
	type parser struct {
		name string
		f    func(b []byte, text string) (peer.ID, error)
		text bool
	}
	parsers := []parser{
		{"IDFromBytes", func(b []byte, _ string) (peer.ID, error) { return idFromOwnedBytes(b) }, false},
		{"IDB58Decode", func(_ []byte, s string) (peer.ID, error) { return peer.IDB58Decode(s) }, true},
		{"ParsePeerID", func(_ []byte, s string) (peer.ID, error) { return confparse.ParsePeerID(s) }, true},
		{"ParsePeerIDs", func(_ []byte, s string) (peer.ID, error) {
			ids, err := confparse.ParsePeerIDs([]string{s}, false)
			if err != nil {
				return "", err
			}
			if len(ids) != 1 {
				return "", fmt.Errorf("ParsePeerIDs returned %d ids and no error", len(ids))
			}
			return ids[0], nil
		}, true},
		{"ValidatePeerID", func(b []byte, s string) (peer.ID, error) { return peer.ID(b), confparse.ValidatePeerID(s) }, true},
	}

	// checkParse runs one parser on a candidate. textOK=false means the text is
	// not base58 at all (then b is nil and the parser must reject).
	checkParse := func(group, desc string, p parser, b []byte, text string, textOK bool, v verdict) string {
		var id peer.ID
		var err error
		if pn := enum.Try(func() { id, err = p.f(b, text) }); pn != nil {
			run.Violation("panic/"+p.name, fmt.Sprintf("%s panicked on %s: %v", p.name, desc, pn), map[string]any{"case": desc, "bytes": fmt.Sprintf("%x", b), "text": text})
			return "panic"
		}
		got := err == nil
		rp := map[string]any{"case": desc, "bytes": fmt.Sprintf("%x", b), "text": text}
		switch {
		case !textOK || v.cls == ref.MHMalformed:
			if got {
				run.Violation("accepts-malformed-id/"+p.name, fmt.Sprintf("%s accepted %s, which is not a well-formed multihash", p.name, desc), rp)
				return "violation"
			}
			return "reject"
		case v.cls == ref.MHWellFormed:
			if !got {
				run.Violation("rejects-wellformed-id/"+p.name, fmt.Sprintf("%s rejected the well-formed multihash %s: %v", p.name, desc, err), rp)
				return "violation"
			}
		default: // loose varints: recorded, not demanded either way
			if !got {
				return "reject(loose-varint)"
			}
		}
		if !bytes.Equal([]byte(id), b) {
			run.Violation("parsed-id-differs/"+p.name, fmt.Sprintf("%s accepted %s but returned different ID bytes", p.name, desc), rp)
			return "violation"
		}
		if v.cls == ref.MHLoose {
			return "accept(loose-varint)"
		}
		return "accept"
	}

	nonIdentity := 0
	candidate := func(group, desc string, b []byte) {
		v := judge(b)
		if v.cls == ref.MHWellFormed && !v.isIdent {
			nonIdentity++ // accepted as an ID by the parsers, refused by ExtractPublicKey: recorded
		}
		outs := clsName[v.cls]
		text := ref.Base58Enc(b)
		for _, p := range parsers {
			if p.text && len(b) == 0 {
				continue // the empty ID has no text form; the empty string is a text case below
			}
			o := checkParse(group, desc, p, b, text, true, v)
			if o == "panic" || o == "violation" {
				outs += "," + p.name + "=" + o
			}
		}
		rp := map[string]any{"case": desc, "bytes": fmt.Sprintf("%x", b)}
		// key extraction
		var pk crypto.PubKey
		var err error
		ext := "extract="
		if pn := enum.Try(func() { pk, err = peer.ID(b).ExtractPublicKey() }); pn != nil {
			run.Violation("panic/extract", fmt.Sprintf("ExtractPublicKey panicked on %s: %v", desc, pn), rp)
			ext += "panic"
		} else {
			got := err == nil
			switch {
			case got && pk == nil:
				run.Violation("extract-nil-key", "ExtractPublicKey returned neither key nor error on "+desc, rp)
				ext += "violation"
			case v.keyUnd:
				ext += fmt.Sprintf("%v(reference-undecided)", got)
			case got && !v.keyOK:
				run.Violation("extract-accepts-malformed", fmt.Sprintf("ExtractPublicKey returned a key for %s (%s)", desc, v.keyWhy), rp)
				ext += "violation"
			case !got && v.keyOK && v.cls == ref.MHWellFormed:
				run.Violation("extract-rejects-wellformed", fmt.Sprintf("ExtractPublicKey rejected a well-formed identity multihash of an Ed25519 key %s: %v", desc, err), rp)
				ext += "violation"
			case got:
				raw, _ := pk.Raw()
				if !bytes.Equal(raw, v.key) {
					run.Violation("extract-wrong-key", "ExtractPublicKey returned a key other than the embedded one for "+desc, rp)
					ext += "violation"
				} else {
					ext += "key"
					if v.cls == ref.MHLoose {
						ext += "(loose-varint)"
					}
					// matches exactly when derived from it
					var m bool
					var did peer.ID
					if pn := enum.Try(func() { m = peer.ID(b).MatchesPublicKey(pk); did, err = peer.IDFromPublicKey(pk) }); pn != nil {
						run.Violation("panic/matches", fmt.Sprintf("MatchesPublicKey panicked on %s: %v", desc, pn), rp)
					} else if err == nil && m != (string(did) == string(b)) {
						run.Violation("matches-not-derived", fmt.Sprintf("MatchesPublicKey=%v although ID %s derived-from-key=%v", m, desc, string(did) == string(b)), rp)
						ext += ",violation"
					} else if !m {
						ext += ",alias-of-derived-id"
					}
				}
			default:
				ext += "none"
			}
		}
		// against the fixture keys: match iff it is that key's derived ID
		for _, k := range keys[:len(fix)] {
			var m bool
			if pn := enum.Try(func() { m = peer.ID(b).MatchesPublicKey(k.pub) }); pn != nil {
				run.Violation("panic/matches", fmt.Sprintf("MatchesPublicKey panicked on %s: %v", desc, pn), rp)
			} else if m != (string(k.id) == string(b)) {
				run.Violation("matches-not-derived", fmt.Sprintf("MatchesPublicKey(%s)=%v for candidate ID %s", k.name, m, desc), rp)
				ext += ",violation"
			}
		}
		acc.Case(group, desc, true, outs+","+ext)
	}

	alpha := []byte{0x00, 0x01, 0x08, 0x12, 0x20, 0x24, 0x7f, 0x80, 0xff}
	nbase := 2
	if !run.Quick() {
		nbase = 4
	}
	for bi := 0; bi < nbase; bi++ {
		k := keys[bi]
		id := []byte(k.id)
		if len(id) == 0 {
			continue
		}
		base := k.name
		candidate("id-valid", base, id)
		enum.ByteSubst(id, nil, func(mu enum.Mut) { candidate("id-subst", base+"/"+mu.Desc, mu.Data) })
		enum.Truncations(id, func(mu enum.Mut) { candidate("id-trunc", base+"/"+mu.Desc, mu.Data) })
		enum.Extensions(id, nil, func(mu enum.Mut) { candidate("id-ext1", base+"/"+mu.Desc, mu.Data) })
		if run.Quick() || bi > 0 {
			for _, x := range alpha {
				for _, y := range alpha {
					candidate("id-ext2", fmt.Sprintf("%s/ext=%02x%02x", base, x, y), append(append([]byte{}, id...), x, y))
				}
			}
		} else {
			for x := 0; x < 256; x++ {
				for y := 0; y < 256; y++ {
					candidate("id-ext2", fmt.Sprintf("%s/ext=%02x%02x", base, x, y), append(append([]byte{}, id...), byte(x), byte(y)))
				}
			}
		}
		// hand-built variants around the reference encoding 00 24 <36-byte key message>
		msg := append([]byte{0x08, 0x01, 0x12, 0x20}, k.raw...)
		cat := func(parts ...[]byte) []byte { return bytes.Join(parts, nil) }
		vs := []struct {
			d string
			b []byte
		}{
			{"reference-encoding", cat([]byte{0x00, 0x24}, msg)},
			{"code-padded-8000", cat([]byte{0x80, 0x00, 0x24}, msg)},
			{"code-padded-808000", cat([]byte{0x80, 0x80, 0x00, 0x24}, msg)},
			{"code-10-bytes-of-80-then-00", cat(bytes.Repeat([]byte{0x80}, 10), []byte{0x00, 0x24}, msg)},
			{"code-9x80-then-00", cat(bytes.Repeat([]byte{0x80}, 9), []byte{0x00, 0x24}, msg)},
			{"len-padded-a400", cat([]byte{0x00, 0xa4, 0x00}, msg)},
			{"len-padded-a48000", cat([]byte{0x00, 0xa4, 0x80, 0x00}, msg)},
			{"len-minus-1", cat([]byte{0x00, 0x23}, msg)},
			{"len-plus-1", cat([]byte{0x00, 0x25}, msg)},
			{"len-minus-1-digest-minus-1", cat([]byte{0x00, 0x23}, msg[:35])},
			{"len-zero-digest-empty", []byte{0x00, 0x00}},
			{"len-zero-digest-present", cat([]byte{0x00, 0x00}, msg)},
			{"len-2^63-10-byte-varint", cat([]byte{0x00}, bytes.Repeat([]byte{0x80}, 9), []byte{0x01}, msg)},
			{"len-overflow-10-byte-varint", cat([]byte{0x00}, bytes.Repeat([]byte{0xff}, 9), []byte{0x02}, msg)},
			{"len-truncated-varint", []byte{0x00, 0xa4}},
			{"code-truncated-varint", []byte{0x80}},
			{"code-max-10-byte-varint-empty-digest", cat(bytes.Repeat([]byte{0xff}, 9), []byte{0x01, 0x00})},
			{"code-overflow-varint", cat(bytes.Repeat([]byte{0xff}, 9), []byte{0x02, 0x00})},
			{"code-sha256-digest-is-key-message", cat([]byte{0x12, 0x24}, msg)},
			{"code-sha256-32-byte-digest", cat([]byte{0x12, 0x20}, k.raw)},
			{"code-01", cat([]byte{0x01, 0x24}, msg)},
			{"code-7f", cat([]byte{0x7f, 0x24}, msg)},
			{"code-128", cat([]byte{0x80, 0x01, 0x24}, msg)},
			{"digest-raw-key-without-message", cat([]byte{0x00, 0x20}, k.raw)},
			{"digest-key-type-0", cat([]byte{0x00, 0x24, 0x08, 0x00, 0x12, 0x20}, k.raw)},
			{"digest-key-type-2", cat([]byte{0x00, 0x24, 0x08, 0x02, 0x12, 0x20}, k.raw)},
			{"digest-key-type-absent", cat([]byte{0x00, 0x22, 0x12, 0x20}, k.raw)},
			{"digest-key-31-bytes", cat([]byte{0x00, 0x23, 0x08, 0x01, 0x12, 0x1f}, k.raw[:31])},
			{"digest-key-33-bytes", cat([]byte{0x00, 0x25, 0x08, 0x01, 0x12, 0x21}, k.raw, []byte{0x00})},
			{"digest-key-absent", []byte{0x00, 0x02, 0x08, 0x01}},
			{"digest-fields-swapped", cat([]byte{0x00, 0x24, 0x12, 0x20}, k.raw, []byte{0x08, 0x01})},
			{"digest-plus-unknown-field", cat([]byte{0x00, 0x26}, msg, []byte{0x18, 0x05})},
			{"two-ids-concatenated", cat(id, id)},
		}
		for _, v := range vs {
			candidate("id-built", base+"/"+v.d, v.b)
		}
		for x := 0; x < 256; x++ {
			candidate("id-built", fmt.Sprintf("%s/len-plus-1-appended-%02x", base, x), cat([]byte{0x00, 0x25}, msg, []byte{byte(x)}))
		}
	}
	maxLen := 3
	if !run.Quick() {
		maxLen = 4
	}
	enum.Strings(alpha, maxLen, func(s []byte) { candidate("short", fmt.Sprintf("%x", s), append([]byte{}, s...)) })
	acc.Sample(map[string]any{"group": "id-built", "example": "k0/len-plus-1: 00 25 <36-byte key message>, one byte short of its declared length, must be rejected by IDFromBytes"})

	// ---- arbitrary text offered as an ID ----------------------------------
	textCase := func(group, desc, s string) {
		b, derr := ref.Base58Dec(s)
		v := verdict{}
		if derr == nil {
			v = judge(b)
		}
		outs := "not-base58"
		if derr == nil {
			outs = clsName[v.cls]
		}
		for _, p := range parsers {
			if !p.text {
				continue
			}
			if s == "" && (p.name == "ParsePeerID") {
				// documented: "parses the peer ID if it is not empty" -> ("", nil); recorded
				id, err := confparse.ParsePeerID(s)
				outs += fmt.Sprintf(",ParsePeerID(\"\")=(%q,%v)(recorded)", string(id), err)
				continue
			}
			o := checkParse(group, desc, p, b, s, derr == nil, v)
			if o != "accept" && o != "reject" {
				outs += "," + p.name + "=" + o
			} else if p.name == "IDB58Decode" {
				outs += "," + o
			}
		}
		acc.Case(group, desc, true, outs)
	}
	chars := []byte("123456789ABCDEFGHJKLMNPQRSTUVWXYZabcdefghijkmnopqrstuvwxyz0OIl +/-_=.\n\t\x00\x7f\x80\xff")
	for bi := 0; bi < nbase; bi++ {
		k := keys[bi]
		s := k.id.String()
		if k.id == "" {
			continue
		}
		base := k.name
		textCase("text-valid", base, s)
		enum.ByteSubst([]byte(s), chars, func(mu enum.Mut) { textCase("text-subst", base+"/"+mu.Desc, string(mu.Data)) })
		enum.Truncations([]byte(s), func(mu enum.Mut) {
			if len(mu.Data) > 0 {
				textCase("text-trunc", base+"/"+mu.Desc, string(mu.Data))
			}
		})
		enum.Extensions([]byte(s), chars, func(mu enum.Mut) { textCase("text-ext", base+"/"+mu.Desc, string(mu.Data)) })
		for _, c := range chars {
			textCase("text-prefix", fmt.Sprintf("%s/prefix=%02x", base, c), string([]byte{c})+s)
		}
		textCase("text-other", base+"/hex-of-id", fmt.Sprintf("%x", []byte(k.id)))
		textCase("text-other", base+"/doubled", s+s)
	}
	textCase("text-other", "empty", "")
	for _, c := range chars {
		textCase("text-other", fmt.Sprintf("single-%02x", c), string([]byte{c}))
	}
	acc.Sample(map[string]any{"group": "text-subst", "example": "k0/subst[5]=30: character 5 of the base58 ID replaced by '0' (outside the alphabet), must be rejected"})

	acc.Finish()
	run.Cov["wellformed_non_identity_candidates"] = nonIdentity
	run.Cov["alphabet"] = map[string]any{"short_string_bytes": fmt.Sprintf("%x", alpha), "text_chars": len(chars)}
	run.Assumptions = append(run.Assumptions,
		"reference readers in harness/ref (LEB128, multihash, base58, protobuf key message) are correct",
		"any 32 bytes are a syntactically valid Ed25519 public key for ID purposes",
		"multihashes readable only with padded or 10-byte varints are recorded, not judged (decoders legitimately differ); protobuf payloads with wrong wire types on known fields are not judged",
		"ParsePeerID(\"\") returning the empty ID without error is its documented optional-field behaviour and is recorded only",
		"IDs and texts outside the stated deviation ball are not covered")
	run.Finish(t)
}
