package c24

import (
	"testing"

	"verifh/evid"
	"verifh/mc"
	"verifh/sigh"
)

func scenarios(quick bool) []sigh.Scen {
	s := []sigh.Scen{
		{"reopen", [][]string{{"listen:l1:C"}, {"attach:a1:A:C", "cancel:a1", "attach:a2:A:C"}}},
		{"two-peers", [][]string{{"listen:l1:C"}, {"attach:a1:A:C"}, {"attach:b1:B:C"}}},
		{"open-close", [][]string{{"listen:l1:C"}, {"attach:a1:A:C", "cancel:a1"}, {"attach:b1:B:C"}}},
		// the listener is slow to read (Listen blocked in Send): requesting peers change behind its back
		{"slow-listener-swap", [][]string{{"listens:l1:C", "attach:a1:A:C", "wait", "attach:b1:B:C", "wait", "cancel:a1", "attach:a2:A:B", "wait", "resume:l1"}}},
		{"slow-listener-outlives-tracker", [][]string{{"listens:l1:C", "wait", "attach:a1:A:C", "wait", "cancel:a1", "wait", "listen:l2:C", "wait", "cancel:l2", "wait", "listen:l3:C", "wait", "resume:l1", "wait", "attach:b1:B:C"}}},
		{"peers-come-and-go-racing", [][]string{{"!setup", "listen:l1:C", "attach:a1:A:C", "wait"}, {"cancel:a1", "attach:a2:A:C"}, {"attach:b1:B:C", "cancel:b1"}}},
		{"listen-restart", [][]string{{"listen:l1:C", "cancel:l1", "listen:l2:C"}, {"attach:a1:A:C"}}},
		{"listen-usurp", [][]string{{"listen:l1:C", "listen:l2:C"}, {"attach:a1:A:C"}}},
		{"session-before-listen", [][]string{{"attach:a1:A:C", "cancel:a1"}, {"listen:l1:C"}, {"attach:b1:B:C"}}},
	}
	if !quick {
		s = append(s,
			sigh.Scen{"reopen-twice", [][]string{{"listen:l1:C"}, {"attach:a1:A:C", "cancel:a1", "attach:a2:A:C", "cancel:a2", "attach:a3:A:C"}}},
			sigh.Scen{"three-events-two-peers", [][]string{{"listen:l1:C"}, {"attach:a1:A:C", "cancel:a1"}, {"attach:b1:B:C", "cancel:b1", "attach:b2:B:C"}}},
			sigh.Scen{"usurp-and-reopen", [][]string{{"listen:l1:C"}, {"listen:l2:C"}, {"attach:a1:A:C", "cancel:a1", "attach:a2:A:C"}}},
			sigh.Scen{"session-usurp", [][]string{{"listen:l1:C"}, {"attach:a1:A:C", "attach:a2:A:C"}, {"attach:b1:B:C"}}},
		)
	}
	return s
}

func TestC24(t *testing.T) {
	run := evid.Start("C24", "model_checking")
	agg := mc.NewAgg(run)
	bound := 1
	if !run.Quick() {
		bound = 2
	}
	sigh.ExploreS1(t, run, agg, "V24:", scenarios(run.Quick()), bound)
	agg.Finish(true)
	run.Cov["preemption_bound"] = bound
	run.Assumptions = append(run.Assumptions,
		"clients are harness script threads speaking the raw Listen/Session streams over instrumented in-memory FIFOs",
		"'peers that currently hold an open session request towards the listener' = Session calls still running at quiescence; the listener's view is SetPeer minus ClearPeer on the one active Listen call")
	run.Finish(t)
}
