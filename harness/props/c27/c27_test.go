package c27

import (
	"crypto/ed25519"
	"context"
	"fmt"
	"io"
	"runtime"
	"sort"
	"strings"
	"sync"
	"sync/atomic"
	"testing"
	"testing/synctest"
	"time"

	"github.com/aperturerobotics/bifrost/hash"
	"github.com/aperturerobotics/bifrost/peer"
	"github.com/aperturerobotics/bifrost/pubsub"
	"github.com/aperturerobotics/bifrost/pubsub/floodsub"
	"github.com/aperturerobotics/bifrost/pubsub/util/pubmessage"
	timestamp "github.com/aperturerobotics/protobuf-go-lite/types/known/timestamppb"
	"github.com/sirupsen/logrus"

	"verifh/enum"
	"verifh/evid"
	"verifh/fakes"
	"verifh/hist"
	"verifh/mc"
	"verifh/ref"
)

// pubCtx is the signing-context prefix of pubsub messages, stated here
// independently of the code (cross-checked against a message produced by the
// real pubmessage.NewPubMessage in selfCheck).
const pubCtx = "bifrost/pubsub/pubmessage 2024-06-05T02:38:47.55258Z channel/"

// other real signing context of the repository (signaling relay)
const signalingCtx = "bifrost/signaling/rpc session msg 2024-06-05T02:45:07.208906Z"

const (
	ch1 = "ch1" // the node subscribes to ch1 only
	ch2 = "ch2"
)

// letter is one publish packet of the alphabet.
type letter struct {
	name   string
	msg    *peer.SignedMsg
	wire   []byte // framed Packet{Publish:[msg]}
	enc    string // marshalled msg (identity on the wire)
	honest bool   // authentic for the channel named in its inner message
	chanID string // inner channel as sent
	author string // true signer (b58 peer id)
	claims string // claimed sender (b58 peer id)
	data   string // inner data as sent (unique per letter)
}

type fixture struct {
	keys    []*enum.Key // 0 node, 1 A (injecting peer, author), 2 B (third-party author), 3 C (forger), 4 observer
	letters []*letter
	byName  map[string]*letter
	byData  map[string]*letter
	byEnc   map[string]*letter
	subPkt  []byte // framed Packet{Subscriptions: ch1+, ch2+}
}

func inner(channel, data string) *pubmessage.PubMessageInner {
	return &pubmessage.PubMessageInner{Data: []byte(data), Channel: channel, Timestamp: &timestamp.Timestamp{Seconds: 946684800, Nanos: 7}}
}

func mustMarshal(m interface{ MarshalVT() ([]byte, error) }) []byte {
	b, err := m.MarshalVT()
	if err != nil {
		evid.Fatal("marshal: %v", err)
	}
	return b
}

func sign(ctx string, k *enum.Key, body []byte) *peer.SignedMsg {
	m, err := peer.NewSignedMsg(ctx, k.Priv, hash.HashType_HashType_SHA256, body)
	if err != nil {
		evid.Fatal("NewSignedMsg: %v", err)
	}
	return m
}

func buildFixture() *fixture {
	f := &fixture{keys: enum.Keys(5), byName: map[string]*letter{}, byData: map[string]*letter{}, byEnc: map[string]*letter{}}
	A, B, C := f.keys[1], f.keys[2], f.keys[3]
	add := func(name string, msg *peer.SignedMsg, honest bool, chanID string, author *enum.Key, data string) {
		l := &letter{name: name, msg: msg, honest: honest, chanID: chanID, author: author.ID.String(), claims: msg.GetFromPeerId(), data: data}
		l.enc = string(mustMarshal(msg))
		l.wire = ref.Frame(mustMarshal(&floodsub.Packet{Publish: []*peer.SignedMsg{msg}}))
		if f.byData[data] != nil || f.byEnc[l.enc] != nil {
			evid.Fatal("alphabet letters must be distinguishable: %s", name)
		}
		f.letters = append(f.letters, l)
		f.byName[name], f.byData[data], f.byEnc[l.enc] = l, l, l
	}
	honest := func(k *enum.Key, channel, data string) *peer.SignedMsg {
		return sign(pubCtx+channel, k, mustMarshal(inner(channel, data)))
	}
	// honest traffic
	add("honest-ch1-A", honest(A, ch1, "h1a"), true, ch1, A, "h1a")
	add("honest-ch1-B", honest(B, ch1, "h1b"), true, ch1, B, "h1b") // third-party author relayed by the injecting peer
	add("honest-ch2-A", honest(A, ch2, "h2a"), true, ch2, A, "h2a") // node is not subscribed to ch2
	add("honest-ch1-A-empty-data", honest(A, ch1, ""), true, ch1, A, "")
	// body tampered after signing
	{
		m := honest(A, ch1, "tb-orig")
		m.Data = mustMarshal(inner(ch1, "tb-evil"))
		add("body-tampered", m, false, ch1, A, "tb-evil")
	}
	// inner channel rewritten, signature kept
	{
		m := honest(A, ch2, "r21")
		m.Data = mustMarshal(inner(ch1, "r21"))
		add("retarget-ch2-to-ch1", m, false, ch1, A, "r21")
		m = honest(A, ch1, "r12")
		m.Data = mustMarshal(inner(ch2, "r12"))
		add("retarget-ch1-to-ch2", m, false, ch2, A, "r12")
	}
	// signed by C, claims A
	{
		m := honest(C, ch1, "fca")
		m.FromPeerId = A.ID.String()
		add("signed-by-C-claims-A", m, false, ch1, C, "fca")
	}
	// signed by C, claims A, C's public key attached to the signature object
	// (the optional Signature.pub_key field)
	{
		m := honest(C, ch1, "fcak")
		m.FromPeerId = A.ID.String()
		m.Signature.PubKey = append([]byte{0x08, 0x01, 0x12, 0x20}, C.Std.Public().(ed25519.PublicKey)...)
		add("signed-by-C-claims-A-C-key-attached", m, false, ch1, C, "fcak")
	}
	// other signing contexts
	add("ctx-other-suffix", sign(pubCtx+ch1+"other", A, mustMarshal(inner(ch1, "ctxo"))), false, ch1, A, "ctxo")
	add("ctx-signaling", sign(signalingCtx, A, mustMarshal(inner(ch1, "ctxs"))), false, ch1, A, "ctxs")
	add("ctx-of-ch2", sign(pubCtx+ch2, A, mustMarshal(inner(ch1, "ctx2"))), false, ch1, A, "ctx2")
	// empty channel (properly signed under the prefix alone)
	add("empty-channel", sign(pubCtx, A, mustMarshal(inner("", "ech"))), false, "", A, "ech")
	// one signature bit flipped
	{
		m := honest(A, ch1, "sbf")
		m.Signature.SigData[5] ^= 0x10
		add("sig-bit-flipped", m, false, ch1, A, "sbf")
	}
	f.subPkt = ref.Frame(mustMarshal(&floodsub.Packet{Subscriptions: []*floodsub.SubscriptionOpts{{ChannelId: ch1, Subscribe: true}, {ChannelId: ch2, Subscribe: true}}}))
	f.selfCheck()
	return f
}

// selfCheck classifies every letter with the independent reference verifier
// (ref.VerifySig over the stated context) and compares with the by-construction
// classification; it also confirms pubCtx against a message made by the real
// NewPubMessage. A mismatch is a harness error (exit 2), never a violation.
func (f *fixture) selfCheck() {
	auth := func(m *peer.SignedMsg) (ok bool, channel string) {
		fs, err := ref.PBParse(m.GetData())
		if err != nil {
			return false, ""
		}
		for _, fl := range fs {
			if fl.Num == 2 && fl.Wire == 2 {
				channel = string(fl.Bytes)
			}
		}
		key, _, err := ref.PubKeyFromB58ID(m.GetFromPeerId())
		if err != nil || channel == "" {
			return false, channel
		}
		return ref.VerifySig(key, pubCtx+channel, int32(m.GetSignature().GetHashType()), m.GetData(), m.GetSignature().GetSigData()), channel
	}
	real, _, err := pubmessage.NewPubMessage(ch1, f.keys[1].Priv, hash.HashType_HashType_SHA256, []byte("x"))
	if err != nil {
		evid.Fatal("NewPubMessage: %v", err)
	}
	if ok, c := auth(real); !ok || c != ch1 {
		evid.Fatal("reference verifier rejects a message made by pubmessage.NewPubMessage: the stated signing context is wrong")
	}
	for _, l := range f.letters {
		ok, c := auth(l.msg)
		if ok != l.honest || (ok && c != l.chanID) {
			evid.Fatal("alphabet letter %s: classified honest=%v by construction but reference verifier says %v (channel %q)", l.name, l.honest, ok, c)
		}
	}
}

// ---- system under test ----

// non-vacuity counters over the whole run
var statDelivered, statForwarded, statRejected atomic.Int64

type delivery struct {
	from string
	data string
	auth bool
}

type sys struct {
	f       *fixture
	allSeq  bool
	batch   bool // events are packets with two publish entries
	cancel  context.CancelFunc
	ps      pubsub.PubSub
	inj     *ref.WireEnd // harness end of the injecting peer's stream
	obs     *ref.WireEnd
	mu      sync.Mutex
	got     []delivery          // handler invocations
	fwd     map[string][]string // "observer"/"injector" -> publish messages the node wrote (letter name or "?…")
	other   []string            // anything else unexpected on the wire
	history []string
}

func newSys(f *fixture, allSeq bool) hist.Sys { return newSysB(f, allSeq, false) }

func newSysB(f *fixture, allSeq, batch bool) hist.Sys { return newSysC(f, allSeq, batch, 0) }

// newSysC: ch2Past says how the node came to NOT be subscribed to ch2:
// 0 it never was; 1 it subscribed and released before the router started;
// 2 it subscribed and released back to back while the router runs (before the
// router's next evaluation); 3 it subscribed, the router announced it, it
// released, the router withdrew it.
func newSysC(f *fixture, allSeq, batch bool, ch2Past int) hist.Sys {
	s := &sys{f: f, allSeq: allSeq, batch: batch, fwd: map[string][]string{}}
	ctx, cancel := context.WithCancel(context.Background())
	s.cancel = cancel
	lg := logrus.New()
	lg.SetOutput(io.Discard)
	le := logrus.NewEntry(lg)
	ps, err := floodsub.NewFloodSub(ctx, le, nil, &floodsub.Config{})
	if err != nil {
		evid.Fatal("NewFloodSub: %v", err)
	}
	s.ps = ps
	past := func() {
		old, err := ps.AddSubscription(ctx, f.keys[0].Priv, ch2)
		if err != nil {
			evid.Fatal("AddSubscription(ch2): %v", err)
		}
		if ch2Past == 3 {
			time.Sleep(250 * time.Millisecond)
			synctest.Wait()
		}
		old.Release()
		if ch2Past == 3 {
			time.Sleep(250 * time.Millisecond)
			synctest.Wait()
		}
	}
	if ch2Past == 1 {
		past()
	}
	go func() { _ = ps.Execute(ctx) }()
	if ch2Past >= 2 {
		synctest.Wait()
		past()
	}
	sub, err := ps.AddSubscription(ctx, f.keys[0].Priv, ch1)
	if err != nil {
		evid.Fatal("AddSubscription: %v", err)
	}
	sub.AddHandler(func(m pubsub.Message) {
		statDelivered.Add(1)
		s.mu.Lock()
		s.got = append(s.got, delivery{m.GetFrom().String(), string(m.GetData()), m.GetAuthenticated()})
		s.mu.Unlock()
	})
	attach := func(name string, k *enum.Key, linkID uint64) *ref.WireEnd {
		w := ref.NewWire()
		df := &ref.Deframer{}
		w.Tap = func(from int, b []byte) {
			if from != 0 {
				return
			}
			for _, fr := range df.Push(b) {
				s.observe(name, fr)
			}
		}
		lnk := &fakes.MountedLink{UUID: linkID, Local: f.keys[0].ID, Remote: k.ID}
		ps.AddPeerStream(pubsub.PeerLinkTuple{PeerID: k.ID, LinkID: linkID}, false,
			&fakes.MountedStream{Strm: w.End(0), Proto: floodsub.FloodSubID, Peer: k.ID, Link: lnk})
		return w.End(1)
	}
	s.inj = attach("injector", f.keys[1], 1)
	s.obs = attach("observer", f.keys[4], 2)
	// both fake peers announce interest in ch1 and ch2
	s.inj.Write(f.subPkt)
	s.obs.Write(f.subPkt)
	time.Sleep(250 * time.Millisecond) // virtual: lets the evaluation tick start the sessions
	synctest.Wait()
	return s
}

// observe records one packet the node wrote to a fake peer.
func (s *sys) observe(peerName string, frame []byte) {
	pkt := &floodsub.Packet{}
	if err := pkt.UnmarshalVT(frame); err != nil {
		s.mu.Lock()
		s.other = append(s.other, peerName+": undecodable packet")
		s.mu.Unlock()
		return
	}
	s.mu.Lock()
	defer s.mu.Unlock()
	for _, m := range pkt.GetPublish() {
		enc := string(mustMarshal(m))
		statForwarded.Add(1)
		if l := s.f.byEnc[enc]; l != nil {
			s.fwd[peerName] = append(s.fwd[peerName], l.name)
		} else {
			s.fwd[peerName] = append(s.fwd[peerName], fmt.Sprintf("?from=%s,data=%x", m.GetFromPeerId(), m.GetData()))
		}
	}
}

func (s *sys) Enabled() []string {
	if s.batch {
		// one packet carrying two publish entries: every ordered pair of letters
		var out []string
		for _, a := range s.f.letters {
			for _, b := range s.f.letters {
				if a != b {
					out = append(out, "batch:"+a.name+"+"+b.name)
				}
			}
		}
		return out
	}
	out := make([]string, len(s.f.letters))
	for i, l := range s.f.letters {
		out[i] = l.name
	}
	return out
}

func (s *sys) Apply(ev string) {
	if strings.HasPrefix(ev, "batch:") {
		var msgs []*peer.SignedMsg
		for _, n := range strings.Split(strings.TrimPrefix(ev, "batch:"), "+") {
			l := s.f.byName[n]
			s.history = append(s.history, n)
			if !l.honest || l.chanID != ch1 {
				statRejected.Add(1)
			}
			msgs = append(msgs, l.msg)
		}
		s.inj.Write(ref.Frame(mustMarshal(&floodsub.Packet{Publish: msgs})))
		return
	}
	s.history = append(s.history, ev)
	if l := s.f.byName[ev]; !l.honest || l.chanID != ch1 {
		statRejected.Add(1)
	}
	s.inj.Write(s.f.byName[ev].wire)
}

func (s *sys) Canon() string {
	s.mu.Lock()
	defer s.mu.Unlock()
	var g []string
	for _, d := range s.got {
		g = append(g, fmt.Sprintf("%s|%q|%v", d.from, d.data, d.auth))
	}
	sort.Strings(g)
	var fw []string
	for p, ms := range s.fwd {
		c := append([]string{}, ms...)
		sort.Strings(c)
		fw = append(fw, p+"<-"+strings.Join(c, ","))
	}
	sort.Strings(fw)
	c := fmt.Sprintf("%s || got=%v || fwd=%v || other=%v", floodsub.VerifState(s.ps), g, fw, s.other)
	if s.allSeq {
		c += " || injected=" + strings.Join(s.history, ",")
	}
	return c
}

// Check compares everything observed so far with the model: the handler saw
// exactly the distinct honest ch1 messages injected so far, each once, with
// the true sender; the fake peers were sent only honest ch1 messages,
// unaltered, at most once each.
func (s *sys) Check() []string {
	s.mu.Lock()
	defer s.mu.Unlock()
	var out []string
	want := map[string]bool{} // honest ch1 letters injected so far
	injected := map[string]bool{}
	for _, ev := range s.history {
		l := s.f.byName[ev]
		injected[ev] = true
		if l.honest && l.chanID == ch1 {
			want[ev] = true
		}
	}
	seen := map[string]int{}
	for _, d := range s.got {
		l := s.f.byData[d.data]
		switch {
		case l == nil || !injected[l.name]:
			out = append(out, fmt.Sprintf("delivered-unknown :: handler received a message (from=%s data=%q) that was never injected", d.from, d.data))
		case !l.honest:
			out = append(out, fmt.Sprintf("delivered-unauthentic/%s :: the ch1 subscriber's handler was invoked with the %s packet (claimed sender %s, data %q) although its signature does not verify for the claimed sender and signed channel", l.name, l.name, d.from, d.data))
		case l.chanID != ch1:
			out = append(out, fmt.Sprintf("delivered-other-channel/%s :: the ch1 subscriber's handler was invoked with a message signed for channel %q", l.name, l.chanID))
		default:
			seen[l.name]++
			if d.from != l.author {
				out = append(out, fmt.Sprintf("wrong-sender/%s :: handler reports sender %s, true signer is %s", l.name, d.from, l.author))
			}
			if !d.auth {
				out = append(out, fmt.Sprintf("not-marked-authenticated/%s :: an authentic message was handed over with GetAuthenticated()=false", l.name))
			}
		}
	}
	for name, n := range seen {
		if n > 1 {
			out = append(out, fmt.Sprintf("duplicate-delivery/%s :: honest message handed to the handler %d times", name, n))
		}
	}
	for name := range want {
		if seen[name] == 0 {
			out = append(out, fmt.Sprintf("honest-dropped/%s :: honest ch1 message was injected (history %v) but the handler never saw it", name, s.history))
		}
	}
	for p, ms := range s.fwd {
		cnt := map[string]int{}
		for _, name := range ms {
			cnt[name]++
			l := s.f.byName[name]
			switch {
			case l == nil:
				out = append(out, fmt.Sprintf("forwarded-unknown :: node wrote a publish message to the %s that is not byte-identical to any injected message: %s", p, name))
			case !injected[name]:
				out = append(out, fmt.Sprintf("forwarded-never-injected/%s :: node wrote %s to the %s before it was injected", name, name, p))
			case !l.honest:
				out = append(out, fmt.Sprintf("forwarded-unauthentic/%s :: node forwarded the %s packet to the %s", name, name, p))
			case l.chanID != ch1:
				out = append(out, fmt.Sprintf("forwarded-unsubscribed-channel/%s :: node forwarded a message for channel %q, to which it is not subscribed, to the %s", name, l.chanID, p))
			}
		}
		for name, n := range cnt {
			if n > 1 && s.f.byName[name] != nil {
				out = append(out, fmt.Sprintf("forwarded-twice/%s :: node wrote %s %d times to the %s", name, name, n, p))
			}
		}
	}
	for _, o := range s.other {
		out = append(out, "wire-garbage :: "+o)
	}
	sort.Strings(out)
	return out
}

func (s *sys) Close() {
	s.cancel()
	s.inj.Close()
	s.obs.Close()
	synctest.Wait()
	floodsub.VerifStopJanitor(s.ps)
}

func TestC27(t *testing.T) {
	run := evid.Start("C27", "model_checking")
	runtime.GOMAXPROCS(1)
	f := buildFixture()
	agg := mc.NewAgg(run)
	depthAll, depthState := 3, 5
	if !run.Quick() {
		depthAll, depthState = 4, 8
	}
	// (1) every sequence up to depthAll: the injected sequence is part of the
	// canonical state, so no two histories are merged.
	resAll := hist.BFS(t, &hist.Config{Name: "floodsub-inject/all-sequences", New: func() hist.Sys { return newSys(f, true) },
		MaxDepth: depthAll, Deadline: run.Deadline(), Settle: 250 * time.Millisecond})
	agg.AddHist(resAll)
	// (2) deeper, with histories merged on the router's real state + observations
	resSt := hist.BFS(t, &hist.Config{Name: "floodsub-inject/state-merged", New: func() hist.Sys { return newSys(f, false) },
		MaxDepth: depthState, Deadline: run.Deadline(), Settle: 250 * time.Millisecond})
	agg.AddHist(resSt)
	// (3) packets that carry two publish entries: every ordered pair of letters
	// in one packet (thorough: every sequence of two such packets)
	depthBatch := 1
	if !run.Quick() {
		depthBatch = 2
	}
	resB := hist.BFS(t, &hist.Config{Name: "floodsub-inject/two-entries-per-packet", New: func() hist.Sys { return newSysB(f, true, true) },
		MaxDepth: depthBatch, Deadline: run.Deadline(), Settle: 250 * time.Millisecond})
	agg.AddHist(resB)
	// (4) the node WAS subscribed to ch2 at some point and is not any more
	for i, name := range []string{"released-before-the-router-started", "subscribed-and-released-within-one-evaluation", "announced-then-withdrawn"} {
		past := i + 1
		res := hist.BFS(t, &hist.Config{Name: "floodsub-inject/ch2-" + name, New: func() hist.Sys { return newSysC(f, true, false, past) },
			MaxDepth: 2, Deadline: run.Deadline(), Settle: 250 * time.Millisecond})
		agg.AddHist(res)
	}
	agg.Finish(false)
	if run.NViolations() == 0 && (statDelivered.Load() == 0 || statForwarded.Load() == 0 || statRejected.Load() == 0) {
		evid.Fatal("vacuous: %d handler invocations, %d forwarded publish messages, %d packets the model expects to be dropped", statDelivered.Load(), statForwarded.Load(), statRejected.Load())
	}
	run.Cov["handler_invocations_observed"] = statDelivered.Load()
	run.Cov["forwarded_messages_observed"] = statForwarded.Load()
	run.Cov["injected_packets_expected_dropped"] = statRejected.Load()
	var names []string
	nHonest := 0
	for _, l := range f.letters {
		names = append(names, l.name)
		if l.honest {
			nHonest++
		}
	}
	if resAll.Exhaustive {
		want := 0
		p := 1
		for d := 0; d <= depthAll; d++ {
			want += p
			p *= len(f.letters)
		}
		if resAll.States != want {
			evid.Fatal("all-sequences search visited %d states, expected %d sequences", resAll.States, want)
		}
	}
	run.Cov["alphabet"] = names
	run.Cov["alphabet_size"] = len(names)
	run.Cov["honest_letters"] = nHonest
	run.Cov["depth_all_sequences"] = resAll.DepthCompleted
	run.Cov["depth_state_merged"] = resSt.DepthCompleted
	run.Cov["bound"] = fmt.Sprintf("all sequences of <=%d publish packets over %d letters; state-merged search to depth %d", depthAll, len(names), depthState)
	run.Assumptions = append(run.Assumptions,
		"each packet is processed to quiescence (synctest.Wait + 250ms virtual time) before the next is injected; interleavings inside one packet's processing are the Go scheduler's (GOMAXPROCS=1)",
		"letters are classified honest/unauthentic by construction and cross-checked with the independent reference verifier (ref.VerifySig over the stated pubsub signing context)",
		"fake peers are harness ends of in-memory wires attached with the real AddPeerStream; packets use the real floodsub.Packet encoding and the 4-byte length framing of stream/packet",
		"go-cache's janitor goroutine is stopped (export shim) when a case is torn down; entry expiry is untouched and not reached (virtual time per history < 2s, window 120s)",
		"in scenario all-sequences the canonical state contains the injected sequence, so 'states' there counts sequences; scenario state-merged de-duplicates on the router's fields and the observation log")
	run.Finish(t)
}
