package c37

import (
	"context"
	"fmt"
	"net/url"
	"strconv"
	"strings"
	"testing"

	bifrost_http "github.com/aperturerobotics/bifrost/http"
	"github.com/aperturerobotics/bifrost/link"
	link_solicit "github.com/aperturerobotics/bifrost/link/solicit"
	"github.com/aperturerobotics/bifrost/peer"
	"github.com/aperturerobotics/bifrost/protocol"
	"github.com/aperturerobotics/bifrost/pubsub"
	"github.com/aperturerobotics/bifrost/router"
	bifrost_rpc "github.com/aperturerobotics/bifrost/rpc"
	"github.com/aperturerobotics/bifrost/signaling"
	"github.com/aperturerobotics/bifrost/tptaddr"
	"github.com/aperturerobotics/bifrost/transport"
	"github.com/aperturerobotics/bifrost/transport/common/dialer"
	"github.com/aperturerobotics/controllerbus/directive"
	"github.com/aperturerobotics/util/backoff"

	"verifh/enum"
	"verifh/evid"
)

// param is one resolution-relevant parameter of a directive instance, written
// down by the harness when it calls the constructor (not read back through
// the directive): name and canonical value.
type param struct{ name, val string }

type inst struct {
	typ    string
	params []param
	// build constructs a fresh directive object with these parameters.
	build func() directive.Directive
	// judged is false for directive types outside the property's anchor list.
	judged bool
	// label distinguishes construction variants that are not parameters
	// (nil vs empty options / context); it is never compared.
	label string
}

func (x *inst) key() string {
	var s []string
	for _, p := range x.params {
		s = append(s, p.name+"="+strconv.Quote(p.val))
	}
	return x.typ + "<" + strings.Join(s, ",") + ">" + x.label
}

// firstDiff names the first parameter in which two instances of one type differ.
func firstDiff(a, b *inst) string {
	for i := range a.params {
		if a.params[i].val != b.params[i].val {
			return a.params[i].name
		}
	}
	return ""
}

// fakeSession is a signaling.SignalPeerSession handle.
type fakeSession struct {
	name          string
	local, remote peer.ID
}

func (f *fakeSession) GetLocalPeerID() peer.ID                    { return f.local }
func (f *fakeSession) GetRemotePeerID() peer.ID                   { return f.remote }
func (f *fakeSession) Send(ctx context.Context, msg []byte) error { return nil }
func (f *fakeSession) Recv(ctx context.Context) ([]byte, error)   { return nil, nil }

func TestC37(t *testing.T) {
	run := evid.Start("C37", "exploration")
	acc := enum.NewAcc(run, "per directive type the full product of its constructor parameters over 2-5 values each (incl. empty / nil / zero); every ordered pair of instances, also across types, built as two separate objects; non-trivial = the two instances differ in type or in at least one parameter; distinct by (instance key, instance key)")

	ks := enum.Keys(2)
	peers := []peer.ID{"", ks[0].ID, ks[1].ID}
	pname := func(p peer.ID) string {
		switch p {
		case "":
			return ""
		case ks[0].ID:
			return "A"
		}
		return "B"
	}
	protos := []protocol.ID{"p", "q", ""}
	strs := func(v ...string) []string { return v }

	var all []*inst
	add := func(judged bool, typ string, params []param, build func() directive.Directive) {
		all = append(all, &inst{typ: typ, params: params, build: build, judged: judged})
	}

	for _, s := range peers {
		for _, d := range peers {
			add(true, "EstablishLinkWithPeer", []param{{"src", pname(s)}, {"dst", pname(d)}}, func() directive.Directive { return link.NewEstablishLinkWithPeer(s, d) })
		}
	}
	for _, p := range protos {
		for _, l := range peers {
			for _, r := range peers {
				add(true, "HandleMountedStream", []param{{"protocol", string(p)}, {"local", pname(l)}, {"remote", pname(r)}}, func() directive.Directive { return link.NewHandleMountedStream(p, l, r) })
			}
		}
	}
	// dialer options: identity is the address (nested back-off settings are
	// deliberately not treated as identity; nil options have the empty address).
	type dopt struct {
		addr string
		mk   func() *dialer.DialerOpts
	}
	dopts := []dopt{
		{"", func() *dialer.DialerOpts { return nil }},
		{"", func() *dialer.DialerOpts { return &dialer.DialerOpts{} }},
		{"x", func() *dialer.DialerOpts { return &dialer.DialerOpts{Address: "x"} }},
		{"y", func() *dialer.DialerOpts { return &dialer.DialerOpts{Address: "y"} }},
		{"x", func() *dialer.DialerOpts {
			return &dialer.DialerOpts{Address: "x", Backoff: &backoff.Backoff{BackoffKind: backoff.BackoffKind_BackoffKind_CONSTANT}}
		}},
		// well-formed "{transport-type}|{address}" strings: the transport restriction is part of the request
		{"udp|h:1", func() *dialer.DialerOpts { return &dialer.DialerOpts{Address: "udp|h:1"} }},
		{"ws|h:1", func() *dialer.DialerOpts { return &dialer.DialerOpts{Address: "ws|h:1"} }},
		{"udp|h:2", func() *dialer.DialerOpts { return &dialer.DialerOpts{Address: "udp|h:2"} }},
		{"udp| h:1", func() *dialer.DialerOpts { return &dialer.DialerOpts{Address: "udp| h:1"} }},
	}
	for oi, o := range dopts {
		for _, s := range peers {
			for _, d := range peers {
				add(true, "DialTptAddr", []param{{"address", o.addr}, {"src", pname(s)}, {"dst", pname(d)}}, func() directive.Directive { return tptaddr.NewDialTptAddr(o.mk(), s, d) })
				all[len(all)-1].label = fmt.Sprintf("#opts%d", oi)
			}
		}
	}
	for _, d := range peers {
		add(true, "LookupTptAddr", []param{{"dst", pname(d)}}, func() directive.Directive { return tptaddr.NewLookupTptAddr(d) })
	}
	for _, p := range peers {
		for _, tid := range []uint64{0, 1, 2} {
			add(true, "LookupTransport", []param{{"peer", pname(p)}, {"transport", fmt.Sprint(tid)}}, func() directive.Directive { return transport.NewLookupTransport(p, tid) })
		}
	}
	for _, svc := range strs("", "a", "b") {
		for _, srv := range strs("", "s", "t") {
			add(true, "LookupRpcService", []param{{"service", svc}, {"server", srv}}, func() directive.Directive { return bifrost_rpc.NewLookupRpcService(svc, srv) })
			add(true, "LookupRpcClient", []param{{"service", svc}, {"client", srv}}, func() directive.Directive { return bifrost_rpc.NewLookupRpcClient(svc, srv) })
		}
	}
	for _, m := range strs("", "GET", "POST") {
		for _, u := range strs("", "/a", "/b", "http://h/a", "/a?x=1") {
			for _, c := range strs("", "c", "d") {
				add(true, "LookupHTTPHandler", []param{{"method", m}, {"url", u}, {"client", c}}, func() directive.Directive {
					pu, err := url.Parse(u)
					if err != nil {
						evid.Fatal("url fixture %q: %v", u, err)
					}
					return bifrost_http.NewLookupHTTPHandler(m, pu, c)
				})
			}
		}
	}
	for _, sid := range strs("", "s", "t") {
		for _, l := range peers {
			for _, r := range peers {
				add(true, "SignalPeer", []param{{"signaling", sid}, {"local", pname(l)}, {"remote", pname(r)}}, func() directive.Directive { return signaling.NewSignalPeer(sid, l, r) })
			}
		}
	}
	// incoming signaling sessions: identity is the signaling id and the session
	// HANDLE (the object handlers call Send / Recv on): two distinct sessions
	// between the same two peers are different requests
	sessions := []*fakeSession{{"s1", ks[0].ID, ks[1].ID}, {"s2", ks[0].ID, ks[1].ID}, {"s3", ks[1].ID, ks[0].ID}}
	for _, sid := range strs("", "s", "t") {
		for _, se := range sessions {
			add(true, "HandleSignalPeer", []param{{"signaling", sid}, {"session", se.name}}, func() directive.Directive { return signaling.NewHandleSignalPeer(sid, se) })
		}
	}
	for _, p := range peers {
		add(true, "GetPeer", []param{{"peer", pname(p)}}, func() directive.Directive { return peer.NewGetPeer(p) })
	}
	// solicit: context identity is by content (nil and empty are the same bytes)
	type sctx struct {
		val string
		mk  func() []byte
	}
	sctxs := []sctx{
		{"", func() []byte { return nil }},
		{"", func() []byte { return []byte{} }},
		{"c", func() []byte { return []byte("c") }},
		{"d", func() []byte { return []byte("d") }},
	}
	for _, p := range protos {
		for ci, c := range sctxs {
			for _, pe := range peers {
				for _, tid := range []uint64{0, 1, 7} {
					add(true, "SolicitProtocol", []param{{"protocol", string(p)}, {"context", c.val}, {"peer", pname(pe)}, {"transport", fmt.Sprint(tid)}}, func() directive.Directive { return link_solicit.NewSolicitProtocol(p, c.mk(), pe, tid) })
					all[len(all)-1].label = fmt.Sprintf("#ctx%d", ci)
				}
			}
		}
	}
	nJudged := len(all)
	// Directive types with an IsEquivalent that the property's anchor list does
	// not name: enumerated the same way, reported in coverage, never judged.
	for _, p := range []protocol.ID{"p", "q"} {
		for _, l := range peers[1:] {
			for _, r := range peers[1:] {
				add(false, "DiscoverRoutesWithPeerIDs", []param{{"protocol", string(p)}, {"local", pname(l)}, {"remote", pname(r)}}, func() directive.Directive { return router.NewDiscoverRoutesWithPeerIDs(p, l, r) })
			}
		}
	}
	for _, ch := range strs("c1", "c2") {
		for ki := range ks {
			add(false, "BuildChannelSubscription", []param{{"channel", ch}, {"key", fmt.Sprint(ki)}}, func() directive.Directive { return pubsub.NewBuildChannelSubscription(ch, ks[ki].Priv) })
		}
	}

	types := map[string]int{}
	for _, x := range all {
		types[x.typ]++
	}
	unanchored := map[string]int{}
	info := map[string]int{}
	for _, a := range all {
		da := a.build()
		ea, ok := da.(directive.DirectiveWithEquiv)
		if !ok {
			evid.Fatal("%s does not implement IsEquivalent", a.typ)
		}
		for _, b := range all {
			db := b.build()
			var eq, rev bool
			key := a.key() + " ~ " + b.key()
			if p := enum.Try(func() {
				eq = ea.IsEquivalent(db)
				rev = db.(directive.DirectiveWithEquiv).IsEquivalent(da)
			}); p != nil {
				acc.Case(a.typ, key, true, "panic")
				if a.judged && b.judged {
					run.Violation("panic/"+a.typ, fmt.Sprintf("IsEquivalent panicked on %s: %v", key, p), key)
				}
				continue
			}
			sameType := a.typ == b.typ
			diff := ""
			if sameType {
				diff = firstDiff(a, b)
			}
			same := sameType && diff == ""
			out := "distinct"
			if eq {
				out = "equivalent"
			}
			group := a.typ
			if !sameType {
				group = "cross-type"
			}
			acc.Case(group, key, !same, out)
			if eq && !same {
				var k, what string
				if !sameType {
					k = "merges-across-types/" + a.typ + "~" + b.typ
					what = fmt.Sprintf("%s.IsEquivalent(%s) = true: directives of different types are de-duplicated into each other", a.key(), b.key())
				} else {
					k = "merges-different/" + a.typ + "/" + diff
					what = fmt.Sprintf("%s.IsEquivalent(%s) = true although they differ in parameter %q: the second request would be folded into the first", a.key(), b.key(), diff)
				}
				if a.judged && b.judged {
					run.Violation(k, what, map[string]any{"a": a.key(), "b": b.key()})
				} else {
					unanchored[k]++
				}
			}
			// recorded, not judged: the statement only bounds when directives
			// may be merged, it does not require merging, symmetry or reflexivity.
			if same && !eq {
				info["equal-parameters-not-merged/"+a.typ]++
			}
			if eq != rev {
				info["asymmetric/"+a.typ+"~"+b.typ]++
			}
		}
	}
	acc.Sample(map[string]any{"a": all[0].key(), "b": all[1].key(), "expect": "not equivalent (dst differs)"})
	acc.Sample(map[string]any{"a": "SolicitProtocol<protocol=\"p\",context=\"c\",peer=\"A\",transport=\"0\">", "b": "SolicitProtocol<protocol=\"p\",context=\"c\",peer=\"A\",transport=\"7\">", "expect": "not equivalent (transport constraint differs)"})
	acc.Sample(map[string]any{"a": "LookupRpcService<service=\"a\",server=\"s\">", "b": "LookupRpcClient<service=\"a\",client=\"s\">", "expect": "not equivalent (different directive types)"})
	acc.Finish()
	run.Cov["instances_per_type"] = types
	run.Cov["instances_judged"] = nJudged
	run.Cov["unjudged_unanchored_types"] = unanchored
	run.Cov["unjudged_observations"] = info
	run.Cov["bound"] = "3 peer IDs (empty, A, B); 3 protocol IDs; 3-5 values per other parameter; all ordered pairs"
	run.Assumptions = append(run.Assumptions,
		"the parameters that affect resolution are exactly the constructor arguments / getters of the directive interface; byte slices compare by content (nil = empty), URLs by their String() form, dialer options by address (nested back-off settings and nil-vs-empty options are not treated as identity)",
		"only the merge direction is judged (IsEquivalent => same type and all parameters equal); not-merging equal requests and asymmetry are recorded in coverage.unjudged_observations",
		"directive types whose IsEquivalent is not in the property's anchor list (router DiscoverRoutesWithPeerIDs, pubsub BuildChannelSubscription) are enumerated but only recorded (coverage.unjudged_unanchored_types)",
	)
	run.Finish(t)
}
