package c21

import (
	"strconv"
	"os"
	"context"
	"fmt"
	"strings"
	"testing"
	"time"

	signaling "github.com/aperturerobotics/bifrost/signaling/rpc"

	"verifh/evid"
	"verifh/mc"
	"verifh/sigh"
	"verifh/vsync"
)

func scanf(s, format string, a ...any) bool {
	n, err := fmt.Sscanf(s, format, a...)
	return err == nil && n == len(a)
}

type scen struct {
	name  string
	fault string // "", "cancel-send", "break-b", "break-a", "reattach-b"
	nmsg  int
}

func body(sc scen) func() {
	return func() {
		e := sigh.NewE2E("A", "B")
		var wg vsync.WaitGroup
		sendCtx, cancelSend := context.WithCancel(e.Ctx)
		wg.Add(2)
		vsync.GoNamed("sendA", func() {
			defer wg.Done()
			for i := 0; i < sc.nmsg; i++ {
				ctx := sendCtx
				if sc.fault == "cancel-first-send" && i > 0 {
					ctx = e.Ctx // only the first send is cancelled by the fault thread
				}
				e.Send(ctx, "A", "B", "m"+string(rune('1'+i)))
			}
		})
		vsync.GoNamed("recvB", func() {
			defer wg.Done()
			if sc.fault == "reattach-b" {
				e.Ref("B", "A")
				vsync.Yield("reattach")
				e.Reattach("B", "A")
			}
			for i := 0; i < sc.nmsg; i++ {
				e.Recv(e.Ctx, "B", "A")
			}
		})
		if sc.fault != "" && sc.fault != "reattach-b" {
			wg.Add(1)
			vsync.GoNamed("fault", func() {
				defer wg.Done()
				vsync.Yield("fault")
				switch sc.fault {
				case "cancel-send", "cancel-first-send":
					vsync.Logf("fault: cancel send")
					cancelSend()
				case "break-b":
					e.BreakSession("B")
				case "break-a":
					e.BreakSession("A")
				}
			})
		}
		// stable suffix: let everything run (virtual time passes over back-off
		// timers); then stop whatever is still pending.
		vsync.Quiesce()
		time.Sleep(30 * time.Second)
		vsync.Quiesce()
		cancelSend()
		e.Shutdown()
		wg.Wait()
	}
}

func TestC21(t *testing.T) {
	run := evid.Start("C21", "model_checking")
	agg := mc.NewAgg(run)
	bound := 1
	if b := os.Getenv("VERIF_BOUND"); b != "" {
		bound, _ = strconv.Atoi(b)
	}
	scens := []scen{{"one-message", "", 1}, {"cancel-send", "cancel-send", 1}, {"break-b", "break-b", 1}, {"reattach-b", "reattach-b", 1},
		{"cancel-first-then-send-second", "cancel-first-send", 2}}
	if only := os.Getenv("VERIF_ONLY"); only != "" {
		scens = nil // VERIF_ONLY=s2: skip the end-to-end part (development aid)
	}
	if !run.Quick() {
		bound = 2
		scens = append(scens, scen{"two-messages", "", 2}, scen{"break-a", "break-a", 1}, scen{"two-messages-break-b", "break-b", 2})
	}
	mc.RunScenarios(t, agg, len(scens), func(i int) *vsync.Config {
		sc := scens[i]
		return &vsync.Config{Name: "relay-e2e/" + sc.name, Bound: bound, Delay: true, Deadline: run.Deadline(), MaxStep: 20000, Horizon: 2 * time.Minute,
			Body: body(sc),
			Check: func(x *vsync.Exec) string {
				if x.HorizonHit {
					return ""
				}
				return sigh.CheckAckImpliesDelivered(x.Log)
			}}
	}, func(v *vsync.Violation) string { return strings.Fields(v.What)[0] })
	// S2: the real client against the reference relay, which may hold an
	// acknowledgement back until the client's next request; the first send is
	// cancelled by its caller at any point, then a second message is sent
	s2 := []struct {
		name      string
		defers    int
		quiescent bool // the caller cancels once everything else has come to rest (instead of at an arbitrary early point)
		holdAfter int  // >= 0: the partner takes only that many messages; later ones are never received nor acked
		onAck     bool // the caller cancels at an arbitrary point AFTER the relay pushed the first message's ack
	}{{"late-ack-after-cancelled-send", 1, false, -1, false}, {"late-ack-after-send-cancelled-at-rest", 1, true, -1, false},
		// the first send is cancelled around the time its ack arrives; the partner never takes the second message
		{"cancelled-send-then-send-to-partner-that-stopped-receiving", 0, false, 1, false},
		{"send-cancelled-as-its-ack-arrives-then-send-to-partner-that-stopped-receiving", 0, false, 1, true}}
	mc.RunScenarios(t, agg, len(s2), func(i int) *vsync.Config {
		sc := s2[i]
		return &vsync.Config{Name: "client-s2/" + sc.name, Bound: bound, Delay: true, Deadline: run.Deadline(), MaxStep: 20000, Horizon: 2 * time.Minute,
			Body: func() {
				s := sigh.NewS2(0, 0)
				s.Relay.DeferAcks = sc.defers
				s.Relay.HoldAfter = sc.holdAfter
				ctx1, cancel1 := context.WithCancel(s.Ctx)
				var wg vsync.WaitGroup
				wg.Add(2)
				vsync.GoNamed("sendA", func() {
					defer wg.Done()
					for i, ctx := range []context.Context{ctx1, s.Ctx} {
						id := "m" + string(rune('1'+i))
						if _, err := s.Ref.Send(ctx, []byte(id)); err == nil {
							vsync.LogOrdered("send-ok A>B %s", id)
						} else {
							vsync.LogOrdered("send-err A>B %s", id)
						}
					}
				})
				ackCh := make(chan struct{})
				acked := false
				if sc.onAck {
					s.Relay.OnAck = func(n uint64) {
						if !acked {
							acked = true
							close(vsync.C(ackCh))
						}
					}
				}
				vsync.GoNamed("canceller", func() {
					defer wg.Done()
					if sc.onAck {
						<-vsync.R(ackCh)
					}
					if sc.quiescent {
						vsync.Quiesce()
					} else {
						vsync.Yield("cancel first send")
					}
					cancel1()
				})
				vsync.Quiesce()
				time.Sleep(30 * time.Second)
				vsync.Quiesce()
				cancel1()
				if sc.onAck && !acked {
					acked = true
					close(vsync.C(ackCh)) // no ack was ever pushed: release the canceller
				}
				s.Shutdown()
				wg.Wait()
			},
			Check: func(x *vsync.Exec) string {
				if x.HorizonHit {
					return ""
				}
				recvd := map[string]bool{}
				for _, l := range x.Log {
					if strings.HasPrefix(l, "relay: partner received ") {
						recvd[strings.TrimPrefix(l, "relay: partner received ")] = true
					}
					if strings.HasPrefix(l, "send-ok A>B ") && !recvd[strings.TrimPrefix(l, "send-ok A>B ")] {
						return "V21:send-acknowledged-before-delivery A>B " + strings.TrimPrefix(l, "send-ok A>B ")
					}
				}
				return ""
			}}
	}, func(v *vsync.Violation) string { return strings.Fields(v.What)[0] })

	// S2, receiving side: the real client receives from the partner (reference
	// relay, scripted). The relay delivers "old" (message seqno 1) in epoch 2;
	// the session is re-opened WITHOUT a Closed (the partner's stream was
	// replaced by a new stream of the same peer) and the partner's new
	// incarnation sends "new", again message seqno 1, in epoch 4. The
	// application calls Recv twice at arbitrary points. Whenever the relay gets
	// an ack (epoch e, seqno n) that matches a message it forwarded in epoch e,
	// the partner's Send of that message reports success: the application must
	// have been handed exactly that message before.
	// second variant (a relay that drops messages): no re-open; the partner
	// cancelled "old" and sent "new" (message seqno 2) in the SAME epoch, and the
	// relay dropped the clear, so "new" simply replaces "old" at the receiver.
	recvNames := []string{"receiver-reopened-without-close", "receiver-next-message-replaces-unacked-one-without-clear"}
	mc.RunScenarios(t, agg, len(recvNames), func(vi int) *vsync.Config {
		newEpoch, newSeq := uint64(4), uint64(1)
		if vi == 1 {
			newEpoch, newSeq = 2, 2
		}
		return &vsync.Config{Name: "client-s2/" + recvNames[vi], Bound: bound + 1, Delay: true, Deadline: run.Deadline(), MaxStep: 20000, Horizon: 2 * time.Minute,
			Body: func() {
				s := sigh.NewS2(0, 0)
				old := s.PartnerMsg("old", 1, "B", "B", false, false)
				nw := s.PartnerMsg("new", newSeq, "B", "B", false, false)
				var wg vsync.WaitGroup
				wg.Add(2)
				partner := func() {
					defer wg.Done()
					vsync.Yield("re-open")
					d := s.Relay.Cur()
					if newEpoch != 2 {
						vsync.LogOrdered("relay: opened %d", newEpoch)
						_ = d.ToCli.Push(sigh.Opened(newEpoch))
						vsync.Yield("new message")
					}
					vsync.LogOrdered("relay: forwarded new e=%d n=%d", newEpoch, newSeq)
					_ = d.ToCli.Push(sigh.RecvMsg(nw))
				}
				s.Relay.Script = func(r *sigh.RefRelay, req *signaling.SessionRequest) []*signaling.SessionResponse {
					switch b := req.GetBody().(type) {
					case *signaling.SessionRequest_Init:
						// the relay's responses leave in order: the partner's later
						// actions start only once both are on the wire
						vsync.LogOrdered("relay: forwarded old e=2 n=1")
						_ = r.Cur().ToCli.Push(sigh.Opened(2))
						_ = r.Cur().ToCli.Push(sigh.RecvMsg(old))
						vsync.GoNamed("partner", partner)
					case *signaling.SessionRequest_AckMsg:
						vsync.LogOrdered("relay: ack e=%d n=%d", req.GetSessionSeqno(), b.AckMsg)
					}
					return nil
				}
				vsync.GoNamed("appA", func() {
					defer wg.Done()
					for i := 0; i < 2; i++ {
						m, err := s.Ref.Recv(s.Ctx)
						if err != nil {
							return
						}
						vsync.LogOrdered("app-got %s", string(m.GetSignedMsg().GetData()))
					}
				})
				vsync.Quiesce()
				time.Sleep(30 * time.Second)
				vsync.Quiesce()
				s.Shutdown()
				wg.Wait()
			},
			Check: func(x *vsync.Exec) string {
				if x.HorizonHit {
					return ""
				}
				fwd := map[string]string{} // "e n" -> message id forwarded in epoch e with seqno n
				got := map[string]bool{}
				for _, l := range x.Log {
					var e, n uint64
					var id string
					switch {
					case strings.HasPrefix(l, "app-got "):
						got[strings.TrimPrefix(l, "app-got ")] = true
					case scanf(l, "relay: forwarded %s e=%d n=%d", &id, &e, &n):
						fwd[fmt.Sprint(e, " ", n)] = id
					case scanf(l, "relay: ack e=%d n=%d", &e, &n):
						if id, ok := fwd[fmt.Sprint(e, " ", n)]; ok && !got[id] {
							return fmt.Sprintf("V21:send-acknowledged-before-delivery receiver acked epoch %d seqno %d (message %q) but its application was not handed %q", e, n, id, id)
						}
					}
				}
				return ""
			},
			Observe: func(x *vsync.Exec) []string {
				var tags []string
				for _, l := range x.Log {
					if strings.HasPrefix(l, "app-got ") || strings.HasPrefix(l, "relay: ack ") {
						tags = append(tags, "receiver: "+l)
					}
				}
				return tags
			}}
	}, func(v *vsync.Violation) string { return strings.Fields(v.What)[0] + "/receiver" })

	// S1: acks and clears for messages that were never received, and for the right message
	s1 := []sigh.Scen{
		{"bogus-acks", [][]string{{"attach:a1:A:B", "wait", "send:a1:m1"}, {"attach:b1:B:A", "wait", "acke:b1:7:2", "cleare:b1:7:2"}}},
		{"ack-then-next", [][]string{{"attach:a1:A:B", "wait", "send:a1:m1", "wait", "send:a1:m2"}, {"attach:b1:B:A", "wait", "ack:b1:last"}}},
		{"acks-racing-with-sends", [][]string{{"!setup", "attach:a1:A:B", "attach:b1:B:A", "wait"}, {"send:a1:m1", "clear:a1:1", "send:a1:m2"}, {"ack:b1:last", "acke:b1:1:2", "ack:b1:last"}}},
		{"sender-clears", [][]string{{"attach:a1:A:B", "wait", "send:a1:m1", "clear:a1:1", "send:a1:m2"}, {"attach:b1:B:A"}}},
	}
	if !run.Quick() {
		s1 = append(s1, sigh.Scen{"stale-ack-after-second-message", [][]string{{"attach:a1:A:B", "wait", "send:a1:m1", "wait", "send:a1:m2"}, {"attach:b1:B:A", "wait", "ack:b1:last", "wait", "acke:b1:1:2", "ack:b1:last"}}})
	}
	pb := 1
	if !run.Quick() {
		pb = 2
	}
	sigh.ExploreS1(t, run, agg, "V21:", s1, pb)
	agg.Finish(true)
	agg.RequireTag("saw AckMsg")
	run.Cov["delay_bound"] = bound
	run.Assumptions = append(run.Assumptions, "real relay server and two real signaling clients over instrumented in-memory streams; constant 1 s back-off; virtual time")
	run.Finish(t)
}
