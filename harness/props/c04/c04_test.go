package c04

import (
	"runtime"
	"strings"
	"testing"
	"testing/synctest"

	"verifh/evid"
	"verifh/hist"
	"verifh/mc"
	"verifh/props/c06/tch"
)

// sysW adapts tch.Sys to hist.Sys and keeps only the C04 oracle. A history is
// not extended beyond its first violation.
type sysW struct {
	*tch.Sys
	bad *bool
}

func (w sysW) Check() []string {
	var out []string
	for _, v := range w.Sys.Check() {
		if k, ok := strings.CutPrefix(v, "c04:"); ok {
			out = append(out, k)
			*w.bad = true
		}
	}
	return out
}

func (w sysW) Enabled() []string {
	if *w.bad {
		return nil
	}
	return w.Sys.Enabled()
}

func mk(cfg *tch.Config) func() hist.Sys {
	return func() hist.Sys {
		s := tch.New(cfg)
		synctest.Wait() // controller executes, transport constructed
		s.Ready()
		if b := s.Broken(); b != "" {
			evid.Fatal("harness set-up failed: %s", b)
		}
		return sysW{s, new(bool)}
	}
}

func TestC04(t *testing.T) {
	run := evid.Start("C04", "model_checking")
	// one P: goroutines of a settling step run in one deterministic order
	runtime.GOMAXPROCS(1)
	agg := mc.NewAgg(run)
	var links []tch.LinkSpec
	for _, r := range []string{"A", "B", "self"} {
		for u := uint64(1); u <= 2; u++ {
			links = append(links, tch.LinkSpec{Name: "L" + string(rune('0'+u)) + r, UUID: u, Remote: r})
		}
	}
	var lookups []tch.LookupSpec
	for _, src := range []string{"", "self", "other"} {
		for _, dst := range []string{"A", "B", "self"} {
			lookups = append(lookups, tch.LookupSpec{Src: src, Dst: dst})
		}
	}
	type scen struct {
		name   string
		cfg    *tch.Config
		dq, dt int
	}
	scens := []scen{
		// all nine lookups standing; links come, go, carry streams; time passes
		{"standing-lookups", &tch.Config{Links: links, Lookups: lookups, StaticLookups: true, Streams: true, Tick: true}, 5, 8},
		// lookups added and removed by events (late observers see the initial value set)
		{"toggled-lookups", &tch.Config{Links: links, Lookups: lookups, Streams: true, Tick: true}, 4, 6},
		// lookups whose directives exist before the controller's transport is constructed
		{"early-lookups", &tch.Config{Links: links, Lookups: lookups, StaticLookups: true, EarlyLookups: true}, 4, 6},
		// the controller has no configured peer id: it adopts the identity of the peer on the bus
		{"standing-lookups/no-configured-peer-id", &tch.Config{Links: links, Lookups: lookups, StaticLookups: true, Streams: true, AnyPeer: true}, 4, 6},
	}
	unconfirmed := 0
	for _, sc := range scens {
		d := sc.dq
		if !run.Quick() {
			d = sc.dt
		}
		res := hist.BFS(t, &hist.Config{Name: "controller/" + sc.name, MaxDepth: d, Deadline: run.Deadline(), New: mk(sc.cfg)})
		// every violating history is replayed 4 more times before it is reported
		if n := tch.Confirm(t, mk(sc.cfg), res, 4); n > 0 {
			res.Exhaustive = false
			unconfirmed += n
		}
		agg.AddHist(res)
	}
	agg.Finish(false)
	run.Cov["violations_dropped_as_not_reproducible"] = unconfirmed
	run.Cov["lookup_values_judged"] = tch.ValuesJudged.Load()
	run.Cov["streams_dispatched"] = tch.StreamsDelivered.Load()
	run.Cov["self_dials_applied"] = tch.SelfDials.Load()
	if tch.ValuesJudged.Load() == 0 || tch.StreamsDelivered.Load() == 0 || tch.SelfDials.Load() == 0 {
		evid.Fatal("vacuous exploration: %d lookup values, %d streams, %d self-dials", tch.ValuesJudged.Load(), tch.StreamsDelivered.Load(), tch.SelfDials.Load())
	}
	run.Assumptions = append(run.Assumptions,
		"E3: event orders are explored, not interleavings inside one event's settling (callbacks are delivered one at a time, each followed by quiescence); the concurrent-callback part (E2) is not covered",
		"the fake transport reports the controller's own peer id; fake links report that peer as their local peer",
		"states are de-duplicated on the dump of model, link tables, GetPeerLinks, lookup values, Close flags and live directive instances")
	run.Finish(t)
}
