package c07

import (
	"context"
	"fmt"
	"io"
	"sync"
	"testing"
	"testing/synctest"
	"time"

	"github.com/aperturerobotics/bifrost/link"
	"github.com/aperturerobotics/bifrost/peer"
	"github.com/aperturerobotics/bifrost/protocol"
	"github.com/aperturerobotics/bifrost/stream"
	transport_controller "github.com/aperturerobotics/bifrost/transport/controller"
	"github.com/aperturerobotics/controllerbus/bus/inmem"
	"github.com/aperturerobotics/controllerbus/controller"
	"github.com/aperturerobotics/controllerbus/directive"
	cdc "github.com/aperturerobotics/controllerbus/directive/controller"
	"github.com/blang/semver/v4"
	"github.com/sirupsen/logrus"

	"verifh/enum"
	"verifh/evid"
)

// Two accepted streams on ONE controller / bus: the handler lookup of the
// second stream is issued while the lookup of the first may still be alive
// (during the first handler's call, or within the bus's dispose delay after it).
// Each stream must be handed to a handler that was looked up with exactly its
// own (protocol id, link local peer, link remote peer).

// pairRec answers every HandleMountedStream lookup with a handler bound to
// that lookup's parameters.
type pairRec struct {
	mu    sync.Mutex
	dirs  []seenDir
	calls []pairCall
	gate  chan struct{} // if non-nil the first handler call blocks on it
	first bool
	inFirst chan struct{}
}

type pairCall struct {
	lookedUp seenDir // parameters of the lookup whose handler got the stream
	got      seenDir // attributes of the stream handed over
}

type pairHandler struct {
	r *pairRec
	d seenDir
}

func (r *pairRec) GetControllerInfo() *controller.Info {
	return controller.NewInfo("verif/c07/pair-recorder", semver.MustParse("0.0.1"), "records HandleMountedStream")
}
func (r *pairRec) Execute(ctx context.Context) error { return nil }
func (r *pairRec) Close() error                      { return nil }
func (r *pairRec) HandleDirective(ctx context.Context, di directive.Instance) ([]directive.Resolver, error) {
	if d, ok := di.GetDirective().(link.HandleMountedStream); ok {
		sd := seenDir{d.HandleMountedStreamProtocolID(), d.HandleMountedStreamLocalPeerID(), d.HandleMountedStreamRemotePeerID()}
		r.mu.Lock()
		r.dirs = append(r.dirs, sd)
		r.mu.Unlock()
		return directive.R(directive.NewValueResolver([]link.MountedStreamHandler{&pairHandler{r, sd}}), nil)
	}
	return nil, nil
}

func (h *pairHandler) HandleMountedStream(ctx context.Context, ms link.MountedStream) error {
	r := h.r
	r.mu.Lock()
	r.calls = append(r.calls, pairCall{h.d, seenDir{ms.GetProtocolID(), ms.GetLink().GetLocalPeer(), ms.GetLink().GetRemotePeer()}})
	block := r.gate != nil && !r.first
	r.first = true
	r.mu.Unlock()
	if block {
		close(r.inFirst)
		<-r.gate
	}
	return nil
}

type pairKind struct {
	pid           string
	local, remote int // indexes into the key fixture
}

func runPairs(t *testing.T, run *evid.Run, acc *enum.Acc) {
	keys := enum.Keys(5)
	var kinds []pairKind
	for _, pid := range []string{"proto/p", "proto/q"} {
		for _, l := range []int{0, 1} {
			for _, r := range []int{2, 3} {
				kinds = append(kinds, pairKind{pid, l, r})
			}
		}
	}
	gaps := []time.Duration{0, 500 * time.Millisecond, 1500 * time.Millisecond, 5 * time.Second}
	mk := func(k pairKind, uuid uint64) (*fakeLink, *fakeStream, seenDir) {
		hdr := refEncode(k.pid)
		s := append(append([]byte{}, hdr...), 'x')
		return &fakeLink{uuid: uuid, local: keys[k.local].ID, remote: keys[k.remote].ID},
			&fakeStream{r: &chunkReader{data: s}},
			seenDir{protocol.ID(k.pid), keys[k.local].ID, keys[k.remote].ID}
	}
	name := func(k pairKind) string { return fmt.Sprintf("(%s local=k%d remote=k%d)", k.pid, k.local, k.remote) }
	for _, a := range kinds {
		for _, b := range kinds {
			for _, gap := range gaps {
				for _, nested := range []bool{false, true} {
					if nested && gap > 0 {
						continue
					}
					mode := fmt.Sprintf("second %v after the first handler returned", gap)
					if nested {
						mode = "second while the first handler is running"
					}
					caseKey := fmt.Sprintf("first=%s second=%s %s", name(a), name(b), mode)
					var rec *pairRec
					var want [2]seenDir
					p := enum.Try(func() {
						synctest.Test(t, func(t *testing.T) {
							ctx, cancel := context.WithCancel(context.Background())
							lg := logrus.New()
							lg.SetOutput(io.Discard)
							le := logrus.NewEntry(lg)
							bs := inmem.NewBus(cdc.NewController(ctx, le))
							rec = &pairRec{}
							if nested {
								rec.gate, rec.inFirst = make(chan struct{}), make(chan struct{})
							}
							rel, err := bs.AddController(ctx, rec, nil)
							if err != nil {
								evid.Fatal("pairs: AddController: %v", err)
							}
							ctrl := transport_controller.NewController(le, bs, controller.NewInfo("verif/c07/tpt", semver.MustParse("0.0.1"), "under test"), keys[4].ID, false, nil)
							l1, s1, w1 := mk(a, 11)
							l2, s2, w2 := mk(b, 12)
							want = [2]seenDir{w1, w2}
							if nested {
								done := make(chan struct{})
								go func() {
									defer close(done)
									ctrl.HandleIncomingStream(ctx, nil, l1, s1, stream.OpenOpts{})
								}()
								<-rec.inFirst
								ctrl.HandleIncomingStream(ctx, nil, l2, s2, stream.OpenOpts{})
								close(rec.gate)
								<-done
							} else {
								ctrl.HandleIncomingStream(ctx, nil, l1, s1, stream.OpenOpts{})
								if gap > 0 {
									time.Sleep(gap)
								}
								ctrl.HandleIncomingStream(ctx, nil, l2, s2, stream.OpenOpts{})
							}
							rel()
							cancel()
							time.Sleep(10 * time.Second)
							synctest.Wait()
						})
					})
					if p != nil {
						acc.Case("dispatch/two-streams", caseKey, true, "panic")
						run.Violation("panic/dispatch/two-streams", fmt.Sprintf("panic (%v): %s", p, caseKey), caseKey)
						continue
					}
					rec.mu.Lock()
					calls := append([]pairCall{}, rec.calls...)
					rec.mu.Unlock()
					out := "both dispatched with their own lookups"
					switch {
					case len(calls) != 2:
						out = "VIOLATION not both dispatched"
						run.Violation("valid-header-not-dispatched/two-streams", fmt.Sprintf("%d handler calls for two streams with complete valid headers: %s", len(calls), caseKey), caseKey)
					default:
						for i, c := range calls {
							// calls are recorded in dispatch order (the first handler is entered first in both modes)
							if c.got != want[i] {
								out = "VIOLATION wrong stream attributes"
								run.Violation("handler-gets-wrong-stream-attributes/two-streams", fmt.Sprintf("stream %d reported %v, expected %v: %s", i+1, c.got, want[i], caseKey), caseKey)
							} else if c.lookedUp != c.got {
								out = "VIOLATION handler of another lookup"
								k := "lookup-carries-wrong-parameters/two-streams"
								run.Violation(k, fmt.Sprintf("stream %d (pid=%s local=%s remote=%s) was handed to the handler looked up with (pid=%s local=%s remote=%s): %s", i+1, c.got.pid, short(c.got.local), short(c.got.remote), c.lookedUp.pid, short(c.lookedUp.local), short(c.lookedUp.remote), caseKey), caseKey)
							}
						}
					}
					acc.Case("dispatch/two-streams", caseKey, a != b, out)
				}
			}
		}
	}
}

var _ = peer.ID("")
