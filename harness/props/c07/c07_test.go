package c07

import (
	"bytes"
	"context"
	"errors"
	"fmt"
	"io"
	"strings"
	"sync"
	"sync/atomic"
	"testing"
	"time"
	"unicode/utf8"

	"github.com/aperturerobotics/bifrost/link"
	"github.com/aperturerobotics/bifrost/peer"
	"github.com/aperturerobotics/bifrost/protocol"
	"github.com/aperturerobotics/bifrost/stream"
	transport_controller "github.com/aperturerobotics/bifrost/transport/controller"
	"github.com/aperturerobotics/controllerbus/bus/inmem"
	"github.com/aperturerobotics/controllerbus/controller"
	"github.com/aperturerobotics/controllerbus/directive"
	cdc "github.com/aperturerobotics/controllerbus/directive/controller"
	"github.com/blang/semver/v4"
	"github.com/sirupsen/logrus"

	"verifh/enum"
	"verifh/evid"
)

// ---------------------------------------------------------------------------
// reference encoder / decoder (independent of the code under test)
// ---------------------------------------------------------------------------

func putUvarint(b []byte, v uint64) []byte {
	for v >= 0x80 {
		b = append(b, byte(v)|0x80)
		v >>= 7
	}
	return append(b, byte(v))
}

// refEncode is the wire form an opener must write for protocol id `id`:
// varint(len(body)) ‖ body with body = 0x0a ‖ varint(len(id)) ‖ id (empty for "").
func refEncode(id string) []byte {
	var body []byte
	if id != "" {
		body = append(body, 0x0a)
		body = putUvarint(body, uint64(len(id)))
		body = append(body, id...)
	}
	return append(putUvarint(nil, uint64(len(body))), body...)
}

// uvarint decodes a base-128 varint: n>0 bytes used; n==0 input ended inside
// the varint; n<0 longer than 10 bytes / overflows 64 bits.
func uvarint(b []byte) (v uint64, n int, canonical bool) {
	var s uint
	for i, c := range b {
		if i == 10 {
			return 0, -1, false
		}
		if c < 0x80 {
			if i == 9 && c > 1 {
				return 0, -1, false
			}
			return v | uint64(c)<<s, i + 1, !(c == 0 && i > 0)
		}
		v |= uint64(c&0x7f) << s
		s += 7
	}
	return 0, 0, false
}

const (
	kReject = iota
	kAccept
	kUndecided
)

type refRes struct {
	kind   int
	id     string
	hdrLen int
	why    string
}

// refBody decodes a StreamEstablish body: field 1 (bytes) = protocol id,
// unknown fields of wire type 0/1/2/5 are skipped. Three-valued: exotic
// input (group wire types, field numbers beyond 2^29-1, over-long varints)
// is left undecided.
func refBody(b []byte) (id string, kind int, why string) {
	for len(b) > 0 {
		tag, n, canon := uvarint(b)
		if n == 0 {
			return "", kReject, "undecodable/tag-truncated"
		}
		if n < 0 || !canon {
			return "", kUndecided, ""
		}
		b = b[n:]
		num, wire := tag>>3, int(tag&7)
		if num == 0 {
			return "", kReject, "undecodable/field-number-0"
		}
		if num > 1<<29-1 {
			return "", kUndecided, ""
		}
		if num == 1 && wire != 2 {
			return "", kReject, "undecodable/wrong-wire-type-for-protocol-id"
		}
		switch wire {
		case 0:
			_, n, _ := uvarint(b)
			if n == 0 {
				return "", kReject, "undecodable/varint-truncated"
			}
			if n < 0 {
				return "", kUndecided, ""
			}
			b = b[n:]
		case 1:
			if len(b) < 8 {
				return "", kReject, "undecodable/fixed64-truncated"
			}
			b = b[8:]
		case 5:
			if len(b) < 4 {
				return "", kReject, "undecodable/fixed32-truncated"
			}
			b = b[4:]
		case 2:
			l, n, canon := uvarint(b)
			if n == 0 {
				return "", kReject, "undecodable/length-truncated"
			}
			if n < 0 || !canon {
				return "", kUndecided, ""
			}
			b = b[n:]
			if l > uint64(len(b)) {
				return "", kReject, "undecodable/field-longer-than-body"
			}
			if num == 1 {
				id = string(b[:l])
			}
			b = b[l:]
		default:
			return "", kUndecided, ""
		}
	}
	return id, kAccept, ""
}

// refHeader judges a whole byte stream (header ‖ payload, ending in EOF).
func refHeader(s []byte, limit uint64) refRes {
	L, n, canon := uvarint(s)
	if n == 0 {
		return refRes{kind: kReject, why: "truncated/length-prefix"}
	}
	if n < 0 {
		return refRes{kind: kReject, why: "oversized/length-prefix-overflows"}
	}
	if L == 0 && canon {
		return refRes{kind: kReject, why: "empty"}
	}
	if L > limit {
		return refRes{kind: kReject, why: "oversized"}
	}
	if !canon {
		return refRes{kind: kUndecided}
	}
	if uint64(len(s)-n) < L {
		return refRes{kind: kReject, why: "truncated/body"}
	}
	id, kind, why := refBody(s[n : n+int(L)])
	switch kind {
	case kReject:
		return refRes{kind: kReject, why: why}
	case kUndecided:
		return refRes{kind: kUndecided}
	}
	return refRes{kind: kAccept, id: id, hdrLen: n + int(L)}
}

// rejKey: one key per chunking class; a single key for the EOF-with-data family.
func rejKey(pl plan) string {
	if pl.eofWD {
		return "rejects-complete-header/final-read-returns-data-with-EOF"
	}
	return "rejects-complete-header/" + pl.name
}

func idValid(id string) bool { return id != "" && utf8.ValidString(id) }

// ---------------------------------------------------------------------------
// harness reader: delivers the stream in prescribed chunks, counts bytes
// ---------------------------------------------------------------------------

// chunkReader hands out data so that no Read crosses a chunk boundary: the
// i-th chunk models the bytes that are available at that moment. Bytes of a
// chunk that do not fit the caller's buffer stay available for the next Read.
type chunkReader struct {
	data        []byte
	pos         int
	chunks      []int // sizes; the remainder after the last one is one chunk
	ci, rem     int
	eofWithData bool // the Read that returns the last byte also returns io.EOF
	reads       int
}

func (r *chunkReader) Read(p []byte) (int, error) {
	r.reads++
	if r.pos >= len(r.data) {
		return 0, io.EOF
	}
	if len(p) == 0 {
		return 0, nil
	}
	if r.rem == 0 {
		if r.ci < len(r.chunks) {
			r.rem = r.chunks[r.ci]
			r.ci++
		} else {
			r.rem = len(r.data) - r.pos
		}
	}
	n := min(len(p), r.rem, len(r.data)-r.pos)
	copy(p, r.data[r.pos:r.pos+n])
	r.pos += n
	r.rem -= n
	if r.eofWithData && r.pos == len(r.data) {
		return n, io.EOF
	}
	return n, nil
}

type plan struct {
	name   string // class of the chunking (stable, used in violation keys)
	desc   string
	chunks []int
	eofWD  bool
}

func ones(n int) []int {
	o := make([]int, n)
	for i := range o {
		o[i] = 1
	}
	return o
}

// plansFor lists the read chunkings for a stream of n bytes whose header ends
// at h (0 if unknown). dense: every single split point.
func plansFor(n, h int, dense bool) []plan {
	var ps []plan
	if n <= 14 {
		enum.Compositions(n, func(parts []int) {
			ps = append(ps, plan{name: "composition", desc: fmt.Sprint(parts), chunks: append([]int{}, parts...)})
		})
		return ps
	}
	ps = append(ps, plan{name: "all-in-one", desc: "one chunk"})
	ps = append(ps, plan{name: "one-byte-reads", desc: "1-byte chunks", chunks: ones(n)})
	if h > 0 && h < n {
		ps = append(ps, plan{name: "header|payload", desc: fmt.Sprintf("[%d rest]", h), chunks: []int{h}})
	}
	near := func(k int) bool {
		if dense || k <= 64 || k >= n-64 {
			return true
		}
		if h > 0 && k >= h-64 && k <= h+64 {
			return true
		}
		return k%97 == 0
	}
	for k := 1; k < n; k++ {
		if near(k) {
			ps = append(ps, plan{name: "single-split", desc: fmt.Sprintf("[%d rest]", k), chunks: []int{k}})
		}
	}
	// two split points among the first 8 positions and around the header end
	var pts []int
	for k := 1; k <= 8 && k < n; k++ {
		pts = append(pts, k)
	}
	for _, k := range []int{h - 2, h - 1, h, h + 1} {
		if h > 0 && k > 8 && k < n {
			pts = append(pts, k)
		}
	}
	for i := 0; i < len(pts); i++ {
		for j := i + 1; j < len(pts); j++ {
			ps = append(ps, plan{name: "double-split", desc: fmt.Sprintf("[%d %d rest]", pts[i], pts[j]-pts[i]), chunks: []int{pts[i], pts[j] - pts[i]}})
		}
	}
	return ps
}

// ---------------------------------------------------------------------------
// E1: marshal / readStreamEstablishHeader
// ---------------------------------------------------------------------------

type readCase struct {
	group, desc string
	stream      []byte
	pl          plan
	honestID    *string // non-nil: the stream is marshal(id) ‖ payload written by the real opener code
}

func idName(id string) string {
	if len(id) <= 12 {
		return fmt.Sprintf("%q", id)
	}
	return fmt.Sprintf("%q..(len %d)", id[:6], len(id))
}

func hexs(b []byte) string {
	if len(b) <= 24 {
		return fmt.Sprintf("%x", b)
	}
	return fmt.Sprintf("%x..(len %d)", b[:12], len(b))
}

func checkRead(run *evid.Run, acc *enum.Acc, limit uint64, c readCase) {
	r := &chunkReader{data: c.stream, chunks: c.pl.chunks, eofWithData: c.pl.eofWD}
	var msg *transport_controller.StreamEstablish
	var err error
	p := enum.Try(func() { msg, err = transport_controller.VerifC07ReadHeader(r) })
	caseKey := c.desc + " stream=" + hexs(c.stream) + fmt.Sprintf("/%d", len(c.stream)) + " chunks=" + c.pl.name + c.pl.desc
	replay := map[string]any{"group": c.group, "case": c.desc, "stream_hex_prefix": hexs(c.stream), "stream_len": len(c.stream), "chunking": c.pl.name + " " + c.pl.desc, "eof_with_last_data": c.pl.eofWD}
	if p != nil {
		acc.Case(c.group, caseKey, true, "panic")
		run.Violation("panic/read-header/"+c.group, fmt.Sprintf("readStreamEstablishHeader panicked (%v) on %s", p, caseKey), replay)
		return
	}
	ref := refHeader(c.stream, limit)
	if c.honestID != nil && len(refEncode(*c.honestID)) <= len(c.stream) && ref.kind == kAccept && ref.id != *c.honestID {
		evid.Fatal("reference decoder disagrees with reference encoder on %s", caseKey)
	}
	consumed := r.pos
	rest := c.stream[consumed:]
	out := ""
	switch ref.kind {
	case kReject:
		out = "reject:" + strings.SplitN(ref.why, "/", 2)[0]
		if err == nil {
			out = "VIOLATION accepted"
			run.Violation("accepts-malformed-header/"+ref.why, fmt.Sprintf("readStreamEstablishHeader returned a header (protocol id %s) for a stream the reference rejects (%s): %s", idName(msg.GetProtocolId()), ref.why, caseKey), replay)
		}
	case kAccept:
		valid := idValid(ref.id)
		switch {
		case err != nil && valid:
			out = "VIOLATION rejected"
			run.Violation(rejKey(c.pl), fmt.Sprintf("readStreamEstablishHeader failed (%v) although the stream carries the complete header of protocol id %s (header %d bytes, %d consumed): %s", err, idName(ref.id), ref.hdrLen, consumed, caseKey), replay)
		case err != nil:
			out = "reject-invalid-id"
		case msg.GetProtocolId() != ref.id:
			out = "VIOLATION wrong id"
			run.Violation("decodes-different-protocol-id", fmt.Sprintf("decoded protocol id %s, opener wrote %s: %s", idName(msg.GetProtocolId()), idName(ref.id), caseKey), replay)
		case valid && consumed > ref.hdrLen:
			out = "VIOLATION over-read"
			run.Violation("over-read/"+c.pl.name, fmt.Sprintf("header is %d bytes but %d bytes were consumed from the stream (application loses %x): %s", ref.hdrLen, consumed, c.stream[ref.hdrLen:consumed], caseKey), replay)
		case valid && consumed < ref.hdrLen:
			out = "VIOLATION under-read"
			run.Violation("under-read/"+c.pl.name, fmt.Sprintf("header is %d bytes but only %d bytes were consumed: %s", ref.hdrLen, consumed, caseKey), replay)
		case valid:
			out = "accept-exact"
			// the application then reads the rest: must be exactly the payload
			got, _ := io.ReadAll(r)
			if !bytes.Equal(got, rest) || !bytes.Equal(rest, c.stream[ref.hdrLen:]) {
				out = "VIOLATION payload"
				run.Violation("payload-altered", fmt.Sprintf("bytes left for the application differ from the payload: %s", caseKey), replay)
			}
		default:
			out = "decoded-invalid-id"
		}
	default:
		out = "undecided"
		if err != nil {
			out = "undecided-rejected"
		}
	}
	acc.Case(c.group, caseKey, !(c.honestID != nil && c.pl.name == "all-in-one"), out)
}

func honestIDs(quick bool) []string {
	rep := func(s string, n int) string { return strings.Repeat(s, n)[:n] }
	lens := []int{1, 2, 3, 125, 126, 127, 128, 16381, 16382, 16383, 16384}
	var ids []string
	for _, n := range lens {
		ids = append(ids, rep("/proto/id-abcdefghijklmnopqrstuvwxyz", n))
	}
	// multi-byte UTF-8 and bytes that look like framing
	ids = append(ids, "é", "日本", "😀", "/x/é日\U0001F600", "\x0a\x03abc", "\x7f", "a\x00b", strings.Repeat("é", 64), strings.Repeat("日", 5461))
	return ids
}

func longIDs() []string {
	var ids []string
	for _, n := range []int{99994, 99995, 99996, 99997} { // 99996 = largest id whose body is 100000 bytes
		ids = append(ids, strings.Repeat("Z", n))
	}
	return ids
}

func runE1(run *evid.Run, acc *enum.Acc) {
	limit := transport_controller.VerifC07MaxHeader()
	if limit != 100000 {
		run.Assumptions = append(run.Assumptions, fmt.Sprintf("header size limit read from the package: %d", limit))
	}
	payloads := [][]byte{nil, {0x80}, {0x0a, 0x03, 'x', 0xff, 0x00}}
	var cases []readCase

	// --- honest opener -------------------------------------------------
	addHonest := func(id string, dense bool) {
		idc := id
		hdr := transport_controller.VerifC07MarshalHeader(transport_controller.NewStreamEstablish(protocol.ID(id)))
		var wb bytes.Buffer
		n, werr := transport_controller.VerifC07WriteHeader(&wb, transport_controller.NewStreamEstablish(protocol.ID(id)))
		want := refEncode(id)
		acc.Case("marshal", idName(id)+fmt.Sprint(len(id)), true, fmt.Sprintf("header-bytes-minus-id=%d", len(want)-len(id)))
		if !bytes.Equal(hdr, want) || !bytes.Equal(wb.Bytes(), want) || n != len(want) || werr != nil {
			run.Violation("opener-writes-wrong-header", fmt.Sprintf("marshal/writeStreamEstablishHeader(%s) = %s (n=%d err=%v), expected varint length + protobuf = %s", idName(id), hexs(hdr), n, werr, hexs(want)), map[string]any{"id_len": len(id)})
		}
		for _, pay := range payloads {
			s := append(append([]byte{}, hdr...), pay...)
			for _, pl := range plansFor(len(s), len(hdr), dense) {
				cases = append(cases, readCase{group: "honest", desc: fmt.Sprintf("id=%s payload=%x", idName(id), pay), stream: s, pl: pl, honestID: &idc})
			}
		}
		// the header is the last thing on the stream and the transport reports
		// EOF together with the last bytes (io.Reader allows it; quic-go does it)
		for _, pl := range []plan{{name: "all-in-one", desc: "one chunk"}, {name: "one-byte-reads", desc: "1-byte chunks", chunks: ones(len(hdr))}, {name: "single-split", desc: "[4 rest]", chunks: []int{4}}} {
			pl.eofWD = true
			cases = append(cases, readCase{group: "honest-eof-with-data", desc: fmt.Sprintf("id=%s payload=", idName(id)), stream: hdr, pl: pl, honestID: &idc})
		}
	}
	for _, id := range honestIDs(run.Quick()) {
		addHonest(id, len(id) <= 200 || !run.Quick())
	}
	for _, id := range longIDs() {
		addHonest(id, !run.Quick())
	}
	// truncations of honest streams: every proper prefix of header(id) must be rejected
	for _, id := range []string{"a", "abc", "/x/é日", strings.Repeat("q", 126), strings.Repeat("q", 300)} {
		hdr := refEncode(id)
		for cut := 0; cut < len(hdr); cut++ {
			for _, pl := range []plan{{name: "all-in-one", desc: "one chunk"}, {name: "one-byte-reads", desc: "1-byte chunks", chunks: ones(cut)}} {
				cases = append(cases, readCase{group: "truncated-honest", desc: fmt.Sprintf("id=%s cut=%d", idName(id), cut), stream: hdr[:cut], pl: pl})
			}
		}
	}

	// --- malformed ------------------------------------------------------
	alpha := []byte{0x00, 0x01, 0x03, 0x0a, 0x7f, 0x80, 0xff}
	enum.Strings(alpha, 3, func(s []byte) {
		s = append([]byte{}, s...)
		for _, pl := range plansFor(len(s), 0, true) {
			cases = append(cases, readCase{group: "malformed-short", desc: "short", stream: s, pl: pl})
		}
	})
	fills := []byte{'a', 0x00}
	for a := 0; a < len(alpha); a++ {
		for b := 0; b < len(alpha); b++ {
			for c := 0; c < len(alpha); c++ {
				for d := 0; d < len(alpha); d++ {
					pre := []byte{alpha[a], alpha[b], alpha[c], alpha[d]}
					L, n, _ := uvarint(pre)
					need := 0
					if n > 0 && L <= 2*limit {
						need = n + int(L) - 4
					}
					var tails []int
					tails = append(tails, 0)
					if need > 0 {
						tails = append(tails, need-1, need, need+3)
					} else {
						tails = append(tails, 3)
					}
					for _, tl := range tails {
						if tl < 0 {
							continue
						}
						for _, f := range fills {
							s := append(append([]byte{}, pre...), bytes.Repeat([]byte{f}, tl)...)
							var pls []plan
							if len(s) <= 10 {
								pls = plansFor(len(s), 0, true)
							} else {
								pls = []plan{{name: "all-in-one", desc: "one chunk"}, {name: "one-byte-reads", desc: "1-byte chunks", chunks: ones(len(s))}}
								for k := 1; k <= 5; k++ {
									pls = append(pls, plan{name: "single-split", desc: fmt.Sprintf("[%d rest]", k), chunks: []int{k}})
								}
							}
							for _, pl := range pls {
								cases = append(cases, readCase{group: "malformed-4-byte-prefix", desc: fmt.Sprintf("prefix=%x tail=%dx%02x", pre, tl, f), stream: s, pl: pl})
							}
							if tl == 0 {
								break
							}
						}
					}
				}
			}
		}
	}
	// length prefixes at the boundaries, with a well-formed body of the announced size where feasible
	type lp struct {
		name string
		v    uint64
	}
	for _, l := range []lp{{"0", 0}, {"1", 1}, {"limit-1", limit - 1}, {"limit", limit}, {"limit+1", limit + 1}, {"2^21-1", 1<<21 - 1}, {"2^21", 1 << 21}, {"2^28-1", 1<<28 - 1}, {"2^28", 1 << 28}, {"2^31-1", 1<<31 - 1}, {"2^31", 1 << 31}, {"2^32", 1 << 32}, {"2^63", 1 << 63}, {"2^64-1", 1<<64 - 1}} {
		pre := putUvarint(nil, l.v)
		bodies := [][]byte{nil, {0x0a, 0x01, 'a'}, bytes.Repeat([]byte{0x0a, 0x01, 'a'}, 40)}
		if l.v > 4 && l.v <= limit+1 {
			// a well-formed body of exactly l.v bytes: 0a varint(k) id
			k := int(l.v) - 1 - len(putUvarint(nil, l.v-4))
			for len(putUvarint(nil, uint64(k)))+1+k < int(l.v) {
				k++
			}
			body := append(putUvarint([]byte{0x0a}, uint64(k)), bytes.Repeat([]byte{'L'}, k)...)
			if len(body) == int(l.v) {
				bodies = append(bodies, body, append(append([]byte{}, body...), 0x55))
			}
		}
		for _, b := range bodies {
			s := append(append([]byte{}, pre...), b...)
			for _, pl := range []plan{{name: "all-in-one", desc: "one chunk"}, {name: "one-byte-reads", desc: "1-byte chunks", chunks: ones(len(s))}, {name: "single-split", desc: "[4 rest]", chunks: []int{4}}} {
				cases = append(cases, readCase{group: "length-prefix-boundary", desc: fmt.Sprintf("len=%s body=%d", l.name, len(b)), stream: s, pl: pl})
			}
		}
	}
	// invalid ids inside an otherwise well-formed header: decoded as written, rejected at dispatch
	invHdrs := [][]byte{{0x02, 0x0a, 0x00}, {0x02, 0x10, 0x01}, {0x04, 0x0a, 0x00, 0x10, 0x01}}
	for _, id := range []string{"", "\xff", "a\xc3", "\xed\xa0\x80", "ab\x80cd"} {
		invHdrs = append(invHdrs, refEncode(id))
	}
	for _, hdr := range invHdrs {
		for _, pay := range payloads {
			s := append(append([]byte{}, hdr...), pay...)
			for _, pl := range plansFor(len(s), 0, true) {
				cases = append(cases, readCase{group: "invalid-id", desc: fmt.Sprintf("hdr=%x", hdr), stream: s, pl: pl})
			}
		}
	}
	// unknown fields next to the id: must decode the id and consume exactly the announced length
	for _, body := range [][]byte{
		{0x10, 0x05, 0x0a, 0x02, 'o', 'k'},
		{0x0a, 0x02, 'o', 'k', 0x12, 0x03, 1, 2, 3},
		{0x0a, 0x02, 'n', 'o', 0x0a, 0x02, 'o', 'k'},
		{0x0a, 0x02, 'o', 'k', 0x1d, 1, 2, 3, 4},
		{0x08, 0x01},
		{0x0a, 0x05, 'o', 'k'},
		{0x0b, 0x02, 'o', 'k'},
		{0x0a, 0x02, 'o', 'k', 0x12},
	} {
		hdr := append(putUvarint(nil, uint64(len(body))), body...)
		for _, pay := range payloads {
			s := append(append([]byte{}, hdr...), pay...)
			for _, pl := range plansFor(len(s), len(hdr), true) {
				cases = append(cases, readCase{group: "extra-fields", desc: fmt.Sprintf("body=%x", body), stream: s, pl: pl})
			}
		}
	}

	var stop atomic.Bool
	enum.Par(len(cases), 16, func(i int) {
		if stop.Load() {
			return
		}
		if i%512 == 0 && run.Expired() {
			stop.Store(true)
			acc.Capped()
			return
		}
		checkRead(run, acc, limit, cases[i])
	})
	for _, i := range []int{0, len(cases) / 3, len(cases) - 1} {
		c := cases[i]
		acc.Sample(map[string]any{"part": "read-header", "group": c.group, "case": c.desc, "stream": hexs(c.stream), "stream_len": len(c.stream), "chunking": c.pl.name + " " + c.pl.desc, "reference": fmt.Sprintf("%+v", func() refRes { r := refHeader(c.stream, limit); r.id = idName(r.id); return r }())})
	}
}

// ---------------------------------------------------------------------------
// dispatch: real Controller.HandleIncomingStream on a real bus
// ---------------------------------------------------------------------------

type fakeLink struct {
	uuid          uint64
	local, remote peer.ID
	closed        atomic.Int32
}

func (l *fakeLink) GetUUID() uint64                { return l.uuid }
func (l *fakeLink) GetTransportUUID() uint64       { return 77 }
func (l *fakeLink) GetRemoteTransportUUID() uint64 { return 78 }
func (l *fakeLink) GetLocalPeer() peer.ID          { return l.local }
func (l *fakeLink) GetRemotePeer() peer.ID         { return l.remote }
func (l *fakeLink) Close() error                   { l.closed.Add(1); return nil }
func (l *fakeLink) OpenStream(stream.OpenOpts) (stream.Stream, error) {
	return nil, errors.New("fake link: no outgoing streams")
}
func (l *fakeLink) AcceptStream() (stream.Stream, stream.OpenOpts, error) {
	return nil, stream.OpenOpts{}, io.EOF
}

type fakeStream struct {
	r      *chunkReader
	closed atomic.Int32
}

func (s *fakeStream) Read(b []byte) (int, error)       { return s.r.Read(b) }
func (s *fakeStream) Write(b []byte) (int, error)      { return len(b), nil }
func (s *fakeStream) SetReadDeadline(time.Time) error  { return nil }
func (s *fakeStream) SetWriteDeadline(time.Time) error { return nil }
func (s *fakeStream) SetDeadline(time.Time) error      { return nil }
func (s *fakeStream) Close() error                     { s.closed.Add(1); return nil }

type seenDir struct {
	pid           protocol.ID
	local, remote peer.ID
}

type seenCall struct {
	pid                       protocol.ID
	peer, lnkLocal, lnkRemote peer.ID
	uuid                      uint64
	strm                      stream.Stream
}

// recorder is the only controller on the bus that answers HandleMountedStream;
// it records every such directive and every stream handed to its handler.
type recorder struct {
	mu    sync.Mutex
	dirs  []seenDir
	calls []seenCall
	other []string
}

func (r *recorder) GetControllerInfo() *controller.Info {
	return controller.NewInfo("verif/c07/recorder", semver.MustParse("0.0.1"), "records HandleMountedStream")
}
func (r *recorder) Execute(ctx context.Context) error { return nil }
func (r *recorder) Close() error                      { return nil }
func (r *recorder) HandleDirective(ctx context.Context, di directive.Instance) ([]directive.Resolver, error) {
	switch d := di.GetDirective().(type) {
	case link.HandleMountedStream:
		r.mu.Lock()
		r.dirs = append(r.dirs, seenDir{d.HandleMountedStreamProtocolID(), d.HandleMountedStreamLocalPeerID(), d.HandleMountedStreamRemotePeerID()})
		r.mu.Unlock()
		return directive.R(directive.NewValueResolver([]link.MountedStreamHandler{r}), nil)
	case link.EstablishLinkWithPeer:
	default:
		r.mu.Lock()
		r.other = append(r.other, di.GetDirective().GetName())
		r.mu.Unlock()
	}
	return nil, nil
}
func (r *recorder) HandleMountedStream(ctx context.Context, ms link.MountedStream) error {
	r.mu.Lock()
	r.calls = append(r.calls, seenCall{ms.GetProtocolID(), ms.GetPeerID(), ms.GetLink().GetLocalPeer(), ms.GetLink().GetRemotePeer(), ms.GetLink().GetLinkUUID(), ms.GetStream()})
	r.mu.Unlock()
	return nil
}

type dispCase struct {
	group, desc   string
	stream        []byte
	pl            plan
	local, remote peer.ID
}

func checkDispatch(run *evid.Run, acc *enum.Acc, limit uint64, ctrlPeer peer.ID, c dispCase) {
	ctx, cancel := context.WithCancel(context.Background())
	defer cancel()
	lg := logrus.New()
	lg.SetOutput(io.Discard)
	le := logrus.NewEntry(lg)
	b := inmem.NewBus(cdc.NewController(ctx, le))
	rec := &recorder{}
	rel, err := b.AddController(ctx, rec, nil)
	if err != nil {
		evid.Fatal("cannot add recorder controller: %v", err)
	}
	defer rel()
	ctrl := transport_controller.NewController(le, b, controller.NewInfo("verif/c07/tpt", semver.MustParse("0.0.1"), "under test"), ctrlPeer, false, nil)
	lnk := &fakeLink{uuid: 4242, local: c.local, remote: c.remote}
	strm := &fakeStream{r: &chunkReader{data: c.stream, chunks: c.pl.chunks, eofWithData: c.pl.eofWD}}
	caseKey := fmt.Sprintf("%s stream=%s/%d chunks=%s%s local=%s remote=%s", c.desc, hexs(c.stream), len(c.stream), c.pl.name, c.pl.desc, short(c.local), short(c.remote))
	replay := map[string]any{"group": c.group, "case": c.desc, "stream_hex_prefix": hexs(c.stream), "stream_len": len(c.stream), "chunking": c.pl.name + " " + c.pl.desc, "link_local": c.local.String(), "link_remote": c.remote.String()}
	p := enum.Try(func() { ctrl.HandleIncomingStream(ctx, nil, lnk, strm, stream.OpenOpts{}) })
	if p != nil {
		acc.Case(c.group, caseKey, true, "panic")
		run.Violation("panic/dispatch/"+c.group, fmt.Sprintf("HandleIncomingStream panicked (%v) on %s", p, caseKey), replay)
		return
	}
	rec.mu.Lock()
	dirs, calls := append([]seenDir{}, rec.dirs...), append([]seenCall{}, rec.calls...)
	rec.mu.Unlock()
	ref := refHeader(c.stream, limit)
	mustReject := ref.kind == kReject || (ref.kind == kAccept && !idValid(ref.id))
	mustAccept := ref.kind == kAccept && idValid(ref.id)
	why := ref.why
	if ref.kind == kAccept && ref.id == "" {
		why = "empty-protocol-id"
	} else if ref.kind == kAccept && !idValid(ref.id) {
		why = "protocol-id-not-utf8"
	}
	out := "undecided"
	switch {
	case mustReject:
		out = "rejected:" + strings.SplitN(why, "/", 2)[0]
		if len(dirs) != 0 || len(calls) != 0 {
			out = "VIOLATION dispatched"
			run.Violation("dispatches-rejectable-header/"+why, fmt.Sprintf("a HandleMountedStream lookup %s was issued for a stream whose header must be rejected (%s): %s", fmtDirs(dirs), why, caseKey), replay)
		} else if strm.closed.Load() == 0 {
			out = "VIOLATION not closed"
			run.Violation("rejected-stream-left-open/"+why, fmt.Sprintf("header rejected (%s) but the stream was not closed: %s", why, caseKey), replay)
		}
	case mustAccept:
		want := seenDir{protocol.ID(ref.id), c.local, c.remote}
		out = "dispatched"
		switch {
		case len(dirs) == 0:
			out = "VIOLATION not dispatched"
			k := "valid-header-not-dispatched/" + c.pl.name
			if c.pl.eofWD {
				k = "valid-header-not-dispatched/final-read-returns-data-with-EOF"
			}
			run.Violation(k, fmt.Sprintf("no HandleMountedStream lookup for a complete valid header (protocol id %s; stream closed %d times): %s", idName(ref.id), strm.closed.Load(), caseKey), replay)
		case len(dirs) != 1 || dirs[0] != want:
			out = "VIOLATION wrong lookup"
			k := "lookup-carries-wrong-parameters"
			if len(dirs) == 1 && dirs[0].pid != want.pid {
				k += "/protocol-id"
			} else if len(dirs) == 1 && (dirs[0].local != want.local || dirs[0].remote != want.remote) {
				k += "/peers"
			}
			run.Violation(k, fmt.Sprintf("HandleMountedStream lookups %s, expected exactly one (pid=%s local=%s remote=%s): %s", fmtDirs(dirs), idName(ref.id), short(c.local), short(c.remote), caseKey), replay)
		case len(calls) != 1 || calls[0].pid != want.pid || calls[0].peer != c.remote || calls[0].lnkLocal != c.local || calls[0].lnkRemote != c.remote || calls[0].uuid != lnk.uuid:
			out = "VIOLATION wrong mounted stream"
			run.Violation("handler-gets-wrong-stream-attributes", fmt.Sprintf("handler calls %s, expected one with pid=%s peer=%s on link %s->%s: %s", fmtCalls(calls), idName(ref.id), short(c.remote), short(c.local), short(c.remote), caseKey), replay)
		case strm.closed.Load() != 0:
			out = "VIOLATION closed"
			run.Violation("accepted-stream-closed", fmt.Sprintf("stream handed to the handler but also closed: %s", caseKey), replay)
		default:
			got, _ := io.ReadAll(calls[0].strm)
			if !bytes.Equal(got, c.stream[ref.hdrLen:]) {
				out = "VIOLATION payload"
				run.Violation("handler-stream-not-at-payload-start", fmt.Sprintf("the handler reads %s from the stream, the opener wrote payload %s after the header: %s", hexs(got), hexs(c.stream[ref.hdrLen:]), caseKey), replay)
			}
		}
	default:
		// reference undecided: only internal consistency
		if len(dirs) == 0 && strm.closed.Load() == 0 {
			out = "VIOLATION not closed"
			run.Violation("rejected-stream-left-open/undecided-header", fmt.Sprintf("not dispatched and not closed: %s", caseKey), replay)
		}
	}
	acc.Case(c.group, caseKey, true, out)
}

func short(p peer.ID) string {
	s := p.String()
	if len(s) > 6 {
		return s[len(s)-6:]
	}
	return s
}

func fmtCalls(cs []seenCall) string {
	var o []string
	for _, c := range cs {
		o = append(o, fmt.Sprintf("(pid=%s peer=%s link=%s->%s uuid=%d)", idName(string(c.pid)), short(c.peer), short(c.lnkLocal), short(c.lnkRemote), c.uuid))
	}
	return "[" + strings.Join(o, " ") + "]"
}

func fmtDirs(ds []seenDir) string {
	var o []string
	for _, d := range ds {
		o = append(o, fmt.Sprintf("(pid=%s local=%s remote=%s)", idName(string(d.pid)), short(d.local), short(d.remote)))
	}
	return "[" + strings.Join(o, " ") + "]"
}

func runDispatch(run *evid.Run, acc *enum.Acc) {
	limit := transport_controller.VerifC07MaxHeader()
	keys := enum.Keys(4)
	type pair struct{ l, r peer.ID }
	// link peers differ from the controller's configured peer (keys[3]) so that
	// a lookup built from anything but the link's own report is noticed
	pairs := []pair{{keys[0].ID, keys[1].ID}, {keys[1].ID, keys[0].ID}, {keys[0].ID, keys[2].ID}, {keys[2].ID, keys[2].ID}}
	payloads := [][]byte{nil, {0x80}, {0x0a, 0x03, 'x', 0xff, 0x00}}
	var cases []dispCase
	add := func(group, desc string, s []byte, h int, pls []plan) {
		for _, pr := range pairs {
			for _, pl := range pls {
				cases = append(cases, dispCase{group: group, desc: desc, stream: s, pl: pl, local: pr.l, remote: pr.r})
			}
		}
	}
	somePlans := func(n, h int) []plan {
		pls := []plan{{name: "all-in-one", desc: "one chunk"}, {name: "one-byte-reads", desc: "1-byte chunks", chunks: ones(n)}}
		for _, k := range []int{1, 3, 4, 5, h - 1, h, h + 1} {
			if k > 0 && k < n {
				pls = append(pls, plan{name: "single-split", desc: fmt.Sprintf("[%d rest]", k), chunks: []int{k}})
			}
		}
		return pls
	}
	ids := []string{"a", "ab", "abc", "/bifrost/echo", "é", "日本", "😀", "\x0a\x03abc", "a\x00b", strings.Repeat("p", 125), strings.Repeat("p", 126), strings.Repeat("p", 128), strings.Repeat("p", 16381), strings.Repeat("p", 16384), strings.Repeat("Z", 99996)}
	for _, id := range ids {
		hdr := refEncode(id)
		for _, pay := range payloads {
			s := append(append([]byte{}, hdr...), pay...)
			var pls []plan
			if len(s) <= 8 {
				pls = plansFor(len(s), len(hdr), true)
			} else {
				pls = somePlans(len(s), len(hdr))
			}
			add("dispatch/"+"valid", fmt.Sprintf("id=%s payload=%x", idName(id), pay), s, len(hdr), pls)
		}
		pl := plan{name: "all-in-one", desc: "one chunk", eofWD: true}
		add("dispatch/"+"valid-eof-with-data", fmt.Sprintf("id=%s payload=", idName(id)), hdr, len(hdr), []plan{pl})
	}
	for _, id := range []string{"", "\xff", "a\xc3", "\xed\xa0\x80", "ab\x80cd", strings.Repeat("Z", 99997)} {
		hdr := refEncode(id)
		for _, pay := range payloads {
			s := append(append([]byte{}, hdr...), pay...)
			add("dispatch/"+"invalid-id", fmt.Sprintf("id=%s payload=%x", idName(id), pay), s, len(hdr), somePlans(len(s), len(hdr)))
		}
	}
	for _, id := range []string{"a", "abc", strings.Repeat("q", 126)} {
		hdr := refEncode(id)
		for cut := 0; cut < len(hdr); cut++ {
			add("dispatch/"+"truncated", fmt.Sprintf("id=%s cut=%d", idName(id), cut), hdr[:cut], 0, []plan{{name: "all-in-one", desc: "one chunk"}, {name: "one-byte-reads", desc: "1-byte chunks", chunks: ones(cut)}})
		}
	}
	alpha := []byte{0x00, 0x01, 0x03, 0x0a, 0x7f, 0x80, 0xff}
	enum.Strings(alpha, 3, func(s []byte) {
		add("dispatch/"+"malformed-short", "short", append([]byte{}, s...), 0, []plan{{name: "all-in-one", desc: "one chunk"}})
	})
	enum.Strings(alpha, 4, func(s []byte) {
		if len(s) != 4 {
			return
		}
		for _, tl := range []int{0, 2, 12} {
			t := append(append([]byte{}, s...), bytes.Repeat([]byte{'a'}, tl)...)
			cases = append(cases, dispCase{group: "dispatch/malformed-4-byte-prefix", desc: fmt.Sprintf("prefix=%x tail=%d", s, tl), stream: t, pl: plan{name: "all-in-one", desc: "one chunk"}, local: pairs[0].l, remote: pairs[0].r})
		}
	})
	for _, v := range []uint64{0, limit + 1, 1<<31 - 1, 1 << 31, 1 << 63} {
		s := append(putUvarint(nil, v), 0x0a, 0x01, 'a', 0x00, 0x00)
		add("dispatch/"+"length-prefix-boundary", fmt.Sprintf("len=%d", v), s, 0, []plan{{name: "all-in-one", desc: "one chunk"}, {name: "one-byte-reads", desc: "1-byte chunks", chunks: ones(len(s))}})
	}

	var stop atomic.Bool
	enum.Par(len(cases), 16, func(i int) {
		if stop.Load() {
			return
		}
		if i%64 == 0 && run.Expired() {
			stop.Store(true)
			acc.Capped()
			return
		}
		checkDispatch(run, acc, limit, keys[3].ID, cases[i])
	})
	for _, i := range []int{0, len(cases) / 2, len(cases) - 1} {
		c := cases[i]
		acc.Sample(map[string]any{"part": "dispatch", "group": c.group, "case": c.desc, "stream": hexs(c.stream), "stream_len": len(c.stream), "chunking": c.pl.name + " " + c.pl.desc, "link_local": short(c.local), "link_remote": short(c.remote)})
	}
}

func TestC07(t *testing.T) {
	run := evid.Start("C07", "exploration")
	acc := enum.NewAcc(run, "part 1 (read-header): byte streams = header written by the real opener code for protocol ids at every length boundary (1,2,3,125..128,16381..16384,99994..99997, multi-byte UTF-8) x payload {none,1B,5B}, every proper prefix of honest headers, all strings <=3 B and all 4-byte prefixes over {00,01,03,0a,7f,80,ff} with short/exact/long tails, boundary length prefixes, invalid ids, unknown fields; each stream x read chunkings (all compositions for streams <=14 B; else all-in-one, 1-byte reads, header|payload, single split points, pairs of early split points; plus 'last bytes arrive together with EOF'); part 2 (dispatch): the same families through the real Controller.HandleIncomingStream on a real bus x 4 (local,remote) link identities; part 3 (two streams on one controller): every ordered pair of stream kinds {2 protocol ids} x {2 local peers} x {2 remote peers}, the second dispatched while the first handler is running or 0 / 0.5 / 1.5 / 5 s (virtual) after it returned - each must reach a handler looked up with exactly its own parameters. A case is non-trivial unless it is an honest header delivered in a single read; distinct by (group, stream, chunking, link identities)")
	runE1(run, acc)
	runDispatch(run, acc)
	runPairs(t, run, acc)
	acc.Finish()
	run.Assumptions = append(run.Assumptions,
		"the reference decoder (varint length + protobuf field 1) is trusted; headers with non-canonical varints, group wire types or field numbers > 2^29-1 are judged only for internal consistency",
		"the harness reader never returns (0,nil) and never returns data beyond a chunk boundary; stream deadlines are not modelled",
		"dispatch part: the bus hosts only a recording controller that answers every HandleMountedStream; handler lookup time-outs are not exercised")
	run.Finish(t)
}
