package c05

import (
	"context"
	"fmt"
	"os"
	"runtime"
	"sort"
	"strings"
	"sync"
	"sync/atomic"
	"testing"
	"testing/synctest"
	"time"

	"github.com/aperturerobotics/bifrost/crypto"
	"github.com/aperturerobotics/bifrost/link"
	"github.com/aperturerobotics/bifrost/peer"
	peer_controller "github.com/aperturerobotics/bifrost/peer/controller"
	"github.com/aperturerobotics/bifrost/tptaddr"
	"github.com/aperturerobotics/bifrost/transport"
	"github.com/aperturerobotics/bifrost/transport/common/dialer"
	transport_controller "github.com/aperturerobotics/bifrost/transport/controller"
	"github.com/aperturerobotics/controllerbus/bus"
	"github.com/aperturerobotics/controllerbus/bus/inmem"
	"github.com/aperturerobotics/controllerbus/controller"
	"github.com/aperturerobotics/controllerbus/directive"
	cdc "github.com/aperturerobotics/controllerbus/directive/controller"
	"github.com/aperturerobotics/util/backoff"
	"github.com/blang/semver/v4"
	"github.com/sirupsen/logrus"

	"verifh/enum"
	"verifh/evid"
	"verifh/hist"
	"verifh/mc"
	"verifh/props/c03/qnet"
)

// The system: node L is a real transport controller on a real controllerbus
// whose transport is the real pconn/QUIC transport on the harness packet
// switch (address aL). X is the peer L wants; Y is another peer with its own
// key. Both X and Y are real pconn transports whose packet conns claim address
// aX; the harness decides which of them (or nobody) is reachable at aX.

const horizon = 120 * time.Second // virtual; > 25 s (stale link time-out) + 20 s (max back-off) + 5 s (handshake time-out)

var (
	nSuccess    atomic.Int64 // successes reported for "dial X" and judged
	nHorizon    atomic.Int64 // standing requests judged at the horizon
	nYAnswered  atomic.Int64 // handshakes in which Y answered a dial meant for X
	nSatisfied  atomic.Int64
	livenessCap atomic.Int64
	nExempt     atomic.Int64 // standing requests issued while a link to X already existed (not judged)
)

// observer collects the values of one directive.
type observer struct {
	kind string
	s    *sysC
	ref  directive.Reference
	mu   sync.Mutex
	cur  map[uint32]peer.ID // value id -> remote peer of the value
}

func (o *observer) HandleValueAdded(_ directive.Instance, v directive.AttachedValue) {
	var remote peer.ID
	switch l := v.GetValue().(type) {
	case link.MountedLink:
		remote = l.GetRemotePeer()
	case link.Link:
		remote = l.GetRemotePeer()
	default:
		o.s.note("foreign-value/%s :: %s received a value of type %T", o.kind, o.kind, v.GetValue())
		return
	}
	o.mu.Lock()
	o.cur[v.GetValueID()] = remote
	o.mu.Unlock()
	o.s.judgeSuccess(o.kind, remote)
}
func (o *observer) HandleValueRemoved(_ directive.Instance, v directive.AttachedValue) {
	o.mu.Lock()
	delete(o.cur, v.GetValueID())
	o.mu.Unlock()
}
func (o *observer) HandleInstanceDisposed(directive.Instance) {}

func (o *observer) remotes() []peer.ID {
	o.mu.Lock()
	defer o.mu.Unlock()
	var out []peer.ID
	for _, r := range o.cur {
		out = append(out, r)
	}
	return out
}

type sysC struct {
	cfg    *config
	ctx    context.Context
	cancel context.CancelFunc
	sw     *qnet.Switch
	keys   []*enum.Key // L X Y
	bus    bus.Bus
	ctrl   *transport_controller.Controller
	lconn  *qnet.PConn
	X, Y   *qnet.Node
	names  map[peer.ID]string

	binding string // "X", "Y", "-"
	est     *observer
	tpt     *observer
	// DialPeerAddr call
	dialPending bool
	dialYBusy   bool
	dialYN      int
	peerDialN   int
	dialDone    bool
	dialRes     string
	dialGen     int

	mu       sync.Mutex
	claimedX []string // request kinds that reported a link to X since the last check
	notes    []string
	broken   string
	bad      bool

	// taint: a request was issued while the controller already held a live link
	// to X. The transport answers such a dial with "already connected" (nil
	// link, nil error); the controller's dialer for (X,aX) then finishes without
	// a link and is never restarted while any request keeps it referenced. What
	// happens to requests sharing that dialer is a separate matter (no other
	// peer is involved) outside this property: they are counted, not judged.
	// The taint ends when no request is standing (the dialer is then removed).
	taint bool

	// requests standing since before the last event
	lastEv                        string
	sinceTick                     int // events since the last tick (capped at 3): timers may still be pending
	stoodEst, stoodTpt, stoodDial bool
}

type config struct {
	name    string
	initial string // initial binding of aX
	// alias: every request dials "alias:aX", a string that resolves to aX but
	// is not the canonical form of the address (like a host name)
	alias      bool
	dialaddr   bool
	dialtpt    bool
	estlink    bool
	constantBO bool // 1 s constant back-off instead of the default exponential one
	// peerdial: the node currently serving aX may itself connect to L (an
	// incoming session at L whose remote address is aX), at most twice
	peerdial bool
}

func (s *sysC) note(format string, a ...any) {
	s.mu.Lock()
	s.notes = append(s.notes, fmt.Sprintf(format, a...))
	s.mu.Unlock()
}

func (s *sysC) name(p peer.ID) string {
	if n, ok := s.names[p]; ok {
		return n
	}
	if p == "" {
		return "-"
	}
	return "?" + p.String()
}

func (s *sysC) dialStr() string {
	if s.cfg.alias {
		return "alias:aX"
	}
	return "aX"
}

func (s *sysC) dialerOpts(addr string) *dialer.DialerOpts {
	o := &dialer.DialerOpts{Address: addr}
	if s.cfg.constantBO {
		o.Backoff = &backoff.Backoff{BackoffKind: backoff.BackoffKind_BackoffKind_CONSTANT, Constant: &backoff.Constant{Interval: 1000}}
	}
	return o
}

func newSysC(cfg *config) *sysC {
	s := &sysC{cfg: cfg, sw: qnet.NewSwitch(), keys: enum.Keys(3), names: map[peer.ID]string{}, binding: "-"}
	s.ctx, s.cancel = context.WithCancel(context.Background())
	for i, n := range []string{"L", "X", "Y"} {
		s.names[s.keys[i].ID] = n
	}
	le := qnet.Quiet()
	b := inmem.NewBus(cdc.NewController(s.ctx, le))
	s.bus = b
	lp, err := peer.NewPeer(s.keys[0].Priv)
	if err != nil {
		s.broken = err.Error()
		return s
	}
	if _, err := b.AddController(s.ctx, peer_controller.NewController(le, lp), nil); err != nil {
		s.broken = err.Error()
		return s
	}
	s.lconn = s.sw.NewConn("aL")
	s.sw.Bind("aL", s.lconn)
	static := map[string]*dialer.DialerOpts{s.keys[1].ID.String(): s.dialerOpts(s.dialStr())}
	s.ctrl = transport_controller.NewController(le, b, controller.NewInfo("verif/c05/tpt", semver.MustParse("0.0.1"), "controller under test"), s.keys[0].ID, false,
		func(ctx context.Context, le *logrus.Entry, pkey crypto.PrivKey, handler transport.TransportHandler) (transport.Transport, error) {
			return qnet.NewTransport(ctx, le, pkey, s.lconn, handler, static)
		})
	if _, err := b.AddController(s.ctx, s.ctrl, nil); err != nil {
		s.broken = err.Error()
		return s
	}
	if s.X, err = qnet.NewNode(s.ctx, s.sw, "X", s.keys[1], "aX"); err != nil {
		s.broken = err.Error()
		return s
	}
	if s.Y, err = qnet.NewNode(s.ctx, s.sw, "Y", s.keys[2], "aX"); err != nil {
		s.broken = err.Error()
		return s
	}
	s.bind(cfg.initial)
	return s
}

func (s *sysC) bind(to string) {
	s.binding = to
	switch to {
	case "X":
		s.sw.Bind("aX", s.X.Conn)
	case "Y":
		s.sw.Bind("aX", s.Y.Conn)
	default:
		s.sw.Bind("aX", nil)
	}
}

func (s *sysC) Enabled() []string {
	if s.broken != "" || s.bad {
		return nil
	}
	var ev []string
	for _, b := range []string{"X", "Y", "-"} {
		if s.binding != b {
			ev = append(ev, "bind:"+b)
		}
	}
	if s.cfg.dialaddr && !s.dialPending {
		ev = append(ev, "dialaddr")
	}
	if s.cfg.peerdial && s.binding != "-" && s.peerDialN < 2 {
		ev = append(ev, "peerdial")
	}
	if s.cfg.dialaddr && !s.cfg.peerdial && !s.dialYBusy && s.dialYN < 1 {
		// a legitimate dial of the OTHER peer at the same address (Y may really serve it)
		ev = append(ev, "dialY")
	}
	if s.cfg.dialtpt {
		if s.tpt == nil {
			ev = append(ev, "dialtpt+")
		} else {
			ev = append(ev, "dialtpt-")
		}
	}
	if s.cfg.estlink {
		if s.est == nil {
			ev = append(ev, "est+")
		} else {
			ev = append(ev, "est-")
		}
	}
	ev = append(ev, "drop", "tick")
	return ev
}

// judgeSuccess: any success reported for "dial X" must carry a link whose remote peer is X.
func (s *sysC) judgeSuccess(kind string, remote peer.ID) {
	nSuccess.Add(1)
	x := s.keys[1].ID
	if remote != x {
		s.note("success-for-x-carries-link-to-other-peer/%s :: %s for peer X at address aX reported success with a link whose remote peer is %s (aX is served by %s)", kind, kind, s.name(remote), s.binding)
		return
	}
	// X must really have taken part in a handshake with L (judged at quiescence)
	s.mu.Lock()
	s.claimedX = append(s.claimedX, kind)
	s.mu.Unlock()
}

func (s *sysC) Apply(ev string) {
	if s.broken != "" {
		return
	}
	s.lastEv = ev
	if ev == "tick" {
		s.sinceTick = 0
	} else if s.sinceTick < 3 {
		s.sinceTick++
	}
	s.stoodEst, s.stoodTpt, s.stoodDial = s.est != nil, s.tpt != nil, s.dialPending
	x := s.keys[1].ID
	switch ev {
	case "bind:X", "bind:Y", "bind:-":
		s.bind(strings.TrimPrefix(ev, "bind:"))
	case "peerdial":
		n := s.X
		if s.binding == "Y" {
			n = s.Y
		}
		s.peerDialN++
		if s.binding == "X" {
			// L is about to hold a link to X that no request of L produced: from
			// then on a dial (X,aX) is answered "already connected" (nil link, nil
			// error) exactly as for a request issued while linked - the same
			// separate matter the taint stands for (see the field's comment)
			s.taint = true
		}
		go func() {
			dctx, cancel := context.WithTimeout(s.ctx, 60*time.Second)
			defer cancel()
			_, _, _ = n.Tpt.DialPeer(dctx, s.keys[0].ID, "aL")
		}()
	case "dialY":
		y := s.keys[2].ID
		s.dialYBusy = true
		s.dialYN++
		go func() {
			lnk, err := s.ctrl.DialPeerAddr(s.ctx, y, s.dialerOpts(s.dialStr()))
			if err == nil && lnk != nil && lnk.GetRemotePeer() != y {
				s.note("success-for-y-carries-link-to-other-peer/DialPeerAddr :: DialPeerAddr(Y, aX) returned a link to %s", s.name(lnk.GetRemotePeer()))
			}
			s.mu.Lock()
			s.dialYBusy = false
			s.mu.Unlock()
		}()
	case "dialaddr":
		s.dialPending, s.dialDone, s.dialRes = true, false, ""
		s.taint = s.taint || len(s.ctrl.GetPeerLinks(x)) > 0
		s.dialGen++
		gen := s.dialGen
		go func() {
			lnk, err := s.ctrl.DialPeerAddr(s.ctx, x, s.dialerOpts(s.dialStr()))
			s.mu.Lock()
			cur := gen == s.dialGen
			s.mu.Unlock()
			if !cur {
				return
			}
			if err == nil && lnk != nil {
				s.judgeSuccess("DialPeerAddr", lnk.GetRemotePeer())
			} else if err == nil {
				s.note("success-without-link/DialPeerAddr :: DialPeerAddr returned neither a link nor an error")
			}
			s.mu.Lock()
			s.dialDone = true
			switch {
			case err != nil:
				s.dialRes = "error"
			case lnk == nil:
				s.dialRes = "nil"
			default:
				s.dialRes = "link:" + s.name(lnk.GetRemotePeer())
			}
			s.mu.Unlock()
		}()
	case "dialtpt+":
		linked := len(s.ctrl.GetPeerLinks(x)) > 0
		o := &observer{kind: "DialTptAddr", s: s, cur: map[uint32]peer.ID{}}
		_, ref, err := s.bus.AddDirective(tptaddr.NewDialTptAddr(s.dialerOpts(qnet.TransportType+"|"+s.dialStr()), s.keys[0].ID, x), o)
		if err != nil {
			s.broken = "AddDirective: " + err.Error()
			return
		}
		o.ref = ref
		s.tpt = o
		s.taint = s.taint || linked
	case "dialtpt-":
		s.tpt.ref.Release()
		s.tpt = nil
	case "est+":
		s.taint = s.taint || len(s.ctrl.GetPeerLinks(x)) > 0
		o := &observer{kind: "EstablishLinkWithPeer", s: s, cur: map[uint32]peer.ID{}}
		_, ref, err := s.bus.AddDirective(link.NewEstablishLinkWithPeer("", x), o)
		if err != nil {
			s.broken = "AddDirective: " + err.Error()
			return
		}
		o.ref = ref
		s.est = o
	case "est-":
		s.est.ref.Release()
		s.est = nil
	case "drop":
		for _, n := range []*qnet.Node{s.X, s.Y} {
			for _, l := range n.Rec.Live() {
				_ = l.Close()
			}
		}
	case "tick":
		time.Sleep(horizon)
	}
}

// untaint is called at quiescence: without standing requests the dialer entry is gone.
func (s *sysC) untaint() {
	if s.est == nil && s.tpt == nil && !s.dialPending {
		s.taint = false
	}
}

func hasX(rs []peer.ID, x peer.ID) bool {
	for _, r := range rs {
		if r == x {
			return true
		}
	}
	return false
}

func (s *sysC) Check() []string {
	if s.broken != "" {
		return nil
	}
	x := s.keys[1].ID
	s.mu.Lock()
	out := append([]string{}, s.notes...)
	s.notes = nil
	if s.dialPending && s.dialDone {
		// the call returned: a new one may be issued
		s.dialPending = false
	}
	s.mu.Unlock()
	s.untaint()
	s.mu.Lock()
	dialRes := s.dialRes
	claimed := s.claimedX
	s.claimedX = nil
	s.mu.Unlock()
	if len(claimed) > 0 {
		ok := false
		for _, e := range s.X.Rec.Events() {
			if e.Est && e.Remote == s.keys[0].ID {
				ok = true
			}
		}
		if !ok {
			out = append(out, fmt.Sprintf("success-for-x-without-x/%s :: %s reported a link to X although node X never completed a handshake with L", claimed[0], claimed[0]))
		}
	}
	if s.Y.Conn.Rx() > 0 {
		nYAnswered.Add(1) // packets sent to aX reached the impostor
	}
	// horizon: X was reachable at aX during the whole tick and the request stood before it
	key := "request-for-x-not-satisfied-once-x-reachable-after-other-peer-answered"
	if s.Y.Conn.Rx() == 0 {
		key = "request-for-x-not-satisfied-although-x-reachable-and-nobody-else-answered"
	}
	if s.lastEv == "tick" && s.binding == "X" {
		if s.stoodEst && s.est != nil && s.taint {
			nExempt.Add(1)
		} else if s.stoodEst && s.est != nil {
			nHorizon.Add(1)
			if hasX(s.est.remotes(), x) {
				nSatisfied.Add(1)
			} else {
				out = append(out, fmt.Sprintf(key+"/EstablishLinkWithPeer :: an EstablishLinkWithPeer(X) request (static dialer map X -> aX) has been standing while X was reachable at aX for %v of virtual time and holds no link to X (holds %v); dialers: %s", horizon, s.nameList(s.est.remotes()), s.dialers()))
			}
		}
		if s.stoodTpt && s.tpt != nil && s.taint {
			nExempt.Add(1)
		} else if s.stoodTpt && s.tpt != nil {
			nHorizon.Add(1)
			if hasX(s.tpt.remotes(), x) {
				nSatisfied.Add(1)
			} else {
				out = append(out, fmt.Sprintf(key+"/DialTptAddr :: a DialTptAddr(X, aX) directive has been standing while X was reachable at aX for %v of virtual time and holds no link to X (holds %v); dialers: %s", horizon, s.nameList(s.tpt.remotes()), s.dialers()))
			}
		}
		if s.stoodDial && s.taint {
			nExempt.Add(1)
		} else if s.stoodDial {
			nHorizon.Add(1)
			if dialRes == "link:X" {
				nSatisfied.Add(1)
			} else if dialRes == "" {
				out = append(out, fmt.Sprintf(key+"/DialPeerAddr :: a DialPeerAddr(X, aX) call has been pending while X was reachable at aX for %v of virtual time and has not returned; dialers: %s", horizon, s.dialers()))
			}
		}
	}
	if len(out) > 0 {
		s.bad = true
	}
	return out
}

func (s *sysC) nameList(ps []peer.ID) []string {
	out := []string{}
	for _, p := range ps {
		out = append(out, s.name(p))
	}
	sort.Strings(out)
	return out
}

func (s *sysC) dialers() string {
	var parts []string
	for _, d := range transport_controller.VerifC05Dialers(s.ctrl) {
		st := "no-link"
		if d.HasLink {
			st = "link-to-" + s.name(d.LinkRemote)
		}
		parts = append(parts, fmt.Sprintf("(%s,%s)=%s", s.name(d.PeerID), d.Address, st))
	}
	return "[" + strings.Join(parts, " ") + "]"
}

func (s *sysC) Canon() string {
	if s.broken != "" {
		return "BROKEN " + s.broken
	}
	x, y := s.keys[1].ID, s.keys[2].ID
	var b strings.Builder
	fmt.Fprintf(&b, "aX->%s since-tick=%d taint=%v", s.binding, s.sinceTick, s.taint)
	fmt.Fprintf(&b, " links[X=%d Y=%d]", len(s.ctrl.GetPeerLinks(x)), len(s.ctrl.GetPeerLinks(y)))
	fmt.Fprintf(&b, " nodes[X=%d Y=%d]", len(s.X.Rec.Live()), len(s.Y.Rec.Live()))
	fmt.Fprintf(&b, " dialers%s", s.dialers())
	if s.est != nil {
		fmt.Fprintf(&b, " est=%v", s.nameList(s.est.remotes()))
	}
	if s.tpt != nil {
		fmt.Fprintf(&b, " tpt=%v", s.nameList(s.tpt.remotes()))
	}
	s.mu.Lock()
	fmt.Fprintf(&b, " dial=%v/%s dialY=%v/%d peerdial=%d", s.dialPending, s.dialRes, s.dialYBusy, s.dialYN, s.peerDialN)
	s.mu.Unlock()
	return b.String()
}

func (s *sysC) Close() {
	if s.est != nil {
		s.est.ref.Release()
	}
	if s.tpt != nil {
		s.tpt.ref.Release()
	}
	s.mu.Lock()
	s.dialGen++
	s.mu.Unlock()
	s.cancel()
	if s.X != nil {
		s.X.Close()
	}
	if s.Y != nil {
		s.Y.Close()
	}
	if s.lconn != nil {
		_ = s.lconn.Close()
	}
}

func TestC05(t *testing.T) {
	os.Setenv("QUIC_GO_DISABLE_RECEIVE_BUFFER_WARNING", "true")
	run := evid.Start("C05", "model_checking")
	runtime.GOMAXPROCS(1)
	agg := mc.NewAgg(run)
	type scen struct {
		cfg    config
		dq, dt int
	}
	scens := []scen{
		{config{name: "DialPeerAddr(X,aX); aX initially served by the impostor Y", initial: "Y", dialaddr: true}, 6, 9},
		{config{name: "EstablishLinkWithPeer(X) with static dialer map; aX initially served by the impostor Y", initial: "Y", estlink: true}, 6, 9},
		{config{name: "DialTptAddr(X,aX); aX initially served by the impostor Y", initial: "Y", dialtpt: true}, 6, 9},
		{config{name: "EstablishLinkWithPeer(X) + DialPeerAddr, dial string is an alias of aX (not its canonical form); aX initially served by X", initial: "X", estlink: true, dialaddr: true, alias: true}, 5, 7},
		{config{name: "DialPeerAddr(X) and DialPeerAddr(Y) through an alias of aX; aX initially served by Y", initial: "Y", dialaddr: true, alias: true}, 5, 7},
		{config{name: "all three request kinds; aX initially unbound", initial: "-", dialaddr: true, dialtpt: true, estlink: true}, 4, 6},
		{config{name: "EstablishLinkWithPeer(X) + DialPeerAddr with a constant 1 s dial back-off; aX initially served by Y", initial: "Y", estlink: true, dialaddr: true, constantBO: true}, 4, 6},
		{config{name: "DialPeerAddr(X,aX) while the node serving aX may itself connect to L; aX initially unbound", initial: "-", dialaddr: true, peerdial: true}, 4, 7},
		{config{name: "EstablishLinkWithPeer(X) + DialTptAddr(X,aX) while the node serving aX may itself connect to L; aX initially unbound", initial: "-", estlink: true, dialtpt: true, peerdial: true}, 4, 6},
	}
	for i := range scens {
		sc := scens[i]
		d := sc.dt
		if run.Quick() {
			d = sc.dq
		}
		res := hist.BFS(t, &hist.Config{Name: sc.cfg.name, MaxDepth: d, Deadline: run.Deadline(), New: func() hist.Sys {
			s := newSysC(&sc.cfg)
			synctest.Wait()
			if s.broken != "" {
				evid.Fatal("harness set-up failed: %s", s.broken)
			}
			return s
		}})
		agg.AddHist(res)
	}
	agg.Finish(false)
	run.Cov["counters"] = map[string]any{"successes_judged": nSuccess.Load(), "standing_requests_judged_at_horizon": nHorizon.Load(), "of_which_satisfied": nSatisfied.Load(), "standing_requests_not_judged_because_sharing_a_dialer_started_while_already_linked_to_x": nExempt.Load(), "checked_states_in_which_packets_for_ax_had_reached_y": nYAnswered.Load()}
	run.Cov["events"] = []string{"bind:X", "bind:Y", "bind:- (unbind)", "dialaddr (Controller.DialPeerAddr(X,{aX}))", "dialtpt+/- (DialTptAddr directive)", "est+/- (EstablishLinkWithPeer(\"\",X) directive)", "peerdial (the node serving aX dials L itself: an incoming session at L from address aX)", "drop (remote side closes its links)", "tick (120 s virtual)"}
	if run.NViolations() == 0 && (nSuccess.Load() == 0 || nHorizon.Load() == 0 || nYAnswered.Load() == 0) {
		evid.Fatal("vacuous exploration: %v", run.Cov["counters"])
	}
	run.Assumptions = append(run.Assumptions,
		"quic-go, crypto/tls and controllerbus are used as they are; every history runs in a testing/synctest bubble (virtual time, quiescence after every event) over an in-memory packet switch without loss or reordering",
		"the horizon of 120 virtual seconds exceeds stale-link idle time-out (2 x 10 s) + maximal default dial back-off (20 s) + handshake time-out (5 s); states are de-duplicated on bindings, link tables, dialer results and request values, not on back-off timer phase",
		"histories are not extended past their first violation; event orders are explored, not interleavings inside one settling step",
	)
	for _, p := range qnet.Panics() {
		run.Violation("transport-panics", "the transport's accept/execute loop panicked (this takes the process down): "+p, "transport-panic")
		break
	}
	run.Finish(t)
}
