package c15

import (
	"bytes"
	"encoding/binary"
	"fmt"
	"math/big"
	"strings"
	"testing"

	"github.com/aperturerobotics/bifrost/hash"

	"verifh/enum"
	"verifh/evid"
	"verifh/ref"
)

// ---- independent references ----

// known reports whether ht names one of the three algorithms of hash.proto.
func known(ht int32) bool { return ht == 1 || ht == 2 || ht == 3 }

// digestLen is the digest length of a known algorithm.
func digestLen(ht int32) int {
	if ht == 2 {
		return 20
	}
	return 32
}

// refEncode is the protobuf encoding of hash.proto's Hash written by hand:
// field 1 varint (enum, sign-extended), field 2 bytes, zero values omitted.
func refEncode(ht int32, digest []byte) []byte {
	var out []byte
	if ht != 0 {
		out = append(out, 0x08)
		out = binary.AppendUvarint(out, uint64(int64(ht)))
	}
	if len(digest) > 0 {
		out = append(out, 0x12)
		out = binary.AppendUvarint(out, uint64(len(digest)))
		out = append(out, digest...)
	}
	return out
}

// refDecode reads a Hash out of protobuf bytes with the boring parser in
// harness/ref (last field wins). It returns ref.ErrUndecided when a known
// field carries a foreign wire type (decoder specific).
func refDecode(b []byte) (ht int32, digest []byte, err error) {
	fs, err := ref.PBParse(b)
	if err != nil {
		return 0, nil, err
	}
	for _, f := range fs {
		switch {
		case f.Num == 1 && f.Wire == 0:
			ht = int32(f.Varint)
		case f.Num == 2 && f.Wire == 2:
			digest = f.Bytes
		case f.Num == 1 || f.Num == 2:
			return 0, nil, ref.ErrUndecided
		}
	}
	return ht, digest, nil
}

const b58Alphabet = "123456789ABCDEFGHJKLMNPQRSTUVWXYZabcdefghijkmnopqrstuvwxyz"

// b58Decode is a big-integer base58 decoder; ok=false for non-base58 text.
func b58Decode(s string) ([]byte, bool) {
	n := new(big.Int)
	r := big.NewInt(58)
	zeros := 0
	lead := true
	for i := 0; i < len(s); i++ {
		d := strings.IndexByte(b58Alphabet, s[i])
		if d < 0 {
			return nil, false
		}
		if lead && d == 0 {
			zeros++
		} else {
			lead = false
		}
		n.Mul(n, r)
		n.Add(n, big.NewInt(int64(d)))
	}
	return append(make([]byte, zeros), n.Bytes()...), true
}

// b58Encode is the matching encoder.
func b58Encode(b []byte) string {
	zeros := 0
	for zeros < len(b) && b[zeros] == 0 {
		zeros++
	}
	n := new(big.Int).SetBytes(b)
	r := big.NewInt(58)
	m := new(big.Int)
	var out []byte
	for n.Sign() > 0 {
		n.DivMod(n, r, m)
		out = append(out, b58Alphabet[m.Int64()])
	}
	for i := 0; i < zeros; i++ {
		out = append(out, '1')
	}
	for i, j := 0, len(out)-1; i < j; i, j = i+1, j-1 {
		out[i], out[j] = out[j], out[i]
	}
	return string(out)
}

type hcase struct {
	desc    string
	ht      int32
	digest  []byte
	data    []byte
	fixture bool // the honest (type, digest of data) pair
	nilRecv bool
}

func pattern(n int) []byte {
	b := make([]byte, n)
	for i := range b {
		b[i] = byte(i*7 + 3)
	}
	return b
}

func TestC15(t *testing.T) {
	run := evid.Start("C15", "exploration")
	acc := enum.NewAcc(run, "data menu x hash type menu x digest menu (correct digest, every single-bit flip [thorough: every byte substitution], truncated/extended by one byte, empty, digests of the other algorithms, digest of other data) through VerifyData/Validate/Sum; all pairs of a hash menu through CompareHash; every enumerated hash through MarshalVT/UnmarshalVT, MarshalString/ParseFromB58, MarshalDigest, JSON; byte substitutions / truncations / extensions of valid binary and base58 encodings and all short strings over a boundary alphabet through the decoders; cases are distinct by (group, description); the honest (type, correct digest) pairs are the trivial fixtures, everything else is non-trivial")

	quick := run.Quick()
	sizes := []int{0, 1, 64, 1024}
	types := []int32{0, 1, 2, 3, 4, -1, 100}
	if !quick {
		sizes = []int{0, 1, 2, 55, 56, 63, 64, 65, 1023, 1024, 1025, 4096}
		types = []int32{0, 1, 2, 3, 4, 5, -1, 100, 1<<31 - 1, -1 << 31}
	}

	var all []hcase // every hash value of part A, reused for the encoding round trips

	// ---------- part A: VerifyData / Validate ----------
	verify := func(c hcase) {
		var h *hash.Hash
		if !c.nilRecv {
			h = hash.NewHash(hash.HashType(c.ht), c.digest)
		}
		key := c.desc
		var verr, valerr error
		if p := enum.Try(func() { _, verr = h.VerifyData(c.data) }); p != nil {
			acc.Case("verify", key, !c.fixture, "panic")
			run.Violation("panic/verify-data", fmt.Sprintf("VerifyData panicked on %s: %v", key, p), key)
			return
		}
		want := false
		if known(c.ht) {
			d, _ := ref.Digest(c.ht, c.data)
			want = bytes.Equal(d, c.digest)
		}
		out := "mismatch"
		if verr == nil {
			out = "verified"
		}
		acc.Case("verify", key, !c.fixture, out)
		switch {
		case verr == nil && !want && !known(c.ht):
			run.Violation(fmt.Sprintf("verify-accepts/unknown-algorithm/type=%d", c.ht), fmt.Sprintf("VerifyData returned nil for %s although hash type %d names no algorithm", key, c.ht), key)
		case verr == nil && !want:
			run.Violation("verify-accepts/wrong-digest", fmt.Sprintf("VerifyData returned nil for %s although the stored digest is not the data's digest under algorithm %d", key, c.ht), key)
		case verr != nil && want:
			run.Violation("verify-rejects/correct-digest", fmt.Sprintf("VerifyData rejected %s (%v) although the stored digest equals the data's digest under algorithm %d", key, verr, c.ht), key)
		}

		if p := enum.Try(func() { valerr = h.Validate() }); p != nil {
			acc.Case("validate", key, !c.fixture, "panic")
			run.Violation("panic/validate", fmt.Sprintf("Validate panicked on %s: %v", key, p), key)
			return
		}
		lenOK := known(c.ht) && len(c.digest) == digestLen(c.ht)
		switch {
		case valerr == nil && lenOK:
			acc.Case("validate", key, !c.fixture, "valid (known algorithm, right length)")
		case valerr == nil && !known(c.ht):
			acc.Case("validate", key, !c.fixture, "VALID although algorithm unknown")
			run.Violation(fmt.Sprintf("validate-accepts/unknown-algorithm/type=%d", c.ht), fmt.Sprintf("Validate returned nil for %s: hash type %d names no algorithm (digest length %d)", key, c.ht, len(c.digest)), key)
		case valerr == nil:
			acc.Case("validate", key, !c.fixture, "VALID although digest length wrong")
			run.Violation("validate-accepts/wrong-digest-length", fmt.Sprintf("Validate returned nil for %s: digest has %d bytes, algorithm %d has %d", key, len(c.digest), c.ht, digestLen(c.ht)), key)
		case lenOK:
			acc.Case("validate", key, !c.fixture, "invalid although known algorithm and right length (not required by the property)")
		default:
			acc.Case("validate", key, !c.fixture, "invalid")
		}
	}

	add := func(c hcase) {
		all = append(all, c)
		verify(c)
	}

	for _, n := range sizes {
		data := pattern(n)
		other := append(pattern(n), 'x')
		dg := map[int32][]byte{}
		for _, a := range []int32{1, 2, 3} {
			dg[a], _ = ref.Digest(a, data)
		}
		for _, ht := range types {
			base := fmt.Sprintf("data%d/type=%d", n, ht)
			add(hcase{desc: base + "/digest=nil", ht: ht, data: data})
			add(hcase{desc: base + "/digest=empty", ht: ht, digest: []byte{}, data: data})
			for _, a := range []int32{1, 2, 3} {
				add(hcase{desc: fmt.Sprintf("%s/digest=alg%d(data)", base, a), ht: ht, digest: dg[a], data: data, fixture: a == ht})
			}
			add(hcase{desc: base + "/digest=32zero", ht: ht, digest: make([]byte, 32), data: data})
			add(hcase{desc: base + "/digest=20zero", ht: ht, digest: make([]byte, 20), data: data})
			add(hcase{desc: base + "/digest=1byte", ht: ht, digest: []byte{0x2a}, data: data})
			if !known(ht) {
				continue
			}
			own := dg[ht]
			od, _ := ref.Digest(ht, other)
			add(hcase{desc: base + "/digest=own(other-data)", ht: ht, digest: od, data: data})
			for _, a := range []int32{1, 2, 3} {
				if a == ht {
					continue
				}
				// the other algorithm's digest cut / zero-padded to this algorithm's length
				d := append([]byte{}, dg[a]...)
				for len(d) < len(own) {
					d = append(d, 0)
				}
				add(hcase{desc: fmt.Sprintf("%s/digest=alg%d(data)-resized", base, a), ht: ht, digest: d[:len(own)], data: data})
			}
			add(hcase{desc: base + "/digest=own-minus-last", ht: ht, digest: own[:len(own)-1], data: data})
			add(hcase{desc: base + "/digest=own-minus-first", ht: ht, digest: own[1:], data: data})
			enum.Extensions(own, []byte{0x00, 0xff, own[0]}, func(m enum.Mut) {
				add(hcase{desc: base + "/digest=own+" + m.Desc, ht: ht, digest: m.Data, data: data})
			})
			add(hcase{desc: base + "/digest=00+own", ht: ht, digest: append([]byte{0}, own...), data: data})
			if quick {
				enum.BitFlips(own, func(m enum.Mut) {
					add(hcase{desc: base + "/digest=own-" + m.Desc, ht: ht, digest: m.Data, data: data})
				})
			} else {
				enum.ByteSubst(own, nil, func(m enum.Mut) {
					add(hcase{desc: base + "/digest=own-" + m.Desc, ht: ht, digest: m.Data, data: data})
				})
			}
		}
	}
	verify(hcase{desc: "nil-receiver/data=empty", nilRecv: true, data: nil})
	verify(hcase{desc: "nil-receiver/data=1", nilRecv: true, data: []byte{1}})

	// ---------- part B: Sum ----------
	for _, n := range sizes {
		data := pattern(n)
		for _, ht := range types {
			key := fmt.Sprintf("data%d/type=%d", n, ht)
			var h *hash.Hash
			var raw []byte
			var err, rerr error
			if p := enum.Try(func() {
				h, err = hash.Sum(hash.HashType(ht), data)
				raw, rerr = hash.HashType(ht).Sum(data)
			}); p != nil {
				acc.Case("sum", key, true, "panic")
				run.Violation("panic/sum", fmt.Sprintf("Sum panicked on %s: %v", key, p), key)
				continue
			}
			if known(ht) {
				want, _ := ref.Digest(ht, data)
				if err != nil || rerr != nil || int32(h.GetHashType()) != ht || !bytes.Equal(h.GetHash(), want) || !bytes.Equal(raw, want) {
					acc.Case("sum", key, true, "WRONG digest")
					run.Violation("sum/wrong-digest", fmt.Sprintf("Sum(%s) = (type %d, %x, err %v / %v); the reference digest is %x", key, h.GetHashType(), h.GetHash(), err, rerr, want), key)
				} else {
					acc.Case("sum", key, true, "digest equals reference")
				}
				continue
			}
			if err != nil && rerr != nil {
				acc.Case("sum", key, true, "unknown type refused")
				continue
			}
			// an unknown type that Sum accepts must at least not produce a hash that verifies / validates
			acc.Case("sum", key, true, "unknown type ACCEPTED")
			if err == nil {
				verify(hcase{desc: key + "/result-of-Sum", ht: int32(h.GetHashType()), digest: h.GetHash(), data: data})
			} else {
				verify(hcase{desc: key + "/result-of-HashType.Sum", ht: ht, digest: raw, data: data})
			}
		}
	}

	// ---------- part C: CompareHash ----------
	{
		data := pattern(64)
		var menu []hcase
		for _, ht := range []int32{0, 1, 2, 3, 4, -1} {
			menu = append(menu, hcase{desc: fmt.Sprintf("t%d/nil", ht), ht: ht}, hcase{desc: fmt.Sprintf("t%d/empty", ht), ht: ht, digest: []byte{}})
			for _, a := range []int32{1, 2, 3} {
				d, _ := ref.Digest(a, data)
				f0 := append([]byte{}, d...)
				f0[0] ^= 1
				fl := append([]byte{}, d...)
				fl[len(fl)-1] ^= 0x80
				menu = append(menu,
					hcase{desc: fmt.Sprintf("t%d/alg%d", ht, a), ht: ht, digest: d},
					hcase{desc: fmt.Sprintf("t%d/alg%d^first", ht, a), ht: ht, digest: f0},
					hcase{desc: fmt.Sprintf("t%d/alg%d^last", ht, a), ht: ht, digest: fl},
					hcase{desc: fmt.Sprintf("t%d/alg%d-1", ht, a), ht: ht, digest: d[:len(d)-1]},
					hcase{desc: fmt.Sprintf("t%d/alg%d+0", ht, a), ht: ht, digest: append(append([]byte{}, d...), 0)},
				)
			}
		}
		for i, a := range menu {
			for j, b := range menu {
				key := a.desc + "~" + b.desc
				ha := hash.NewHash(hash.HashType(a.ht), a.digest)
				hb := hash.NewHash(hash.HashType(b.ht), b.digest)
				var got bool
				if p := enum.Try(func() { got = ha.CompareHash(hb) }); p != nil {
					acc.Case("compare", key, i != j, "panic")
					run.Violation("panic/compare", fmt.Sprintf("CompareHash panicked on %s: %v", key, p), key)
					continue
				}
				want := a.ht == b.ht && bytes.Equal(a.digest, b.digest)
				o := "different"
				if got {
					o = "equal"
				}
				acc.Case("compare", key, i != j, o)
				if got && !want {
					run.Violation("compare/equal-for-different-hashes", fmt.Sprintf("CompareHash(%s) = true although type or digest differ", key), key)
				}
				if !got && want {
					run.Violation("compare/different-for-equal-hashes", fmt.Sprintf("CompareHash(%s) = false although type and digest are equal", key), key)
				}
			}
		}
		for _, p := range []func(){func() { (*hash.Hash)(nil).CompareHash(nil) }, func() { (*hash.Hash)(nil).CompareHash(&hash.Hash{}) }, func() { (&hash.Hash{}).CompareHash(nil) }} {
			if pv := enum.Try(p); pv != nil {
				run.Violation("panic/compare", fmt.Sprintf("CompareHash with a nil operand panicked: %v", pv), "nil-operand")
			}
		}
	}

	// ---------- part D: encodings of every enumerated hash ----------
	same := func(h *hash.Hash, c hcase) bool {
		return int32(h.GetHashType()) == c.ht && bytes.Equal(h.GetHash(), c.digest)
	}
	kind := func(c hcase) string {
		switch {
		case c.ht == 0 && len(c.digest) == 0:
			return "empty-hash"
		case known(c.ht):
			return "known-type"
		default:
			return "unknown-type"
		}
	}
	for _, c := range all {
		h := hash.NewHash(hash.HashType(c.ht), c.digest)
		key := c.desc
		var bin, dg []byte
		var str string
		var jb []byte
		var merr, jerr error
		if p := enum.Try(func() {
			bin, merr = h.MarshalVT()
			dg = h.MarshalDigest()
			str = h.MarshalString()
			jb, jerr = h.MarshalJSON()
		}); p != nil {
			acc.Case("encode", key, !c.fixture, "panic")
			run.Violation("panic/marshal", fmt.Sprintf("marshalling %s panicked: %v", key, p), key)
			continue
		}
		// binary
		if merr != nil {
			acc.Case("encode-binary", key, !c.fixture, "marshal error")
			run.Violation("binary/marshal-error/"+kind(c), fmt.Sprintf("MarshalVT failed for %s: %v", key, merr), key)
		} else {
			rt, rd, rerr := refDecode(bin)
			h2 := &hash.Hash{}
			var uerr error
			if p := enum.Try(func() {
				// decode from a buffer the caller owns and overwrites afterwards:
				// the decoded hash must own its bytes
				own := append([]byte{}, bin...)
				uerr = h2.UnmarshalVT(own)
				for i := range own {
					own[i] = 0xAA
				}
			}); p != nil {
				run.Violation("panic/unmarshal", fmt.Sprintf("UnmarshalVT panicked on the encoding of %s: %v", key, p), key)
				continue
			}
			switch {
			case uerr != nil:
				acc.Case("encode-binary", key, !c.fixture, "round trip FAILS")
				run.Violation("binary/roundtrip-fails/"+kind(c), fmt.Sprintf("UnmarshalVT rejects the MarshalVT encoding of %s: %v", key, uerr), key)
			case !same(h2, c):
				acc.Case("encode-binary", key, !c.fixture, "round trip CHANGES the hash")
				run.Violation("binary/roundtrip-changes-hash/"+kind(c), fmt.Sprintf("%s came back from MarshalVT/UnmarshalVT as type %d digest %x", key, h2.GetHashType(), h2.GetHash()), key)
			case rerr != nil || rt != c.ht || !bytes.Equal(rd, c.digest):
				acc.Case("encode-binary", key, !c.fixture, "encoding NOT the hash.proto message")
				run.Violation("binary/encoding-not-hash-proto/"+kind(c), fmt.Sprintf("MarshalVT(%s) = %x; an independent protobuf parser reads type %d digest %x err %v", key, bin, rt, rd, rerr), key)
			default:
				acc.Case("encode-binary", key, !c.fixture, "round trip identical")
			}
			if !bytes.Equal(dg, bin) {
				run.Violation("binary/marshal-digest-differs", fmt.Sprintf("MarshalDigest(%s) = %x differs from MarshalVT %x", key, dg, bin), key)
			}
		}
		// base58
		{
			dec, ok := b58Decode(str)
			h3 := &hash.Hash{}
			var perr error
			if p := enum.Try(func() { perr = h3.ParseFromB58(str) }); p != nil {
				run.Violation("panic/parse-b58", fmt.Sprintf("ParseFromB58 panicked on the encoding of %s: %v", key, p), key)
				continue
			}
			switch {
			case !ok || !bytes.Equal(dec, bin):
				acc.Case("encode-base58", key, !c.fixture, "string NOT base58 of the binary form")
				run.Violation("base58/string-not-base58-of-binary/"+kind(c), fmt.Sprintf("MarshalString(%s) = %q does not decode (independent base58 decoder) to the binary encoding %x", key, str, bin), key)
			case perr != nil:
				acc.Case("encode-base58", key, !c.fixture, "round trip FAILS ("+kind(c)+")")
				run.Violation("base58/roundtrip-fails/"+kind(c), fmt.Sprintf("ParseFromB58 rejects MarshalString(%s) = %q: %v", key, str, perr), key)
			case !same(h3, c):
				acc.Case("encode-base58", key, !c.fixture, "round trip CHANGES the hash")
				run.Violation("base58/roundtrip-changes-hash/"+kind(c), fmt.Sprintf("%s came back from MarshalString/ParseFromB58 as type %d digest %x", key, h3.GetHashType(), h3.GetHash()), key)
			default:
				acc.Case("encode-base58", key, !c.fixture, "round trip identical")
			}
		}
		// JSON: not named by the property; only totality is judged, the outcome is recorded
		{
			var h4 *hash.Hash
			var uerr error
			if p := enum.Try(func() {
				if jerr == nil {
					h4, uerr = hash.UnmarshalHashJSON(jb)
				}
			}); p != nil {
				run.Violation("panic/json", fmt.Sprintf("UnmarshalHashJSON panicked on the encoding of %s: %v", key, p), key)
				continue
			}
			switch {
			case jerr != nil || uerr != nil:
				acc.Case("encode-json", key, !c.fixture, "error (recorded only)")
			case !same(h4, c):
				acc.Case("encode-json", key, !c.fixture, "round trip changes the hash (recorded only)")
			default:
				acc.Case("encode-json", key, !c.fixture, "round trip identical")
			}
		}
	}

	// ---------- part E: arbitrary input to the decoders ----------
	decodeBin := func(group, key string, x []byte) {
		h := &hash.Hash{}
		var uerr error
		if p := enum.Try(func() { uerr = h.UnmarshalVT(x) }); p != nil {
			acc.Case(group, key, true, "panic")
			run.Violation("panic/unmarshal", fmt.Sprintf("UnmarshalVT panicked on %s = %x: %v", key, x, p), key)
			return
		}
		// the base58 path must agree with the binary path on the same bytes
		if len(x) > 0 {
			hb := &hash.Hash{}
			var perr error
			s := b58Encode(x)
			if p := enum.Try(func() { perr = hb.ParseFromB58(s) }); p != nil {
				run.Violation("panic/parse-b58", fmt.Sprintf("ParseFromB58 panicked on %s = %q: %v", key, s, p), key)
				return
			}
			if (perr == nil) != (uerr == nil) || (perr == nil && (hb.GetHashType() != h.GetHashType() || !bytes.Equal(hb.GetHash(), h.GetHash()))) {
				run.Violation("base58/parse-disagrees-with-binary", fmt.Sprintf("%s: UnmarshalVT(%x) -> (type %d, %x, err %v) but ParseFromB58(%q) -> (type %d, %x, err %v)", key, x, h.GetHashType(), h.GetHash(), uerr, s, hb.GetHashType(), hb.GetHash(), perr), key)
			}
		}
		if uerr != nil {
			acc.Case(group, key, true, "rejected")
			return
		}
		rt, rd, rerr := refDecode(x)
		switch {
		case rerr == ref.ErrUndecided:
			acc.Case(group, key, true, "decoded (reference undecided)")
		case rerr != nil:
			acc.Case(group, key, true, "decoded although the reference parser calls it malformed (recorded only)")
		case rt != int32(h.GetHashType()) || !bytes.Equal(rd, h.GetHash()):
			acc.Case(group, key, true, "decoded to a DIFFERENT hash than the reference")
			run.Violation("binary/decodes-to-wrong-hash", fmt.Sprintf("%s: UnmarshalVT(%x) = (type %d, %x); an independent protobuf parser reads (type %d, %x)", key, x, h.GetHashType(), h.GetHash(), rt, rd), key)
		default:
			acc.Case(group, key, true, "decoded, equals reference")
		}
		// what was decoded survives another binary round trip
		var again []byte
		h2 := &hash.Hash{}
		var e1, e2 error
		if p := enum.Try(func() {
			again, e1 = h.MarshalVT()
			if e1 == nil {
				e2 = h2.UnmarshalVT(again)
			}
		}); p != nil {
			run.Violation("panic/marshal", fmt.Sprintf("re-encoding the hash decoded from %s panicked: %v", key, p), key)
			return
		}
		if e1 != nil || e2 != nil || h2.GetHashType() != h.GetHashType() || !bytes.Equal(h2.GetHash(), h.GetHash()) {
			run.Violation("binary/roundtrip-changes-hash/decoded-input", fmt.Sprintf("%s: hash (type %d, %x) decoded from %x does not survive MarshalVT/UnmarshalVT (got type %d, %x, err %v/%v)", key, h.GetHashType(), h.GetHash(), x, h2.GetHashType(), h2.GetHash(), e1, e2), key)
		}
	}
	decodeText := func(group, key, s string) {
		h := &hash.Hash{}
		var perr error
		if p := enum.Try(func() { perr = h.ParseFromB58(s) }); p != nil {
			acc.Case(group, key, true, "panic")
			run.Violation("panic/parse-b58", fmt.Sprintf("ParseFromB58 panicked on %s = %q: %v", key, s, p), key)
			return
		}
		if perr != nil {
			acc.Case(group, key, true, "rejected")
			return
		}
		dec, ok := b58Decode(s)
		if !ok {
			acc.Case(group, key, true, "ACCEPTED non-base58 text")
			run.Violation("base58/accepts-non-base58-text", fmt.Sprintf("ParseFromB58(%q) returned nil (type %d, %x) although the text is not base58", s, h.GetHashType(), h.GetHash()), key)
			return
		}
		hb := &hash.Hash{}
		uerr := hb.UnmarshalVT(dec)
		if uerr != nil || hb.GetHashType() != h.GetHashType() || !bytes.Equal(hb.GetHash(), h.GetHash()) {
			acc.Case(group, key, true, "accepted, DISAGREES with binary decoding")
			run.Violation("base58/parse-disagrees-with-binary", fmt.Sprintf("ParseFromB58(%q) -> (type %d, %x) but the text is base58 of %x which UnmarshalVT reads as (type %d, %x, err %v)", s, h.GetHashType(), h.GetHash(), dec, hb.GetHashType(), hb.GetHash(), uerr), key)
			return
		}
		acc.Case(group, key, true, "accepted, agrees with binary decoding")
	}

	wvals := []byte{0x00, 0x01, 0x02, 0x08, 0x0a, 0x10, 0x12, 0x14, 0x1a, 0x20, 0x21, 0x7f, 0x80, 0xff}
	if !quick {
		wvals = nil
	}
	for _, n := range []int{0, 64} {
		data := pattern(n)
		for _, ht := range []int32{1, 2, 3, -1} {
			a := ht
			if !known(a) {
				a = 3
			}
			d, _ := ref.Digest(a, data)
			wire := refEncode(ht, d)
			base := fmt.Sprintf("wire(data%d,type=%d)", n, ht)
			decodeBin("decode-binary", base+"/valid", wire)
			f := func(m enum.Mut) { decodeBin("decode-binary", base+"/"+m.Desc, m.Data) }
			enum.ByteSubst(wire, wvals, f)
			enum.Truncations(wire, f)
			enum.Extensions(wire, wvals, f)
			// repeated fields: last one wins
			decodeBin("decode-binary", base+"/type-repeated", append(append([]byte{}, wire...), 0x08, 0x02))
			decodeBin("decode-binary", base+"/digest-repeated", append(append([]byte{}, wire...), 0x12, 0x01, 0x55))
			decodeBin("decode-binary", base+"/unknown-field", append(append([]byte{}, wire...), 0x18, 0x07))

			text := b58Encode(wire)
			tbase := fmt.Sprintf("text(data%d,type=%d)", n, ht)
			decodeText("decode-base58", tbase+"/valid", text)
			g := func(m enum.Mut) { decodeText("decode-base58", tbase+"/"+m.Desc, string(m.Data)) }
			enum.ByteSubst([]byte(text), []byte("0OIl1zZ2 +/_-=\x00\x7f\x80\xff"), g)
			enum.Truncations([]byte(text), g)
			enum.Extensions([]byte(text), []byte("0OIl1z \n"), g)
		}
	}
	alpha := []byte{0x00, 0x01, 0x02, 0x08, 0x0a, 0x10, 0x12, 0x1a, 0x7f, 0x80, 0xff}
	maxLen := 3
	if !quick {
		maxLen = 4
	}
	enum.Strings(alpha, maxLen, func(s []byte) {
		decodeBin("decode-binary-short", fmt.Sprintf("%x", s), append([]byte{}, s...))
	})
	enum.Strings([]byte("1z0Ol +"), maxLen, func(s []byte) {
		decodeText("decode-base58-short", fmt.Sprintf("%q", string(s)), string(s))
	})
	for _, js := range []string{``, `{}`, `null`, `{"hashType":0}`, `{"hashType":4,"hash":"AA=="}`, `{"hashType":"HashType_SHA256"}`, `{"hashType":"nope"}`, `{"hash":"!!"}`, `{"hash":5}`, `[`, `{"hashType":99999999999}`, `{"hash_type":1,"hash":""}`} {
		if p := enum.Try(func() { _, _ = hash.UnmarshalHashJSON([]byte(js)) }); p != nil {
			run.Violation("panic/json", fmt.Sprintf("UnmarshalHashJSON panicked on %q: %v", js, p), js)
		}
		acc.Case("decode-json", js, true, "no panic")
	}

	acc.Sample(map[string]any{"group": "verify", "case": all[0].desc, "type": all[0].ht, "digest_len": len(all[0].digest), "data_len": len(all[0].data)})
	acc.Sample(map[string]any{"group": "verify", "case": all[len(all)-1].desc, "type": all[len(all)-1].ht, "digest_hex": fmt.Sprintf("%x", all[len(all)-1].digest)})
	acc.Sample(map[string]any{"group": "decode-binary", "case": "wire(data0,type=1)/subst[0]=12", "meaning": "valid encoding of a SHA256 hash with the first tag byte replaced by 0x12"})
	acc.Finish()
	run.Cov["hash_values"] = len(all)
	run.Cov["alphabet"] = map[string]any{"data_sizes": sizes, "hash_types": types}
	run.Assumptions = append(run.Assumptions,
		"reference digests come from crypto/sha256, crypto/sha1 and zeebo/blake3 called directly; the protobuf reference parser and base58 codec are hand-written in the harness",
		"Validate is judged only in the stated direction (valid => known algorithm and right length); JSON is not named by the property and is only checked for totality",
		"arbitrary input is decided inside the deviation-1 ball around valid encodings plus all short strings over a boundary alphabet")
	run.Finish(t)
}
