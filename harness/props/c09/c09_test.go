package c09

import (
	"bytes"
	"context"
	"errors"
	"fmt"
	"io"
	"strings"
	"testing"

	"github.com/aperturerobotics/bifrost/util/rwc"

	"verifh/bytepipe"
	"verifh/evid"
	"verifh/mc"
	"verifh/vsync"
)

type addr string

func (a addr) Network() string { return "pipe" }
func (a addr) String() string  { return string(a) }

var errUnderlying = errors.New("underlying failure")

type scen struct {
	name   string
	writes []int
	rbuf   int
	mode   bytepipe.Mode
	endErr bool // underlying stream ends with an error instead of EOF
	// lastWithErr: the underlying Read hands over the final bytes together
	// with the end error (n > 0 and err != nil in one call)
	lastWithErr bool
}

func stream(writes []int) []byte {
	n := 0
	for _, w := range writes {
		n += w
	}
	b := make([]byte, n)
	for i := range b {
		b[i] = byte(i%251 + 1)
	}
	return b
}

func body(sc scen) func() {
	return func() {
		pipe := &bytepipe.Pipe{Mode: sc.mode, ErrWithLastData: sc.lastWithErr}
		back := &bytepipe.Pipe{}
		ctx, cancel := context.WithCancel(context.Background())
		defer cancel()
		rd := rwc.NewConn(ctx, &bytepipe.Duplex{R: pipe, W: back}, addr("r"), addr("w"), 2)
		wr := rwc.NewConn(ctx, &bytepipe.Duplex{R: back, W: pipe}, addr("w"), addr("r"), 2)
		s := stream(sc.writes)
		var wg vsync.WaitGroup
		wg.Add(2)
		vsync.GoNamed("writer", func() {
			defer wg.Done()
			off := 0
			for _, w := range sc.writes {
				n, err := wr.Write(s[off : off+w])
				if err != nil || n != w {
					vsync.Logf("write-failed n=%d err=%v", n, err)
				}
				off += w
			}
			if sc.endErr {
				pipe.CloseWith(errUnderlying)
			} else {
				pipe.CloseWith(io.EOF)
			}
		})
		vsync.GoNamed("reader", func() {
			defer wg.Done()
			buf := make([]byte, sc.rbuf)
			for k := 0; k < 4*len(s)+8; k++ {
				n, err := rd.Read(buf)
				switch {
				case err == nil:
					vsync.Logf("read %x", buf[:n])
				case err == io.ErrShortBuffer:
					vsync.Logf("read %x short", buf[:n])
				case err == io.EOF:
					vsync.Logf("end eof n=%d", n)
					return
				case errors.Is(err, errUnderlying):
					vsync.Logf("end underlying n=%d", n)
					return
				default:
					vsync.Logf("end other %v", err)
					return
				}
			}
			vsync.Logf("end never")
		})
		wg.Wait()
		if pipe.DataWithErr > 0 {
			vsync.Logf("underlying read returned data together with the end error")
		}
		_ = rd.Close()
		_ = wr.Close()
		cancel()
		vsync.Quiesce()
	}
}

func check(sc scen) func(x *vsync.Exec) string {
	s := stream(sc.writes)
	return func(x *vsync.Exec) string {
		if x.Deadlock {
			return "V09:deadlock"
		}
		if x.HorizonHit {
			return ""
		}
		pos := 0
		prevShort := false
		anyShort := false
		ended := ""
		for _, l := range x.Log {
			switch {
			case strings.HasPrefix(l, "write-failed"):
				return "V09:write-failed"
			case strings.HasPrefix(l, "read "):
				if ended != "" {
					return "V09:data-after-end"
				}
				f := strings.Fields(l)
				var got []byte
				short := false
				if len(f) > 1 && f[1] != "short" {
					fmt.Sscanf(f[1], "%x", &got)
					short = len(f) > 2
				} else {
					short = len(f) > 1 // a zero-length read prints no hex digits
				}
				if len(got) == 0 && !short {
					continue
				}
				start := -1
				if pos+len(got) <= len(s) && bytes.Equal(s[pos:pos+len(got)], got) {
					start = pos
				} else if prevShort {
					for k := pos; k+len(got) <= len(s); k++ {
						if bytes.Equal(s[k:k+len(got)], got) {
							start = k
							break
						}
					}
				}
				if start < 0 {
					return fmt.Sprintf("V09:bytes-lost-reordered-or-altered at=%d got=%x prev-short=%v", pos, trunc(got), prevShort)
				}
				pos = start + len(got)
				prevShort = short
				anyShort = anyShort || short
			case strings.HasPrefix(l, "end "):
				ended = strings.Fields(l)[1]
			}
		}
		switch ended {
		case "":
			return "V09:reader-never-finished"
		case "never", "other":
			return "V09:end-not-reported-as-eof-or-underlying-error " + ended
		case "eof":
			if sc.endErr {
				return "V09:underlying-error-reported-as-eof"
			}
		case "underlying":
			if !sc.endErr {
				return "V09:eof-reported-as-error"
			}
		}
		// offsets are identified by content; byte values repeat every 251 bytes, so
		// after a short-buffer gap in a long stream the offset is ambiguous: the
		// "all data delivered" clause is then only judged for short streams
		if pos != len(s) && !prevShort && (len(s) <= 251 || !anyShort) {
			return fmt.Sprintf("V09:end-reported-before-all-data delivered=%d of %d", pos, len(s))
		}
		return ""
	}
}

func trunc(b []byte) []byte {
	if len(b) > 8 {
		return b[:8]
	}
	return b
}

func scenarios(quick bool) []scen {
	s := []scen{
		{"w1,3,5/buf4096/explore", []int{1, 3, 5}, 4096, bytepipe.Explore, false, false},
		{"w5,3/buf4/explore", []int{5, 3}, 4, bytepipe.Explore, false, false},
		{"w3,5/buf2/full", []int{3, 5}, 2, bytepipe.Full, false, false},
		{"w5/buf1/onebyte", []int{5}, 1, bytepipe.OneByte, false, false},
		{"w1,3/buf4096/explore-err", []int{1, 3}, 4096, bytepipe.Explore, true, false},
		{"w3/buf2/full-err", []int{3}, 2, bytepipe.Full, true, false},
		{"w1,3/buf4096/full/eof-with-last-data", []int{1, 3}, 4096, bytepipe.Full, false, true},
		{"w3/buf2/full-err/err-with-last-data", []int{3}, 2, bytepipe.Full, true, true},
		{"w5,3/buf4/explore/eof-with-last-data", []int{5, 3}, 4, bytepipe.Explore, false, true},
		{"w2049/buf4096/full", []int{2049}, 4096, bytepipe.Full, false, false},
		{"w2049/buf4096/onebyte-head", []int{2049, 1}, 4096, bytepipe.Full, false, false},
		{"w5,5,5/buf4096/full", []int{5, 5, 5}, 4096, bytepipe.Full, false, false},
	}
	if !quick {
		s = append(s,
			scen{"w1,3,5/buf4/explore", []int{1, 3, 5}, 4, bytepipe.Explore, false, false},
			scen{"w5,5,5/buf4096/explore-err", []int{5, 5, 5}, 4096, bytepipe.Explore, true, false},
			scen{"w2049,3/buf4/full", []int{2049, 3}, 4, bytepipe.Full, false, false},
			scen{"w3,1,5/buf1/full", []int{3, 1, 5}, 1, bytepipe.Full, false, false},
		)
	}
	return s
}

func TestC09(t *testing.T) {
	run := evid.Start("C09", "model_checking")
	agg := mc.NewAgg(run)
	bound := 3
	if !run.Quick() {
		bound = 4
	}
	scens := scenarios(run.Quick())
	mc.RunScenarios(t, agg, len(scens), func(i int) *vsync.Config {
		sc := scens[i]
		return &vsync.Config{Name: sc.name, Bound: bound, Deadline: run.Deadline(), MaxStep: 20000, Body: body(sc), Check: check(sc),
			Observe: func(x *vsync.Exec) []string {
				for _, l := range x.Log {
					if strings.HasPrefix(l, "underlying read returned data together") {
						return []string{l}
					}
				}
				return nil
			}}
	}, func(v *vsync.Violation) string { return strings.Fields(v.What)[0] })
	agg.Finish(true)
	run.Cov["deviation_bound"] = bound
	run.Assumptions = append(run.Assumptions,
		"the underlying stream is an in-memory ordered byte pipe; in 'explore' mode every underlying Read may return any shorter length, each short read costing one unit of the deviation bound shared with preemptions",
		"byte values are position-derived (period 251), so a returned chunk identifies its stream offset")
	run.Finish(t)
}
