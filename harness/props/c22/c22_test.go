package c22

import (
	"testing"

	"verifh/evid"
	"verifh/mc"
	"verifh/sigh"
)

func scenarios(quick bool) []sigh.Scen {
	s := []sigh.Scen{
		// the sender itself opens a second call (usurping its first) / re-attaches while its message is still queued for the partner
		{"sender-usurps-with-message-queued", [][]string{{"attach:a1:A:B", "wait", "send:a1:m1", "attach:a2:A:B"}, {"attach:b1:B:A"}}},
		// the receiver's call is slow (blocked in Send) while a message is queued for it, and the receiver re-attaches
		{"receiver-usurps-with-message-pending", [][]string{{"attach:a1:A:B", "attachs:b1:B:A", "wait", "send:a1:m1", "wait", "attach:b2:B:A", "wait", "resume:b1"}}},
		// the partner re-attaches / usurps its call WHILE the sender's message is being handled (both wait for the session to be open first)
		{"a-sends-while-b-reattaches", [][]string{{"!setup", "attach:a1:A:B", "attach:b1:B:A", "wait"}, {"send:a1:m1"}, {"cancel:b1", "attach:b2:B:A"}}},
		{"a-sends-while-b-usurps", [][]string{{"!setup", "attach:a1:A:B", "attach:b1:B:A", "wait"}, {"send:a1:m1"}, {"attach:b2:B:A"}}},
		{"both-attach", [][]string{{"attach:a1:A:B"}, {"attach:b1:B:A"}}},
		{"b-reattach", [][]string{{"attach:a1:A:B"}, {"attach:b1:B:A", "cancel:b1", "attach:b2:B:A"}}},
		{"b-usurp", [][]string{{"attach:a1:A:B"}, {"attach:b1:B:A", "attach:b2:B:A"}}},
		{"b-detach", [][]string{{"attach:a1:A:B"}, {"attach:b1:B:A", "cancel:b1"}}},
		{"a-sends-b-reattach", [][]string{{"attach:a1:A:B", "wait", "send:a1:m1"}, {"attach:b1:B:A", "cancel:b1", "attach:b2:B:A"}}},
		{"stale-send", [][]string{{"attach:a1:A:B", "sende:a1:m1:2", "sende:a1:m2:1"}, {"attach:b1:B:A"}}},
	}
	if !quick {
		s = append(s,
			sigh.Scen{"sender-reattaches-with-message-queued", [][]string{{"attach:a1:A:B", "wait", "send:a1:m1", "cancel:a1", "attach:a2:A:B"}, {"attach:b1:B:A"}}},
			sigh.Scen{"a-sends-b-acks-reattach", [][]string{{"attach:a1:A:B", "wait", "send:a1:m1"}, {"attach:b1:B:A", "wait", "ack:b1:last", "cancel:b1", "attach:b2:B:A"}}},
			sigh.Scen{"both-reattach", [][]string{{"attach:a1:A:B", "cancel:a1", "attach:a2:A:B"}, {"attach:b1:B:A", "cancel:b1", "attach:b2:B:A"}}},
			sigh.Scen{"b-reattach-twice", [][]string{{"attach:a1:A:B", "wait", "send:a1:m1"}, {"attach:b1:B:A", "cancel:b1", "attach:b2:B:A", "cancel:b2", "attach:b3:B:A"}}},
			sigh.Scen{"send-both-ways-reattach", [][]string{{"attach:a1:A:B", "wait", "send:a1:m1", "ack:a1:last"}, {"attach:b1:B:A", "wait", "send:b1:n1", "cancel:b1", "attach:b2:B:A", "clear:b2:1"}}},
			sigh.Scen{"three-threads", [][]string{{"attach:a1:A:B", "wait", "send:a1:m1"}, {"attach:b1:B:A", "cancel:b1"}, {"attach:b2:B:A"}}},
		)
	}
	return s
}

func TestC22(t *testing.T) {
	run := evid.Start("C22", "model_checking")
	agg := mc.NewAgg(run)
	bound := 1
	if !run.Quick() {
		bound = 2
	}
	sigh.ExploreS1(t, run, agg, "V22:", scenarios(run.Quick()), bound)
	agg.Finish(true)
	agg.RequireTag("saw RecvMsg")
	agg.RequireTag("saw Closed")
	run.Cov["preemption_bound"] = bound
	run.Assumptions = append(run.Assumptions,
		"clients are harness script threads speaking the raw Session stream; streams are in-memory FIFOs (instrumented)",
		"oracle evaluated on the wire history and on the server's private state at quiescence; 'announced before dropped' is read as 'announced by quiescence' (the relay's drop and announce paths are asynchronous by design)")
	run.Finish(t)
}
