package c22

import (
	"strings"
	"testing"

	"verifh/evid"
	"verifh/mc"
	"verifh/sigh"
	"verifh/vsync"
)

type scen struct {
	name    string
	scripts [][]string
}

func scenarios(quick bool) []scen {
	s := []scen{
		{"both-attach", [][]string{{"attach:a1:A:B"}, {"attach:b1:B:A"}}},
		{"b-reattach", [][]string{{"attach:a1:A:B"}, {"attach:b1:B:A", "cancel:b1", "attach:b2:B:A"}}},
		{"b-usurp", [][]string{{"attach:a1:A:B"}, {"attach:b1:B:A", "attach:b2:B:A"}}},
		{"b-detach", [][]string{{"attach:a1:A:B"}, {"attach:b1:B:A", "cancel:b1"}}},
		{"a-sends-b-reattach", [][]string{{"attach:a1:A:B", "send:a1:m1"}, {"attach:b1:B:A", "cancel:b1", "attach:b2:B:A"}}},
		{"a-sends-b-acks-reattach", [][]string{{"attach:a1:A:B", "send:a1:m1"}, {"attach:b1:B:A", "ack:b1:last", "cancel:b1", "attach:b2:B:A"}}},
		{"stale-send", [][]string{{"attach:a1:A:B", "sende:a1:m1:2", "sende:a1:m2:1"}, {"attach:b1:B:A"}}},
	}
	if !quick {
		s = append(s,
			scen{"both-reattach", [][]string{{"attach:a1:A:B", "cancel:a1", "attach:a2:A:B"}, {"attach:b1:B:A", "cancel:b1", "attach:b2:B:A"}}},
			scen{"b-reattach-twice", [][]string{{"attach:a1:A:B", "send:a1:m1"}, {"attach:b1:B:A", "cancel:b1", "attach:b2:B:A", "cancel:b2", "attach:b3:B:A"}}},
			scen{"send-both-ways-reattach", [][]string{{"attach:a1:A:B", "send:a1:m1", "ack:a1:last"}, {"attach:b1:B:A", "send:b1:n1", "cancel:b1", "attach:b2:B:A", "clear:b2:1"}}},
			scen{"three-threads", [][]string{{"attach:a1:A:B", "send:a1:m1"}, {"attach:b1:B:A", "cancel:b1"}, {"attach:b2:B:A"}}},
		)
	}
	return s
}

func TestC22(t *testing.T) {
	run := evid.Start("C22", "model_checking")
	agg := mc.NewAgg(run)
	bound := 1
	if !run.Quick() {
		bound = 2
	}
	mc.RunScenarios(t, agg, len(scenarios(run.Quick())), func(i int) *vsync.Config {
		sc := scenarios(run.Quick())[i]
		return &vsync.Config{
			Name: "relay-s1/" + sc.name, Bound: bound, Deadline: run.Deadline(), MaxStep: 4000,
			Body: func() {
				w := sigh.NewWorld()
				w.RunScripts(sc.scripts)
				w.EvalQuiescent()
				w.Teardown()
			},
			Check: func(x *vsync.Exec) string {
				if x.Deadlock {
					return "V22:deadlock"
				}
				if x.HorizonHit {
					return ""
				}
				if v := sigh.Verdicts(x.Log, "V22:"); len(v) > 0 {
					return strings.Join(v, " ; ")
				}
				return ""
			},
		}
	}, func(v *vsync.Violation) string {
		seen := map[string]bool{}
		var ks []string
		for _, p := range strings.Split(v.What, " ; ") {
			if c := sigh.Class(p); !seen[c] {
				seen[c] = true
				ks = append(ks, c)
			}
		}
		return strings.Join(ks, " ; ")
	})
	agg.Finish(true)
	run.Cov["preemption_bound"] = bound
	run.Assumptions = append(run.Assumptions,
		"clients are harness script threads speaking the raw Session stream; streams are unbounded in-memory FIFOs (instrumented)",
		"oracle evaluated on the wire history and on the server's private state at quiescence; 'announced before dropped' is read as 'announced by quiescence' (the relay's drop and announce paths are asynchronous by design)")
	run.Finish(t)
}
