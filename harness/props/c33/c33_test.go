package c33

import (
	"context"
	"fmt"
	"io"
	"strings"
	"testing"

	"github.com/aperturerobotics/bifrost/link"
	link_holdopen_controller "github.com/aperturerobotics/bifrost/link/hold-open"
	"github.com/aperturerobotics/bifrost/peer"
	"github.com/sirupsen/logrus"

	"verifh/evid"
	"verifh/fakes"
	"verifh/mc"
	"verifh/vsync"
)

// An event is "+i" (link i added), "-i" (link i removed) or "D" (instance disposed).
// As on the real controllerbus, reference callbacks of one directive instance
// are delivered one after another by a single bus thread; the goroutines the
// handler spawns (AddReference / Release) interleave freely with later events.
func histories(nLinks, depth int) [][]string {
	var out [][]string
	var rec func(h []string, live map[int]bool)
	rec = func(h []string, live map[int]bool) {
		if len(h) > 0 {
			out = append(out, append([]string{}, h...))
		}
		if len(h) == depth {
			return
		}
		for i := 1; i <= nLinks; i++ {
			// symmetry: a link is introduced only after all lower-numbered ones were used
			if !live[i] {
				fresh := true
				for _, e := range h {
					if e == fmt.Sprintf("+%d", i) {
						fresh = false
					}
				}
				if fresh && i > 1 {
					used := false
					for _, e := range h {
						if e == fmt.Sprintf("+%d", i-1) {
							used = true
						}
					}
					if !used {
						continue
					}
				}
				live[i] = true
				rec(append(h, fmt.Sprintf("+%d", i)), live)
				delete(live, i)
			} else {
				delete(live, i)
				rec(append(h, fmt.Sprintf("-%d", i)), live)
				live[i] = true
			}
		}
		// dispose ends the history
		out = append(out, append(append([]string{}, h...), "D"))
	}
	rec(nil, map[int]bool{})
	return out
}

func body(hist []string) func() {
	return func() {
		le := logrus.New()
		le.SetOutput(io.Discard)
		c, _ := link_holdopen_controller.NewController(nil, logrus.NewEntry(le))
		inst := &fakes.Instance{Dir: link.NewEstablishLinkWithPeer("", peer.ID("remote"))}
		_, _ = c.HandleDirective(context.Background(), inst)
		if len(inst.Handlers) != 1 {
			vsync.Logf("handler-not-registered")
			return
		}
		h := inst.Handlers[0]
		live := 0
		disposed := false
		vals := map[string]*fakes.Value{}
		for _, ev := range hist {
			vsync.Yield("event " + ev)
			switch ev[0] {
			case '+':
				v := &fakes.Value{ID: uint32(ev[1] - '0'), Val: &fakes.MountedLink{UUID: uint64(ev[1] - '0'), Remote: "remote", Local: "local"}}
				vals[ev[1:]] = v
				live++
				h.HandleValueAdded(inst, v)
			case '-':
				live--
				h.HandleValueRemoved(inst, vals[ev[1:]])
			case 'D':
				disposed = true
				for _, hh := range inst.MarkDisposed() {
					hh.HandleInstanceDisposed(inst)
				}
			}
		}
		vsync.Quiesce()
		want := 0
		if live > 0 && !disposed {
			want = 1
		}
		strong, _, _ := inst.Snapshot()
		vsync.Logf("strong=%d want=%d live=%d disposed=%v", strong, want, live, disposed)
	}
}

func check(x *vsync.Exec) string {
	if x.Deadlock {
		return "deadlock"
	}
	if len(x.Log) == 0 {
		return "no observation"
	}
	last := x.Log[len(x.Log)-1]
	var strong, want, live int
	var disposed bool
	if _, err := fmt.Sscanf(last, "strong=%d want=%d live=%d disposed=%t", &strong, &want, &live, &disposed); err != nil {
		return "bad observation: " + last
	}
	if strong != want {
		return fmt.Sprintf("at quiescence the controller holds %d strong reference(s) with %d live link(s) (disposed=%v); expected %d", strong, live, disposed, want)
	}
	return ""
}

func TestC33(t *testing.T) {
	run := evid.Start("C33", "model_checking")
	agg := mc.NewAgg(run)
	nLinks, depth, bound := 3, 5, 2
	if !run.Quick() {
		nLinks, depth, bound = 3, 7, 3
	}
	hs := histories(nLinks, depth)
	mc.RunScenarios(t, agg, len(hs), func(i int) *vsync.Config {
		h := hs[i]
		name := "holdopen/" + strings.Join(h, ",")
		return &vsync.Config{Name: name, Bound: bound, Deadline: run.Deadline(), Body: body(h), Check: check}
	}, func(v *vsync.Violation) string {
		{
			// key: shape of the failure, independent of link numbering
			var strong, want, live int
			var disposed bool
			fmt.Sscanf(v.Log[len(v.Log)-1], "strong=%d want=%d live=%d disposed=%t", &strong, &want, &live, &disposed)
			switch {
			case strong > want && live == 0:
				return "strong-ref-leaked-with-no-links"
			case strong > want:
				return "extra-strong-ref-with-links"
			default:
				return "missing-strong-ref-with-links"
			}
		}
	})
	agg.Finish(true)
	run.Cov["histories"] = len(hs)
	run.Cov["preemption_bound"] = bound
	run.Cov["max_links"] = nLinks
	run.Cov["history_depth"] = depth
	run.Assumptions = append(run.Assumptions,
		"reference callbacks of one directive instance are delivered sequentially (as controllerbus v0.53.1 callCallbacksLocked does); AddReference/Release take the instance mutex",
		"fake directive.Instance counts references; scheduling points at lock/go/channel operations of link/hold-open")
	run.Finish(t)
}
