package c32

import (
	"bytes"
	"encoding/binary"
	"encoding/hex"
	"fmt"
	"sort"
	"strings"
	"testing"

	link_solicit "github.com/aperturerobotics/bifrost/link/solicit"
	"github.com/aperturerobotics/bifrost/peer"

	"verifh/enum"
	"verifh/evid"
)

// mh builds a well-formed multihash varint(code) ‖ varint(len) ‖ digest: the
// documented shape of every peer ID ("The raw bytes are a multihash").
func mh(code uint64, digest []byte) peer.ID {
	b := binary.AppendUvarint(nil, code)
	b = binary.AppendUvarint(b, uint64(len(digest)))
	return peer.ID(append(b, digest...))
}

type pid struct {
	name string
	id   peer.ID
}

// sortedLists returns every non-decreasing index sequence of length 0..maxLen
// over {0..k-1} (= every sorted list with duplicates allowed).
func sortedLists(k, maxLen int) [][]int {
	var out [][]int
	var rec func(cur []int, from int)
	rec = func(cur []int, from int) {
		out = append(out, append([]int{}, cur...))
		if len(cur) == maxLen {
			return
		}
		for i := from; i < k; i++ {
			rec(append(cur, i), i)
		}
	}
	rec(nil, 0)
	return out
}

func TestC32(t *testing.T) {
	run := evid.Start("C32", "exploration")
	acc := enum.NewAcc(run, "session id: every ordered pair of 10 well-formed peer IDs (4 Ed25519 key IDs + 6 hand-built multihashes that are byte-wise prefix/infix related), non-trivial = ordered pair with a != b, plus every two distinct unordered pairs compared for distinctness; intersection: every pair of sorted lists (duplicates allowed) of length <= L over each hash universe, each case on freshly allocated slices, non-trivial = at least one list non-empty; distinct by (group, indices)")

	// ---------- part A: session identifier ----------
	keys := enum.Keys(4)
	ids := []pid{}
	for i, k := range keys {
		ids = append(ids, pid{fmt.Sprintf("key%d", i+1), k.ID})
	}
	ids = append(ids,
		pid{"mh(00,'')", mh(0, nil)},
		pid{"mh(00,00)", mh(0, []byte{0})},
		pid{"mh(00,0000)", mh(0, []byte{0, 0})},
		pid{"mh(00,000100)", mh(0, []byte{0, 1, 0})},
		pid{"mh(00,'a')", mh(0, []byte("a"))},
		pid{"mh(12,32x00)", mh(0x12, make([]byte, 32))},
	)
	for _, p := range ids {
		if _, err := peer.IDFromBytes([]byte(p.id)); err != nil {
			evid.Fatal("fixture %s is not a well-formed peer ID: %v", p.name, err)
		}
	}
	n := len(ids)
	sess := make([][]string, n)
	for i := range ids {
		sess[i] = make([]string, n)
		for j := range ids {
			var s []byte
			key := fmt.Sprintf("%d,%d", i, j)
			if p := enum.Try(func() { s = link_solicit.ComputeSessionID(ids[i].id, ids[j].id) }); p != nil {
				acc.Case("session-sym", key, i != j, "panic")
				run.Violation("panic/session-id", fmt.Sprintf("ComputeSessionID(%s,%s) panicked: %v", ids[i].name, ids[j].name, p), key)
				continue
			}
			sess[i][j] = string(s)
		}
	}
	for i := range ids {
		for j := range ids {
			key := fmt.Sprintf("%d,%d", i, j)
			same := sess[i][j] == sess[j][i]
			out := "same-both-ends"
			if !same {
				out = "differs-by-side"
				run.Violation("session-id-depends-on-side", fmt.Sprintf("ComputeSessionID(%s,%s)=%x but ComputeSessionID(%s,%s)=%x", ids[i].name, ids[j].name, sess[i][j], ids[j].name, ids[i].name, sess[j][i]), map[string]string{"a": hex.EncodeToString([]byte(ids[i].id)), "b": hex.EncodeToString([]byte(ids[j].id))})
			}
			acc.Case("session-sym", key, i != j, out)
		}
	}
	// distinctness over unordered pairs (a<=b)
	type up struct{ i, j int }
	var ups []up
	for i := 0; i < n; i++ {
		for j := i; j < n; j++ {
			ups = append(ups, up{i, j})
		}
	}
	for x := 0; x < len(ups); x++ {
		for y := x + 1; y < len(ups); y++ {
			a, b := ups[x], ups[y]
			key := fmt.Sprintf("{%d,%d}|{%d,%d}", a.i, a.j, b.i, b.j)
			if sess[a.i][a.j] == sess[b.i][b.j] {
				acc.Case("session-distinct", key, true, "collide")
				run.Violation("session-id-collision", fmt.Sprintf("peer pairs {%s,%s} and {%s,%s} get the same session id %x", ids[a.i].name, ids[a.j].name, ids[b.i].name, ids[b.j].name, sess[a.i][a.j]), key)
			} else {
				acc.Case("session-distinct", key, true, "distinct")
			}
		}
	}
	acc.Sample(map[string]any{"group": "session-sym", "a": ids[0].name, "b": ids[5].name, "session": hex.EncodeToString([]byte(sess[0][5]))})
	acc.Sample(map[string]any{"group": "session-distinct", "pairs": "{mh(00,''),mh(00,000100)} vs {mh(00,00),mh(00,00)}", "note": "byte-wise infix-related well-formed IDs"})

	// Observation only (not judged): strings that are not multihashes cannot be
	// the peer ID of an authenticated link; their concatenations are ambiguous.
	raw := []peer.ID{"a", "ab", "abc", "b", "bc", "c"}
	seen := map[string]string{}
	rawColl := []string{}
	for i := range raw {
		for j := i; j < len(raw); j++ {
			s := string(link_solicit.ComputeSessionID(raw[i], raw[j]))
			k := fmt.Sprintf("{%s,%s}", string(raw[i]), string(raw[j]))
			if o, ok := seen[s]; ok {
				rawColl = append(rawColl, o+"="+k)
			} else {
				seen[s] = k
			}
		}
	}
	run.Cov["unjudged_raw_string_id_collisions"] = rawColl

	// ---------- part B: FindMatchingHashes ----------
	h32 := func(first, last byte) []byte { b := make([]byte, 32); b[0], b[31] = first, last; return b }
	universes := []struct {
		name string
		u    [][]byte
	}{
		{"h32", [][]byte{h32(0, 0), h32(0, 1), h32(1, 0), h32(0xff, 0xff), h32(0xff, 0xfe)}},
		{"varlen", [][]byte{{}, {0}, {0, 0}, {1}, {0, 1}}},
	}
	k, maxLen := 4, 4
	if !run.Quick() {
		k, maxLen = 5, 5
	}
	for _, U := range universes {
		u := append([][]byte{}, U.u[:k]...)
		sort.Slice(u, func(i, j int) bool { return bytes.Compare(u[i], u[j]) < 0 })
		lists := sortedLists(k, maxLen)
		mk := func(ix []int) [][]byte {
			if len(ix) == 0 {
				return nil
			}
			out := make([][]byte, len(ix))
			for i, x := range ix {
				out[i] = append(make([]byte, 0, len(u[x])+1), u[x]...) // fresh, private storage
			}
			return out
		}
		for li, la := range lists {
			for ri, lb := range lists {
				key := fmt.Sprintf("%s/%v|%v", U.name, la, lb)
				_ = li
				_ = ri
				local, remote := mk(la), mk(lb)
				var got [][]byte
				if p := enum.Try(func() { got = link_solicit.FindMatchingHashes(local, remote) }); p != nil {
					acc.Case("intersect/"+U.name, key, true, "panic")
					run.Violation("panic/find-matching", fmt.Sprintf("FindMatchingHashes panicked on %s: %v", key, p), key)
					continue
				}
				// reference: set intersection by content
				inA, inB := map[string]bool{}, map[string]bool{}
				for _, x := range la {
					inA[string(u[x])] = true
				}
				for _, x := range lb {
					inB[string(u[x])] = true
				}
				want := map[string]bool{}
				for s := range inA {
					if inB[s] {
						want[s] = true
					}
				}
				gotSet := map[string]bool{}
				snapshot := make([]string, len(got))
				sorted := true
				for i, g := range got {
					gotSet[string(g)] = true
					snapshot[i] = string(g)
					if i > 0 && bytes.Compare(got[i-1], g) > 0 {
						sorted = false
					}
				}
				out := fmt.Sprintf("match=%d", len(want))
				acc.Case("intersect/"+U.name, key, len(la)+len(lb) > 0, out)
				rep := map[string]any{"universe": U.name, "local": la, "remote": lb}
				for s := range gotSet {
					if !want[s] {
						run.Violation("intersection/extra-element", fmt.Sprintf("FindMatchingHashes(%s) returned %x which is not in both lists", key, s), rep)
					}
				}
				for s := range want {
					if !gotSet[s] {
						run.Violation("intersection/missing-element", fmt.Sprintf("FindMatchingHashes(%s) omitted %x which is in both lists", key, s), rep)
					}
				}
				if !sorted {
					run.Violation("intersection/not-in-order", fmt.Sprintf("FindMatchingHashes(%s) result is not in sorted order", key), rep)
				}
				// independence from later changes to the inputs: overwrite and
				// extend-in-place every input element, then compare.
				for _, l := range [][][]byte{local, remote} {
					for i := range l {
						for j := range l[i] {
							l[i][j] ^= 0xff
						}
						l[i] = append(l[i], 0xee)
						l[i] = nil
					}
				}
				for i, g := range got {
					if string(g) != snapshot[i] {
						run.Violation("intersection/aliases-input", fmt.Sprintf("FindMatchingHashes(%s): matched hash %d changed from %x to %x after the inputs were overwritten", key, i, snapshot[i], g), rep)
					}
				}
			}
		}
		acc.Sample(map[string]any{"group": "intersect/" + U.name, "universe": hexAll(u), "lists_per_side": len(lists), "example": "local=[0 0 2] remote=[0 2 2 3] -> want set {0,2}"})
	}
	acc.Finish()
	run.Cov["alphabet"] = map[string]any{"peer_ids": names(ids), "hash_universe_size": k, "max_list_len": maxLen}
	run.Cov["bound"] = fmt.Sprintf("10 peer IDs; sorted lists of length <= %d over %d hashes, two universes", maxLen, k)
	run.Assumptions = append(run.Assumptions,
		"peer IDs are well-formed multihashes (peer.IDFromBytes accepts them), as every key-derived ID on a link is; arbitrary non-multihash strings are only observed (coverage.unjudged_raw_string_id_collisions), not judged",
		"inputs to FindMatchingHashes are sorted (its documented precondition); a result containing a shared hash more than once is accepted because the statement compares the result as a set",
	)
	run.Finish(t)
}

func names(ids []pid) []string {
	var o []string
	for _, p := range ids {
		o = append(o, p.name)
	}
	return o
}

func hexAll(u [][]byte) string {
	var o []string
	for _, b := range u {
		o = append(o, hex.EncodeToString(b))
	}
	return strings.Join(o, ",")
}
