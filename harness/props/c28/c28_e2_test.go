package c28

import (
	"context"
	"fmt"
	"io"
	"strings"
	"testing"
	"time"

	"github.com/aperturerobotics/bifrost/pubsub"
	"github.com/aperturerobotics/bifrost/pubsub/floodsub"
	"github.com/aperturerobotics/bifrost/pubsub/util/pubmessage"
	"github.com/sirupsen/logrus"

	"verifh/bytepipe"
	"verifh/enum"
	"verifh/evid"
	"verifh/fakes"
	"verifh/mc"
	"verifh/ref"
	"verifh/vsync"
)

// Burst over a stalled link, under the controlled scheduler (in a plain bubble
// a router blocked on back-pressure holds a mutex other goroutines then wait
// for, which a bubble cannot see as "blocked"). One real router with a local
// subscription and one peer P subscribed to the channel; P stops draining its
// stream (the node's writes block, nothing is lost); the node publishes K
// messages from its own goroutine - as far as back-pressure lets it -; P drains
// again. Every one of the K messages must have been written to P exactly once.
func burstBody(k int) func() {
	return func() {
		lg := logrus.New()
		lg.SetOutput(io.Discard)
		ks := enum.Keys(2)
		ctx, cancel := context.WithCancel(context.Background())
		ps, err := floodsub.NewFloodSub(ctx, logrus.NewEntry(lg), nil, &floodsub.Config{})
		if err != nil {
			vsync.Logf("BROKEN %v", err)
			cancel()
			return
		}
		defer floodsub.VerifStopJanitor(ps)
		fs := ps.(*floodsub.FloodSub)
		var wg vsync.WaitGroup
		wg.Add(1)
		vsync.GoNamed("router", func() { defer wg.Done(); _ = fs.Execute(ctx) })
		toPeer, fromPeer := &bytepipe.Pipe{}, &bytepipe.Pipe{}
		strm := &fakes.Stream{Name: "to-P", ReadFn: fromPeer.Read, WriteFn: toPeer.Write}
		strm.OnClose = func() { fromPeer.CloseWith(io.EOF); toPeer.Resume() }
		lnk := &fakes.MountedLink{UUID: 1, Local: ks[0].ID, Remote: ks[1].ID}
		fs.AddPeerStream(pubsub.PeerLinkTuple{PeerID: ks[1].ID, LinkID: 1}, false, &fakes.MountedStream{Strm: strm, Proto: floodsub.FloodSubID, Peer: ks[1].ID, Link: lnk})
		sp, _ := (&floodsub.Packet{Subscriptions: []*floodsub.SubscriptionOpts{{ChannelId: chanID, Subscribe: true}}}).MarshalVT()
		_, _ = fromPeer.Write(ref.Frame(sp))
		if _, err := fs.AddSubscription(ctx, ks[0].Priv, chanID); err != nil {
			vsync.Logf("BROKEN %v", err)
		}
		settle := func() {
			// Quiesce returns as soon as nothing else can run; the router's evaluation
			// timer needs virtual time to pass as well
			vsync.Quiesce()
			time.Sleep(300 * time.Millisecond)
			vsync.Quiesce()
		}
		settle()
		toPeer.Stall()
		wg.Add(1)
		vsync.GoNamed("publisher", func() {
			defer wg.Done()
			for i := 1; i <= k; i++ {
				if err := fs.Publish(ctx, chanID, ks[0].Priv, []byte(fmt.Sprintf("m%d", i))); err != nil {
					vsync.Logf("publish-error m%d", i)
					return
				}
			}
			vsync.Logf("publisher done")
		})
		settle() // the publisher got as far as back-pressure lets it
		toPeer.Resume()
		settle()
		settle()
		// what P was sent
		df := &ref.Deframer{}
		n := 0
		for _, fr := range df.Push(toPeer.Buffered()) {
			pkt := &floodsub.Packet{}
			if pkt.UnmarshalVT(fr) != nil {
				vsync.Logf("undecodable packet")
				continue
			}
			for _, m := range pkt.GetPublish() {
				in := &pubmessage.PubMessageInner{}
				_ = in.UnmarshalVT(m.GetData())
				vsync.Logf("wire %s", string(in.GetData()))
				n++
			}
		}
		vsync.Logf("wire-total %d", n)
		cancel()
		fromPeer.CloseWith(io.EOF)
		toPeer.Resume()
		wg.Wait()
		vsync.Quiesce()
	}
}

func burstCheck(k int) func(x *vsync.Exec) string {
	return func(x *vsync.Exec) string {
		if x.HorizonHit {
			return ""
		}
		if x.Deadlock {
			return "burst/deadlock"
		}
		got := map[string]int{}
		done := false
		for _, l := range x.Log {
			switch {
			case strings.HasPrefix(l, "BROKEN"):
				return ""
			case strings.HasPrefix(l, "wire "):
				got[strings.TrimPrefix(l, "wire ")]++
			case l == "publisher done":
				done = true
			}
		}
		if !done {
			return "burst/publisher-never-finished"
		}
		var missing, dup []string
		for i := 1; i <= k; i++ {
			m := fmt.Sprintf("m%d", i)
			switch got[m] {
			case 0:
				missing = append(missing, m)
			case 1:
			default:
				dup = append(dup, m)
			}
		}
		if len(missing) > 0 {
			return fmt.Sprintf("not-delivered/burst-over-stalled-link %d of %d published messages were never written to the subscribed peer once its stream drained again: %v", len(missing), k, missing)
		}
		if len(dup) > 0 {
			return fmt.Sprintf("duplicate-delivery/burst-over-stalled-link written more than once: %v", dup)
		}
		return ""
	}
}

func exploreBursts(t *testing.T, run *evid.Run, agg *mc.Agg) {
	ks := []int{1, 2, 20, 31, 32, 33, 34, 35, 40, 66}
	if !run.Quick() {
		ks = append(ks, 100, 200)
	}
	mc.RunScenarios(t, agg, len(ks), func(i int) *vsync.Config {
		k := ks[i]
		// delay bounding: with bound 0 exactly the canonical schedule runs (every free
		// switch at a blocking point would otherwise be explored: > 70 k executions for
		// these long runs); the enumeration here is over the burst size
		bound := 0
		if !run.Quick() && k <= 34 {
			bound = 1
		}
		return &vsync.Config{Name: fmt.Sprintf("burst-over-stalled-link/%d-messages", k), Bound: bound, Delay: true, Deadline: run.Deadline(), MaxStep: 200000, Horizon: 10 * time.Second, Body: burstBody(k), Check: burstCheck(k),
			Observe: func(x *vsync.Exec) []string { return []string{"burst executed"} }}
	}, func(v *vsync.Violation) string { return strings.Fields(v.What)[0] })
}
