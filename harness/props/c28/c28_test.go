package c28

import (
	"context"
	"encoding/json"
	"fmt"
	"io"
	"os"
	"os/exec"
	"path/filepath"
	"runtime"
	"runtime/debug"
	"sort"
	"strings"
	"sync"
	"testing"
	"testing/synctest"
	"time"

	"github.com/aperturerobotics/bifrost/pubsub"
	"github.com/aperturerobotics/bifrost/pubsub/floodsub"
	"github.com/aperturerobotics/bifrost/pubsub/util/pubmessage"
	"github.com/sirupsen/logrus"

	"verifh/enum"
	"verifh/evid"
	"verifh/fakes"
	"verifh/mc"
	"verifh/ref"
)

const chanID = "mesh-channel"

// tcase is one configuration.
type tcase struct {
	N     int  // nodes
	Edges uint // bitmask over the C(N,2) node pairs in lexicographic order
	Subs  uint // bitmask of subscribed nodes
	Pub   int  // publishing node
	NPub  int  // 1 or 2 messages, published back to back
	Order int  // 0: links, then subscriptions; 1: subscriptions, then links
	// Re > 0: re-establishment case. The stream of edge number Re-1 is replaced
	// (AddPeerStream again, same peer/link tuple, at both ends) around the
	// publication of m1: ReMode 0 = Publish(m1) then replace, 1 = replace then
	// Publish(m1), nothing else running in between; after settling, m2 is published.
	Re     int
	ReMode int
	// Resub > 0: node Resub-1 (a subscriber) releases its subscription and
	// subscribes again before anything is published. ResubMode 0: the router
	// settles (its sweep announces the unsubscription) between release and
	// re-subscription; 1: both land in the same evaluation pass.
	Resub     int
	ResubMode int
	// Burst > 0: every link is stalled (the peers stop draining their streams:
	// writes block, nothing is lost), the publisher publishes Burst messages
	// from its own goroutine (it may block on back-pressure), then the links
	// drain again.
	Burst int
}

func (c tcase) String() string {
	if c.Burst > 0 {
		return fmt.Sprintf("n=%d edges=%s subs=%s pub=%d burst of %d messages while every link is stalled, then the links drain", c.N, edgeList(c.N, c.Edges), setStr(c.N, c.Subs), c.Pub, c.Burst)
	}
	if c.Resub > 0 {
		mode := "release,settle,subscribe-again"
		if c.ResubMode == 1 {
			mode = "release+subscribe-again-in-one-pass"
		}
		return fmt.Sprintf("n=%d edges=%s subs=%s pub=%d msgs=%d node %d %s, then publish", c.N, edgeList(c.N, c.Edges), setStr(c.N, c.Subs), c.Pub, c.NPub, c.Resub-1, mode)
	}
	if c.Re > 0 {
		p := pairs(c.N)[c.Re-1]
		mode := "publish-m1-then-replace-stream"
		if c.ReMode == 1 {
			mode = "replace-stream-then-publish-m1"
		}
		return fmt.Sprintf("n=%d edges=%s subs=%s pub=%d re-established=%d-%d %s, m2 after settling", c.N, edgeList(c.N, c.Edges), setStr(c.N, c.Subs), c.Pub, p[0], p[1], mode)
	}
	return fmt.Sprintf("n=%d edges=%s subs=%s pub=%d msgs=%d order=%s", c.N, edgeList(c.N, c.Edges), setStr(c.N, c.Subs), c.Pub, c.NPub, orderName(c.Order))
}

func orderName(o int) string {
	switch {
	case o == 0:
		return "links-then-subscribe"
	case o == 1:
		return "subscribe-then-links"
	case o%2 == 0:
		return fmt.Sprintf("other-links,settle,then-subscribe+link#%d-in-one-pass", (o-2)/2)
	}
	return fmt.Sprintf("other-links,settle,then-link#%d+subscribe-in-one-pass", (o-2)/2)
}

func pairs(n int) [][2]int {
	var ps [][2]int
	for i := 0; i < n; i++ {
		for j := i + 1; j < n; j++ {
			ps = append(ps, [2]int{i, j})
		}
	}
	return ps
}

func edgeList(n int, mask uint) string {
	var s []string
	for k, p := range pairs(n) {
		if mask&(1<<uint(k)) != 0 {
			s = append(s, fmt.Sprintf("%d-%d", p[0], p[1]))
		}
	}
	return "[" + strings.Join(s, " ") + "]"
}

func setStr(n int, mask uint) string {
	var s []string
	for i := 0; i < n; i++ {
		if mask&(1<<uint(i)) != 0 {
			s = append(s, fmt.Sprint(i))
		}
	}
	return "{" + strings.Join(s, ",") + "}"
}

func adjacency(n int, mask uint) [][]int {
	adj := make([][]int, n)
	for k, p := range pairs(n) {
		if mask&(1<<uint(k)) != 0 {
			adj[p[0]] = append(adj[p[0]], p[1])
			adj[p[1]] = append(adj[p[1]], p[0])
		}
	}
	return adj
}

func connected(n int, mask uint) bool {
	adj := adjacency(n, mask)
	seen := make([]bool, n)
	st := []int{0}
	seen[0] = true
	cnt := 1
	for len(st) > 0 {
		x := st[len(st)-1]
		st = st[:len(st)-1]
		for _, y := range adj[x] {
			if !seen[y] {
				seen[y] = true
				cnt++
				st = append(st, y)
			}
		}
	}
	return cnt == n
}

// reach is the model: the set of subscribed nodes a message published by p
// gets to when only subscribed nodes accept and relay it (floodsub's topic
// mesh): nodes of subs reachable from p along paths whose nodes after p are
// all subscribed. p itself is included iff it is subscribed.
func reach(n int, mask, subs uint, p int) uint {
	adj := adjacency(n, mask)
	var r uint
	seen := make([]bool, n)
	seen[p] = true
	if subs&(1<<uint(p)) != 0 {
		r |= 1 << uint(p)
	}
	st := []int{p}
	for len(st) > 0 {
		x := st[len(st)-1]
		st = st[:len(st)-1]
		for _, y := range adj[x] {
			if !seen[y] && subs&(1<<uint(y)) != 0 {
				seen[y] = true
				r |= 1 << uint(y)
				st = append(st, y)
			}
		}
	}
	return r
}

// splitMaxN bounds the graphs on which split establishment orders are enumerated.
var splitMaxN = 3

func allCases(maxN int) []tcase {
	var cs []tcase
	for n := 2; n <= maxN; n++ {
		np := len(pairs(n))
		for em := uint(1); em < 1<<uint(np); em++ {
			if !connected(n, em) {
				continue
			}
			for sm := uint(0); sm < 1<<uint(n); sm++ {
				for p := 0; p < n; p++ {
					for npub := 1; npub <= 2; npub++ {
						for o := 0; o < 2; o++ {
							cs = append(cs, tcase{N: n, Edges: em, Subs: sm, Pub: p, NPub: npub, Order: o})
						}
						// split orders (one message, graphs with at least two links)
						if npub == 1 && n <= splitMaxN && popcount(em) >= 2 {
							for k := 0; k < np; k++ {
								if em&(1<<uint(k)) != 0 {
									cs = append(cs, tcase{N: n, Edges: em, Subs: sm, Pub: p, NPub: 1, Order: 2 + 2*k}, tcase{N: n, Edges: em, Subs: sm, Pub: p, NPub: 1, Order: 3 + 2*k})
								}
							}
						}
					}
				}
			}
		}
	}
	return cs
}

// allReCases: every connected graph on 2..maxN nodes x every present edge
// re-established x every subscriber subset x every publisher x both modes.
func allReCases(maxN int) []tcase {
	var cs []tcase
	for n := 2; n <= maxN; n++ {
		np := len(pairs(n))
		for em := uint(1); em < 1<<uint(np); em++ {
			if !connected(n, em) {
				continue
			}
			for k := 0; k < np; k++ {
				if em&(1<<uint(k)) == 0 {
					continue
				}
				for sm := uint(0); sm < 1<<uint(n); sm++ {
					for p := 0; p < n; p++ {
						for mode := 0; mode < 2; mode++ {
							cs = append(cs, tcase{N: n, Edges: em, Subs: sm, Pub: p, NPub: 2, Order: 0, Re: k + 1, ReMode: mode})
						}
					}
				}
			}
		}
	}
	return cs
}

// allResubCases: every connected graph on 2..maxN nodes x every subscriber
// subset x every subscriber that releases and re-subscribes x both modes x
// every publisher; one message, links before subscriptions.
func allResubCases(maxN int) []tcase {
	var cs []tcase
	for n := 2; n <= maxN; n++ {
		np := len(pairs(n))
		for em := uint(1); em < 1<<uint(np); em++ {
			if !connected(n, em) {
				continue
			}
			for sm := uint(1); sm < 1<<uint(n); sm++ {
				for r := 0; r < n; r++ {
					if sm&(1<<uint(r)) == 0 {
						continue
					}
					for p := 0; p < n; p++ {
						for mode := 0; mode < 2; mode++ {
							cs = append(cs, tcase{N: n, Edges: em, Subs: sm, Pub: p, NPub: 1, Order: 0, Resub: r + 1, ResubMode: mode})
						}
					}
				}
			}
		}
	}
	return cs
}

// ---- one run ----

type event struct {
	Kind string // "send", "deliver", "sub"
	From int    // sender node (send/sub) or reported author (deliver, -1 unknown)
	To   int    // receiving node (send/sub) or delivering node (deliver)
	Msg  string // "m1"/"m2" (send, deliver) or channel announcement
}

type viol struct {
	Key  string
	What string
}

type result struct {
	Case     tcase
	Viols    []viol
	Outcome  string
	Sends    int
	Delivers int
	Log      []string
	Literal  int // subscribed nodes of the connected mesh that the model says are not reached (no subscribed relay path)
	Panic    string
}

var keys = enum.Keys(5)

func runCase(t *testing.T, c tcase) (res result) {
	res.Case = c
	defer func() {
		if r := recover(); r != nil {
			res.Panic = fmt.Sprint(r)
		}
	}()
	synctest.Test(t, func(t *testing.T) { runInBubble(c, &res) })
	return res
}

func runInBubble(c tcase, res *result) {
	ctx, cancel := context.WithCancel(context.Background())
	lg := logrus.New()
	lg.SetOutput(io.Discard)
	var mu sync.Mutex
	var log []event
	rec := func(e event) { mu.Lock(); log = append(log, e); mu.Unlock() }
	idIdx := map[string]int{}
	for i := 0; i < c.N; i++ {
		idIdx[keys[i].ID.String()] = i
	}
	nodes := make([]pubsub.PubSub, c.N)
	for i := range nodes {
		ps, err := floodsub.NewFloodSub(ctx, logrus.NewEntry(lg).WithField("node", i), nil, &floodsub.Config{})
		if err != nil {
			evid.Fatal("NewFloodSub: %v", err)
		}
		nodes[i] = ps
		go func() { _ = ps.Execute(ctx) }()
	}
	settle := func() { time.Sleep(500 * time.Millisecond); synctest.Wait() }
	var ends []*ref.WireEnd
	var wires []*ref.Wire
	tapDir := func(from, to int) func(b []byte) {
		df := &ref.Deframer{}
		return func(b []byte) {
			for _, fr := range df.Push(b) {
				pkt := &floodsub.Packet{}
				if err := pkt.UnmarshalVT(fr); err != nil {
					rec(event{"garbage", from, to, ""})
					continue
				}
				for _, so := range pkt.GetSubscriptions() {
					rec(event{"sub", from, to, fmt.Sprintf("%s=%v", so.GetChannelId(), so.GetSubscribe())})
				}
				for _, m := range pkt.GetPublish() {
					in := &pubmessage.PubMessageInner{}
					_ = in.UnmarshalVT(m.GetData())
					rec(event{"send", from, to, string(in.GetData())})
				}
			}
		}
	}
	wire := func(k int) {
		{
			p := pairs(c.N)[k]
			i, j := p[0], p[1]
			w := ref.NewWire()
			ti, tj := tapDir(i, j), tapDir(j, i)
			w.Tap = func(from int, b []byte) {
				if from == 0 {
					ti(b)
				} else {
					tj(b)
				}
			}
			ends = append(ends, w.End(0), w.End(1))
			wires = append(wires, w)
			lid := uint64(100 + k)
			add := func(self, other, side int) {
				lnk := &fakes.MountedLink{UUID: lid, Local: keys[self].ID, Remote: keys[other].ID}
				nodes[self].AddPeerStream(pubsub.PeerLinkTuple{PeerID: keys[other].ID, LinkID: lid},
					keys[self].ID.String() < keys[other].ID.String(),
					&fakes.MountedStream{Strm: w.End(side), Proto: floodsub.FloodSubID, Peer: keys[other].ID, Link: lnk})
			}
			add(i, j, 0)
			add(j, i, 1)
		}
	}
	link := func() {
		for k := range pairs(c.N) {
			if c.Edges&(1<<uint(k)) != 0 {
				wire(k)
			}
		}
	}
	subHandles := make([]pubsub.Subscription, c.N)
	var subscribeOne func(i int)
	subscribe := func() {
		for i := 0; i < c.N; i++ {
			if c.Subs&(1<<uint(i)) == 0 {
				continue
			}
			subscribeOne(i)
		}
	}
	subscribeOne = func(i int) {
		{
			sub, err := nodes[i].AddSubscription(ctx, keys[i].Priv, chanID)
			if err != nil {
				evid.Fatal("AddSubscription: %v", err)
			}
			node := i
			sub.AddHandler(func(m pubsub.Message) {
				from, ok := idIdx[m.GetFrom().String()]
				if !ok {
					from = -1
				}
				rec(event{"deliver", from, node, string(m.GetData())})
			})
			subHandles[i] = sub
		}
	}
	synctest.Wait()
	if c.Order >= 2 {
		// split order: the subscription and one last link land in the same pass
		// of the router's evaluation loop, after the other links settled
		k := (c.Order - 2) / 2
		for e := range pairs(c.N) {
			if c.Edges&(1<<uint(e)) != 0 && e != k {
				wire(e)
			}
		}
		settle()
		if c.Order%2 == 0 {
			subscribe()
			wire(k)
		} else {
			wire(k)
			subscribe()
		}
		settle()
	} else if c.Order == 0 {
		link()
		settle()
		subscribe()
		settle()
	} else {
		subscribe()
		settle()
		link()
		settle()
	}
	if c.Resub > 0 {
		r := c.Resub - 1
		subHandles[r].Release()
		if c.ResubMode == 0 {
			settle()
		}
		subscribeOne(r)
		settle()
	}
	msgs := []string{"m1", "m2"}[:c.NPub]
	if c.Burst > 0 {
		msgs = nil
		for i := 1; i <= c.Burst; i++ {
			msgs = append(msgs, fmt.Sprintf("m%d", i))
		}
	}
	publish := func(m string) {
		if err := nodes[c.Pub].(*floodsub.FloodSub).Publish(ctx, chanID, keys[c.Pub].Priv, []byte(m)); err != nil {
			evid.Fatal("Publish: %v", err)
		}
	}
	if c.Burst > 0 {
		for _, w := range wires {
			w.SetStall(0, true)
			w.SetStall(1, true)
		}
		burstDone := make(chan struct{})
		go func() {
			defer close(burstDone)
			for _, m := range msgs {
				publish(m)
			}
		}()
		settle() // the publisher has got as far as back-pressure lets it
		for _, w := range wires {
			w.SetStall(0, false)
			w.SetStall(1, false)
		}
		settle()
		<-burstDone
	} else if c.Re > 0 {
		if c.ReMode == 0 {
			publish("m1")
			wire(c.Re - 1)
		} else {
			wire(c.Re - 1)
			publish("m1")
		}
		settle()
		settle()
		publish("m2")
	} else {
		for _, m := range msgs {
			publish(m)
		}
	}
	settle()
	settle()
	// teardown
	cancel()
	for _, e := range ends {
		e.Close()
	}
	synctest.Wait()
	for _, ps := range nodes {
		floodsub.VerifStopJanitor(ps)
	}
	mu.Lock()
	defer mu.Unlock()
	judge(c, log, msgs, res)
}

// judge applies the oracle to the ordered observation log of one run.
func judge(c tcase, log []event, msgs []string, res *result) {
	want := reach(c.N, c.Edges, c.Subs, c.Pub)
	for i := 0; i < c.N; i++ {
		if c.Subs&(1<<uint(i)) != 0 && want&(1<<uint(i)) == 0 {
			res.Literal++
		}
	}
	add := func(key, what string) { res.Viols = append(res.Viols, viol{key, what + " [" + c.String() + "]"}) }
	isMsg := map[string]bool{}
	for _, m := range msgs {
		isMsg[m] = true
	}
	delivered := map[string][]int{} // msg -> per-node handler invocations
	for _, m := range msgs {
		delivered[m] = make([]int, c.N)
	}
	// recvFrom[i][m] = set of neighbours that had written m to i so far
	recvFrom := make([]map[string]map[int]bool, c.N)
	for i := range recvFrom {
		recvFrom[i] = map[string]map[int]bool{}
	}
	for _, e := range log {
		res.Log = append(res.Log, fmt.Sprintf("%s %d->%d %s", e.Kind, e.From, e.To, e.Msg))
		switch e.Kind {
		case "garbage":
			add("undecodable-packet", fmt.Sprintf("node %d wrote an undecodable packet to node %d", e.From, e.To))
		case "deliver":
			res.Delivers++
			if !isMsg[e.Msg] {
				add("delivered-unknown-message", fmt.Sprintf("node %d's handler got data %q that was never published", e.To, e.Msg))
				continue
			}
			delivered[e.Msg][e.To]++
			if e.From != c.Pub {
				add("wrong-sender", fmt.Sprintf("node %d's handler reports sender node %d for %s published by node %d", e.To, e.From, e.Msg, c.Pub))
			}
		case "send":
			res.Sends++
			if !isMsg[e.Msg] {
				add("sent-unknown-message", fmt.Sprintf("node %d wrote a publish with data %q to node %d", e.From, e.Msg, e.To))
				continue
			}
			if e.To == c.Pub {
				add("sent-to-origin", fmt.Sprintf("node %d wrote %s to node %d, its original publisher", e.From, e.Msg, e.To))
			}
			if e.From != c.Pub {
				r := recvFrom[e.From][e.Msg]
				switch {
				case len(r) == 0:
					add("sent-before-received", fmt.Sprintf("node %d wrote %s to node %d although nobody had sent it %s", e.From, e.Msg, e.To, e.Msg))
				case len(r) == 1 && r[e.To]:
					add("sent-back-to-previous-hop", fmt.Sprintf("node %d wrote %s to node %d, the only peer it had received %s from", e.From, e.Msg, e.To, e.Msg))
				}
			}
			if recvFrom[e.To][e.Msg] == nil {
				recvFrom[e.To][e.Msg] = map[int]bool{}
			}
			recvFrom[e.To][e.Msg][e.From] = true
		}
	}
	var oc []string
	for _, m := range msgs {
		for i := 0; i < c.N; i++ {
			n := delivered[m][i]
			exp := 0
			if want&(1<<uint(i)) != 0 {
				exp = 1
			}
			if c.Re > 0 && m == "m1" && n <= 1 && (i != c.Pub || n == exp) {
				// published while a stream was being replaced: loss across the
				// mesh is not judged, only duplicates and the local delivery
				continue
			}
			switch {
			case n == exp:
			case n == 0:
				add("not-delivered", fmt.Sprintf("subscribed node %d, reachable from publisher %d through subscribed peers, never had its handler invoked for %s", i, c.Pub, m))
			case exp == 0:
				add("delivered-where-model-says-unreachable", fmt.Sprintf("node %d's handler ran %d time(s) for %s", i, n, m))
			default:
				add("duplicate-delivery", fmt.Sprintf("node %d's handler ran %d times for %s", i, n, m))
			}
		}
		oc = append(oc, fmt.Sprint(delivered[m]))
	}
	res.Outcome = fmt.Sprintf("reached %d of %d subscribers", popcount(want), popcount(c.Subs))
	_ = oc
}

func popcount(x uint) int {
	n := 0
	for ; x != 0; x &= x - 1 {
		n++
	}
	return n
}

// ---- driver: cases are spread over single-threaded worker processes ----

// quietGC makes a worker's schedule reproducible: with GOMAXPROCS=1 and
// asynchronous preemption off, the only thing that can take the processor away
// from a goroutine between two blocking operations is the garbage collector
// (stack scans preempt at the next function prologue). Collection is therefore
// switched off while a case runs and done explicitly between cases; a memory
// limit keeps a safety net.
func quietGC() { debug.SetGCPercent(-1); debug.SetMemoryLimit(6 << 30) }

var casesSinceGC int

func betweenCases() {
	casesSinceGC++
	if casesSinceGC >= 40 {
		casesSinceGC = 0
		runtime.GC()
	}
}

type shardOut struct {
	Results []result
	Capped  bool
}

func runShard(t *testing.T, cs []tcase, idx, of int, deadline time.Time) shardOut {
	var out shardOut
	for k := idx; k < len(cs); k += of {
		if time.Now().After(deadline) {
			out.Capped = true
			break
		}
		betweenCases()
		r := runCase(t, cs[k])
		if len(r.Viols) == 0 && r.Panic == "" {
			r.Log = nil // keep shard files small; logs only for failing cases and the sample
		}
		out.Results = append(out.Results, r)
	}
	return out
}

func TestC28(t *testing.T) {
	if os.Getenv("VERIF_SHARD_OUT") != "" {
		// worker process of the controlled-scheduler part (mc.RunScenarios): go straight there
		run := evid.Start("C28", "exploration")
		exploreBursts(t, run, mc.NewAgg(run))
		return
	}
	maxN := 4
	if os.Getenv("VERIF_TIER") == "thorough" {
		maxN = 5
	}
	if s := os.Getenv("C28_MAXN"); s != "" {
		fmt.Sscan(s, &maxN)
	}
	if os.Getenv("VERIF_TIER") == "thorough" {
		splitMaxN = 4
	}
	resubMaxN := 3
	if os.Getenv("VERIF_TIER") == "thorough" {
		resubMaxN = 4
	}
	resubCases := allResubCases(resubMaxN)
	cs := append(allCases(maxN), resubCases...)
	if sh := os.Getenv("C28_SHARD_OUT"); sh != "" {
		// worker process: GOMAXPROCS=1, a share of the cases
		var idx, of int
		var dl int64
		fmt.Sscanf(os.Getenv("C28_SHARD"), "%d/%d/%d", &idx, &of, &dl)
		runtime.GOMAXPROCS(1)
		quietGC()
		out := runShard(t, cs, idx, of, time.Unix(dl, 0))
		b, _ := json.Marshal(out)
		if err := os.WriteFile(sh, b, 0o644); err != nil {
			evid.Fatal("shard write: %v", err)
		}
		os.Exit(0)
	}

	reMaxN := 3
	if os.Getenv("VERIF_TIER") == "thorough" {
		reMaxN = 4
	}
	reCases := allReCases(reMaxN)
	if outf := os.Getenv("C28_REEST_OUT"); outf != "" {
		// child process for the re-establishment cases (a crash of the router
		// kills the process): results are appended one JSON line per case, the
		// index of the running case is kept in <out>.cur
		var from, stride int
		var dl int64
		fmt.Sscanf(os.Getenv("C28_REEST_FROM"), "%d/%d/%d", &from, &stride, &dl)
		runtime.GOMAXPROCS(1)
		quietGC()
		f, err := os.OpenFile(outf, os.O_APPEND|os.O_CREATE|os.O_WRONLY, 0o644)
		if err != nil {
			evid.Fatal("reest out: %v", err)
		}
		for k := from; k < len(reCases); k += stride {
			if time.Now().After(time.Unix(dl, 0)) {
				os.WriteFile(outf+".capped", nil, 0o644)
				break
			}
			os.WriteFile(outf+".cur", []byte(fmt.Sprint(k)), 0o644)
			betweenCases()
			r := runCase(t, reCases[k])
			if len(r.Viols) == 0 && r.Panic == "" {
				r.Log = nil
			}
			b, _ := json.Marshal(r)
			f.Write(append(b, '\n'))
		}
		f.Close()
		os.WriteFile(outf+".done", nil, 0o644)
		os.Exit(0)
	}

	run := evid.Start("C28", "exploration")
	acc := enum.NewAcc(run, "every connected labelled graph on 2..N nodes x every subset of subscribed nodes x every publishing node x {1,2} messages published back to back x {links before subscriptions, subscriptions before links}; plus re-establishment cases: every connected graph on 2..M nodes x every edge whose stream is replaced (same peer/link tuple, both ends) x every subscriber subset x every publisher x {publish m1 then replace, replace then publish m1}, m2 published after settling; plus re-subscription cases: every connected graph on 2..R nodes x every subscriber subset x every subscriber that releases its subscription and subscribes again (with and without the router settling in between) x every publisher; each case builds N real FloodSub routers joined by in-memory streams via AddPeerStream and is run to quiescence in a synctest bubble; a case is non-trivial if at least one node other than the publisher is subscribed and reachable through subscribed peers (some packet must cross a link); distinct by the full configuration tuple")
	workers := runtime.NumCPU()
	if workers > 16 {
		workers = 16
	}
	if w := os.Getenv("VERIF_WORKERS"); w != "" {
		fmt.Sscan(w, &workers)
	}
	dir, err := os.MkdirTemp(filepath.Join(evid.Root, ".work"), "c28-")
	if err != nil {
		evid.Fatal("shard dir: %v", err)
	}
	defer os.RemoveAll(dir)
	outs := make([]shardOut, workers)
	var wg sync.WaitGroup
	var emu sync.Mutex
	firstErr := ""
	for w := 0; w < workers; w++ {
		wg.Add(1)
		go func(w int) {
			defer wg.Done()
			outf := filepath.Join(dir, fmt.Sprintf("s%d.json", w))
			cmd := exec.Command(os.Args[0], "-test.run", "^TestC28$", "-test.count", "1", "-test.timeout", "60m")
			cmd.Env = append(os.Environ(), "C28_SHARD_OUT="+outf, fmt.Sprintf("C28_SHARD=%d/%d/%d", w, workers, run.Deadline().Unix()), fmt.Sprintf("C28_MAXN=%d", maxN), "GOMAXPROCS=1")
			ob, err := cmd.CombinedOutput()
			b, rerr := os.ReadFile(outf)
			if err != nil || rerr != nil || json.Unmarshal(b, &outs[w]) != nil {
				emu.Lock()
				if firstErr == "" {
					s := string(ob)
					if len(s) > 3000 {
						s = s[len(s)-3000:]
					}
					firstErr = fmt.Sprintf("worker %d failed: %v %v\n%s", w, err, rerr, s)
				}
				emu.Unlock()
			}
		}(w)
	}
	wg.Wait()
	if firstErr != "" {
		evid.Fatal("%s", firstErr)
	}
	// re-establishment cases in restartable child processes (worker w runs the
	// cases w, w+workers, ...; after a crash it is restarted behind the crashing case)
	var reOut shardOut
	type crash struct {
		c    tcase
		text string
	}
	var crashes []crash
	reWorker := func(w int) {
		defer wg.Done()
		outf := filepath.Join(dir, fmt.Sprintf("reest%d.jsonl", w))
		from, restarts := w, 0
		capped := false
		for from < len(reCases) {
			os.Remove(outf + ".cur")
			cmd := exec.Command(os.Args[0], "-test.run", "^TestC28$", "-test.count", "1", "-test.timeout", "60m")
			cmd.Env = append(os.Environ(), "C28_REEST_OUT="+outf, fmt.Sprintf("C28_REEST_FROM=%d/%d/%d", from, workers, run.Deadline().Unix()), "GOMAXPROCS=1")
			ob, _ := cmd.CombinedOutput()
			if _, err := os.Stat(outf + ".done"); err == nil {
				break
			}
			fail := func(f string, a ...any) {
				emu.Lock()
				if firstErr == "" {
					firstErr = fmt.Sprintf(f, a...)
				}
				emu.Unlock()
			}
			cur, err := os.ReadFile(outf + ".cur")
			if err != nil {
				fail("re-establishment child %d died before its first case:\n%s", w, ob)
				return
			}
			var idx int
			fmt.Sscan(string(cur), &idx)
			txt := string(ob)
			if k := strings.Index(txt, "panic:"); k >= 0 {
				txt = txt[k:]
			}
			var keep []string
			for _, ln := range strings.Split(txt, "\n") {
				if strings.HasPrefix(ln, "panic:") || strings.HasPrefix(ln, "[signal") || strings.Contains(ln, "bifrost/pubsub/floodsub.") {
					keep = append(keep, strings.TrimSpace(ln))
				}
				if len(keep) >= 6 {
					break
				}
			}
			if len(keep) == 0 {
				fail("re-establishment child %d exited without a panic trace at case %d:\n%s", w, idx, ob)
				return
			}
			emu.Lock()
			crashes = append(crashes, crash{reCases[idx], strings.Join(keep, " | ")})
			emu.Unlock()
			from = idx + workers
			restarts++
			if restarts >= 3 {
				capped = true
				break
			}
		}
		if _, err := os.Stat(outf + ".capped"); err == nil {
			capped = true
		}
		b, _ := os.ReadFile(outf)
		emu.Lock()
		defer emu.Unlock()
		if capped {
			reOut.Capped = true
		}
		for _, ln := range strings.Split(string(b), "\n") {
			if strings.TrimSpace(ln) == "" {
				continue
			}
			var r result
			if json.Unmarshal([]byte(ln), &r) != nil {
				if firstErr == "" {
					firstErr = "bad re-establishment result line"
				}
				return
			}
			reOut.Results = append(reOut.Results, r)
		}
	}
	for w := 0; w < workers; w++ {
		wg.Add(1)
		go reWorker(w)
	}
	wg.Wait()
	if firstErr != "" {
		evid.Fatal("%s", firstErr)
	}
	sort.Slice(crashes, func(i, j int) bool { return crashes[i].c.String() < crashes[j].c.String() })
	for _, cr := range crashes {
		key := "crash/other"
		if strings.Contains(cr.text, "writePacket") {
			key = "crash/publish-to-peer-whose-stream-was-just-replaced"
		}
		reOut.Results = append(reOut.Results, result{Case: cr.c, Outcome: "router crashed", Viols: []viol{{key, "the router process crashed: " + cr.text + " [" + cr.c.String() + "]"}}})
	}
	outs = append(outs, reOut)
	// merge
	type best struct {
		v viol
		c tcase
		l []string
		n int
	}
	smaller := func(a, b tcase) bool {
		ka := []int{a.N, popcount(a.Edges), a.NPub, popcount(a.Subs), a.Order, int(a.Edges), int(a.Subs), a.Pub, a.Re, a.ReMode, a.Resub, a.ResubMode, a.Burst}
		kb := []int{b.N, popcount(b.Edges), b.NPub, popcount(b.Subs), b.Order, int(b.Edges), int(b.Subs), b.Pub, b.Re, b.ReMode, b.Resub, b.ResubMode, b.Burst}
		for i := range ka {
			if ka[i] != kb[i] {
				return ka[i] < kb[i]
			}
		}
		return false
	}
	bests := map[string]*best{}
	literalCases, literalPairs, sends, delivers, graphs := 0, 0, 0, 0, map[string]bool{}
	done := 0
	for _, o := range outs {
		if o.Capped {
			acc.Capped()
		}
		for _, r := range o.Results {
			done++
			c := r.Case
			graphs[fmt.Sprintf("%d/%d", c.N, c.Edges)] = true
			want := reach(c.N, c.Edges, c.Subs, c.Pub)
			nontrivial := want&^(1<<uint(c.Pub)) != 0
			outcome := r.Outcome
			if r.Panic != "" {
				outcome = "panic"
				r.Viols = append(r.Viols, viol{"panic", fmt.Sprintf("%s [%s]", r.Panic, c)})
			} else if len(r.Viols) > 0 {
				outcome = "violation"
			}
			grp := fmt.Sprintf("n=%d", c.N)
			if c.Resub > 0 {
				grp = "re-subscribed " + grp
			}
			if c.Burst > 0 {
				grp = "burst " + grp
			}
			if c.Re > 0 {
				grp = "re-established " + grp
			}
			acc.Case(grp, c.String(), nontrivial, outcome)
			sends += r.Sends
			delivers += r.Delivers
			if r.Literal > 0 {
				literalCases++
				literalPairs += r.Literal
			}
			for _, v := range r.Viols {
				b := bests[v.Key]
				if b == nil {
					bests[v.Key] = &best{v, c, r.Log, 1}
					continue
				}
				b.n++
				if smaller(c, b.c) {
					b.v, b.c, b.l = v, c, r.Log
				}
			}
		}
	}
	if done != len(cs)+len(reCases) {
		acc.Capped()
	}
	if len(bests) == 0 && (sends == 0 || delivers == 0) {
		evid.Fatal("vacuous: %d publish packets on the wire, %d handler invocations over %d cases", sends, delivers, done)
	}
	var ks []string
	for k := range bests {
		ks = append(ks, k)
	}
	sort.Strings(ks)
	for _, k := range ks {
		b := bests[k]
		run.Violation(k, fmt.Sprintf("%s (%d occurrences; smallest case shown)", b.v.What, b.n), map[string]any{"case": b.c, "case_text": b.c.String(), "log": b.l})
	}
	// written-out samples: re-run three cases in this process to show their logs
	for _, c := range []tcase{{N: 2, Edges: 1, Subs: 3, Pub: 0, NPub: 1}, {N: 3, Edges: 7, Subs: 7, Pub: 0, NPub: 1}, {N: 4, Edges: 0b101101, Subs: 0b1110, Pub: 0, NPub: 2, Order: 1}, {N: 2, Edges: 1, Subs: 3, Pub: 0, NPub: 2, Re: 1, ReMode: 1}} {
		if c.N <= maxN {
			r := runCase(t, c)
			acc.Sample(map[string]any{"case": c.String(), "model_reached": setStr(c.N, reach(c.N, c.Edges, c.Subs, c.Pub)), "observations": r.Log, "violations": len(r.Viols)})
		}
	}
	// controlled-scheduler part: bursts over a stalled link
	agg := mc.NewAgg(run)
	exploreBursts(t, run, agg)
	agg.Finish(true)
	burst := map[string]any{}
	for _, k := range []string{"executions", "states", "transitions", "scenarios", "samples", "exhaustive", "distinct_outcomes", "execution_tags", "max_depth", "deadlocks", "horizon_hits", "env_choices", "traces_validated_against_impl"} {
		if v, ok := run.Cov[k]; ok {
			burst[k] = v
			delete(run.Cov, k)
		}
	}
	burstExhaustive, _ := burst["exhaustive"].(bool)
	acc.Finish()
	if !burstExhaustive {
		run.Cov["exhaustive"] = false
	}
	run.Cov["burst_over_stalled_link"] = burst
	run.Cov["connected_graphs"] = len(graphs)
	run.Cov["max_nodes"] = maxN
	run.Cov["cases_total"] = len(cs) + len(reCases)
	run.Cov["reestablishment_cases"] = len(reCases)
	run.Cov["reestablishment_max_nodes"] = reMaxN
	run.Cov["resubscription_cases"] = len(resubCases)
	run.Cov["resubscription_max_nodes"] = resubMaxN
	run.Cov["router_crashes"] = len(crashes)
	run.Cov["publish_packets_on_wire"] = sends
	run.Cov["handler_invocations"] = delivers
	run.Cov["worker_processes"] = workers
	run.Cov["cases_with_subscriber_not_reachable_through_subscribed_peers"] = literalCases
	run.Cov["subscribers_not_reachable_through_subscribed_peers"] = literalPairs
	run.Cov["bound"] = fmt.Sprintf("all connected labelled graphs on 2..%d nodes, all subscriber subsets, all publishers, 1-2 messages, 2 establishment orders plus split orders (subscription and last link in one evaluation pass); stream re-establishment on graphs of 2..%d nodes", maxN, reMaxN)
	run.Assumptions = append(run.Assumptions,
		"'reachable' is read as reachable from the publisher along peers that are themselves subscribed (floodsub relays only inside the channel's mesh: non-subscribed nodes drop and are not sent the channel's messages); subscribers of a connected mesh that are only reachable through non-subscribed nodes are counted in cases_with_subscriber_not_reachable_through_subscribed_peers and must NOT be delivered to under this model",
		"each case runs single-threaded (GOMAXPROCS=1, asynchronous preemption off, garbage collection only between cases) to quiescence in virtual time: goroutines switch only at blocking operations, event orders inside one settling are the Go scheduler's; interleavings that need a preemption between two non-blocking steps - in particular the Get-then-Set de-duplication race between two read pumps - are outside this check (covered by the controlled-scheduler part of C28)",
		"wire oracle uses the order of writes on the in-memory streams: a write of m from i to j is 'back to the previous hop' only if j is the only peer that had written m to i before",
		"go-cache's janitor goroutine is stopped through an export shim at teardown; expiry (120 s) is not reached (virtual time per case about 2 s)")
	run.Finish(t)
}
