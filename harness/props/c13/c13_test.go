package c13

import (
	"bytes"
	"encoding/hex"
	"fmt"
	"strings"
	"testing"

	"github.com/aperturerobotics/bifrost/crypto"
	"github.com/aperturerobotics/bifrost/peer"

	"verifh/enum"
	"verifh/evid"
)

// The oracle is metamorphic and states only what the property says:
//   - total: every call returns (no panic); when it reports success a result
//     was produced (for DeriveKey with >= 16 output bytes: the buffer was
//     written, i.e. is not still all zero; for DeriveEd25519Key: non-nil keys);
//   - deterministic: the same (key, context, salt, length) twice gives the
//     same bytes / the same error status;
//   - separated: two inputs that differ in key, context or salt (nil and empty
//     salt count as the same salt) never give the same output, compared at
//     equal output length and only for lengths >= 16 (shorter outputs must
//     collide by counting).

type input struct {
	ki, ci, si int
}

func (in input) String() string { return fmt.Sprintf("k%d/c%d/s%d", in.ki, in.ci, in.si) }

func TestC13(t *testing.T) {
	run := evid.Start("C13", "exploration")
	acc := enum.NewAcc(run, "full grid keys x contexts x salts x 7 output lengths (quick: 3 keys, contexts {\"\", a, b, ab, aa, 300 B}, salts {nil, empty, s, t, st}; thorough: 6 keys, all 40 contexts over {a,b,NUL} up to length 3 plus 300 B and a*32, nil + all 7 salts over {s,t} up to length 2 + 64 B), lengths 0,1,16,32,33,64,1000, through DeriveKey, and keys x contexts x salts through DeriveEd25519Key; every call made twice and all results of equal length compared pairwise through a map. Non-trivial = every grid cell (there is no deviation-0 fixture); distinct by (function, key, context, salt, length)")
	keys := enum.Keys(3)
	ctxs := []string{"", "a", "b", "ab", "aa", strings.Repeat("bifrost derive ctx ", 16)[:300]}
	ctxNames := []string{"empty", "a", "b", "ab", "aa", "300B"}
	salts := [][]byte{nil, {}, []byte("s"), []byte("t"), []byte("st")}
	saltNames := []string{"nil", "empty", "s", "t", "st"}
	// nil and empty are the same salt for the separation oracle
	saltClass := []int{0, 0, 1, 2, 3}
	// long salts around plausible internal buffer sizes, in pairs that differ
	// only in their last byte
	longSalts := func() {
		for _, n := range []int{63, 64, 65, 73, 74, 104, 105, 106, 127, 128, 129, 200, 1024} {
			for _, last := range []byte{'x', 'y'} {
				b := []byte(strings.Repeat("0123456789abcdef", n/16+1)[:n])
				b[n-1] = last
				salts = append(salts, b)
				saltNames = append(saltNames, fmt.Sprintf("%dB-%c", n, last))
				saltClass = append(saltClass, 1000+2*n+int(last-'x'))
			}
		}
	}
	if !run.Quick() {
		// thorough: 6 keys, every context over {a,b,NUL} up to length 3 plus two
		// long ones, every salt over {s,t} up to length 2 plus nil and a 64-byte one
		keys = enum.Keys(6)
		ctxs, ctxNames = nil, nil
		enum.Strings([]byte{'a', 'b', 0}, 3, func(b []byte) {
			ctxs = append(ctxs, string(b))
			ctxNames = append(ctxNames, fmt.Sprintf("%q", string(b)))
		})
		ctxs = append(ctxs, strings.Repeat("bifrost derive ctx ", 16)[:300], strings.Repeat("a", 32))
		ctxNames = append(ctxNames, "300B", "a*32")
		salts, saltNames, saltClass = [][]byte{nil}, []string{"nil"}, []int{0}
		enum.Strings([]byte{'s', 't'}, 2, func(b []byte) {
			salts = append(salts, append([]byte{}, b...))
			saltNames = append(saltNames, fmt.Sprintf("%q", string(b)))
			saltClass = append(saltClass, len(salts)-2) // "" shares class 0 with nil
		})
		salts = append(salts, []byte(strings.Repeat("salt", 16)))
		saltNames = append(saltNames, "64B")
		saltClass = append(saltClass, len(salts)-2)
	}
	longSalts()
	lens := []int{0, 1, 16, 32, 33, 64, 1000}

	desc := func(in input) map[string]any {
		return map[string]any{"key_fixture": in.ki, "context": ctxNames[in.ci], "context_len": len(ctxs[in.ci]), "salt": saltNames[in.si]}
	}
	differ := func(a, b input) string {
		var d []string
		if a.ki != b.ki {
			d = append(d, "key")
		}
		if a.ci != b.ci {
			d = append(d, "context")
		}
		if saltClass[a.si] != saltClass[b.si] {
			d = append(d, "salt")
		}
		return strings.Join(d, "+")
	}
	panicKey := func(fn string, in input) string {
		if ctxs[in.ci] == "" {
			return "panic/empty-context"
		}
		return "panic/" + fn
	}

	var grid []input
	for ki := range keys {
		for ci := range ctxs {
			for si := range salts {
				grid = append(grid, input{ki, ci, si})
			}
		}
	}

	// ---- DeriveKey ----
	for _, n := range lens {
		seen := map[string]input{} // output -> first input producing it (this length)
		for _, in := range grid {
			caseKey := fmt.Sprintf("DeriveKey/%s/len%d", in, n)
			rp := desc(in)
			rp["fn"], rp["out_len"] = "DeriveKey", n
			var outs [2][]byte
			var errs [2]error
			var pan any
			// the salt is an ordinary caller slice: cut from a larger buffer (64
			// spare bytes behind it, filled with a sentinel) and used for both calls
			var salt, saltBuf []byte
			if salts[in.si] != nil {
				saltBuf = bytes.Repeat([]byte{0x5C}, len(salts[in.si])+64)
				copy(saltBuf, salts[in.si])
				salt = saltBuf[:len(salts[in.si])]
			}
			for r := 0; r < 2 && pan == nil; r++ {
				out := make([]byte, n)
				if r == 1 {
					// the previous content of the caller's buffer is not an input:
					// the second call writes into a buffer that is not zeroed
					for i := range out {
						out[i] = 0xAA
					}
				}
				pan = enum.Try(func() { errs[r] = peer.DeriveKey(ctxs[in.ci], salt, keys[in.ki].Priv, out) })
				outs[r] = out
			}
			if pan != nil {
				acc.Case("DeriveKey", caseKey, true, "panic")
				run.Violation(panicKey("DeriveKey", in), fmt.Sprintf("DeriveKey(context=%s (%d bytes), salt=%s, out=%d bytes) panicked: %v", showCtx(ctxs[in.ci]), len(ctxs[in.ci]), saltNames[in.si], n, pan), rp)
				continue
			}
			if (errs[0] == nil) != (errs[1] == nil) || !bytes.Equal(outs[0], outs[1]) {
				acc.Case("DeriveKey", caseKey, true, "nondeterministic")
				run.Violation("nondeterministic/DeriveKey", fmt.Sprintf("two calls with identical inputs (%s) gave different results: %x.. err=%v vs %x.. err=%v", caseKey, head(outs[0]), errs[0], head(outs[1]), errs[1]), rp)
				continue
			}
			if errs[0] != nil {
				acc.Case("DeriveKey", caseKey, true, "error")
				continue
			}
			acc.Case("DeriveKey", caseKey, true, "derived")
			if n < 16 {
				continue
			}
			if bytes.Equal(outs[0], make([]byte, n)) {
				run.Violation("no-result/DeriveKey", fmt.Sprintf("DeriveKey reported success but left the %d-byte output all zero (%s): neither a result nor an error", n, caseKey), rp)
				continue
			}
			h := hex.EncodeToString(outs[0])
			if prev, ok := seen[h]; ok {
				if d := differ(prev, in); d != "" {
					rp["collides_with"] = desc(prev)
					run.Violation("collision/DeriveKey/"+d, fmt.Sprintf("DeriveKey gives the same %d-byte output for inputs that differ in %s: %s and %s", n, d, prev, in), rp)
				}
			} else {
				seen[h] = in
			}
		}
	}
	// ---- DeriveKey with the output buffer overlapping the salt buffer ----
	// (in-place use, e.g. a ratchet state: out and salt are the same memory, or
	// out is a part of the salt buffer). The salt's CONTENT at the time of the
	// call is the input: the result must equal the one obtained with separate
	// buffers.
	{
		saltSizes := []int{16, 32, 33, 48, 64}
		for _, ssz := range saltSizes {
			for variant := 0; variant < 2; variant++ { // two salt contents differing in every byte
				content := make([]byte, ssz)
				for i := range content {
					content[i] = byte(i*7 + 1 + variant*101)
				}
				for _, n := range []int{1, 16, 32, ssz} {
					if n > ssz {
						continue
					}
					for _, where := range []string{"prefix", "tail"} {
						for ki := range keys {
							caseKey := fmt.Sprintf("DeriveKey/k%d/c=ab/salt%dB.v%d/out=%s[%d]-of-the-salt-buffer", ki, ssz, variant, where, n)
							ref := make([]byte, n)
							var refErr, gotErr error
							var got []byte
							p := enum.Try(func() {
								refErr = peer.DeriveKey("ab", append([]byte{}, content...), keys[ki].Priv, ref)
								buf := append([]byte{}, content...)
								out := buf[:n]
								if where == "tail" {
									out = buf[ssz-n:]
								}
								gotErr = peer.DeriveKey("ab", buf, keys[ki].Priv, out)
								got = append([]byte{}, out...)
							})
							switch {
							case p != nil:
								acc.Case("DeriveKey-overlap", caseKey, true, "panic")
								run.Violation("panic/DeriveKey", fmt.Sprintf("DeriveKey panicked (%s): %v", caseKey, p), caseKey)
							case (refErr == nil) != (gotErr == nil) || (refErr == nil && !bytes.Equal(ref, got)):
								acc.Case("DeriveKey-overlap", caseKey, true, "differs")
								run.Violation("nondeterministic/DeriveKey/output-overlaps-salt", fmt.Sprintf("same key, context and salt content, but the result differs when the output buffer is part of the salt buffer (%s): separate buffers %x.. err=%v, overlapping %x.. err=%v", caseKey, head(ref), refErr, head(got), gotErr), caseKey)
							default:
								acc.Case("DeriveKey-overlap", caseKey, true, "equal")
							}
						}
					}
				}
			}
		}
	}
	acc.Sample(map[string]any{"fn": "DeriveKey", "key_fixture": 0, "context": "", "salt": "nil", "out_len": 32})
	acc.Sample(map[string]any{"fn": "DeriveKey", "key_fixture": 2, "context": "ab", "salt": "st", "out_len": 1000})

	// ---- DeriveEd25519Key ----
	seen := map[string]input{}
	for _, in := range grid {
		caseKey := fmt.Sprintf("DeriveEd25519Key/%s", in)
		rp := desc(in)
		rp["fn"] = "DeriveEd25519Key"
		var raws [2][]byte
		var errs [2]error
		var nilRes [2]bool
		var pan any
		for r := 0; r < 2 && pan == nil; r++ {
			var priv crypto.PrivKey
			var pub crypto.PubKey
			pan = enum.Try(func() { priv, pub, errs[r] = peer.DeriveEd25519Key(ctxs[in.ci], salts[in.si], keys[in.ki].Priv) })
			if pan == nil && errs[r] == nil {
				if priv == nil || pub == nil {
					nilRes[r] = true
				} else {
					raws[r], _ = priv.Raw()
				}
			}
		}
		switch {
		case pan != nil:
			acc.Case("DeriveEd25519Key", caseKey, true, "panic")
			run.Violation(panicKey("DeriveEd25519Key", in), fmt.Sprintf("DeriveEd25519Key(context=%s (%d bytes), salt=%s) panicked: %v", showCtx(ctxs[in.ci]), len(ctxs[in.ci]), saltNames[in.si], pan), rp)
		case nilRes[0] || nilRes[1]:
			acc.Case("DeriveEd25519Key", caseKey, true, "nil-result")
			run.Violation("no-result/DeriveEd25519Key", fmt.Sprintf("DeriveEd25519Key returned neither a key pair nor an error (%s)", caseKey), rp)
		case (errs[0] == nil) != (errs[1] == nil) || !bytes.Equal(raws[0], raws[1]):
			acc.Case("DeriveEd25519Key", caseKey, true, "nondeterministic")
			run.Violation("nondeterministic/DeriveEd25519Key", fmt.Sprintf("two calls with identical inputs (%s) gave different keys / error status", caseKey), rp)
		case errs[0] != nil:
			acc.Case("DeriveEd25519Key", caseKey, true, "error")
		default:
			acc.Case("DeriveEd25519Key", caseKey, true, "derived")
			h := hex.EncodeToString(raws[0])
			if prev, ok := seen[h]; ok {
				if d := differ(prev, in); d != "" {
					rp["collides_with"] = desc(prev)
					run.Violation("collision/DeriveEd25519Key/"+d, fmt.Sprintf("DeriveEd25519Key gives the same key for inputs that differ in %s: %s and %s", d, prev, in), rp)
				}
			} else {
				seen[h] = in
			}
		}
	}
	acc.Sample(map[string]any{"fn": "DeriveEd25519Key", "key_fixture": 1, "context": "300B", "salt": "empty"})

	acc.Finish()
	run.Cov["alphabet"] = fmt.Sprintf("%d fixture keys; %d contexts %v; %d salts %v; lengths %v", len(keys), len(ctxs), ctxNames, len(salts), saltNames, lens)
	run.Cov["bound"] = "the stated grid, every cell called twice; separation compared pairwise at equal length >= 16"
	run.Assumptions = append(run.Assumptions,
		"separation is only judged for outputs of at least 16 bytes (shorter outputs collide by counting) and at equal output length",
		"nil and empty salt are treated as the same input (neither equality nor difference of their outputs is required)",
		"keys, contexts and salts outside the grid are not covered")
	run.Finish(t)
}

func head(b []byte) []byte {
	if len(b) > 8 {
		return b[:8]
	}
	return b
}

func showCtx(c string) string {
	if len(c) > 8 {
		return fmt.Sprintf("%q..", c[:8])
	}
	return fmt.Sprintf("%q", c)
}
