package ref

import (
	"fmt"
	"strings"
)

// ---- combinatorial model of bifrost envelope share distribution (C16/C17) ----
//
// The model knows nothing about cryptography. A configuration is a list of
// grants; sealing creates T shares with distinct identifiers (T = the
// total-share override if non-zero, otherwise the sum of the per-grant share
// counts, a count of 0 meaning 1) and hands them out sequentially: grant i
// receives min(count_i, shares left). A grant can be decrypted by a set of
// recipient keys iff one of the keys' indexes is listed in the grant. Opening
// needs threshold+1 distinct shares.

// EnvGrant is one grant of a configuration.
type EnvGrant struct {
	ShareCount uint32   // as configured (0 means 1)
	Idx        []uint32 // recipient key indexes that may decrypt the grant
}

// EnvConfig is one sealing configuration.
type EnvConfig struct {
	NKeys     int
	Grants    []EnvGrant
	Threshold uint32
	Total     uint32 // total-share override, 0 = none
}

// Key is a canonical, space-free description, e.g. "k2/t1/T5/[1:0,1][0:][2:0,0]".
func (c EnvConfig) Key() string {
	var b strings.Builder
	fmt.Fprintf(&b, "k%d/t%d/T%d/", c.NKeys, c.Threshold, c.Total)
	b.WriteString(c.Layout())
	return b.String()
}

// Layout describes only the grants: "[count:idx,idx]...".
func (c EnvConfig) Layout() string {
	var b strings.Builder
	for _, g := range c.Grants {
		fmt.Fprintf(&b, "[%d:", g.ShareCount)
		for i, x := range g.Idx {
			if i > 0 {
				b.WriteByte(',')
			}
			fmt.Fprintf(&b, "%d", x)
		}
		b.WriteByte(']')
	}
	return b.String()
}

func envEff(c uint32) int {
	if c == 0 {
		return 1
	}
	return int(c)
}

// Natural is the sum of the effective per-grant share counts.
func (c EnvConfig) Natural() int {
	n := 0
	for _, g := range c.Grants {
		n += envEff(g.ShareCount)
	}
	return n
}

// Created is the number of shares sealing creates.
func (c EnvConfig) Created() int {
	if c.Total > 0 {
		return int(c.Total)
	}
	return c.Natural()
}

// Placed returns how many shares each grant receives.
func (c EnvConfig) Placed() []int {
	left := c.Created()
	out := make([]int, len(c.Grants))
	for i, g := range c.Grants {
		n := envEff(g.ShareCount)
		if n > left {
			n = left
		}
		out[i] = n
		left -= n
	}
	return out
}

// InRange reports whether every listed key index names a recipient key.
func (c EnvConfig) InRange() bool {
	for _, g := range c.Grants {
		for _, x := range g.Idx {
			if int(x) >= c.NKeys {
				return false
			}
		}
	}
	return true
}

// Reach returns, for the set of recipient keys given as a bitmask, the grants
// the keys can decrypt (ascending) and the number of distinct shares in them.
func (c EnvConfig) Reach(keys uint) (grants []uint32, shares int) {
	placed := c.Placed()
	for i, g := range c.Grants {
		ok := false
		for _, x := range g.Idx {
			if int(x) < c.NKeys && keys&(1<<x) != 0 {
				ok = true
			}
		}
		if ok {
			grants = append(grants, uint32(i))
			shares += placed[i]
		}
	}
	return grants, shares
}

// AllKeys is the bitmask of all recipient keys.
func (c EnvConfig) AllKeys() uint { return 1<<uint(c.NKeys) - 1 }

// Openable reports whether all recipients together reach threshold+1 shares.
func (c EnvConfig) Openable() bool {
	_, n := c.Reach(c.AllKeys())
	return n >= int(c.Threshold)+1
}

// WhyUnopenable names the cause for a configuration that is not Openable:
// "too-few-shares" (fewer than threshold+1 shares are created at all),
// "total-shares-override" (every grant has a key, so the only possible cause
// is an override promising more shares than the grants hold; also used when
// giving every grant a key would not help but dropping the override would make
// the configuration openable or too small), "grant-without-keys" (enough
// shares are placed but they sit in grants nobody can decrypt), or
// "override+grant-without-keys".
func (c EnvConfig) WhyUnopenable() string {
	need := int(c.Threshold) + 1
	if c.Created() < need {
		return "too-few-shares"
	}
	keyed := c
	keyed.Grants = make([]EnvGrant, len(c.Grants))
	keyless := false
	for i, g := range c.Grants {
		keyed.Grants[i] = g
		has := false
		for _, x := range g.Idx {
			if int(x) < c.NKeys {
				has = true
			}
		}
		if !has {
			keyless = true
			keyed.Grants[i].Idx = []uint32{0}
		}
	}
	if !keyless {
		return "total-shares-override"
	}
	if c.Total == 0 || keyed.Openable() {
		return "grant-without-keys"
	}
	nov := c
	nov.Total = 0
	if nov.Openable() || nov.Natural() < need {
		return "total-shares-override"
	}
	return "override+grant-without-keys"
}

// EnvIdxLists returns the key index lists of the enumeration for nkeys
// recipients: every subset of {0..nkeys-1} in ascending order, plus the list
// {0,0} (a duplicate index).
func EnvIdxLists(nkeys int) [][]uint32 {
	var out [][]uint32
	for m := 0; m < 1<<uint(nkeys); m++ {
		l := []uint32{}
		for i := 0; i < nkeys; i++ {
			if m&(1<<uint(i)) != 0 {
				l = append(l, uint32(i))
			}
		}
		out = append(out, l)
	}
	out = append(out, []uint32{0, 0})
	return out
}

// EnvGrantOptions is the per-grant alphabet shareCounts x lists.
func EnvGrantOptions(shareCounts []uint32, lists [][]uint32) []EnvGrant {
	var opts []EnvGrant
	for _, sc := range shareCounts {
		for _, l := range lists {
			opts = append(opts, EnvGrant{ShareCount: sc, Idx: l})
		}
	}
	return opts
}

// EnvLayouts enumerates every ordered list of exactly n grants over opts. If
// sorted is set only lists in non-decreasing option order are produced (one
// representative per multiset of grants).
func EnvLayouts(opts []EnvGrant, n int, sorted bool, f func(gs []EnvGrant)) {
	idx := make([]int, n)
	var rec func(pos int)
	rec = func(pos int) {
		if pos == n {
			gs := make([]EnvGrant, n)
			for i, o := range idx {
				gs[i] = opts[o]
			}
			f(gs)
			return
		}
		lo := 0
		if sorted && pos > 0 {
			lo = idx[pos-1]
		}
		for o := lo; o < len(opts); o++ {
			idx[pos] = o
			rec(pos + 1)
		}
	}
	rec(0)
}

// EnvSpace describes one block of the configuration enumeration.
type EnvSpace struct {
	NKeys       int
	Grants      int
	ShareCounts []uint32
	Sorted      bool
}

// String names the block.
func (s EnvSpace) String() string {
	o := "ordered"
	if s.Sorted {
		o = "one representative per multiset of grants"
	}
	return fmt.Sprintf("%d key(s) x %d grant(s), share counts %v, %s", s.NKeys, s.Grants, s.ShareCounts, o)
}

// EnvSpaces is the bound used by the C16/C17 checks. Quick: 1-2 recipient
// keys, 1-3 grants (lists of 3 grants without the share count 0, which is an
// alias of 1). Thorough: 1-3 keys, 1-4 grants; lists of 4 grants for 2 and 3
// keys are symmetry-reduced (sorted); for 3 keys lists of 3 grants omit the
// share count 0 and lists of 4 grants use share count 1 only.
func EnvSpaces(quick bool) []EnvSpace {
	all, no0, only1 := []uint32{0, 1, 2}, []uint32{1, 2}, []uint32{1}
	if quick {
		return []EnvSpace{
			{1, 1, all, false}, {1, 2, all, false}, {1, 3, no0, false},
			{2, 1, all, false}, {2, 2, all, false}, {2, 3, no0, false},
		}
	}
	return []EnvSpace{
		{1, 1, all, false}, {1, 2, all, false}, {1, 3, all, false}, {1, 4, all, false},
		{2, 1, all, false}, {2, 2, all, false}, {2, 3, all, false}, {2, 4, all, true},
		{3, 1, all, false}, {3, 2, all, false}, {3, 3, no0, false}, {3, 4, only1, true},
	}
}

// EnvLayoutsOf lists the grant layouts (threshold and override unset) of the
// given blocks, in block order.
func EnvLayoutsOf(spaces []EnvSpace) []EnvConfig {
	var out []EnvConfig
	for _, s := range spaces {
		EnvLayouts(EnvGrantOptions(s.ShareCounts, EnvIdxLists(s.NKeys)), s.Grants, s.Sorted, func(gs []EnvGrant) {
			out = append(out, EnvConfig{NKeys: s.NKeys, Grants: gs})
		})
	}
	return out
}

// EnvThresholds and EnvTotals are the threshold / total-share override menus.
var (
	EnvThresholds = []uint32{0, 1, 2, 3}
	EnvTotals     = []uint32{0, 1, 2, 3, 5}
)
