package ref

// Reference codecs for the key / peer-ID checks (C10, C11): a hand-written
// LEB128 reader that classifies varints, a multihash classifier, a big-integer
// base58 codec and a private-key protobuf reader. None of them calls bifrost,
// encoding/binary or the base58 library bifrost uses.

import (
	"crypto/ed25519"
	"errors"
	"math/big"
)

// VarintClass says how a varint at the start of a byte string reads.
type VarintClass int

const (
	// VarintBad: truncated (no terminating byte) or does not fit 64 bits.
	VarintBad VarintClass = iota
	// VarintCanonical: minimal encoding of at most 9 bytes (what the
	// unsigned-varint spec used by multihash allows).
	VarintCanonical
	// VarintLoose: decodes to a 64-bit value but is padded with zero groups or
	// is 10 bytes long; decoders differ on these.
	VarintLoose
)

// ReadVarint reads one LEB128 unsigned integer.
func ReadVarint(b []byte) (v uint64, n int, c VarintClass) {
	for i := 0; i < len(b); i++ {
		if i == 10 {
			return 0, 0, VarintBad
		}
		g := uint64(b[i] & 0x7f)
		if i == 9 && g > 1 {
			return 0, 0, VarintBad
		}
		v |= g << (7 * uint(i))
		if b[i]&0x80 == 0 {
			n = i + 1
			c = VarintCanonical
			if n > 9 || (n > 1 && b[i] == 0) {
				c = VarintLoose
			}
			return v, n, c
		}
	}
	return 0, 0, VarintBad
}

// MHClass classifies a byte string offered as a multihash
// varint(code) varint(len) digest[len].
type MHClass int

const (
	// MHMalformed: no reading as code/length/digest with the exact length.
	MHMalformed MHClass = iota
	// MHWellFormed: canonical varints and exact digest length.
	MHWellFormed
	// MHLoose: reads as a multihash only with padded / 10-byte varints.
	MHLoose
)

// ClassifyMultihash parses b as a multihash.
func ClassifyMultihash(b []byte) (cls MHClass, code uint64, digest []byte) {
	code, n, c1 := ReadVarint(b)
	if c1 == VarintBad {
		return MHMalformed, 0, nil
	}
	b = b[n:]
	l, n, c2 := ReadVarint(b)
	if c2 == VarintBad {
		return MHMalformed, 0, nil
	}
	b = b[n:]
	if uint64(len(b)) != l {
		return MHMalformed, 0, nil
	}
	if c1 == VarintLoose || c2 == VarintLoose {
		return MHLoose, code, b
	}
	return MHWellFormed, code, b
}

const kcB58Alphabet = "123456789ABCDEFGHJKLMNPQRSTUVWXYZabcdefghijkmnopqrstuvwxyz"

// Base58Dec decodes bitcoin-alphabet base58 with big integers. The empty
// string and any character outside the alphabet are errors.
func Base58Dec(s string) ([]byte, error) {
	if len(s) == 0 {
		return nil, errors.New("empty base58 string")
	}
	x := new(big.Int)
	r := big.NewInt(58)
	zeros := 0
	lead := true
	for i := 0; i < len(s); i++ {
		d := -1
		for j := 0; j < len(kcB58Alphabet); j++ {
			if kcB58Alphabet[j] == s[i] {
				d = j
				break
			}
		}
		if d < 0 {
			return nil, errors.New("character outside the base58 alphabet")
		}
		if lead && d == 0 {
			zeros++
		} else {
			lead = false
		}
		x.Mul(x, r)
		x.Add(x, big.NewInt(int64(d)))
	}
	return append(make([]byte, zeros), x.Bytes()...), nil
}

// Base58Enc encodes bytes as bitcoin-alphabet base58.
func Base58Enc(b []byte) string {
	zeros := 0
	for zeros < len(b) && b[zeros] == 0 {
		zeros++
	}
	x := new(big.Int).SetBytes(b)
	r := big.NewInt(58)
	m := new(big.Int)
	var out []byte
	for x.Sign() > 0 {
		x.DivMod(x, r, m)
		out = append(out, kcB58Alphabet[m.Int64()])
	}
	for i := 0; i < zeros; i++ {
		out = append(out, '1')
	}
	for i, j := 0, len(out)-1; i < j; i, j = i+1, j-1 {
		out[i], out[j] = out[j], out[i]
	}
	return string(out)
}

// PrivKeyFromProto extracts the 64-byte Ed25519 private key of a marshalled
// crypto.PrivateKey: key type 1 and data of 64 bytes, or 96 bytes whose last
// 32 repeat bytes 32..63.
func PrivKeyFromProto(b []byte) (ed25519.PrivateKey, error) {
	fs, err := PBParse(b)
	if err != nil {
		return nil, err
	}
	var kt uint64
	var data []byte
	for _, f := range fs {
		switch {
		case f.Num == 1 && f.Wire == 0:
			kt = f.Varint
		case f.Num == 2 && f.Wire == 2:
			data = f.Bytes
		case f.Num == 1 || f.Num == 2:
			return nil, ErrUndecided
		}
	}
	if kt != 1 {
		if int32(kt) == 1 {
			return nil, ErrUndecided
		}
		return nil, errors.New("not ed25519")
	}
	return PrivKeyFromRaw(data)
}

// PrivKeyFromRaw applies the 64 / 96 byte rule to raw key data.
func PrivKeyFromRaw(data []byte) (ed25519.PrivateKey, error) {
	switch len(data) {
	case 64:
	case 96:
		for i := 0; i < 32; i++ {
			if data[32+i] != data[64+i] {
				return nil, errors.New("redundant public key differs")
			}
		}
	default:
		return nil, errors.New("bad private key length")
	}
	return ed25519.PrivateKey(append([]byte{}, data[:64]...)), nil
}
