// Package ref holds small, boring reference implementations written
// independently of the bifrost code they are compared with.
package ref

import (
	"crypto/ed25519"
	"crypto/sha1"
	"crypto/sha256"
	"encoding/binary"
	"errors"
	"strconv"

	"github.com/mr-tron/base58/base58"
	"github.com/zeebo/blake3"
)

// ErrUndecided is returned when the reference declines to judge an input
// (exotic protobuf wire types); the caller then only checks implications.
var ErrUndecided = errors.New("reference undecided")

// PBField is one decoded protobuf field.
type PBField struct {
	Num    uint64
	Wire   int
	Varint uint64
	Bytes  []byte
}

// PBParse splits a protobuf message into fields. It errors on malformed
// input and returns ErrUndecided for group wire types.
func PBParse(b []byte) ([]PBField, error) {
	var out []PBField
	for len(b) > 0 {
		tag, n := binary.Uvarint(b)
		if n <= 0 {
			return nil, errors.New("bad tag")
		}
		b = b[n:]
		num, wire := tag>>3, int(tag&7)
		if num == 0 || tag>>3 > (1<<29-1) {
			return nil, errors.New("bad field number")
		}
		f := PBField{Num: num, Wire: wire}
		switch wire {
		case 0:
			v, n := binary.Uvarint(b)
			if n <= 0 {
				return nil, errors.New("bad varint")
			}
			f.Varint = v
			b = b[n:]
		case 1:
			if len(b) < 8 {
				return nil, errors.New("short fixed64")
			}
			b = b[8:]
		case 2:
			l, n := binary.Uvarint(b)
			if n <= 0 {
				return nil, errors.New("bad length")
			}
			b = b[n:]
			if l > uint64(len(b)) {
				return nil, errors.New("short bytes")
			}
			f.Bytes = b[:l]
			b = b[l:]
		case 5:
			if len(b) < 4 {
				return nil, errors.New("short fixed32")
			}
			b = b[4:]
		default:
			return nil, ErrUndecided
		}
		out = append(out, f)
	}
	return out, nil
}

// Multihash decodes varint(code) varint(len) digest with exact length.
func Multihash(b []byte) (code uint64, digest []byte, err error) {
	code, n := binary.Uvarint(b)
	if n <= 0 {
		return 0, nil, errors.New("bad code varint")
	}
	b = b[n:]
	l, n := binary.Uvarint(b)
	if n <= 0 {
		return 0, nil, errors.New("bad length varint")
	}
	b = b[n:]
	if uint64(len(b)) != l {
		return 0, nil, errors.New("length mismatch")
	}
	return code, b, nil
}

// PubKeyFromProto extracts the Ed25519 key of a marshalled crypto.PublicKey.
func PubKeyFromProto(b []byte) (ed25519.PublicKey, error) {
	fs, err := PBParse(b)
	if err != nil {
		return nil, err
	}
	var kt uint64
	var data []byte
	for _, f := range fs {
		switch {
		case f.Num == 1 && f.Wire == 0:
			kt = f.Varint
		case f.Num == 2 && f.Wire == 2:
			data = f.Bytes
		case f.Num == 1 || f.Num == 2:
			return nil, ErrUndecided // wrong wire type for a known field: decoder-specific
		}
	}
	if kt != 1 {
		if int32(kt) == 1 {
			return nil, ErrUndecided // over-long varint truncating to 1: decoder-specific
		}
		return nil, errors.New("not ed25519")
	}
	if len(data) != 32 {
		return nil, errors.New("bad key length")
	}
	return ed25519.PublicKey(data), nil
}

// PubKeyFromID extracts the key embedded in a binary peer ID.
func PubKeyFromID(id []byte) (ed25519.PublicKey, error) {
	code, dg, err := Multihash(id)
	if err != nil {
		return nil, err
	}
	if code != 0 {
		return nil, errors.New("not identity multihash")
	}
	return PubKeyFromProto(dg)
}

// PubKeyFromB58ID extracts the key embedded in a base58 peer ID.
func PubKeyFromB58ID(s string) (ed25519.PublicKey, []byte, error) {
	b, err := base58.Decode(s)
	if err != nil {
		return nil, nil, err
	}
	k, err := PubKeyFromID(b)
	return k, b, err
}

// EncodeID builds the canonical peer ID of a raw Ed25519 public key.
func EncodeID(pub ed25519.PublicKey) []byte {
	pb := append([]byte{0x08, 0x01, 0x12, 0x20}, pub...)
	return append([]byte{0x00, byte(len(pb))}, pb...)
}

// Digest computes the digest for bifrost hash types 1 (sha256), 2 (sha1), 3 (blake3).
func Digest(ht int32, data []byte) ([]byte, bool) {
	switch ht {
	case 1:
		h := sha256.Sum256(data)
		return h[:], true
	case 2:
		h := sha1.Sum(data)
		return h[:], true
	case 3:
		h := blake3.Sum256(data)
		return h[:], true
	}
	return nil, false
}

// SignBody is the byte string bifrost signatures are computed over.
func SignBody(ctx string, ht int32, data []byte) ([]byte, bool) {
	d, ok := Digest(ht, data)
	if !ok {
		return nil, false
	}
	sep := " - SIGN - "
	return []byte(ctx + sep + strconv.Itoa(int(ht)) + sep + string(d)), true
}

// VerifySig is the reference detached-signature check.
func VerifySig(pub ed25519.PublicKey, ctx string, ht int32, data, sig []byte) bool {
	body, ok := SignBody(ctx, ht, data)
	if !ok || len(pub) != ed25519.PublicKeySize {
		return false
	}
	return ed25519.Verify(pub, body, sig)
}
