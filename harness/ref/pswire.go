package ref

import (
	"encoding/binary"
	"io"
	"sync"
	"time"
)

// Wire is an in-memory duplex byte stream with two ends (0 and 1) used by the
// pubsub harnesses (C27, C28, C29) in place of a link stream. Writes never
// block (unbounded buffer), reads block on a sync.Cond (durably blocking inside
// a testing/synctest bubble). Every write is reported to Tap before it becomes
// readable, so a tap log is consistent with what the reader can have seen.
type Wire struct {
	mu     sync.Mutex
	cond   *sync.Cond
	buf    [2][]byte // buf[d]: bytes in flight towards end d
	closed [2]bool
	// stalled[s]: writes from end s block (the reader at the other end is not
	// draining: back-pressure) until the stall is lifted or an end closes.
	stalled [2]bool
	// Tap, if set, is called (with the wire lock held) for every write:
	// from is the writing end.
	Tap func(from int, b []byte)
}

// NewWire creates a wire.
func NewWire() *Wire {
	w := &Wire{}
	w.cond = sync.NewCond(&w.mu)
	return w
}

// End returns end i (0 or 1) of the wire.
func (w *Wire) End(i int) *WireEnd { return &WireEnd{w: w, side: i} }

// WireEnd is one end of a Wire; it has the method set of a bifrost stream.Stream.
type WireEnd struct {
	w    *Wire
	side int
}

func (e *WireEnd) Read(b []byte) (int, error) {
	w := e.w
	w.mu.Lock()
	defer w.mu.Unlock()
	for {
		if w.closed[e.side] {
			return 0, io.ErrClosedPipe
		}
		if len(w.buf[e.side]) > 0 {
			n := copy(b, w.buf[e.side])
			w.buf[e.side] = w.buf[e.side][n:]
			return n, nil
		}
		if w.closed[1-e.side] {
			return 0, io.EOF
		}
		if len(b) == 0 {
			return 0, nil
		}
		w.cond.Wait()
	}
}

func (e *WireEnd) Write(b []byte) (int, error) {
	w := e.w
	w.mu.Lock()
	defer w.mu.Unlock()
	for w.stalled[e.side] && !w.closed[e.side] && !w.closed[1-e.side] {
		w.cond.Wait()
	}
	if w.closed[e.side] || w.closed[1-e.side] {
		return 0, io.ErrClosedPipe
	}
	if w.Tap != nil {
		w.Tap(e.side, b)
	}
	w.buf[1-e.side] = append(w.buf[1-e.side], b...)
	w.cond.Broadcast()
	return len(b), nil
}

// SetStall makes writes from end side block (on) or proceed (off).
func (w *Wire) SetStall(side int, on bool) {
	w.mu.Lock()
	w.stalled[side] = on
	w.cond.Broadcast()
	w.mu.Unlock()
}

// Close closes this end: its reads and writes fail, the other end reads EOF
// after draining.
func (e *WireEnd) Close() error {
	w := e.w
	w.mu.Lock()
	w.closed[e.side] = true
	w.cond.Broadcast()
	w.mu.Unlock()
	return nil
}

func (e *WireEnd) SetReadDeadline(t time.Time) error  { return nil }
func (e *WireEnd) SetWriteDeadline(t time.Time) error { return nil }
func (e *WireEnd) SetDeadline(t time.Time) error      { return nil }

// Frame prepends the 4-byte little-endian length used by bifrost's packet
// sessions (stream/packet) to a message body.
func Frame(body []byte) []byte {
	out := make([]byte, 4+len(body))
	binary.LittleEndian.PutUint32(out, uint32(len(body)))
	copy(out[4:], body)
	return out
}

// Deframer splits a byte stream into length-prefixed frames.
type Deframer struct{ buf []byte }

// Push adds bytes and returns the complete frame bodies now available.
func (d *Deframer) Push(b []byte) (frames [][]byte) {
	d.buf = append(d.buf, b...)
	for len(d.buf) >= 4 {
		n := int(binary.LittleEndian.Uint32(d.buf))
		if len(d.buf) < 4+n {
			break
		}
		frames = append(frames, append([]byte{}, d.buf[4:4+n]...))
		d.buf = d.buf[4+n:]
	}
	return frames
}

// Pending reports the number of buffered bytes that do not yet form a frame.
func (d *Deframer) Pending() int { return len(d.buf) }
