package vsync

import (
	"fmt"
	"testing"
	"testing/synctest"
	"time"
)

func TestSelfTest(t *testing.T) {
	synctest.Test(t, func(t *testing.T) {
		if err := SelfTest(); err != nil {
			t.Fatal(err)
		}
	})
}

// lost update: two threads do read; lock-free write under separate lock sections
func TestToyLostUpdate(t *testing.T) {
	cfg := &Config{Name: "toy", Bound: 2, Body: func() {
		var mu Mutex
		x := 0
		var wg WaitGroup
		for i := 0; i < 2; i++ {
			wg.Add(1)
			GoNamed(fmt.Sprintf("w%d", i), func() {
				defer wg.Done()
				mu.Lock()
				v := x
				mu.Unlock()
				mu.Lock()
				x = v + 1
				mu.Unlock()
			})
		}
		wg.Wait()
		Logf("x=%d", x)
	}, Check: func(x *Exec) string {
		if x.Outcome() != "x=2" {
			return "lost update: " + x.Outcome()
		}
		return ""
	}}
	start := time.Now()
	r := Explore(t, cfg)
	t.Logf("execs=%d states=%d trans=%d bound=%d exh=%v outcomes=%d viol=%d nondet=%v in %v", r.Executions, r.States, r.Transitions, r.BoundCompleted, r.Exhaustive, r.DistinctOutcomes, len(r.Violations), r.NondetErrors, time.Since(start))
	if len(r.Violations) == 0 {
		t.Fatal("expected violation")
	}
	t.Logf("first violation preempt=%d trace=%v", r.Violations[0].Preempt, r.Violations[0].Trace)
}

func TestToyChan(t *testing.T) {
	cfg := &Config{Name: "toychan", Bound: 2, Horizon: time.Minute, Body: func() {
		c := make(chan int)
		done := make(chan struct{})
		GoNamed("prod", func() {
			for i := 0; i < 2; i++ {
				S[int](c) <- i
			}
			close(C[int](c))
		})
		GoNamed("cons", func() {
			for {
				tm := time.After(time.Second)
				tok := Select(false, CR[int](c), CR(tm))
				select {
				case v, ok := <-MR[int](tok, 0, c):
					if !ok {
						close(done)
						return
					}
					Logf("got %d", v)
				case <-MR(tok, 1, tm):
					Logf("timeout")
				}
			}
		})
		<-R[struct{}](done)
	}}
	r := Explore(t, cfg)
	t.Logf("execs=%d states=%d trans=%d bound=%d exh=%v outcomes=%d viol=%d nondet=%v dl=%d", r.Executions, r.States, r.Transitions, r.BoundCompleted, r.Exhaustive, r.DistinctOutcomes, len(r.Violations), r.NondetErrors, r.Deadlocks)
}

func TestToyDeadlock(t *testing.T) {
	cfg := &Config{Name: "dl", Bound: 1, Body: func() {
		var a, b Mutex
		var wg WaitGroup
		wg.Add(2)
		GoNamed("t1", func() { defer wg.Done(); a.Lock(); b.Lock(); b.Unlock(); a.Unlock() })
		GoNamed("t2", func() { defer wg.Done(); b.Lock(); a.Lock(); a.Unlock(); b.Unlock() })
		wg.Wait()
	}}
	r := Explore(t, cfg)
	t.Logf("execs=%d deadlocks=%d nondet=%v", r.Executions, r.Deadlocks, r.NondetErrors)
	if r.Deadlocks == 0 {
		t.Fatal("expected deadlock")
	}
}
