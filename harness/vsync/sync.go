package vsync

import (
	rsync "sync"
	"sync/atomic"
)

// Aliases for the parts of package sync that are not scheduling-relevant.
type (
	Locker = rsync.Locker
	Pool   = rsync.Pool
	Map    = rsync.Map
	Cond   = rsync.Cond
)

// NewCond mirrors sync.NewCond.
func NewCond(l Locker) *Cond { return rsync.NewCond(l) }

// OnceFunc mirrors sync.OnceFunc.
func OnceFunc(f func()) func() { return rsync.OnceFunc(f) }

// OnceValue mirrors sync.OnceValue.
func OnceValue[T any](f func() T) func() T { return rsync.OnceValue(f) }

// OnceValues mirrors sync.OnceValues.
func OnceValues[T1, T2 any](f func() (T1, T2)) func() (T1, T2) { return rsync.OnceValues(f) }

// Mutex replaces sync.Mutex.
type Mutex struct {
	mu   rsync.Mutex
	held bool
	hb   uint64
}

// release folds the releasing thread's history into the object.
func releaseHB(hb *uint64) {
	if s := active.Load(); s != nil && !s.dead {
		th := s.self()
		*hb = mix(th.h, 11)
	}
}

func (m *Mutex) Lock() {
	s, th := current()
	if s != nil {
		s.park(th, op{kind: opLock, mu: m})
	}
	m.mu.Lock()
	m.held = true
}

func (m *Mutex) TryLock() bool {
	s, th := current()
	if s != nil {
		s.park(th, op{kind: opYield, label: "trylock"})
	}
	ok := m.mu.TryLock()
	if ok {
		m.held = true
	}
	if s != nil {
		th.h = mix(mix(th.h, m.hb), 14)
		if ok {
			th.h = mix(th.h, 15)
			m.hb = th.h
		}
	}
	return ok
}

func (m *Mutex) Unlock() {
	if s := active.Load(); s != nil && s.UnlockYield && !s.dead {
		if th := s.lookup(); th != nil {
			s.park(th, op{kind: opYield, label: "unlock"})
		}
	}
	releaseHB(&m.hb)
	m.held = false
	m.mu.Unlock()
}

// RWMutex replaces sync.RWMutex.
type RWMutex struct {
	mu rsync.RWMutex
	w  bool
	r  int32
	hb uint64
}

func (m *RWMutex) Lock() {
	s, th := current()
	if s != nil {
		s.park(th, op{kind: opLock, rw: m})
	}
	m.mu.Lock()
	m.w = true
}

func (m *RWMutex) TryLock() bool {
	s, th := current()
	if s != nil {
		s.park(th, op{kind: opYield, label: "trylock"})
	}
	if m.mu.TryLock() {
		m.w = true
		return true
	}
	return false
}

func (m *RWMutex) Unlock() {
	releaseHB(&m.hb)
	m.w = false
	m.mu.Unlock()
}

func (m *RWMutex) RLock() {
	s, th := current()
	if s != nil {
		s.park(th, op{kind: opRLock, rw: m})
	}
	m.mu.RLock()
	atomic.AddInt32(&m.r, 1)
}

func (m *RWMutex) TryRLock() bool {
	s, th := current()
	if s != nil {
		s.park(th, op{kind: opYield, label: "tryrlock"})
	}
	if m.mu.TryRLock() {
		atomic.AddInt32(&m.r, 1)
		return true
	}
	return false
}

func (m *RWMutex) RUnlock() {
	releaseHB(&m.hb)
	atomic.AddInt32(&m.r, -1)
	m.mu.RUnlock()
}

// RLocker mirrors sync.RWMutex.RLocker.
func (m *RWMutex) RLocker() Locker { return (*rlocker)(m) }

type rlocker RWMutex

func (r *rlocker) Lock()   { (*RWMutex)(r).RLock() }
func (r *rlocker) Unlock() { (*RWMutex)(r).RUnlock() }

// Once replaces sync.Once.
type Once struct {
	m    Mutex
	done atomic.Bool
}

func (o *Once) Do(f func()) {
	if o.done.Load() && !Active() {
		return
	}
	o.m.Lock()
	defer o.m.Unlock()
	if !o.done.Load() {
		defer o.done.Store(true)
		f()
	}
}

// WaitGroup replaces sync.WaitGroup. It does not wrap the real
// sync.WaitGroup: inside testing/synctest bubbles (one per execution) the
// runtime ties a real WaitGroup to the bubble that first used it, and over
// many thousand short-lived bubbles go1.25.0 was observed to abort the process
// with "WaitGroup.Add called from multiple synctest bubbles" for a WaitGroup
// that only one bubble ever touched. Under the scheduler the wait is decided
// by the scheduler (n <= 0); without it (free-running pass) waiters block on
// a channel closed when the counter reaches zero.
type WaitGroup struct {
	mu      rsync.Mutex
	n       int64
	hb      uint64
	waiters []chan struct{}
}

func (w *WaitGroup) Add(d int) {
	if s := active.Load(); s != nil && !s.dead {
		th := s.self()
		th.h = mix(mix(th.h, w.hb), 12)
		w.hb = th.h
	}
	w.mu.Lock()
	n := atomic.AddInt64(&w.n, int64(d))
	var wake []chan struct{}
	if n <= 0 {
		wake, w.waiters = w.waiters, nil
	}
	w.mu.Unlock()
	if n < 0 {
		panic("vsync: negative WaitGroup counter")
	}
	for _, ch := range wake {
		close(ch)
	}
}

func (w *WaitGroup) Done() { w.Add(-1) }

func (w *WaitGroup) Wait() {
	s, th := current()
	if s != nil {
		s.park(th, op{kind: opWGWait, wg: w})
	}
	w.mu.Lock()
	if atomic.LoadInt64(&w.n) <= 0 {
		w.mu.Unlock()
		return
	}
	ch := make(chan struct{})
	w.waiters = append(w.waiters, ch)
	w.mu.Unlock()
	<-ch
}

func (w *WaitGroup) Go(f func()) {
	w.Add(1)
	Go(func() {
		defer w.Done()
		f()
	})
}
