package vsync

import (
	"cmp"
	"fmt"
	"slices"
	"time"
	"unsafe"
)

// hchan mirrors runtime.hchan of go1.25.0 (self-tested by SelfTest).
type hchan struct {
	qcount   uint
	dataqsiz uint
	buf      unsafe.Pointer
	elemsize uint16
	closed   uint32
	timer    *rtimer
	elemtype unsafe.Pointer
	sendx    uint
	recvx    uint
	recvq    waitq
	sendq    waitq
}

type waitq struct {
	first unsafe.Pointer
	last  unsafe.Pointer
}

// rtimer mirrors the head of runtime.timer of go1.25.0.
type rtimer struct {
	mu      uintptr
	astate  uint8
	state   uint8
	isChan  bool
	isFake  bool
	blocked uint32
	rand    uint32
	when    int64
}

func (c *hchan) recvReady(now int64) bool {
	if c.closed != 0 || c.qcount > 0 || c.sendq.first != nil {
		return true
	}
	if c.timer != nil {
		w := c.timer.when
		return w != 0 && w <= now
	}
	return false
}

func (c *hchan) sendReady() bool {
	return c.closed != 0 || c.qcount < c.dataqsiz || c.recvq.first != nil
}

func chanPtr[T any](c <-chan T) *hchan { return *(**hchan)(unsafe.Pointer(&c)) }

func sendChanPtr[T any](c chan<- T) *hchan { return *(**hchan)(unsafe.Pointer(&c)) }

// Case describes one communication clause of a select.
type Case struct {
	ch   *hchan
	send bool
}

// CR builds a receive case.
func CR[T any](c <-chan T) Case { return Case{ch: chanPtr(c)} }

// CS builds a send case.
func CS[T any](c chan<- T) Case { return Case{ch: sendChanPtr(c), send: true} }

// Tok is the outcome of a Select scheduling point.
type Tok int

const tokPass Tok = -2

// Select is the scheduling point of a select statement (and of every plain
// channel operation). It returns which case the following real statement
// must take; all other cases are masked with MR/MS.
func Select(hasDefault bool, cases ...Case) Tok {
	s, th := current()
	if s == nil {
		return tokPass
	}
	o := op{kind: opSelect, hasDef: hasDefault, cases: make([]selCase, len(cases))}
	for i, c := range cases {
		o.cases[i] = selCase{ch: c.ch, send: c.send}
	}
	r := s.park(th, o)
	return Tok(r.chosen)
}

// MR masks a receive case.
func MR[T any](tok Tok, i int, c <-chan T) <-chan T {
	if tok == tokPass || int(tok) == i {
		return c
	}
	return nil
}

// MS masks a send case.
func MS[T any](tok Tok, i int, c chan<- T) chan<- T {
	if tok == tokPass || int(tok) == i {
		return c
	}
	return nil
}

// R is the scheduling point of a plain receive: <-vsync.R(c).
func R[T any](c <-chan T) <-chan T {
	s, th := current()
	if s == nil {
		return c
	}
	s.park(th, op{kind: opSelect, cases: []selCase{{ch: chanPtr(c)}}})
	return c
}

// S is the scheduling point of a plain send: vsync.S(c) <- v.
func S[T any](c chan<- T) chan<- T {
	s, th := current()
	if s == nil {
		return c
	}
	s.park(th, op{kind: opSelect, cases: []selCase{{ch: sendChanPtr(c), send: true}}})
	return c
}

// C is the scheduling point of close: close(vsync.C(c)).
func C[T any](c chan<- T) chan<- T {
	s, th := current()
	if s == nil {
		return c
	}
	s.park(th, op{kind: opYield, label: "close"})
	ch := sendChanPtr(c)
	th.h = mix(mix(th.h, s.chanH[ch]), 13)
	s.chanH[ch] = th.h
	return c
}

// SelfTest checks the hchan/timer mirrors against channels in known states.
// It must run inside a synctest bubble.
func SelfTest() error {
	now := func() int64 { return time.Now().UnixNano() }
	chk := func(name string, got, want bool) error {
		if got != want {
			return fmt.Errorf("vsync self-test %s: got %v want %v (runtime layout mismatch)", name, got, want)
		}
		return nil
	}
	var errs []error
	add := func(e error) {
		if e != nil {
			errs = append(errs, e)
		}
	}
	u := make(chan int)
	add(chk("unbuf-empty-recv", chanPtr[int](u).recvReady(now()), false))
	add(chk("unbuf-empty-send", chanPtr[int](u).sendReady(), false))
	b := make(chan int, 2)
	add(chk("buf-empty-recv", chanPtr[int](b).recvReady(now()), false))
	add(chk("buf-empty-send", chanPtr[int](b).sendReady(), true))
	b <- 1
	add(chk("buf-1-recv", chanPtr[int](b).recvReady(now()), true))
	b <- 2
	add(chk("buf-full-send", chanPtr[int](b).sendReady(), false))
	cl := make(chan int)
	close(cl)
	add(chk("closed-recv", chanPtr[int](cl).recvReady(now()), true))
	add(chk("closed-send", chanPtr[int](cl).sendReady(), true))
	// waiting sender / receiver
	ws := make(chan int)
	go func() { ws <- 1 }()
	wr := make(chan int)
	go func() { <-wr }()
	// a select waiter
	sel1, sel2 := make(chan int), make(chan int)
	go func() {
		select {
		case <-sel1:
		case sel2 <- 1:
		}
	}()
	time.Sleep(time.Nanosecond) // bubble: others run until durably blocked
	add(chk("waiting-sender-recv", chanPtr[int](ws).recvReady(now()), true))
	add(chk("waiting-sender-send", chanPtr[int](ws).sendReady(), false))
	add(chk("waiting-recver-send", chanPtr[int](wr).sendReady(), true))
	add(chk("waiting-recver-recv", chanPtr[int](wr).recvReady(now()), false))
	add(chk("select-waiter-send", chanPtr[int](sel1).sendReady(), true))
	add(chk("select-waiter-recv", chanPtr[int](sel2).recvReady(now()), true))
	<-ws
	wr <- 1
	sel1 <- 1
	time.Sleep(time.Nanosecond)
	add(chk("select-done-recv", chanPtr[int](sel2).recvReady(now()), false))
	// timers
	tm := time.NewTimer(time.Second)
	add(chk("timer-pending", chanPtr(tm.C).recvReady(now()), false))
	time.Sleep(time.Second)
	add(chk("timer-fired", chanPtr(tm.C).recvReady(now()), true))
	<-tm.C
	add(chk("timer-drained", chanPtr(tm.C).recvReady(now()), false))
	tm.Reset(time.Second)
	add(chk("timer-reset", chanPtr(tm.C).recvReady(now()), false))
	tm.Stop()
	time.Sleep(2 * time.Second)
	add(chk("timer-stopped", chanPtr(tm.C).recvReady(now()), false))
	af := time.After(3 * time.Second)
	time.Sleep(3 * time.Second)
	add(chk("after-fired", chanPtr(af).recvReady(now()), true))
	tk := time.NewTicker(time.Second)
	add(chk("ticker-pending", chanPtr(tk.C).recvReady(now()), false))
	time.Sleep(time.Second)
	add(chk("ticker-fired", chanPtr(tk.C).recvReady(now()), true))
	tk.Stop()
	if len(errs) > 0 {
		return errs[0]
	}
	return nil
}

// MapKeys returns the keys of m in sorted order; vinstr routes selected
// range-over-map loops through it so that replay does not depend on Go's
// randomised map iteration order.
func MapKeys[M ~map[K]V, K cmp.Ordered, V any](m M) []K {
	ks := make([]K, 0, len(m))
	for k := range m {
		ks = append(ks, k)
	}
	slices.Sort(ks)
	return ks
}
