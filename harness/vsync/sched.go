// Package vsync is a drop-in replacement for the subset of package sync (and
// the channel / go statements) used by the instrumented bifrost packages,
// plus a cooperative scheduler that owns every one of those operations.
//
// Outside an active scheduler every shim is a pass-through to the real
// operation. Inside (Sched.Run, which must be called from the root goroutine
// of a testing/synctest bubble) exactly one managed goroutine runs at a time;
// the controller uses synctest.Wait to detect that the released goroutine has
// reached its next scheduling point, finished, or blocked inside code that is
// not instrumented.
package vsync

import (
	"fmt"
	"runtime"
	"sort"
	"strings"
	rsync "sync"
	"sync/atomic"
	"testing/synctest"
	"time"

	"github.com/petermattis/goid"
)

type opKind uint8

const (
	opNone opKind = iota
	opStart
	opYield
	opLock
	opRLock
	opSelect
	opWGWait
	opQuiesce
	opDone
)

var opNames = [...]string{"none", "start", "yield", "lock", "rlock", "chan", "wgwait", "quiesce", "done"}

type tstate uint8

const (
	tsRunning tstate = iota // released by the controller (running, natively blocked, or exited without telling us)
	tsParked                // waiting at a scheduling point
	tsDone
)

type selCase struct {
	ch   *hchan
	send bool
}

type op struct {
	kind   opKind
	mu     *Mutex
	rw     *RWMutex
	wg     *WaitGroup
	cases  []selCase
	hasDef bool
	chosen int // out: selected case for opSelect (-1 = default)
	label  string
}

// Thread is a managed goroutine.
type Thread struct {
	ID     int
	Name   string
	gid    int64
	state  tstate
	op     op
	resume chan struct{}
	s      *Sched
	auto   bool
	nkids  int
	h      uint64 // hash of the thread's causal (happens-before) history
}

// Point is one recorded choice point of an execution.
type Point struct {
	N          int  // number of alternatives
	Chosen     int  // index taken
	Env        bool // environment choice (no preemption cost)
	EnvCost    bool // environment choice whose non-default alternatives count against the deviation bound
	CurEnabled bool // scheduling choice made while the running thread was still enabled
	Tid        int  // thread chosen (sched) or asking (env)
}

// Sched is one execution's scheduler.
type Sched struct {
	mu      rsync.Mutex
	threads []*Thread
	byGid   map[int64]*Thread
	cur     *Thread
	dead    bool

	prefix  []Point // choices to replay (N must match)
	Points  []Point
	Trace   []string // per step: thread name + op
	Log     []string // harness observations
	Steps   int
	MaxStep int           // step horizon
	Horizon time.Duration // virtual time the controller may advance while nothing is enabled
	Quantum time.Duration

	Deadlock   bool
	HorizonHit bool
	Diverged   string
	Panics     []string
	StateSigs  map[uint64]struct{}
	MaxEnabled int

	objIDs map[any]int
	waited time.Duration

	// happens-before state caching
	chanH    map[*hchan]uint64
	objH     map[any]uint64
	Visited  map[uint64]int8 // state key -> largest remaining preemption budget explored from it (shared across executions)
	Bound    int
	preempts int
	Pruned   bool
	NoTrace  bool
	Delay    bool
	// UnlockYield makes every Unlock a scheduling point (taken while the lock
	// is still held), so that TryLock failures are reachable.
	UnlockYield bool
	// DrainOnPrune: when an execution reaches an already-explored state it is
	// not cut (threads killed) but run to its end with default choices; needed
	// when threads may be inside un-instrumented frames that cannot be unwound.
	DrainOnPrune bool
	draining     bool
}

func mix(a, b uint64) uint64 {
	x := a*0x9e3779b97f4a7c15 ^ (b + 0x7f4a7c159e3779b9 + (a << 6) + (a >> 2))
	x ^= x >> 30
	x *= 0xbf58476d1ce4e5b9
	x ^= x >> 27
	x *= 0x94d049bb133111eb
	x ^= x >> 31
	return x
}

func hashStr(s string) uint64 {
	h := uint64(14695981039346656037)
	for i := 0; i < len(s); i++ {
		h ^= uint64(s[i])
		h *= 1099511628211
	}
	return h
}

// applyHB folds the operation th is about to execute into the happens-before
// hashes of the thread and of the objects it touches.
func (s *Sched) applyHB(th *Thread, partner *Thread) {
	o := &th.op
	switch o.kind {
	case opStart:
		// h was seeded at spawn
	case opYield:
		th.h = mix(th.h, hashStr(o.label))
	case opQuiesce:
		// quiescence depends on every thread: order it after all of them
		h := th.h
		for _, t := range s.threads {
			h = mix(h, t.h)
		}
		th.h = mix(h, 0x71)
	case opLock:
		if o.mu != nil {
			th.h = mix(mix(th.h, o.mu.hb), 1)
			o.mu.hb = th.h
		} else {
			th.h = mix(mix(th.h, o.rw.hb), 2)
			o.rw.hb = th.h
		}
	case opRLock:
		th.h = mix(mix(th.h, o.rw.hb), 3)
		o.rw.hb = th.h
	case opWGWait:
		th.h = mix(mix(th.h, o.wg.hb), 4)
	case opSelect:
		// a select reads the state of all its channels and writes the chosen one
		h := th.h
		for _, c := range o.cases {
			if c.ch != nil {
				h = mix(h, s.chanH[c.ch]+uint64(c.ch.closed)<<40+uint64(c.ch.qcount)<<20)
			}
		}
		h = mix(h, uint64(o.chosen+2))
		if partner != nil {
			ph := partner.h
			for _, c := range partner.op.cases {
				if c.ch != nil {
					ph = mix(ph, s.chanH[c.ch]+uint64(c.ch.closed)<<40+uint64(c.ch.qcount)<<20)
				}
			}
			ph = mix(ph, uint64(partner.op.chosen+2))
			j := mix(h, ph)
			th.h, partner.h = mix(j, 5), mix(j, 6)
			s.chanH[o.cases[o.chosen].ch] = j
			return
		}
		th.h = h
		if o.chosen >= 0 {
			s.chanH[o.cases[o.chosen].ch] = h
		}
	}
}

// stateKey hashes the happens-before history of every thread (ordered by
// name, which is stable across equivalent interleavings) and the identity of
// the running thread.
func (s *Sched) stateKey() uint64 {
	type nh struct {
		n  string
		h  uint64
		st tstate
	}
	v := make([]nh, 0, len(s.threads))
	for _, t := range s.threads {
		v = append(v, nh{t.Name, t.h, t.state})
	}
	sort.Slice(v, func(i, j int) bool { return v[i].n < v[j].n })
	k := uint64(len(v))
	for _, x := range v {
		k = mix(mix(k, hashStr(x.n)), x.h+uint64(x.st))
	}
	if s.cur != nil {
		k = mix(k, hashStr(s.cur.Name))
	}
	return mix(k, uint64(time.Now().UnixNano()))
}

var active atomic.Pointer[Sched]

// Active reports whether a scheduler is running.
func Active() bool { return active.Load() != nil }

// New creates a scheduler that will replay prefix and then take choice 0.
func New(prefix []Point) *Sched {
	return &Sched{
		prefix:    prefix,
		byGid:     map[int64]*Thread{},
		MaxStep:   20000,
		Quantum:   time.Millisecond,
		StateSigs: map[uint64]struct{}{},
		objIDs:    map[any]int{},
		chanH:     map[*hchan]uint64{},
		objH:      map[any]uint64{},
	}
}

func (s *Sched) self() *Thread {
	g := goid.Get()
	s.mu.Lock()
	th := s.byGid[g]
	if th == nil {
		th = &Thread{ID: len(s.threads), gid: g, s: s, auto: true, resume: make(chan struct{})}
		th.Name = fmt.Sprintf("auto%d", th.ID)
		s.threads = append(s.threads, th)
		s.byGid[g] = th
	}
	s.mu.Unlock()
	return th
}

// lookup returns the calling goroutine's thread if it is already managed.
func (s *Sched) lookup() *Thread {
	g := goid.Get()
	s.mu.Lock()
	th := s.byGid[g]
	s.mu.Unlock()
	return th
}

// cur returns the scheduler and thread of the calling goroutine, or nil.
func current() (*Sched, *Thread) {
	s := active.Load()
	if s == nil {
		return nil, nil
	}
	if s.dead {
		// teardown: managed goroutines unwind, everything else passes through
		g := goid.Get()
		s.mu.Lock()
		th := s.byGid[g]
		s.mu.Unlock()
		if th != nil {
			runtime.Goexit()
		}
		return nil, nil
	}
	return s, s.self()
}

// park blocks the calling thread at a scheduling point until the controller
// releases it.
func (s *Sched) park(th *Thread, o op) *op {
	s.mu.Lock()
	th.op = o
	th.state = tsParked
	s.mu.Unlock()
	<-th.resume
	if s.dead {
		runtime.Goexit()
	}
	return &th.op
}

func (s *Sched) objID(p any) int {
	id, ok := s.objIDs[p]
	if !ok {
		id = len(s.objIDs) + 1
		s.objIDs[p] = id
	}
	return id
}

func (s *Sched) describe(th *Thread) string {
	o := &th.op
	var b strings.Builder
	b.WriteString(th.Name)
	b.WriteByte(':')
	b.WriteString(opNames[o.kind])
	switch o.kind {
	case opLock:
		fmt.Fprintf(&b, "#%d", s.objID(o.mu))
	case opRLock:
		fmt.Fprintf(&b, "#%d", s.objID(o.rw))
	case opSelect:
		for _, c := range o.cases {
			if c.send {
				fmt.Fprintf(&b, "!%d", s.objID(c.ch))
			} else {
				fmt.Fprintf(&b, "?%d", s.objID(c.ch))
			}
		}
		if o.hasDef {
			b.WriteString("d")
		}
	}
	if o.label != "" {
		b.WriteByte('(')
		b.WriteString(o.label)
		b.WriteByte(')')
	}
	return b.String()
}

// ready reports whether the parked thread can take its pending operation.
// For opSelect it returns the ready case indexes in source order.
func (s *Sched) ready(th *Thread, othersEnabled bool) (bool, []int) {
	o := &th.op
	switch o.kind {
	case opStart, opYield:
		return true, nil
	case opLock:
		if o.mu != nil {
			return !o.mu.held, nil
		}
		return !o.rw.w && o.rw.r == 0, nil
	case opRLock:
		return !o.rw.w, nil
	case opWGWait:
		return o.wg.n <= 0, nil
	case opQuiesce:
		return !othersEnabled, nil
	case opSelect:
		opts := s.selOptions(th)
		return len(opts) > 0, nil
	}
	return false, nil
}

// selOpt is one way a parked channel operation can proceed.
type selOpt struct {
	idx     int     // case index (-1 = default)
	partner *Thread // parked thread completing an unbuffered rendezvous (nil = natively ready)
	pidx    int     // the partner's case index
}

// selOptions lists, in source order, the ways th's pending channel operation
// can proceed: natively ready cases, rendezvous with another parked thread on
// an unbuffered channel, or default.
func (s *Sched) selOptions(th *Thread) []selOpt {
	o := &th.op
	var opts []selOpt
	now := time.Now().UnixNano()
	native := false
	for i, c := range o.cases {
		if c.ch == nil {
			continue
		}
		if (c.send && c.ch.sendReady()) || (!c.send && c.ch.recvReady(now)) {
			opts = append(opts, selOpt{idx: i})
			native = true
			continue
		}
		if c.ch.dataqsiz != 0 {
			continue
		}
		for _, t2 := range s.threads {
			if t2 == th || t2.state != tsParked || t2.op.kind != opSelect {
				continue
			}
			for j, c2 := range t2.op.cases {
				if c2.ch == c.ch && c2.send != c.send {
					opts = append(opts, selOpt{idx: i, partner: t2, pidx: j})
				}
			}
		}
	}
	if o.hasDef && !native {
		opts = append(opts, selOpt{idx: -1})
	}
	return opts
}

// nextChoice records a choice point and returns the alternative to take.
func (s *Sched) nextChoice(n int, env bool, curEnabled bool, tid int) int {
	i := len(s.Points)
	c := 0
	if i < len(s.prefix) {
		p := s.prefix[i]
		if (p.N != n && !(p.N == 255 && n > 255)) || p.Env != env {
			if s.Diverged == "" {
				s.Diverged = fmt.Sprintf("choice %d: recorded n=%d env=%v, now n=%d env=%v", i, p.N, p.Env, n, env)
			}
		} else {
			c = p.Chosen
		}
	}
	s.Points = append(s.Points, Point{N: n, Chosen: c, Env: env, CurEnabled: curEnabled, Tid: tid})
	return c
}

// Run executes main as thread 0 under the scheduler. It must be called from
// the root goroutine of a synctest bubble.
func (s *Sched) Run(main func()) {
	if !active.CompareAndSwap(nil, s) {
		panic("vsync: scheduler already active")
	}
	defer active.Store(nil)
	s.spawn(nil, "main", main)
	var mainTh *Thread
	for {
		synctest.Wait()
		s.mu.Lock()
		if mainTh == nil {
			mainTh = s.threads[0]
		}
		// collect parked threads; Quiesce ops are enabled only if nothing else is
		var en []*Thread
		var quies []*Thread
		for _, th := range s.threads {
			if th.state != tsParked {
				continue
			}
			if th.op.kind == opQuiesce {
				quies = append(quies, th)
				continue
			}
			if ok, _ := s.ready(th, false); ok {
				en = append(en, th)
			}
		}
		if len(en) == 0 && len(quies) > 0 {
			en = quies[:1]
		}
		mainDone := mainTh.state == tsDone
		s.mu.Unlock()
		if mainDone {
			break
		}
		if s.Diverged != "" {
			break
		}
		if len(en) == 0 {
			// nothing enabled: let virtual time pass (lowest-priority transition)
			if s.waited < s.Horizon {
				q := s.Quantum
				if s.waited+q > s.Horizon {
					q = s.Horizon - s.waited
				}
				time.Sleep(q)
				s.waited += q
				if s.Quantum < time.Hour {
					s.Quantum *= 2
				}
				continue
			}
			s.Deadlock = true
			break
		}
		s.Quantum = time.Millisecond
		if s.Steps >= s.MaxStep {
			s.HorizonHit = true
			break
		}
		s.Steps++
		if len(en) > s.MaxEnabled {
			s.MaxEnabled = len(en)
		}
		// canonical order: running thread first if still enabled, then ascending ids
		sort.Slice(en, func(i, j int) bool { return en[i].ID < en[j].ID })
		curEnabled := false
		for i, th := range en {
			if th == s.cur {
				curEnabled = true
				copy(en[1:i+1], en[:i])
				en[0] = th
				break
			}
		}
		key := s.stateKey()
		s.StateSigs[key] = struct{}{}
		if s.Visited != nil && len(s.Points) >= len(s.prefix) && !s.draining {
			rem := int8(s.Bound - s.preempts)
			if old, ok := s.Visited[key]; ok && old >= rem {
				s.Pruned = true
				if !s.DrainOnPrune {
					break
				}
				s.draining = true
			} else {
				s.Visited[key] = rem
			}
		}
		idx := 0
		if len(en) > 1 {
			idx = s.nextChoice(len(en), false, curEnabled, 0)
			if idx >= len(en) {
				s.Diverged = "scheduling choice out of range"
				break
			}
			s.Points[len(s.Points)-1].Tid = en[idx].ID
			if (curEnabled || s.Delay) && idx > 0 {
				s.preempts++
			}
		}
		th := en[idx]
		// resolve the operation's effect while the world is still
		var partner *Thread
		if th.op.kind == opSelect {
			opts := s.selOptions(th)
			k := 0
			if len(opts) > 1 {
				k = s.nextChoice(len(opts), true, false, th.ID)
				if k >= len(opts) {
					s.Diverged = "select choice out of range"
					break
				}
			}
			th.op.chosen = opts[k].idx
			if opts[k].partner != nil {
				partner = opts[k].partner
				partner.op.chosen = opts[k].pidx
			}
		}
		s.applyHB(th, partner)
		if !s.NoTrace {
			s.Trace = append(s.Trace, s.describe(th))
		}
		s.cur = th
		th.state = tsRunning
		th.resume <- struct{}{}
		if partner != nil {
			// unbuffered rendezvous: th blocks natively in its (single unmasked)
			// case, then the partner completes it; one atomic transition.
			synctest.Wait()
			if !s.NoTrace {
				s.Trace = append(s.Trace, "+"+s.describe(partner))
			}
			partner.state = tsRunning
			partner.resume <- struct{}{}
		}
	}
	// teardown: unwind every managed goroutine that is still parked
	s.mu.Lock()
	s.dead = true
	for _, th := range s.threads {
		if th.state == tsParked {
			close(th.resume)
		}
	}
	s.mu.Unlock()
	synctest.Wait()
}

func (s *Sched) spawn(parent *Thread, name string, fn func()) {
	s.mu.Lock()
	th := &Thread{ID: len(s.threads), s: s, resume: make(chan struct{})}
	if name == "" {
		parent.nkids++
		name = fmt.Sprintf("%s.%d", parent.Name, parent.nkids)
	}
	th.Name = name
	th.state = tsRunning
	if parent != nil {
		th.h = mix(mix(parent.h, hashStr(name)), 7)
		parent.h = mix(parent.h, 8)
	} else {
		th.h = hashStr(name)
	}
	s.threads = append(s.threads, th)
	s.mu.Unlock()
	go func() {
		th.gid = goid.Get()
		s.mu.Lock()
		s.byGid[th.gid] = th
		s.mu.Unlock()
		defer func() {
			if r := recover(); r != nil {
				buf := make([]byte, 4096)
				buf = buf[:runtime.Stack(buf, false)]
				s.mu.Lock()
				s.Panics = append(s.Panics, fmt.Sprintf("%s: panic: %v\n%s", th.Name, r, buf))
				s.mu.Unlock()
			}
			s.mu.Lock()
			th.state = tsDone
			delete(s.byGid, th.gid)
			s.mu.Unlock()
		}()
		s.park(th, op{kind: opStart})
		fn()
	}()
}

// ---- API used by instrumented code and harnesses ----

// Go replaces the go statement.
func Go(fn func()) {
	s, th := current()
	if s == nil {
		go fn()
		return
	}
	s.spawn(th, "", fn)
}

// GoNamed starts a named harness thread.
func GoNamed(name string, fn func()) {
	s, th := current()
	if s == nil {
		go fn()
		return
	}
	s.spawn(th, name, fn)
}

// Yield is an explicit scheduling point.
func Yield(label string) {
	s, th := current()
	if s == nil {
		if freeMode.Load() {
			runtime.Gosched()
		}
		return
	}
	s.park(th, op{kind: opYield, label: label})
}

// Quiesce blocks until no other managed thread is enabled.
func Quiesce() {
	s, th := current()
	if s == nil {
		if freeMode.Load() {
			// free run inside a bubble: a virtual-time sleep returns once every
			// other goroutine is durably blocked
			time.Sleep(time.Millisecond)
		}
		return
	}
	s.park(th, op{kind: opQuiesce})
}

// ChooseCost is an environment choice whose non-default alternatives each
// cost one unit of the deviation bound (e.g. "this read returns short").
func ChooseCost(n int) int {
	s, th := current()
	if s == nil || n <= 1 {
		return 0
	}
	c := s.nextChoice(n, true, false, th.ID)
	s.Points[len(s.Points)-1].EnvCost = true
	if c >= n {
		s.Diverged = "env choice out of range"
		return 0
	}
	if c > 0 {
		s.preempts++
	}
	th.h = mix(mix(th.h, 9), uint64(c))
	return c
}

// Choose is an environment choice with n alternatives (0 is the default).
func Choose(n int) int {
	s, th := current()
	if s == nil && n > 1 && freeMode.Load() {
		return int((freeCtr.Add(1) * 2654435761 >> 11) % uint64(n))
	}
	if s == nil || n <= 1 {
		return 0
	}
	c := s.nextChoice(n, true, false, th.ID)
	if c >= n {
		s.Diverged = "env choice out of range"
		return 0
	}
	th.h = mix(mix(th.h, 9), uint64(c))
	return c
}

// Touch records a write access of the calling thread to a harness-level
// shared object, so that happens-before caching orders it with the other
// accesses to the same object.
func Touch(obj any) {
	s, th := current()
	if s == nil {
		return
	}
	th.h = mix(mix(th.h, s.objH[obj]), 10)
	s.objH[obj] = th.h
}

// LogOrdered is Logf for observations whose relative order across threads is
// used by an oracle: it orders the calling thread after every earlier
// LogOrdered call.
func LogOrdered(format string, a ...any) {
	Touch(logObj)
	Logf(format, a...)
}

var logObj = new(int)

// freeMode: scenario bodies are being run without a scheduler (race pass).
var (
	freeMode atomic.Bool
	freeCtr  atomic.Uint64
)

// Logf appends an observation to the execution log.
func Logf(format string, a ...any) {
	s := active.Load()
	if s == nil {
		return
	}
	s.mu.Lock()
	s.Log = append(s.Log, fmt.Sprintf(format, a...))
	s.mu.Unlock()
}

// Step returns the scheduler's logical clock.
func Step() int {
	s := active.Load()
	if s == nil {
		return 0
	}
	return s.Steps
}
