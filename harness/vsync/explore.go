package vsync

import (
	"strconv"
	"fmt"
	"hash/fnv"
	"os"
	"runtime"
	"strings"
	"testing"
	"testing/synctest"
	"time"
)

// Exec is the record of one complete execution.
type Exec struct {
	Points     []Point
	Trace      []string
	Log        []string
	Deadlock   bool
	HorizonHit bool
	Diverged   string
	Panics     []string
	Leaked     string // synctest complaint about goroutines left behind
	Hung       bool   // wedged (see runOnce); abandoned
	Pruned     bool   // stopped at a state already explored with at least this preemption budget
	Steps      int
	Preempt    int
	sigs       map[uint64]struct{}
	MaxEnabled int
}

// Choices renders the choice list of the execution.
func (x *Exec) Choices() []int {
	r := make([]int, len(x.Points))
	for i, p := range x.Points {
		r[i] = p.Chosen
	}
	return r
}

// Outcome is the observation log as one string.
func (x *Exec) Outcome() string { return strings.Join(x.Log, "\n") }

// Config bounds one exploration.
type Config struct {
	Name     string
	Bound    int           // preemption bound (iterated 0..Bound)
	MaxExecs int           // cap on executions (0 = none)
	Deadline time.Time     // wall-clock deadline (zero = none); hitting it ends the run with Exhaustive=false
	MaxStep  int           // per-execution step horizon
	Horizon  time.Duration // per-execution virtual-time horizon
	// Body builds fresh objects and drives them; it runs as thread "main".
	Body func()
	// Check is the oracle for one finished execution; it returns a violation
	// description or "".
	Check func(x *Exec) string
	// Observe, if set, tags each complete execution; tag counts are reported
	// (used as vacuity guards: "at least one execution delivered a message").
	Observe func(x *Exec) []string
	// StopAtFirst stops at the first violation.
	StopAtFirst bool
	// Delay selects delay bounding: every deviation from the default scheduling
	// choice costs one unit of Bound, including switches made while the running
	// thread is blocked (which are free under preemption bounding).
	Delay bool
	// UnlockYield makes Unlock a scheduling point (needed when the code under
	// test uses TryLock).
	UnlockYield bool
	// DrainOnPrune runs pruned executions to their end instead of unwinding
	// their threads (for harnesses that include un-instrumented frameworks).
	DrainOnPrune bool
	// NoCache disables happens-before state caching (every schedule within
	// the bound is then executed to the end).
	NoCache bool
}

// Violation is a failing execution.
type Violation struct {
	What    string
	Choices []Point
	Trace   []string
	Log     []string
	Preempt int
}

// Result summarises an exploration.
type Result struct {
	Name             string
	Executions       int
	Transitions      int
	States           int
	BoundCompleted   int // highest preemption bound fully explored (-1 = none)
	Exhaustive       bool
	DistinctOutcomes int
	MaxDepth         int
	MaxEnabled       int
	Deadlocks        int
	HorizonHits      int
	EnvChoices       int
	Violations       []Violation
	NViolations      int // violating executions (Violations keeps the first 20)
	Pruned           int // executions cut at an already-explored state
	Hangs            int // executions abandoned by the watchdog
	Samples          [][]string
	NondetErrors     []string
	Cap              string
	Tags             map[string]int
}

// RunOnce executes body under a scheduler replaying prefix.
func RunOnce(t *testing.T, cfg *Config, prefix []Point) *Exec {
	return runOnce(t, cfg, prefix, nil, false)
}

func runOnce(t *testing.T, cfg *Config, prefix []Point, visited map[uint64]int8, noTrace bool) *Exec {
	x := &Exec{}
	done := make(chan struct{})
	go func() {
		defer close(done)
		defer func() {
			if r := recover(); r != nil {
				x.Leaked = fmt.Sprint(r)
			}
		}()
		synctest.Test(t, func(t *testing.T) {
			s := New(prefix)
			if cfg.MaxStep > 0 {
				s.MaxStep = cfg.MaxStep
			}
			s.Horizon = cfg.Horizon
			s.Visited, s.Bound, s.NoTrace, s.Delay, s.UnlockYield = visited, cfg.Bound, noTrace, cfg.Delay, cfg.UnlockYield
			s.DrainOnPrune = cfg.DrainOnPrune
			s.Run(cfg.Body)
			x.Pruned = s.Pruned
			x.Points, x.Trace, x.Log = s.Points, s.Trace, s.Log
			x.Deadlock, x.HorizonHit, x.Diverged, x.Panics = s.Deadlock, s.HorizonHit, s.Diverged, s.Panics
			x.Steps, x.sigs, x.MaxEnabled = s.Steps, s.StateSigs, s.MaxEnabled
		})
	}()
	// Watchdog (real time, outside the bubble): an execution can wedge when code
	// that is not instrumented blocks on a real lock held by a parked thread;
	// synctest.Wait then never returns. Such an execution is abandoned (its
	// goroutines stay parked), recorded as hung and makes the run non-exhaustive.
	select {
	case <-done:
	case <-time.After(hangTimeout):
		dumpHang(cfg.Name)
		active.Store(nil)
		return &Exec{Hung: true, Points: prefix}
	}
	for _, p := range x.Points {
		if (p.EnvCost || !p.Env && (p.CurEnabled || cfg.Delay)) && p.Chosen > 0 {
			x.Preempt++
		}
	}
	return x
}

var hangTimeout = 20 * time.Second

var hangDumped bool

func dumpHang(name string) {
	if hangDumped {
		return
	}
	hangDumped = true
	buf := make([]byte, 1<<20)
	buf = buf[:runtime.Stack(buf, true)]
	_ = os.WriteFile(fmt.Sprintf("/tmp/vsync-hang-%d.txt", os.Getpid()), append([]byte("scenario "+name+"\n"), buf...), 0o644)
}

// item is a pending prefix, stored compactly (3 bytes per choice point): the
// frontier of a large exploration holds millions of them.
type item struct {
	enc []byte
}

func packPrefix(ps []Point) []byte {
	b := make([]byte, 0, 3*len(ps))
	for _, p := range ps {
		fl := byte(0)
		if p.Env {
			fl |= 1
		}
		if p.EnvCost {
			fl |= 2
		}
		n, c := p.N, p.Chosen
		if n > 255 {
			n = 255
		}
		b = append(b, fl, byte(n), byte(c))
	}
	return b
}

func unpackPrefix(b []byte) []Point {
	ps := make([]Point, len(b)/3)
	for i := range ps {
		ps[i] = Point{Env: b[3*i]&1 != 0, EnvCost: b[3*i]&2 != 0, N: int(b[3*i+1]), Chosen: int(b[3*i+2])}
	}
	return ps
}

// Explore enumerates every schedule / environment choice of cfg.Body with at
// most cfg.Bound preemptions, in order of increasing preemption count.
func Explore(t *testing.T, cfg *Config) *Result {
	if n, _ := strconv.Atoi(os.Getenv("VERIF_FREERUN")); n > 0 {
		return freeRun(t, cfg, n)
	}
	res := &Result{Name: cfg.Name, BoundCompleted: -1}
	stacks := make([][]item, cfg.Bound+1)
	stacks[0] = []item{{}}
	_ = packPrefix
	outcomes := map[uint64]struct{}{}
	states := map[uint64]struct{}{}
	var visited map[uint64]int8
	if !cfg.NoCache {
		visited = map[uint64]int8{}
	}
	verified := 0
	capped := false
	var first, last *Exec
	for level := 0; level <= cfg.Bound && !capped; level++ {
		for len(stacks[level]) > 0 {
			if cfg.MaxExecs > 0 && res.Executions >= cfg.MaxExecs {
				capped, res.Cap = true, fmt.Sprintf("max executions %d", cfg.MaxExecs)
				break
			}
			if !cfg.Deadline.IsZero() && time.Now().After(cfg.Deadline) {
				capped, res.Cap = true, "deadline"
				break
			}
			n := len(stacks[level])
			it := stacks[level][n-1]
			stacks[level] = stacks[level][:n-1]
			itPrefix := unpackPrefix(it.enc)
			x := runOnce(t, cfg, itPrefix, visited, res.Executions >= 3)
			res.Executions++
			if x.Pruned {
				res.Pruned++
			}
			if x.Hung {
				res.Hangs++
				if res.Hangs >= 3 {
					capped, res.Cap = true, "3 wedged executions (uninstrumented lock held by a parked thread)"
					break
				}
				continue
			}
			res.Transitions += x.Steps
			for k := range x.sigs {
				states[k] = struct{}{}
			}
			if !x.Pruned {
				if first == nil {
					first = x
				}
				last = x
			}
			if x.Diverged != "" {
				res.NondetErrors = append(res.NondetErrors, x.Diverged)
				continue
			}
			if len(x.Points) > res.MaxDepth {
				res.MaxDepth = len(x.Points)
			}
			if x.MaxEnabled > res.MaxEnabled {
				res.MaxEnabled = x.MaxEnabled
			}
			if x.Deadlock {
				res.Deadlocks++
			}
			if x.HorizonHit {
				res.HorizonHits++
			}
			what := ""
			if !x.Pruned && cfg.Observe != nil {
				if res.Tags == nil {
					res.Tags = map[string]int{}
				}
				for _, tg := range cfg.Observe(x) {
					res.Tags[tg]++
				}
			}
			if !x.Pruned {
				h := fnv.New64a()
				h.Write([]byte(x.Outcome()))
				outcomes[h.Sum64()] = struct{}{}
				if len(res.Samples) < 3 && len(x.Trace) > 0 {
					res.Samples = append(res.Samples, append([]string{}, x.Trace...))
				}
			}
			if len(x.Panics) > 0 {
				what = "panic: " + x.Panics[0]
			} else if cfg.Check != nil && !x.Pruned {
				what = cfg.Check(x)
			}
			if what != "" {
				res.NViolations++
			}
			if what != "" && (verified < 5 || len(res.Violations) < 20) {
				v := Violation{What: what, Choices: x.Points, Trace: x.Trace, Log: x.Log, Preempt: x.Preempt}
				// determinism: the same schedule must fail identically 5 times
				// (checked for the first violations; later ones are replayed once for their trace)
				ok := true
				nrep := 5
				if verified >= 5 {
					nrep = 1
				}
				verified++
				for i := 0; i < nrep && ok; i++ {
					y := RunOnce(t, cfg, x.Points)
					v.Trace = y.Trace
					w2 := ""
					if len(y.Panics) > 0 {
						w2 = "panic: " + y.Panics[0]
					} else if cfg.Check != nil {
						w2 = cfg.Check(y)
					}
					if y.Diverged != "" || y.Outcome() != x.Outcome() || (w2 == "") != (what == "") {
						ok = false
						res.NondetErrors = append(res.NondetErrors, fmt.Sprintf("violation not reproducible: %s / replay: %s %s", what, w2, y.Diverged))
					}
				}
				if ok {
					res.Violations = append(res.Violations, v)
					if cfg.StopAtFirst {
						capped, res.Cap = true, "stopped at first violation"
						break
					}
				}
			}
			// successors
			cost := 0
			for i := 0; i < len(x.Points); i++ {
				p := x.Points[i]
				if i >= len(itPrefix) {
					for alt := 1; alt < p.N; alt++ {
						c := cost
						if p.EnvCost || !p.Env && (p.CurEnabled || cfg.Delay) {
							c++
						}
						if c > cfg.Bound {
							continue
						}
						np := make([]Point, i+1)
						copy(np, x.Points[:i])
						np[i] = Point{N: p.N, Chosen: alt, Env: p.Env, EnvCost: p.EnvCost}
						stacks[c] = append(stacks[c], item{enc: packPrefix(np)})
					}
				}
				if (p.EnvCost || !p.Env && (p.CurEnabled || cfg.Delay)) && p.Chosen > 0 {
					cost++
				}
				if p.Env {
					res.EnvChoices++
				}
			}
		}
		if !capped {
			res.BoundCompleted = level
		}
	}
	// canary: first and last schedule replay identically
	for _, x := range []*Exec{first, last} {
		if x == nil || x.Diverged != "" {
			continue
		}
		y := RunOnce(t, cfg, x.Points)
		if y.Diverged != "" || y.Outcome() != x.Outcome() || len(y.Points) != len(x.Points) || y.Steps != x.Steps {
			res.NondetErrors = append(res.NondetErrors, "canary replay differs: "+y.Diverged)
		}
	}
	res.States = len(states)
	res.DistinctOutcomes = len(outcomes)
	res.Exhaustive = !capped && res.BoundCompleted == cfg.Bound && res.Hangs == 0
	return res
}


// freeRun executes the scenario body n times WITHOUT the scheduler (real
// goroutines, real locks, virtual time) for the separate race-detector pass:
// under the cooperative scheduler every hand-off is a happens-before edge, so
// the race detector can only see unsynchronised accesses in a free run.
// Nothing is decided here.
func freeRun(t *testing.T, cfg *Config, n int) *Result {
	res := &Result{Name: cfg.Name, BoundCompleted: cfg.Bound}
	freeMode.Store(true)
	defer freeMode.Store(false)
	for i := 0; i < n; i++ {
		func() {
			defer func() {
				if r := recover(); r != nil {
					fmt.Printf("freerun: %s iteration %d: %v\n", cfg.Name, i, r)
				}
			}()
			freeCtr.Store(uint64(i) * 7919)
			// a subtest per iteration: when the race detector reports something the
			// testing package fails (and leaves) only that subtest
			t.Run(fmt.Sprintf("freerun-%d", i), func(t *testing.T) {
				synctest.Test(t, func(t *testing.T) {
					// without the scheduler a body may deadlock in the bubble (e.g. it
					// relies on Quiesce ordering): the bubble's panic is raised here
					defer func() {
						if r := recover(); r != nil {
							fmt.Printf("freerun: %s iteration %d: %v\n", cfg.Name, i, r)
						}
					}()
					cfg.Body()
				})
			})
		}()
		res.Executions++
	}
	return res
}
