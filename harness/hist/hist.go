// Package hist is the explicit-state engine (E3): breadth-first search over
// event histories applied to fresh real objects. A state is the history that
// reaches it; after every event the system is run to quiescence inside a
// testing/synctest bubble (virtual time); states are de-duplicated on a
// canonical dump of the property-relevant fields.
package hist

import (
	"fmt"
	"strings"
	"testing"
	"testing/synctest"
	"time"
)

// Sys is one fresh instance of the system under test plus its observer.
type Sys interface {
	// Enabled lists the events that may be applied next (small finite menu).
	Enabled() []string
	// Apply performs one event. The engine calls synctest.Wait afterwards.
	Apply(ev string)
	// Canon returns the canonical, property-relevant state (sorted, no pointers).
	Canon() string
	// Check returns violation descriptions ("key :: text") for the current state.
	Check() []string
	// Close releases the instance (cancel contexts); the bubble must be able to exit.
	Close()
}

// Config bounds a search.
type Config struct {
	Name     string
	New      func() Sys
	MaxDepth int
	Deadline time.Time
	// Settle, if non-zero, advances virtual time by this much after each
	// event (in addition to waiting for quiescence).
	Settle time.Duration
	// NoBubble runs outside synctest (real time); Quiesce must then be
	// provided by Apply itself.
	NoBubble bool
}

// Violation is a failing history.
type Violation struct {
	Key, What string
	History   []string
}

// Result summarises a search.
type Result struct {
	Name           string
	States         int
	Transitions    int
	Histories      int
	DepthCompleted int
	Exhaustive     bool
	Violations     []Violation
	Nondet         []string
	Samples        [][]string
	MaxFrontier    int
}

type outcome struct {
	canon   string
	viols   []string
	enabled []string
	panicv  any
}

func runHist(t *testing.T, cfg *Config, h []string) (o outcome) {
	body := func() {
		sys := cfg.New()
		defer sys.Close()
		if !cfg.NoBubble {
			synctest.Wait()
		}
		for _, ev := range h {
			sys.Apply(ev)
			if !cfg.NoBubble {
				synctest.Wait()
				if cfg.Settle > 0 {
					time.Sleep(cfg.Settle)
					synctest.Wait()
				}
			}
			o.viols = append(o.viols, sys.Check()...)
		}
		o.canon = sys.Canon()
		o.enabled = sys.Enabled()
	}
	func() {
		defer func() {
			if r := recover(); r != nil {
				o.panicv = r
			}
		}()
		if cfg.NoBubble {
			body()
			return
		}
		synctest.Test(t, func(t *testing.T) {
			defer func() {
				if r := recover(); r != nil {
					o.panicv = r
				}
			}()
			body()
		})
	}()
	return o
}

// BFS explores all histories up to cfg.MaxDepth, de-duplicating states.
func BFS(t *testing.T, cfg *Config) *Result {
	res := &Result{Name: cfg.Name}
	seen := map[string]bool{}
	type node struct{ h []string }
	root := runHist(t, cfg, nil)
	res.Histories++
	seen[root.canon] = true
	res.States = 1
	frontier := []node{{nil}}
	enabledOf := map[string][]string{"": root.enabled}
	key := func(h []string) string { return strings.Join(h, "\x00") }
	vseen := map[string]bool{}
	capped := false
	for depth := 0; depth < cfg.MaxDepth && len(frontier) > 0 && !capped; depth++ {
		var next []node
		for _, n := range frontier {
			for _, ev := range enabledOf[key(n.h)] {
				if !cfg.Deadline.IsZero() && time.Now().After(cfg.Deadline) {
					capped = true
					break
				}
				h := append(append([]string{}, n.h...), ev)
				o := runHist(t, cfg, h)
				res.Histories++
				res.Transitions++
				if o.panicv != nil {
					k := "panic"
					if !vseen[k+fmt.Sprint(o.panicv)] {
						vseen[k+fmt.Sprint(o.panicv)] = true
						res.Violations = append(res.Violations, Violation{Key: k, What: fmt.Sprint(o.panicv), History: h})
					}
					continue
				}
				for _, v := range o.viols {
					parts := strings.SplitN(v, " :: ", 2)
					if !vseen[parts[0]] {
						vseen[parts[0]] = true
						what := v
						if len(parts) == 2 {
							what = parts[1]
						}
						res.Violations = append(res.Violations, Violation{Key: parts[0], What: what, History: h})
					}
				}
				if len(res.Samples) < 3 || (len(h) == cfg.MaxDepth && len(res.Samples) < 5) {
					res.Samples = append(res.Samples, h)
				}
				if seen[o.canon] {
					continue
				}
				// determinism: a new state must be reproducible
				o2 := runHist(t, cfg, h)
				if o2.canon != o.canon {
					res.Nondet = append(res.Nondet, fmt.Sprintf("history %v: canonical state differs between two runs", h))
				}
				seen[o.canon] = true
				res.States++
				enabledOf[key(h)] = o.enabled
				next = append(next, node{h})
			}
			if capped {
				break
			}
		}
		if len(next) > res.MaxFrontier {
			res.MaxFrontier = len(next)
		}
		frontier = next
		if !capped {
			res.DepthCompleted = depth + 1
		}
	}
	res.Exhaustive = !capped
	return res
}
