package fakes

import (
	"context"
	"sync/atomic"

	"github.com/aperturerobotics/controllerbus/directive"

	"verifh/vsync"
)

// Instance is a directive.Instance that counts references. Like the real
// controllerbus instance it guards its state with a mutex that AddReference
// and Release take (a scheduling point under vsync).
type Instance struct {
	Dir      directive.Directive
	Ctx      context.Context
	Mtx      vsync.Mutex
	Strong   int // outstanding non-weak references
	Weak     int
	Disposed bool
	Handlers []directive.ReferenceHandler
	disposeC []func()
	NAdd     atomic.Int32
}

type instRef struct {
	i        *Instance
	weak     bool
	released bool
	h        directive.ReferenceHandler
}

func (r *instRef) Release() {
	r.i.Mtx.Lock()
	defer r.i.Mtx.Unlock()
	if r.released || r.i.Disposed {
		return
	}
	r.released = true
	if r.weak {
		r.i.Weak--
	} else {
		r.i.Strong--
	}
	for k, h := range r.i.Handlers {
		if h == r.h && h != nil {
			r.i.Handlers = append(r.i.Handlers[:k:k], r.i.Handlers[k+1:]...)
			break
		}
	}
}

func (i *Instance) GetContext() context.Context {
	if i.Ctx == nil {
		return context.Background()
	}
	return i.Ctx
}
func (i *Instance) GetDirective() directive.Directive { return i.Dir }
func (i *Instance) GetDirectiveIdent() string         { return "fake" }
func (i *Instance) GetResolverErrors() []error        { return nil }

func (i *Instance) AddReference(cb directive.ReferenceHandler, weakRef bool) directive.Reference {
	i.Mtx.Lock()
	defer i.Mtx.Unlock()
	i.NAdd.Add(1)
	r := &instRef{i: i, weak: weakRef, h: cb}
	if i.Disposed {
		r.released = true
		return r
	}
	if weakRef {
		i.Weak++
	} else {
		i.Strong++
	}
	if cb != nil {
		i.Handlers = append(i.Handlers, cb)
	}
	return r
}

func (i *Instance) AddDisposeCallback(cb func()) func() {
	i.Mtx.Lock()
	i.disposeC = append(i.disposeC, cb)
	i.Mtx.Unlock()
	return func() {}
}
func (i *Instance) AddIdleCallback(cb directive.IdleCallback) func()   { return func() {} }
func (i *Instance) AddStateCallback(cb directive.StateCallback) func() { return func() {} }
func (i *Instance) CloseIfUnreferenced(inclWeakRefs bool) bool         { return false }
func (i *Instance) Close()                                             {}

// Snapshot returns (strong, weak, disposed) under the mutex-free assumption
// that the caller runs at quiescence.
func (i *Instance) Snapshot() (int, int, bool) { return i.Strong, i.Weak, i.Disposed }

// MarkDisposed marks the instance released: every outstanding reference is
// dropped, as the real instance does before calling HandleInstanceDisposed.
func (i *Instance) MarkDisposed() []directive.ReferenceHandler {
	i.Mtx.Lock()
	defer i.Mtx.Unlock()
	i.Disposed = true
	i.Strong, i.Weak = 0, 0
	hs := i.Handlers
	i.Handlers = nil
	return hs
}

var _ directive.Instance = (*Instance)(nil)

// Value is a directive.AttachedValue.
type Value struct {
	ID  uint32
	Val directive.Value
}

func (v *Value) GetValueID() uint32        { return v.ID }
func (v *Value) GetValue() directive.Value { return v.Val }
