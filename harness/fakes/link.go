// Package fakes holds boring in-memory implementations of bifrost interfaces
// used by the property harnesses.
package fakes

import (
	"context"
	"errors"
	"io"
	"sync/atomic"
	"time"

	"github.com/aperturerobotics/bifrost/link"
	"github.com/aperturerobotics/bifrost/peer"
	"github.com/aperturerobotics/bifrost/protocol"
	"github.com/aperturerobotics/bifrost/stream"
)

// Stream is a stream.Stream that records Close calls and reads from / writes
// to optional functions.
type Stream struct {
	Name    string
	Closed  atomic.Int32
	OnClose func()
	// CloseErr, if set, is what Close returns (the stream still counts as
	// closed: e.g. the peer had already reset it, or the final flush failed).
	CloseErr error
	ReadFn  func(b []byte) (int, error)
	WriteFn func(b []byte) (int, error)
}

func (s *Stream) Read(b []byte) (int, error) {
	if s.ReadFn != nil {
		return s.ReadFn(b)
	}
	return 0, io.EOF
}

func (s *Stream) Write(b []byte) (int, error) {
	if s.WriteFn != nil {
		return s.WriteFn(b)
	}
	return len(b), nil
}
func (s *Stream) SetReadDeadline(t time.Time) error  { return nil }
func (s *Stream) SetWriteDeadline(t time.Time) error { return nil }
func (s *Stream) SetDeadline(t time.Time) error      { return nil }
func (s *Stream) Close() error {
	s.Closed.Add(1)
	if s.OnClose != nil {
		s.OnClose()
	}
	return s.CloseErr
}

var _ stream.Stream = (*Stream)(nil)

// MountedLink is a link.MountedLink with fixed attributes.
type MountedLink struct {
	UUID, TptUUID, RemoteTptUUID uint64
	Local, Remote                peer.ID
	OpenFn                       func(ctx context.Context, pid protocol.ID) (link.MountedStream, error)
}

func (l *MountedLink) GetLinkUUID() uint64            { return l.UUID }
func (l *MountedLink) GetTransportUUID() uint64       { return l.TptUUID }
func (l *MountedLink) GetRemoteTransportUUID() uint64 { return l.RemoteTptUUID }
func (l *MountedLink) GetLocalPeer() peer.ID          { return l.Local }
func (l *MountedLink) GetRemotePeer() peer.ID         { return l.Remote }
func (l *MountedLink) OpenMountedStream(ctx context.Context, pid protocol.ID, opts stream.OpenOpts) (link.MountedStream, error) {
	if l.OpenFn != nil {
		return l.OpenFn(ctx, pid)
	}
	return nil, errors.New("fake link: open not supported")
}

var _ link.MountedLink = (*MountedLink)(nil)

// MountedStream is a link.MountedStream with fixed attributes.
type MountedStream struct {
	Strm  stream.Stream
	Proto protocol.ID
	Peer  peer.ID
	Link  link.MountedLink
}

func (m *MountedStream) GetStream() stream.Stream     { return m.Strm }
func (m *MountedStream) GetProtocolID() protocol.ID   { return m.Proto }
func (m *MountedStream) GetOpenOpts() stream.OpenOpts { return stream.OpenOpts{} }
func (m *MountedStream) GetPeerID() peer.ID           { return m.Peer }
func (m *MountedStream) GetLink() link.MountedLink    { return m.Link }

var _ link.MountedStream = (*MountedStream)(nil)
