package sigh

import (
	"os"
	"strconv"
	"strings"
	"testing"

	"verifh/evid"
	"verifh/mc"
	"verifh/vsync"
)

// Scen is a named set of client scripts run against one relay.
// A first script that begins with "!setup" is executed by one thread before
// the other script threads start (e.g. "attach both sides and wait": the race
// explored is then only the one between the scripts, not that of the attaches).
type Scen struct {
	Name    string
	Scripts [][]string
}

// ExploreS1 explores every scenario (server-only harness: real relay,
// scripted raw clients) and reports verdicts with the given prefix.
func ExploreS1(t *testing.T, run *evid.Run, agg *mc.Agg, prefix string, scens []Scen, bound int) {
	// development aids: VERIF_ONLY=<substring> restricts the scenarios, VERIF_BOUND overrides the bound
	if only := os.Getenv("VERIF_ONLY"); only != "" {
		var f []Scen
		for _, sc := range scens {
			if strings.Contains(sc.Name, only) {
				f = append(f, sc)
			}
		}
		scens = f
	}
	if b, err := strconv.Atoi(os.Getenv("VERIF_BOUND")); err == nil && b > 0 {
		bound = b
	}
	mc.RunScenarios(t, agg, len(scens), func(i int) *vsync.Config {
		sc := scens[i]
		// scenarios with a "!setup" phase race only their script threads: they are
		// explored with DELAY bounding (every non-default choice costs) one unit
		// deeper than the preemption bound of the others - far fewer executions
		// than preemption bounding, whose free switches at blocking points explode
		// on long executions
		delay := os.Getenv("VERIF_S1_DELAY") != ""
		b := bound
		if len(sc.Scripts) > 0 && len(sc.Scripts[0]) > 0 && sc.Scripts[0][0] == "!setup" {
			delay, b = true, bound+1
		}
		return &vsync.Config{
			Name: "relay-s1/" + sc.Name, Bound: b, Delay: delay, Deadline: run.Deadline(), MaxStep: 5000,
			Body: func() {
				w := NewWorld()
				scripts := sc.Scripts
				if len(scripts) > 0 && len(scripts[0]) > 0 && scripts[0][0] == "!setup" {
					for _, a := range scripts[0][1:] {
						vsync.Yield(a)
						w.Do(a)
					}
					scripts = scripts[1:]
				}
				w.RunScripts(scripts)
				w.EvalQuiescent()
				w.Teardown()
			},
			Observe: func(x *vsync.Exec) []string {
				var tags []string
				seen := map[string]bool{}
				for _, l := range x.Log {
					for _, k := range []string{"RecvMsg(", "Opened(", "Closed", "AckMsg(", "ClearMsg(", "SetPeer(", "ClearPeer(", "relay: dropped"} {
						if strings.Contains(l, k) && !seen[k] {
							seen[k] = true
							tags = append(tags, "saw "+strings.TrimSuffix(k, "("))
						}
					}
				}
				return tags
			},
			Check: func(x *vsync.Exec) string {
				if x.Deadlock {
					return prefix + "deadlock"
				}
				if x.HorizonHit {
					return ""
				}
				return strings.Join(Verdicts(x.Log, prefix), " ; ")
			},
		}
	}, ClassKeys)
}

// ClassKeys maps a violation to the " ; "-joined set of its verdict classes.
func ClassKeys(v *vsync.Violation) string {
	seen := map[string]bool{}
	var ks []string
	for _, p := range strings.Split(v.What, " ; ") {
		if c := Class(p); !seen[c] {
			seen[c] = true
			ks = append(ks, c)
		}
	}
	return strings.Join(ks, " ; ")
}
