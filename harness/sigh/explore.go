package sigh

import (
	"strings"
	"testing"

	"verifh/evid"
	"verifh/mc"
	"verifh/vsync"
)

// Scen is a named set of client scripts run against one relay.
type Scen struct {
	Name    string
	Scripts [][]string
}

// ExploreS1 explores every scenario (server-only harness: real relay,
// scripted raw clients) and reports verdicts with the given prefix.
func ExploreS1(t *testing.T, run *evid.Run, agg *mc.Agg, prefix string, scens []Scen, bound int) {
	mc.RunScenarios(t, agg, len(scens), func(i int) *vsync.Config {
		sc := scens[i]
		return &vsync.Config{
			Name: "relay-s1/" + sc.Name, Bound: bound, Deadline: run.Deadline(), MaxStep: 5000,
			Body: func() {
				w := NewWorld()
				w.RunScripts(sc.Scripts)
				w.EvalQuiescent()
				w.Teardown()
			},
			Observe: func(x *vsync.Exec) []string {
				var tags []string
				seen := map[string]bool{}
				for _, l := range x.Log {
					for _, k := range []string{"RecvMsg(", "Opened(", "Closed", "AckMsg(", "ClearMsg(", "SetPeer(", "ClearPeer(", "relay: dropped"} {
						if strings.Contains(l, k) && !seen[k] {
							seen[k] = true
							tags = append(tags, "saw "+strings.TrimSuffix(k, "("))
						}
					}
				}
				return tags
			},
			Check: func(x *vsync.Exec) string {
				if x.Deadlock {
					return prefix + "deadlock"
				}
				if x.HorizonHit {
					return ""
				}
				return strings.Join(Verdicts(x.Log, prefix), " ; ")
			},
		}
	}, ClassKeys)
}

// ClassKeys maps a violation to the " ; "-joined set of its verdict classes.
func ClassKeys(v *vsync.Violation) string {
	seen := map[string]bool{}
	var ks []string
	for _, p := range strings.Split(v.What, " ; ") {
		if c := Class(p); !seen[c] {
			seen[c] = true
			ks = append(ks, c)
		}
	}
	return strings.Join(ks, " ; ")
}
