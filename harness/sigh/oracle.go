package sigh

import (
	"fmt"
	"sort"
	"strconv"
	"strings"

	"verifh/vsync"
)

func parseMsg(desc string) (id string, seq uint64) {
	// RecvMsg(<id>#<seq>)
	in := desc[strings.Index(desc, "(")+1 : len(desc)-1]
	k := strings.LastIndex(in, "#")
	seq, _ = strconv.ParseUint(in[k+1:], 10, 64)
	return in[:k], seq
}

func (w *World) findSub(id string, seq uint64) *Sub {
	for _, s := range w.Subs {
		if s.ID == id && s.Seqno == seq {
			return s
		}
	}
	return nil
}

// EvalQuiescent evaluates the relay properties on the wire history so far and
// on the server's private state; it must be called at quiescence. Verdict
// lines are prefixed with the property they belong to (V20..V25).
func (w *World) EvalQuiescent() {
	active, ended := w.Calls.Snapshot()
	isActive := map[string]bool{}
	for _, a := range active {
		isActive[a] = true
	}
	_, _, sessions := w.Srv.VerifSnapshot()
	calls := w.sortedCalls()

	// active calls per key
	sessBy := map[string][]*CallInfo{}
	listenBy := map[string][]*CallInfo{}
	for _, c := range calls {
		if !isActive[c.Name] {
			continue
		}
		if c.Kind == "session" {
			sessBy[c.From+">"+c.To] = append(sessBy[c.From+">"+c.To], c)
		} else {
			listenBy[c.From] = append(listenBy[c.From], c)
		}
	}

	// ---- C25 (a)(b): one active call per key; replaced calls end with the replaced error
	for k, cs := range sessBy {
		if len(cs) > 1 {
			w.verdict("V25:two-active-sessions pair=%s calls=%d", k, len(cs))
		}
	}
	for k, cs := range listenBy {
		if len(cs) > 1 {
			w.verdict("V25:two-active-listens peer=%s calls=%d", k, len(cs))
		}
	}
	started := map[string][]*CallInfo{}
	for _, c := range calls {
		if c.Kind == "session" && !c.Init {
			continue
		}
		key := c.Kind + ":" + c.From + ">" + c.To
		started[key] = append(started[key], c)
	}
	for key, cs := range started {
		for _, c := range cs {
			if c.Canceled || isActive[c.Name] {
				continue
			}
			// a call that was neither cancelled nor is active must have been replaced
			txt := ended[c.Name]
			if !strings.Contains(txt, "can only be called once per peer") && validCall(w, c) {
				w.verdict("V25:ended-without-replaced-error key=%s call-ended-with=%q", key, txt)
			}
		}
		// "a newer call replaces the older one": a call that ended with the
		// replaced error must have a possible replacer, i.e. another call of the
		// same key that is not known to have registered before it (a call started
		// before a quiescent wait that precedes c's start has registered before c)
		for _, c := range cs {
			if isActive[c.Name] || !validCall(w, c) || !strings.Contains(ended[c.Name], "can only be called once per peer") {
				continue
			}
			justified := false
			for _, o := range cs {
				if o != c && o.Gen >= c.Gen {
					justified = true
				}
			}
			if !justified {
				w.verdict("V25:replaced-without-newer-call key=%s call=%s every other call of the key had registered before it", key, c.Name)
			}
		}
	}

	// ---- C22 (i)(ii): announcements at quiescence
	for _, st := range sessions {
		a, b := w.Names[st.PeerA], w.Names[st.PeerB]
		sides := []struct {
			me, other     string
			att, otherAtt bool
		}{{a, b, st.AttachedA, st.AttachedB}, {b, a, st.AttachedB, st.AttachedA}}
		for _, sd := range sides {
			if !sd.att {
				continue
			}
			cs := sessBy[sd.me+">"+sd.other]
			if len(cs) != 1 {
				continue // C25's business
			}
			e, open := lastEpoch(cs[0])
			if sd.otherAtt {
				if !open {
					w.verdict("V22:attached-side-not-told-open epoch=%d last=%s both-attached", st.Seqno, lastAnn(cs[0]))
				} else if e != st.Seqno {
					w.verdict("V22:attached-side-told-stale-epoch told=%d server=%d", e, st.Seqno)
				}
			} else if open {
				w.verdict("V22:partner-gone-but-side-still-told-open told=%d server=%d", e, st.Seqno)
			}
		}
	}

	// ---- C23 at the relay: the system is quiescent (nothing can run any more);
	// a message still queued at the relay for a peer whose call is attached,
	// announced open and draining its stream will never be delivered
	for _, st := range sessions {
		if !st.AttachedA || !st.AttachedB {
			continue
		}
		a, b := w.Names[st.PeerA], w.Names[st.PeerB]
		for _, sd := range []struct {
			me, other string
			pending   uint64
		}{{a, b, st.RecvA}, {b, a, st.RecvB}} {
			cs := sessBy[sd.me+">"+sd.other]
			if sd.pending == 0 || len(cs) != 1 || cs[0].D.Stalled() {
				continue
			}
			w.verdict("V23:message-stranded-at-relay for=%s seqno=%d epoch=%d the receiving call is attached and draining, nothing is left to run", sd.me, sd.pending, st.Seqno)
		}
	}

	// ---- per-stream scans: C22 (iv), C20 (1)
	for _, c := range calls {
		if c.Kind != "session" {
			continue
		}
		var view uint64
		open := false
		for _, r := range c.Resp {
			switch {
			case strings.HasPrefix(r, "Opened("):
				view, _ = strconv.ParseUint(strings.TrimSuffix(strings.TrimPrefix(r, "Opened("), ")"), 10, 64)
				open = true
			case r == "Closed":
				open = false
			case strings.HasPrefix(r, "RecvMsg("):
				id, seq := parseMsg(r)
				s := w.findSub(id, seq)
				if s == nil {
					w.verdict("V20:forwarded-unknown-message msg=%s", id)
					continue
				}
				x := w.Call[s.Call]
				if !s.Valid || s.Signer != x.From {
					w.verdict("V20:forwarded-unauthentic-message valid-signature=%v signer-is-submitter=%v", s.Valid, s.Signer == x.From)
				}
				if !(c.From == x.To && c.To == x.From) {
					w.verdict("V20:forwarded-to-non-partner from=%s>%s to-stream=%s>%s", x.From, x.To, c.From, c.To)
				}
				if !x.Init {
					w.verdict("V20:forwarded-from-call-without-init")
				}
				if !open {
					w.verdict("V22:message-delivered-while-not-announced-open")
				} else if s.Epoch < view {
					w.verdict("V22:message-delivered-in-later-epoch submitted=%d delivered=%d", s.Epoch, view)
					w.verdict("V20:older-epoch-message-forwarded submitted=%d forwarded-in=%d", s.Epoch, view)
				} else if s.Epoch > view {
					w.verdict("V20:message-from-future-epoch-forwarded submitted=%d view=%d", s.Epoch, view)
				}
			}
		}
	}

	// ---- C21: acks / clears only affect the message they name: an AckMsg(n) /
	// ClearMsg(n) is sent to a peer only if its partner acked / cleared exactly n
	// (and n is a message that peer submitted / was sent)
	for _, c := range calls {
		if c.Kind != "session" {
			continue
		}
		for _, r := range c.Resp {
			var kind string
			switch {
			case strings.HasPrefix(r, "AckMsg("):
				kind = "Ack"
			case strings.HasPrefix(r, "ClearMsg("):
				kind = "Clear"
			default:
				continue
			}
			n := r[strings.Index(r, "(")+1 : len(r)-1]
			found := false
			for _, p := range calls {
				if p.Kind != "session" || !(p.From == c.To && p.To == c.From) {
					continue
				}
				for _, q := range p.Req {
					if strings.HasPrefix(q, kind+"(") && strings.HasSuffix(q, ",n="+n+")") {
						found = true
					}
				}
			}
			if !found {
				w.verdict("V21:%s-forwarded-without-partner-request n=%s", strings.ToLower(kind), n)
				continue
			}
			// the named message must be one this peer submitted (ack) / one submitted to it (clear)
			ok := false
			for _, sb := range w.Subs {
				x := w.Call[sb.Call]
				if strconv.FormatUint(sb.Seqno, 10) != n {
					continue
				}
				if kind == "Ack" && x.From == c.From && x.To == c.To {
					ok = true
				}
				if kind == "Clear" && x.From == c.To && x.To == c.From {
					ok = true
				}
			}
			if !ok {
				w.verdict("V21:%s-names-a-message-that-was-never-sent n=%s", strings.ToLower(kind), n)
			}
		}
	}

	// ---- C20 (2): future epochs must end the submitting call with an error
	finalEpoch := map[string]uint64{}
	for _, st := range sessions {
		finalEpoch[pairKey(w.Names[st.PeerA], w.Names[st.PeerB])] = st.Seqno
	}
	for _, s := range w.Subs {
		x := w.Call[s.Call]
		if !x.Init || !isActive[x.Name] {
			continue
		}
		if fe, ok := finalEpoch[pairKey(x.From, x.To)]; ok && s.Epoch > fe {
			w.verdict("V20:future-epoch-not-rejected submitted=%d server=%d", s.Epoch, fe)
		}
	}
	for _, c := range calls {
		if c.Kind == "session" && !c.Init && isActive[c.Name] {
			w.verdict("V20:call-without-init-still-running")
		}
	}

	// ---- C24: listeners know exactly the peers that hold a session request towards them
	for l, cs := range listenBy {
		if len(cs) != 1 {
			continue
		}
		ann := map[string]bool{}
		for _, r := range cs[0].Resp {
			if strings.HasPrefix(r, "SetPeer(") {
				ann[strings.TrimSuffix(strings.TrimPrefix(r, "SetPeer("), ")")] = true
			} else if strings.HasPrefix(r, "ClearPeer(") {
				delete(ann, strings.TrimSuffix(strings.TrimPrefix(r, "ClearPeer("), ")"))
			}
		}
		want := map[string]bool{}
		for k, ss := range sessBy {
			if len(ss) > 0 && strings.HasSuffix(k, ">"+l) {
				want[ss[0].From] = true
			}
		}
		if setStr(ann) != setStr(want) {
			w.verdict("V24:listener-view-wrong announced=%s wanting=%s", setStr(ann), setStr(want))
		}
	}
}

func validCall(w *World, c *CallInfo) bool {
	return c.From != c.To
}

func lastAnn(c *CallInfo) string {
	for i := len(c.Resp) - 1; i >= 0; i-- {
		if c.Resp[i] == "Closed" || strings.HasPrefix(c.Resp[i], "Opened(") {
			return c.Resp[i]
		}
	}
	return "none"
}

func pairKey(a, b string) string {
	if a < b {
		return a + "|" + b
	}
	return b + "|" + a
}

func setStr(m map[string]bool) string {
	var ks []string
	for k := range m {
		ks = append(ks, k)
	}
	sort.Strings(ks)
	return "{" + strings.Join(ks, ",") + "}"
}

// Teardown cancels every call, waits for quiescence and checks that the relay
// keeps no state (C25).
func (w *World) Teardown() {
	for _, c := range w.sortedCalls() {
		if !c.Canceled {
			c.Canceled = true
			c.D.Cancel()
		}
	}
	vsync.Quiesce()
	active, _ := w.Calls.Snapshot()
	if len(active) > 0 {
		sort.Strings(active)
		w.verdict("V25:calls-still-running-after-cancel %v", len(active))
	}
	peers, _, sessions := w.Srv.VerifSnapshot()
	if len(peers) != 0 || len(sessions) != 0 {
		w.verdict("V25:leftover-relay-state peers=%d sessions=%d", len(peers), len(sessions))
	}
}

// Verdicts extracts verdict lines with the given prefix (e.g. "V22:") from an
// execution log, reduced to their class (first token).
func Verdicts(log []string, prefix string) []string {
	var out []string
	for _, l := range log {
		if strings.HasPrefix(l, prefix) {
			out = append(out, l)
		}
	}
	return out
}

// Class returns the verdict class (text up to the first space).
func Class(v string) string {
	if i := strings.IndexByte(v, ' '); i > 0 {
		return v[:i]
	}
	return v
}

var _ = fmt.Sprint
