// Package sigh drives the real signaling relay server (and clients) from
// scripted harness threads and evaluates the relay properties C20-C25 on the
// observed wire history and the server's private state at quiescence.
package sigh

import (
	"context"
	"fmt"
	"io"
	"sort"
	"strconv"
	"strings"

	"github.com/aperturerobotics/bifrost/hash"
	"github.com/aperturerobotics/bifrost/peer"
	signaling "github.com/aperturerobotics/bifrost/signaling/rpc"
	server "github.com/aperturerobotics/bifrost/signaling/rpc/server"
	"github.com/sirupsen/logrus"

	"verifh/enum"
	"verifh/sigfake"
	"verifh/vsync"
)

// CallInfo describes one Session / Listen call started by a script.
type CallInfo struct {
	Name     string
	Kind     string // "session" | "listen"
	From, To string // peer names ("A","B",..); To empty for listen
	D        *sigfake.Duplex
	Canceled bool
	Init     bool // an Init request was pushed
	Order    int
	Gen      int // number of completed quiescent waits when the call was started
	// openedCh is closed when the first Opened is put on the call's stream
	openedCh   chan struct{}
	openedOnce bool
	// responses the server sent on this call, in order
	Resp []string
	// requests pushed by the client
	Req []string
}

// Sub is a payload message submitted by a script.
type Sub struct {
	ID     string // message id (payload text)
	Call   string
	Signer string // peer name whose key signed it ("" = unsigned/tampered)
	Valid  bool   // signature valid for Signer
	Epoch  uint64
	Seqno  uint64
	LogIdx int
}

// World is one execution's relay + scripted clients.
type World struct {
	Srv   *server.Server
	Calls *sigfake.Calls
	Keys  map[string]*enum.Key
	IDs   map[string]string // peer name -> peer id string
	Names map[string]string // peer id string -> peer name
	Call  map[string]*CallInfo
	order int
	qgen  int
	Subs  []*Sub
	seq   map[string]uint64
	Verd  []string
}

var fixtureKeys = enum.Keys(3)

// NewWorld builds a relay with identities A, B, C.
func NewWorld() *World {
	le := logrus.New()
	le.SetOutput(io.Discard)
	w := &World{Calls: sigfake.NewCalls(), Keys: map[string]*enum.Key{}, IDs: map[string]string{}, Names: map[string]string{}, Call: map[string]*CallInfo{}, seq: map[string]uint64{}}
	for i, n := range []string{"A", "B", "C"} {
		w.Keys[n] = fixtureKeys[i]
		w.IDs[n] = fixtureKeys[i].ID.String()
		w.Names[w.IDs[n]] = n
	}
	w.Srv = server.NewServerWithIdentify(logrus.NewEntry(le), func(ctx context.Context) (peer.ID, error) {
		s := sigfake.Ident(ctx)
		if s == "" {
			return "", fmt.Errorf("no identity")
		}
		return peer.IDB58Decode(s)
	})
	return w
}

func (w *World) tap(label string, m any) {
	// label is "<call>>srv" or "srv><call>"
	var call string
	toSrv := strings.HasSuffix(label, ">srv")
	if toSrv {
		call = strings.TrimSuffix(label, ">srv")
	} else {
		call = strings.TrimPrefix(label, "srv>")
	}
	ci := w.Call[call]
	desc := w.describe(m)
	if ci != nil {
		vsync.Touch(ci)
		if toSrv {
			ci.Req = append(ci.Req, desc)
		} else {
			ci.Resp = append(ci.Resp, desc)
			if strings.HasPrefix(desc, "Opened(") && !ci.openedOnce && ci.openedCh != nil {
				ci.openedOnce = true
				close(vsync.C(ci.openedCh))
			}
		}
	}
	vsync.Logf("%s %s", label, desc)
}

func (w *World) describe(m any) string {
	switch x := m.(type) {
	case *signaling.SessionRequest:
		switch b := x.GetBody().(type) {
		case *signaling.SessionRequest_Init:
			return fmt.Sprintf("Init(%s)", w.Names[b.Init.GetPeerId()])
		case *signaling.SessionRequest_SendMsg:
			return fmt.Sprintf("Send(e=%d,%s)", x.GetSessionSeqno(), w.msgDesc(b.SendMsg))
		case *signaling.SessionRequest_AckMsg:
			return fmt.Sprintf("Ack(e=%d,n=%d)", x.GetSessionSeqno(), b.AckMsg)
		case *signaling.SessionRequest_ClearMsg:
			return fmt.Sprintf("Clear(e=%d,n=%d)", x.GetSessionSeqno(), b.ClearMsg)
		}
		return "Req(?)"
	case *signaling.SessionResponse:
		switch b := x.GetBody().(type) {
		case *signaling.SessionResponse_Opened:
			return fmt.Sprintf("Opened(%d)", b.Opened)
		case *signaling.SessionResponse_Closed:
			return "Closed"
		case *signaling.SessionResponse_RecvMsg:
			return fmt.Sprintf("RecvMsg(%s)", w.msgDesc(b.RecvMsg))
		case *signaling.SessionResponse_AckMsg:
			return fmt.Sprintf("AckMsg(%d)", b.AckMsg)
		case *signaling.SessionResponse_ClearMsg:
			return fmt.Sprintf("ClearMsg(%d)", b.ClearMsg)
		}
		return "Resp(?)"
	case *signaling.ListenResponse:
		switch b := x.GetBody().(type) {
		case *signaling.ListenResponse_SetPeer:
			return fmt.Sprintf("SetPeer(%s)", w.Names[b.SetPeer])
		case *signaling.ListenResponse_ClearPeer:
			return fmt.Sprintf("ClearPeer(%s)", w.Names[b.ClearPeer])
		}
		return "ListenResp(?)"
	}
	return fmt.Sprintf("%T", m)
}

func (w *World) msgDesc(m *signaling.SessionMsg) string {
	return fmt.Sprintf("%s#%d", string(m.GetSignedMsg().GetData()), m.GetSeqno())
}

// lastEpoch returns the last epoch announced on a call's stream (0 = none or closed).
func lastEpoch(ci *CallInfo) (uint64, bool) {
	for i := len(ci.Resp) - 1; i >= 0; i-- {
		r := ci.Resp[i]
		if r == "Closed" {
			return 0, false
		}
		if strings.HasPrefix(r, "Opened(") {
			n, _ := strconv.ParseUint(strings.TrimSuffix(strings.TrimPrefix(r, "Opened("), ")"), 10, 64)
			return n, true
		}
	}
	return 0, false
}

// Do executes one script action. Actions:
//
//	attach:<call>:<from>:<to>   open a Session call and send Init
//	noinit:<call>:<from>:<to>   open a Session call whose first request is a Send
//	listen:<call>:<who>         open a Listen call
//	attachs: / listens:         the same, but the client does not drain its responses (the server's Send blocks) until resume
//	stall:<call>                the client of the call stops draining its responses again
//	resume:<call>               the client of a stalled call starts draining
//	cancel:<call>               cancel the call's context
//	wait                        block until no other thread can run
//	waitopen:<call>             block until the relay has announced Opened on the call (other scripts keep running)
//	send:<call>:<id>            submit payload <id> signed by the caller with the last announced epoch (skipped if none)
//	sende:<call>:<id>:<epoch>   submit with an explicit epoch
//	sendas:<call>:<id>:<peer>   submit a message signed by another peer's key (last announced epoch)
//	sendbad:<call>:<id>         submit a message whose body was altered after signing
//	sendclaim:<call>:<id>:<peer> signed by the caller's key but claiming <peer> as sender
//	send=: sendas=: sendbad=: sendclaim=:  the same, re-using the message seqno of the call's previous submission
//	ack:<call>:<n>  clear:<call>:<n>   ack / clear message seqno n (n = "last": last RecvMsg seen) with the last announced epoch
//	acke:<call>:<n>:<epoch>  cleare:<call>:<n>:<epoch>
func (w *World) Do(action string) {
	f := strings.Split(action, ":")
	// a trailing "=" on a send action re-uses the message seqno of the call's
	// previous submission (message seqnos are chosen by the client)
	sameSeq := false
	if strings.HasSuffix(f[0], "=") {
		f[0], sameSeq = strings.TrimSuffix(f[0], "="), true
	}
	switch f[0] {
	case "attach", "noinit", "attachs":
		ci := &CallInfo{Name: f[1], Kind: "session", From: f[2], To: f[3], Order: w.order, Gen: w.qgen, openedCh: make(chan struct{})}
		w.order++
		ci.D = sigfake.NewDuplex(context.Background(), ci.Name, w.IDs[ci.From], w.tap)
		if f[0] == "attachs" {
			ci.D.StallFromStart()
		}
		w.Call[ci.Name] = ci
		if f[0] != "noinit" {
			ci.Init = true
			_ = ci.D.ToSrv.Push(&signaling.SessionRequest{Body: &signaling.SessionRequest_Init{Init: &signaling.SessionInit{PeerId: w.IDs[ci.To]}}})
		} else {
			w.submit(ci, "x0", ci.From, true, ci.From, 0)
		}
		w.Calls.RunSession(w.Srv, ci.D, nil)
	case "listen", "listens":
		ci := &CallInfo{Name: f[1], Kind: "listen", From: f[2], Order: w.order, Gen: w.qgen}
		w.order++
		ci.D = sigfake.NewDuplex(context.Background(), ci.Name, w.IDs[ci.From], w.tap)
		if f[0] == "listens" {
			ci.D.StallFromStart()
		}
		w.Call[ci.Name] = ci
		w.Calls.RunListen(w.Srv, ci.D, nil)
	case "wait":
		// let everything else run as far as it can (lowest-priority step)
		vsync.Quiesce()
		// qgen changes only here, in the same step as the return from a quiescent
		// wait (no other thread was enabled); starts read it without ordering
		w.qgen++
	case "waitopen":
		// block until the relay has put an Opened on this call's stream (unlike
		// "wait", other script threads keep running)
		if ci := w.Call[f[1]]; ci != nil && ci.openedCh != nil {
			<-vsync.R(ci.openedCh)
		}
	case "stall":
		if ci := w.Call[f[1]]; ci != nil {
			vsync.Logf("stall %s", ci.Name)
			ci.D.Stall()
		}
	case "resume":
		if ci := w.Call[f[1]]; ci != nil {
			vsync.Logf("resume %s", ci.Name)
			ci.D.Resume()
		}
	case "cancel":
		ci := w.Call[f[1]]
		if ci != nil {
			vsync.Touch(ci)
			ci.Canceled = true
			vsync.Logf("cancel %s", ci.Name)
			ci.D.Cancel()
		}
	case "send", "sende", "sendas", "sendbad", "sendclaim":
		ci := w.Call[f[1]]
		if ci == nil {
			return
		}
		vsync.Touch(ci)
		e, ok := lastEpoch(ci)
		signer, valid, claim := ci.From, true, ci.From
		switch f[0] {
		case "sende":
			e, _ = strconv.ParseUint(f[3], 10, 64)
			ok = true
		case "sendas":
			signer, claim = f[3], f[3]
		case "sendbad":
			valid = false
		case "sendclaim":
			claim, valid = f[3], false
		}
		if !ok {
			vsync.Logf("skip %s (no epoch announced)", action)
			return
		}
		if sameSeq && w.seq[ci.Name] > 0 {
			w.seq[ci.Name]--
		}
		w.submit(ci, f[2], signer, valid, claim, e)
	case "ack", "clear", "acke", "cleare":
		ci := w.Call[f[1]]
		if ci == nil {
			return
		}
		vsync.Touch(ci)
		e, ok := lastEpoch(ci)
		if len(f) > 3 {
			e, _ = strconv.ParseUint(f[3], 10, 64)
			ok = true
		}
		var n uint64
		if f[2] == "last" {
			for i := len(ci.Resp) - 1; i >= 0 && n == 0; i-- {
				if strings.HasPrefix(ci.Resp[i], "RecvMsg(") {
					s := ci.Resp[i]
					n, _ = strconv.ParseUint(s[strings.LastIndex(s, "#")+1:len(s)-1], 10, 64)
				}
			}
			if n == 0 {
				ok = false
			}
		} else {
			n, _ = strconv.ParseUint(f[2], 10, 64)
		}
		if !ok {
			vsync.Logf("skip %s", action)
			return
		}
		req := &signaling.SessionRequest{SessionSeqno: e}
		if strings.HasPrefix(f[0], "ack") {
			req.Body = &signaling.SessionRequest_AckMsg{AckMsg: n}
		} else {
			req.Body = &signaling.SessionRequest_ClearMsg{ClearMsg: n}
		}
		_ = ci.D.ToSrv.Push(req)
	default:
		panic("unknown action " + action)
	}
}

func (w *World) submit(ci *CallInfo, id, signer string, valid bool, claim string, epoch uint64) {
	w.seq[ci.Name]++
	seqno := w.seq[ci.Name]
	m, err := signaling.NewSessionMsg(w.Keys[signer].Priv, hash.HashType_HashType_BLAKE3, []byte(id), seqno)
	if err != nil {
		panic(err)
	}
	if claim != signer {
		m.SignedMsg.FromPeerId = w.IDs[claim]
	}
	if !valid && claim == signer {
		m.SignedMsg.Data = []byte(id + "!")
	}
	s := &Sub{ID: string(m.SignedMsg.Data), Call: ci.Name, Signer: signer, Valid: valid && claim == signer, Epoch: epoch, Seqno: seqno}
	w.Subs = append(w.Subs, s)
	_ = ci.D.ToSrv.Push(&signaling.SessionRequest{SessionSeqno: epoch, Body: &signaling.SessionRequest_SendMsg{SendMsg: m}})
}

// RunScripts starts one harness thread per script and waits for them, then
// lets the system quiesce.
func (w *World) RunScripts(scripts [][]string) {
	var wg vsync.WaitGroup
	for i, sc := range scripts {
		wg.Add(1)
		vsync.GoNamed(fmt.Sprintf("script%d", i), func() {
			defer wg.Done()
			for _, a := range sc {
				vsync.Yield(a)
				w.Do(a)
			}
		})
	}
	wg.Wait()
	vsync.Quiesce()
}

func (w *World) verdict(format string, a ...any) {
	s := fmt.Sprintf(format, a...)
	w.Verd = append(w.Verd, s)
	vsync.Logf("%s", s)
}

// sortedCalls returns calls in start order.
func (w *World) sortedCalls() []*CallInfo {
	var cs []*CallInfo
	for _, c := range w.Call {
		cs = append(cs, c)
	}
	sort.Slice(cs, func(i, j int) bool { return cs[i].Order < cs[j].Order })
	return cs
}
