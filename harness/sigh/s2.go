package sigh

import (
	"context"
	"fmt"
	"io"
	"time"

	"github.com/aperturerobotics/bifrost/hash"
	signaling "github.com/aperturerobotics/bifrost/signaling/rpc"
	client "github.com/aperturerobotics/bifrost/signaling/rpc/client"
	"github.com/aperturerobotics/starpc/srpc"
	"github.com/aperturerobotics/util/backoff"
	"github.com/sirupsen/logrus"

	"verifh/sigfake"
	"verifh/vsync"
)

// RefRelay is a sequential reference relay for ONE client (peer A talking to
// partner B): a mailbox that follows signaling.proto. At every step it may,
// as an explored environment choice, re-open the session (the partner
// re-attached: the epoch changes, in-flight messages are dropped) or fail the
// client's stream. It is the S2 harness: the real client against a model relay.
type RefRelay struct {
	W           *World
	Epoch       uint64
	Reopens     int // remaining re-opens the environment may inject
	Fails       int // remaining stream failures
	Resets      int // remaining "session state lost between two client streams" events
	Detaches    int // remaining partner detach (Closed) + re-attach pairs
	DeferAcks   int // remaining acknowledgements the relay may hold back until the client's next request
	// HoldAfter >= 0: the partner takes (and acks) only the first HoldAfter
	// messages; later ones stay queued at the relay for a partner that is slow
	// to receive: they are neither received nor acknowledged.
	HoldAfter int
	// OnAck, if set, is called right after the relay pushed an acknowledgement
	// to the client (a hook for fault threads that must fire around that moment).
	OnAck func(seqno uint64)
	deferred    []uint64
	Inbound     []*signaling.SessionMsg // messages from the partner to deliver to the client
	n           int
	partnerGone bool
	cur         *sigfake.Duplex
	curAttached bool
	Acked       []string
	Dropped     []string
	Received    []string // acks from the client for inbound messages
	// Script, if set, replaces the honest handling of requests: it is called
	// for every request and returns the responses to push.
	Script func(r *RefRelay, req *signaling.SessionRequest) []*signaling.SessionResponse
}

func (r *RefRelay) SRPCClient() srpc.Client { return nil }

func (r *RefRelay) Listen(ctx context.Context, in *signaling.ListenRequest) (signaling.SRPCSignaling_ListenClient, error) {
	return nil, fmt.Errorf("refrelay: listen unsupported")
}

// Opened / RecvMsg build relay responses for scripted relays.
func Opened(e uint64) *signaling.SessionResponse { return opened(e) }

func RecvMsg(m *signaling.SessionMsg) *signaling.SessionResponse {
	return &signaling.SessionResponse{Body: &signaling.SessionResponse_RecvMsg{RecvMsg: m}}
}

// Cur returns the client's current stream (nil before the first Session call).
func (r *RefRelay) Cur() *sigfake.Duplex { return r.cur }

func opened(e uint64) *signaling.SessionResponse {
	return &signaling.SessionResponse{Body: &signaling.SessionResponse_Opened{Opened: e}}
}

// Session starts a relay service thread for one client stream.
func (r *RefRelay) Session(ctx context.Context) (signaling.SRPCSignaling_SessionClient, error) {
	r.n++
	if r.n > 1 && r.Resets > 0 {
		// the client's previous stream is gone; if the partner left too the relay
		// dropped the session state and epochs start over (environment choice)
		if vsync.Choose(2) == 1 {
			r.Resets--
			r.Epoch = 0
			vsync.Logf("env: relay session state reset")
		}
	}
	d := sigfake.NewDuplex(ctx, fmt.Sprintf("a.s%d", r.n), r.W.IDs["A"], func(label string, m any) {
		vsync.Logf("%s %s", label, r.W.describe(m))
	})
	vsync.GoNamed(fmt.Sprintf("relay%d", r.n), func() { r.serve(d) })
	return sigfake.CliSession{Duplex: d}, nil
}

// perturb lets the environment re-open the session or fail the stream.
// Returns false if the stream was failed.
func (r *RefRelay) perturb(d *sigfake.Duplex, attached bool) bool {
	if r.partnerGone {
		return true
	}
	if attached && r.Detaches > 0 && vsync.Choose(2) == 1 {
		r.Detaches--
		r.partnerGone = true
		r.Epoch++
		vsync.Logf("env: partner detached")
		_ = d.ToCli.Push(&signaling.SessionResponse{Body: &signaling.SessionResponse_Closed{Closed: true}})
		// the partner comes back one (virtual) second later, on whatever stream
		// the client has then
		vsync.GoNamed(fmt.Sprintf("partner-back%d", r.Detaches), func() {
			time.Sleep(time.Second)
			r.partnerGone = false
			r.Epoch++
			vsync.Logf("env: partner re-attached epoch=%d", r.Epoch)
			if r.cur != nil && r.curAttached {
				_ = r.cur.ToCli.Push(opened(r.Epoch))
			}
		})
		return true
	}
	n := 1
	if attached && r.Reopens > 0 {
		n++
	}
	if r.Fails > 0 {
		n++
	}
	c := vsync.Choose(n)
	if c == 0 {
		return true
	}
	if c == 1 && attached && r.Reopens > 0 {
		r.Reopens--
		r.Epoch += 2 // partner detached and re-attached
		vsync.Logf("env: re-open epoch=%d", r.Epoch)
		_ = d.ToCli.Push(opened(r.Epoch))
		return true
	}
	r.Fails--
	vsync.Logf("env: stream failure")
	d.ToCli.Close(io.ErrUnexpectedEOF)
	return false
}

func (r *RefRelay) serve(d *sigfake.Duplex) {
	attached := false
	r.cur, r.curAttached = d, false
	for {
		m, err := d.ToSrv.Pop(d.Context())
		if err != nil {
			return
		}
		req := m.(*signaling.SessionRequest)
		if _, isSend := req.GetBody().(*signaling.SessionRequest_SendMsg); isSend && len(r.deferred) > 0 {
			// a held-back acknowledgement arrives late, when the client has already
			// submitted its next message; let the client digest it before going on
			for _, n := range r.deferred {
				vsync.Logf("env: late ack %d", n)
				_ = d.ToCli.Push(&signaling.SessionResponse{Body: &signaling.SessionResponse_AckMsg{AckMsg: n}})
			}
			r.deferred = nil
			vsync.Quiesce()
		}
		if r.Script != nil {
			for _, resp := range r.Script(r, req) {
				_ = d.ToCli.Push(resp)
			}
			continue
		}
		if !r.perturb(d, attached) {
			return
		}
		switch b := req.GetBody().(type) {
		case *signaling.SessionRequest_Init:
			attached = true
			r.curAttached = true
			if r.partnerGone {
				r.Epoch++ // only this side attached; Opened follows when the partner is back
				continue
			}
			r.Epoch += 2 // both sides attached
			_ = d.ToCli.Push(opened(r.Epoch))
			for _, in := range r.Inbound {
				_ = d.ToCli.Push(&signaling.SessionResponse{Body: &signaling.SessionResponse_RecvMsg{RecvMsg: in}})
			}
		case *signaling.SessionRequest_SendMsg:
			if r.partnerGone || req.GetSessionSeqno() != r.Epoch {
				r.Dropped = append(r.Dropped, r.W.msgDesc(b.SendMsg))
				vsync.Logf("relay: dropped stale %s (e=%d, now %d)", r.W.msgDesc(b.SendMsg), req.GetSessionSeqno(), r.Epoch)
				continue
			}
			// partner receives and acks
			if !r.perturb(d, attached) {
				return
			}
			if req.GetSessionSeqno() != r.Epoch {
				// re-opened while in flight: the relay forgets the message
				r.Dropped = append(r.Dropped, r.W.msgDesc(b.SendMsg))
				continue
			}
			if r.HoldAfter >= 0 && len(r.Acked) >= r.HoldAfter {
				vsync.Logf("relay: holding %s (partner is not receiving)", r.W.msgDesc(b.SendMsg))
				continue
			}
			r.Acked = append(r.Acked, string(b.SendMsg.GetSignedMsg().GetData()))
			vsync.LogOrdered("relay: partner received %s", string(b.SendMsg.GetSignedMsg().GetData()))
			if r.DeferAcks > 0 && vsync.Choose(2) == 1 {
				r.DeferAcks--
				r.deferred = append(r.deferred, b.SendMsg.GetSeqno())
				continue
			}
			_ = d.ToCli.Push(&signaling.SessionResponse{Body: &signaling.SessionResponse_AckMsg{AckMsg: b.SendMsg.GetSeqno()}})
			if r.OnAck != nil {
				r.OnAck(b.SendMsg.GetSeqno())
			}
		case *signaling.SessionRequest_AckMsg:
			r.Received = append(r.Received, fmt.Sprint(b.AckMsg))
		case *signaling.SessionRequest_ClearMsg:
		}
	}
}

// S2 is the client-only harness.
type S2 struct {
	*World
	Relay  *RefRelay
	Client *client.Client
	Ctx    context.Context
	Cancel context.CancelFunc
	Ref    *client.ClientPeerRef
}

// NewS2 builds client A against a reference relay that stands for partner B.
func NewS2(reopens, fails int) *S2 {
	return NewS2Ex(reopens, fails, 0, 0)
}

// NewS2Ex also bounds relay state resets and partner detach/re-attach pairs.
func NewS2Ex(reopens, fails, resets, detaches int) *S2 {
	w := NewWorld()
	s := &S2{World: w, Relay: &RefRelay{W: w, Reopens: reopens, Fails: fails, Resets: resets, Detaches: detaches, HoldAfter: -1}}
	s.Ctx, s.Cancel = context.WithCancel(context.Background())
	le := logrus.New()
	le.SetOutput(io.Discard)
	bo := &backoff.Backoff{BackoffKind: backoff.BackoffKind_BackoffKind_CONSTANT, Constant: &backoff.Constant{Interval: 1000}}
	c, err := client.NewClient(logrus.NewEntry(le), s.Relay, w.Keys["A"].Priv, bo)
	if err != nil {
		panic(err)
	}
	c.SetContext(s.Ctx)
	s.Client = c
	s.Ref = c.AddPeerRef(w.IDs["B"])
	return s
}

// PartnerMsg builds a message signed by `signer` (claiming `claim`) for delivery to the client.
func (s *S2) PartnerMsg(id string, seqno uint64, signer, claim string, tamper bool, ctxOther bool) *signaling.SessionMsg {
	m, err := signaling.NewSessionMsg(s.Keys[signer].Priv, hash.HashType_HashType_BLAKE3, []byte(id), seqno)
	if err != nil {
		panic(err)
	}
	if claim != signer {
		m.SignedMsg.FromPeerId = s.IDs[claim]
	}
	if tamper {
		m.SignedMsg.Data = []byte(id + "!")
	}
	return m
}

// Shutdown stops the client.
func (s *S2) Shutdown() {
	s.Cancel()
	s.Client.ClearContext()
	vsync.Quiesce()
}

var _ = time.Second
